import ShellOp.Proofs.Worker
/-!
The global invariant of the worker system (`Inv`) and its preservation by every step (`step_inv`),
for the repaired code and Start() called from one thread, as `operator.go` does.
-/
namespace ShellOp.Worker

open ShellOp.Queue (Id Items)

/-! ### the global invariant -/

def QInv (done : Bool) (q : QName) (qs : QState) (log : List Ev) : Prop :=
  match qs.workers with
  | [] => quiet q log = true
  | [pc] => WInv done q qs.items pc log
  | _ => False

structure Inv (s : State) : Prop where
  stopLog : stopRequested s.log = s.cancelled
  heads : headFirst s.log = true
  queues : ∀ q qs, s.qs q = some qs → QInv s.cancelled q qs s.log
  absent : ∀ q, s.qs q = none → quiet q s.log = true
  notStarted : ∀ q qs, s.qs q = some qs → qs.started = false → qs.workers = [] ∨ s.callers 0 = .spawned q
  sawNot : ∀ q qs, s.qs q = some qs → s.callers 0 = .sawNotStarted q → qs.started = false ∧ qs.workers = []

/-- Start() is only called from one thread (thread 0): what `operator.go` does. -/
def Label.singleStarter : Label → Bool
  | .startRead c _ | .startSpawn c _ | .startWrite c _ => c == 0
  | _ => true

theorem wstep_frame (cfg : Cfg) (done : Bool) (q : QName) (qs qs' : QState) (pc pc' : Pc) (a : WAct)
    (evs : List Ev) (h : wstep cfg done q qs pc a = some (qs', pc', evs)) :
    qs'.workers = qs.workers ∧ qs'.started = qs.started ∧
    (evs = [] ∨ (∃ p, evs = [.pt q p]) ∨ (∃ t, evs = [.start q t (Queue.getFirst qs.items)] ∧ pc = .returned (some t))
      ∨ evs = [.exit q]) := by
  cases pc <;> cases a <;> simp [wstep] at h
  all_goals (try split at h) <;> (try split at h) <;> (try simp at h) <;>
    (try (obtain ⟨rfl, rfl, rfl⟩ := h)) <;> simp_all [leaveWait]
  obtain ⟨_, rfl, _, _⟩ := h
  simp

theorem QInv_foreign (done : Bool) (q : QName) (qs : QState) (e : Ev) (log : List Ev)
    (inv : QInv done q qs log) (hw : e.ofWorker q = false) (hns : e ≠ .stop) :
    QInv done q qs (e :: log) := by
  unfold QInv at *
  split <;> simp_all
  · exact quiet_foreign _ _ _ inv hw
  · exact foreign_inv _ _ _ _ _ _ inv hw hns

theorem QInv_stop (q : QName) (qs : QState) (log : List Ev) (inv : QInv false q qs log) :
    QInv true q qs (.stop :: log) := by
  unfold QInv at *
  split <;> simp_all
  · exact quiet_foreign _ _ _ inv rfl
  · exact stop_inv _ _ _ _ inv

/-- QInv does not look at the flags of the queue -/
theorem QInv_congr (done : Bool) (q : QName) (qs qs' : QState) (log : List Ev)
    (hi : qs'.items = qs.items) (hw : qs'.workers = qs.workers) (inv : QInv done q qs log) :
    QInv done q qs' log := by
  unfold QInv at *
  rw [hw, hi]; exact inv

theorem headFirst_cons_other (e : Ev) (log : List Ev) (h : headFirst log = true)
    (he : ∀ q t hd, e = .start q t hd → hd = some t) : headFirst (e :: log) = true := by
  cases e <;> simp_all [headFirst]

theorem deliver1_inv (s : State) (x : QName × Id) (inv : Inv s) : Inv (deliver1 s x) := by
  obtain ⟨h1, h2, h3, h4, h5, h6⟩ := inv
  unfold deliver1
  split
  · -- the queue does not exist: dropped
    rename_i hq
    refine ⟨?_, ?_, ?_, ?_, ?_, ?_⟩
    · simpa [stopRequested] using h1
    · simpa [headFirst] using h2
    · intro q qs hqs
      exact QInv_foreign _ _ _ _ _ (h3 q qs hqs) rfl (by simp)
    · intro q hqn
      exact quiet_foreign _ _ _ (h4 q hqn) rfl
    · exact h5
    · exact h6
  · rename_i qs0 hq
    refine ⟨?_, ?_, ?_, ?_, ?_, ?_⟩
    · simpa [stopRequested] using h1
    · simpa [headFirst] using h2
    · intro q qs hqs
      simp only [upd] at hqs
      split at hqs
      · rename_i heq
        subst heq
        simp at hqs; subst hqs
        have := h3 x.1 qs0 hq
        unfold QInv at *
        simp only
        split <;> simp_all
        · exact quiet_foreign _ _ _ this rfl
        · exact recv_inv _ _ _ _ _ _ this
      · rename_i hne
        exact QInv_foreign _ _ _ _ _ (h3 q qs hqs) (by simp [Ev.ofWorker]) (by simp)
    · intro q hqn
      simp only [upd] at hqn
      split at hqn
      · simp at hqn
      · exact quiet_foreign _ _ _ (h4 q hqn) rfl
    · intro q qs hqs hst
      simp only [upd] at hqs
      split at hqs
      · rename_i heq; subst heq
        simp at hqs; subst hqs
        exact h5 x.1 qs0 hq hst
      · exact h5 q qs hqs hst
    · intro q qs hqs hc
      simp only [upd] at hqs
      split at hqs
      · rename_i heq; subst heq
        simp at hqs; subst hqs
        exact h6 x.1 qs0 hq hc
      · exact h6 q qs hqs hc

theorem deliverAll_inv (s : State) (ts : List (QName × Id)) (inv : Inv s) : Inv (deliverAll s ts) := by
  unfold deliverAll
  induction ts generalizing s with
  | nil => exact inv
  | cons x rest ih => exact ih _ (deliver1_inv s x inv)

/-- events a step of queue `q` may log: not the stop request, nothing of another queue's worker, and
a start event names the head of the queue -/
def okEv (q : QName) (e : Ev) : Prop :=
  e ≠ .stop ∧ (∀ q', q' ≠ q → e.ofWorker q' = false) ∧ (∀ q' t hd, e = .start q' t hd → hd = some t)

theorem Inv_upd (s : State) (q : QName) (qs0 qs1 : QState) (evs : List Ev) (inv : Inv s)
    (hq : s.qs q = some qs0) (hevs : ∀ e ∈ evs, okEv q e)
    (hQ : QInv s.cancelled q qs1 (evs ++ s.log))
    (hst : qs1.started = qs0.started) (hw : qs0.workers = [] → qs1.workers = []) :
    Inv { s with qs := upd s.qs q qs1, log := evs ++ s.log } := by
  obtain ⟨h1, h2, h3, h4, h5, h6⟩ := inv
  have hstop : stopRequested (evs ++ s.log) = s.cancelled := by
    clear hQ
    induction evs with
    | nil => simpa using h1
    | cons e rest ih =>
      have he := (hevs e (by simp)).1
      have := ih (fun e he => hevs e (by simp [he])) 
      cases e <;> simp_all [stopRequested]
  have hhead : headFirst (evs ++ s.log) = true := by
    clear hQ hstop
    induction evs with
    | nil => simpa using h2
    | cons e rest ih =>
      have he := (hevs e (by simp)).2.2
      have := ih (fun e he => hevs e (by simp [he]))
      exact headFirst_cons_other _ _ this he
  have hfor : ∀ q' qs', q' ≠ q → QInv s.cancelled q' qs' s.log → QInv s.cancelled q' qs' (evs ++ s.log) := by
    intro q' qs' hne hi
    clear hQ hstop hhead
    induction evs with
    | nil => simpa using hi
    | cons e rest ih =>
      have he := hevs e (by simp)
      have := ih (fun e he => hevs e (by simp [he]))
      exact QInv_foreign _ _ _ _ _ this (he.2.1 q' hne) he.1
  have hquiet : ∀ q', q' ≠ q → quiet q' s.log = true → quiet q' (evs ++ s.log) = true := by
    intro q' hne hi
    clear hQ hstop hhead hfor
    induction evs with
    | nil => simpa using hi
    | cons e rest ih =>
      have he := hevs e (by simp)
      have := ih (fun e he => hevs e (by simp [he]))
      exact quiet_foreign _ _ _ this (he.2.1 q' hne)
  refine ⟨hstop, hhead, ?_, ?_, ?_, ?_⟩
  · intro q' qs hqs
    simp only [upd] at hqs
    split at hqs
    · rename_i heq; subst heq; simp at hqs; subst hqs; exact hQ
    · rename_i hne; exact hfor q' qs hne (h3 q' qs hqs)
  · intro q' hqn
    simp only [upd] at hqn
    split at hqn
    · simp at hqn
    · rename_i hne; exact hquiet q' hne (h4 q' hqn)
  · intro q' qs hqs hs0
    simp only [upd] at hqs
    split at hqs
    · rename_i heq; subst heq; simp at hqs; subst hqs
      rcases h5 _ qs0 hq (by rw [← hst]; exact hs0) with h | h
      · exact Or.inl (hw h)
      · exact Or.inr h
    · exact h5 q' qs hqs hs0
  · intro q' qs hqs hcl
    simp only [upd] at hqs
    split at hqs
    · rename_i heq; subst heq; simp at hqs; subst hqs
      have := h6 _ qs0 hq hcl
      exact ⟨by rw [hst]; exact this.1, hw this.2⟩
    · exact h6 q' qs hqs hcl

theorem workers_single (ws : List Pc) (pc : Pc) (i : Nat) (h1 : ws.length ≤ 1) (h : ws[i]? = some pc) :
    i = 0 ∧ ws = [pc] := by
  match ws, h1 with
  | [], _ => simp at h
  | [x], _ =>
    cases i with
    | zero => simp at h; simp [h]
    | succ n => simp at h

theorem QInv_len (done : Bool) (q : QName) (qs : QState) (log : List Ev) (h : QInv done q qs log) :
    qs.workers.length ≤ 1 := by
  unfold QInv at h
  split at h <;> simp_all

set_option maxHeartbeats 800000 in
/-- **Every step of the system preserves the invariant** (repaired code, Start() called from one thread). -/
theorem step_inv (cfg : Cfg) (hfix : cfg.fix = true) (s s' : State) (l : Label)
    (hl : l.singleStarter = true) (inv : Inv s) (h : step cfg s l = some s') : Inv s' := by
  have inv0 := inv
  obtain ⟨h1, h2, h3, h4, h5, h6⟩ := inv
  cases l with
  | deliver ts => simp [step] at h; subst h; exact deliverAll_inv s ts inv0
  | cronFire ts =>
    simp [step] at h; obtain ⟨_, rfl⟩ := h; exact deliverAll_inv s ts inv0
  | kubeEvent ts =>
    simp [step] at h; obtain ⟨_, rfl⟩ := h; exact deliverAll_inv s ts inv0
  | schedStop => simp [step] at h; subst h; exact ⟨h1, h2, h3, h4, h5, h6⟩
  | schedStopper => simp [step] at h; obtain ⟨_, rfl⟩ := h; exact ⟨h1, h2, h3, h4, h5, h6⟩
  | kubePause => simp [step] at h; subst h; exact ⟨h1, h2, h3, h4, h5, h6⟩
  | stop =>
    simp only [step] at h
    split at h
    · simp at h; subst h; exact inv0
    · rename_i hc
      simp at h; subst h
      have hc' : s.cancelled = false := by simpa using hc
      refine ⟨by simp [stopRequested], by simpa [headFirst] using h2, ?_, ?_, h5, h6⟩
      · intro q qs hqs
        have := h3 q qs hqs
        rw [hc'] at this
        exact QInv_stop _ _ _ this
      · intro q hqn
        exact quiet_foreign _ _ _ (h4 q hqn) rfl
  | cancelDelay q =>
    simp only [step] at h
    split at h
    · simp at h
    · rename_i qs0 hq
      simp at h; subst h
      refine ⟨h1, h2, ?_, ?_, ?_, ?_⟩
      · intro q' qs hqs
        simp only [upd] at hqs
        split at hqs
        · rename_i heq; subst heq; simp at hqs; subst hqs
          exact QInv_congr _ _ _ _ _ rfl rfl (h3 _ qs0 hq)
        · exact h3 q' qs hqs
      · intro q' hqn
        simp only [upd] at hqn
        split at hqn
        · simp at hqn
        · exact h4 q' hqn
      · intro q' qs hqs hst
        simp only [upd] at hqs
        split at hqs
        · rename_i heq; subst heq; simp at hqs; subst hqs
          exact h5 _ qs0 hq hst
        · exact h5 q' qs hqs hst
      · intro q' qs hqs hcl
        simp only [upd] at hqs
        split at hqs
        · rename_i heq; subst heq; simp at hqs; subst hqs
          exact h6 _ qs0 hq hcl
        · exact h6 q' qs hqs hcl
  | w q i a =>
    simp only [step] at h
    split at h
    · simp at h
    · rename_i qs0 hq
      split at h
      · simp at h
      · rename_i pc hpc
        split at h
        · simp at h
        · rename_i qs1 pc1 evs hws
          simp at h; subst h
          have hQ0 := h3 q qs0 hq
          obtain ⟨hi0, hws0⟩ := workers_single _ _ _ (QInv_len _ _ _ _ hQ0) hpc
          subst hi0
          obtain ⟨hfw, hfs, hfe⟩ := wstep_frame _ _ _ _ _ _ _ _ _ hws
          have hW : WInv s.cancelled q qs0.items pc s.log := by
            unfold QInv at hQ0; rw [hws0] at hQ0; exact hQ0
          have hW' := wstep_inv cfg hfix _ _ _ _ _ _ _ _ _ hW hws
          refine Inv_upd s q qs0 (setWorker qs1 0 pc1) evs.reverse inv0 hq ?_ ?_ ?_ ?_
          · intro e he
            simp at he
            rcases hfe with rfl | ⟨p, rfl⟩ | ⟨t, rfl, rfl⟩ | rfl
            · simp at he
            · simp at he; subst he
              exact ⟨by simp, fun q' hne => by simp [Ev.ofWorker]; exact fun h => hne h.symm, by simp⟩
            · simp at he; subst he
              refine ⟨by simp, fun q' hne => by simp [Ev.ofWorker]; exact fun h => hne h.symm, ?_⟩
              intro q' t' hd hE
              simp at hE
              obtain ⟨_, rfl, rfl⟩ := hE
              exact hW.head t rfl
            · simp at he; subst he
              exact ⟨by simp, fun q' hne => by simp [Ev.ofWorker]; exact fun h => hne h.symm, by simp⟩
          · unfold QInv
            simp [setWorker, hfw, hws0]
            exact hW'
          · simp [setWorker, hfs]
          · intro h0; rw [hws0] at h0; simp at h0
  | handlerReturn q i r =>
    simp only [step] at h
    split at h
    · simp at h
    · rename_i qs0 hq
      split at h
      · rename_i t hpc
        simp at h; subst h
        have hQ0 := h3 q qs0 hq
        obtain ⟨hi0, hws0⟩ := workers_single _ _ _ (QInv_len _ _ _ _ hQ0) hpc
        subst hi0
        have hW : WInv s.cancelled q qs0.items (.running t) s.log := by
          unfold QInv at hQ0; rw [hws0] at hQ0; exact hQ0
        refine Inv_upd s q qs0 (setWorker qs0 0 (.handled t r)) [.pt q .afterHandler, .fin q t] inv0 hq ?_ ?_ ?_ ?_
        · intro e he
          simp at he
          rcases he with rfl | rfl
          · exact ⟨by simp, fun q' hne => by simp [Ev.ofWorker]; exact fun h => hne h.symm, by simp⟩
          · exact ⟨by simp, fun q' hne => by simp [Ev.ofWorker]; exact fun h => hne h.symm, by simp⟩
        · unfold QInv
          simp [setWorker, hws0]
          exact handlerReturn_inv _ _ _ _ _ _ hW
        · simp [setWorker]
        · intro h0; rw [hws0] at h0; simp at h0
      · simp at h
  | handlerFilter q i keep =>
    simp only [step] at h
    split at h
    · simp at h
    · rename_i qs0 hq
      split at h
      · rename_i t hpc
        simp at h; subst h
        have hQ0 := h3 q qs0 hq
        obtain ⟨hi0, hws0⟩ := workers_single _ _ _ (QInv_len _ _ _ _ hQ0) hpc
        subst hi0
        have hW : WInv s.cancelled q qs0.items (.running t) s.log := by
          unfold QInv at hQ0; rw [hws0] at hQ0; exact hQ0
        have := Inv_upd s q qs0 { qs0 with items := Queue.filter qs0.items (fun x => x == t || keep.contains x) } []
          inv0 hq (by simp) (by
            have hF := handlerFilter_inv _ _ _ _ keep _ hW
            unfold QInv
            simp only [hws0]
            exact hF) rfl (fun h => h)
        simpa using this
      · simp at h
  | newQueue q hh =>
    simp only [step] at h
    split at h
    · simp at h
    · rename_i hq
      simp at h; subst h
      refine ⟨h1, h2, ?_, ?_, ?_, ?_⟩
      · intro q' qs hqs
        simp only [upd] at hqs
        split at hqs
        · rename_i heq; subst heq; simp at hqs; subst hqs
          unfold QInv; simp; exact h4 _ hq
        · exact h3 q' qs hqs
      · intro q' hqn
        simp only [upd] at hqn
        split at hqn
        · simp at hqn
        · exact h4 q' hqn
      · intro q' qs hqs hs0
        simp only [upd] at hqs
        split at hqs
        · rename_i heq; subst heq; simp at hqs; subst hqs; exact Or.inl rfl
        · exact h5 q' qs hqs hs0
      · intro q' qs hqs hcl
        simp only [upd] at hqs
        split at hqs
        · rename_i heq; subst heq; simp at hqs; subst hqs; exact ⟨rfl, rfl⟩
        · exact h6 q' qs hqs hcl
  | startRead c q =>
    simp [Label.singleStarter] at hl; subst hl
    simp only [step] at h
    split at h
    · rename_i qs0 hidle hq
      split at h
      · simp at h; subst h; exact inv0
      · split at h
        · simp at h; subst h
          have := Inv_upd s q qs0 { qs0 with status := .noHandler } [] inv0 hq (by simp)
            (QInv_congr s.cancelled q qs0 _ s.log rfl rfl (h3 q qs0 hq)) rfl (fun h => h)
          simpa using this
        · rename_i hns _
          simp at h; subst h
          refine ⟨h1, h2, h3, h4, ?_, ?_⟩
          · intro q' qs hqs hs0
            rcases h5 q' qs hqs hs0 with h | h
            · exact Or.inl h
            · rw [hidle] at h; simp at h
          · intro q' qs hqs hcl
            simp [updC] at hcl
            subst hcl
            rw [hq] at hqs; simp at hqs; subst hqs
            refine ⟨by simpa using hns, ?_⟩
            rcases h5 q qs0 hq (by simpa using hns) with h | h
            · exact h
            · rw [hidle] at h; simp at h
    · simp at h
  | startSpawn c q0 =>
    simp [Label.singleStarter] at hl; subst hl
    simp only [step] at h
    split at h
    · rename_i q hsaw
      split at h
      · simp at h
      split at h
      · rename_i qs0 hq
        simp at h; subst h
        obtain ⟨hst0, hw0⟩ := h6 q qs0 hq hsaw
        have hquiet : quiet q s.log = true := by
          have := h3 q qs0 hq
          unfold QInv at this; rw [hw0] at this; exact this
        refine ⟨by simpa [stopRequested] using h1, by simpa [headFirst] using h2, ?_, ?_, ?_, ?_⟩
        · intro q' qs hqs
          simp only [upd] at hqs
          split at hqs
          · rename_i heq; subst heq; simp at hqs; subst hqs
            unfold QInv
            simp [hw0]
            exact spawn_inv _ _ _ _ hquiet h1
          · rename_i hne
            exact QInv_foreign _ _ _ _ _ (h3 q' qs hqs) (by simp [Ev.ofWorker]; exact fun h => hne h.symm) (by simp)
        · intro q' hqn
          simp only [upd] at hqn
          split at hqn
          · simp at hqn
          · rename_i hne
            exact quiet_foreign _ _ _ (h4 q' hqn) (by simp [Ev.ofWorker]; exact fun h => hne h.symm)
        · intro q' qs hqs hs0
          simp only [upd] at hqs
          split at hqs
          · rename_i heq; subst heq; exact Or.inr (by simp [updC])
          · rcases h5 q' qs hqs hs0 with h | h
            · exact Or.inl h
            · rw [hsaw] at h; simp at h
        · intro q' qs hqs hcl
          simp [updC] at hcl
      · simp at h
    all_goals simp at h
  | startWrite c q0 =>
    simp [Label.singleStarter] at hl; subst hl
    simp only [step] at h
    split at h
    · rename_i q hsp
      split at h
      · simp at h
      split at h
      · rename_i qs0 hq
        simp at h; subst h
        refine ⟨h1, h2, ?_, ?_, ?_, ?_⟩
        · intro q' qs hqs
          simp only [upd] at hqs
          split at hqs
          · rename_i heq; subst heq; simp at hqs; subst hqs
            exact QInv_congr _ _ _ _ _ rfl rfl (h3 _ qs0 hq)
          · exact h3 q' qs hqs
        · intro q' hqn
          simp only [upd] at hqn
          split at hqn
          · simp at hqn
          · exact h4 q' hqn
        · intro q' qs hqs hs0
          simp only [upd] at hqs
          split at hqs
          · rename_i heq; subst heq; simp at hqs; subst hqs; simp at hs0
          · rename_i hne
            rcases h5 q' qs hqs hs0 with h | h
            · exact Or.inl h
            · rw [hsp] at h; simp at h; exact absurd h.symm hne
        · intro q' qs hqs hcl
          simp [updC] at hcl
      · simp at h
    all_goals simp at h

theorem init_inv : Inv init := by
  refine ⟨rfl, rfl, ?_, ?_, ?_, ?_⟩ <;> intros <;> simp_all [init, quiet]

/-- schedules in which Start() is only called from thread 0 -/
def SingleStarter (ls : List Label) : Prop := ∀ l ∈ ls, l.singleStarter = true

theorem run_inv (cfg : Cfg) (hfix : cfg.fix = true) (ls : List Label) (hs : SingleStarter ls) :
    ∀ (s s' : State), Inv s → run cfg s ls = some s' → Inv s' := by
  induction ls with
  | nil => intro s s' inv h; simp [run] at h; subst h; exact inv
  | cons l rest ih =>
    intro s s' inv h
    simp only [run] at h
    split at h
    · simp at h
    · rename_i s1 hs1
      exact ih (fun l hl => hs l (by simp [hl])) s1 s'
        (step_inv cfg hfix s s1 l (hs l (by simp)) inv hs1) h

/-- the log only grows -/
theorem step_log (cfg : Cfg) (s s' : State) (l : Label) (h : step cfg s l = some s') :
    ∃ new, s'.log = new ++ s.log := by
  have hdel : ∀ (ts : List (QName × Id)) (s : State), ∃ new, (deliverAll s ts).log = new ++ s.log := by
    intro ts
    induction ts with
    | nil => intro s; exact ⟨[], rfl⟩
    | cons x rest ih =>
      intro s
      obtain ⟨new, hn⟩ := ih (deliver1 s x)
      simp only [deliverAll, List.foldl_cons] at hn ⊢
      rw [hn]
      unfold deliver1
      split
      · exact ⟨new ++ [.drop x.1 x.2], by simp⟩
      · exact ⟨new ++ [.recv x.1 x.2], by simp⟩
  cases l <;> simp only [step] at h
  case deliver ts => simp at h; subst h; exact hdel ts s
  case cronFire ts => split at h <;> simp at h; subst h; exact hdel ts s
  case kubeEvent ts => split at h <;> simp at h; subst h; exact hdel ts s
  all_goals (repeat' split at h) <;> (try simp at h) <;> (try subst h) <;>
    first
    | exact ⟨[], rfl⟩
    | exact ⟨_, rfl⟩
    | (exact ⟨[_], rfl⟩)
    | (exact ⟨[_, _], rfl⟩)

end ShellOp.Worker
