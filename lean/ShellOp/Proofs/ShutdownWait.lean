import ShellOp.Model.ShutdownWait
/-! Lemmas about `waitCheck` (the check of `WaitStopWithTimeout` in any visiting order) and about the
lock model `Lk` of `StartMonitor` against `Shutdown()`. -/
namespace ShellOp.Worker

theorem waitCheck_eq_all (l : List QStatus) : waitCheck l = l.all (fun st => st == .stop) := by
  induction l with
  | nil => rfl
  | cons st rest ih =>
    by_cases h : st = .stop
    · simp [waitCheck, h, ih]
    · simp [waitCheck, h]

theorem waitCheck_true_iff (l : List QStatus) : waitCheck l = true ↔ ∀ st ∈ l, st = .stop := by
  rw [waitCheck_eq_all]; simp

theorem waitCheck_perm {l₁ l₂ : List QStatus} (h : l₁.Perm l₂) : waitCheck l₁ = waitCheck l₂ := by
  have : (waitCheck l₁ = true) ↔ (waitCheck l₂ = true) := by
    rw [waitCheck_true_iff, waitCheck_true_iff]
    exact ⟨fun a st hst => a st (h.mem_iff.mpr hst), fun a st hst => a st (h.mem_iff.mp hst)⟩
  cases h1 : waitCheck l₁ <;> cases h2 : waitCheck l₂ <;> simp_all

/-- A visit of all queues (in whatever order) that finds `waitCheck` true is `allStopped`. -/
theorem allStopped_of_waitCheck (s : State) (order : List QName) (hperm : order.Perm s.names)
    (h : waitCheck (statusesIn s order) = true) : allStopped s = true := by
  unfold allStopped
  rw [List.all_eq_true]
  intro q hq
  have hqo : q ∈ order := hperm.mem_iff.mpr hq
  cases hqs : s.qs q with
  | none => rfl
  | some qs =>
    have : qs.status ∈ statusesIn s order := by
      unfold statusesIn
      rw [List.mem_filterMap]
      exact ⟨q, hqo, by simp [hqs]⟩
    have := (waitCheck_true_iff _).mp h _ this
    simp [this]

namespace Lk

theorem step_code_writer (s s' : St) (l : Label) (h : step false s l = some s') (hw : s.writer = false) :
    s'.writer = false := by
  cases l <;> simp only [step] at h <;> (repeat' split at h) <;> simp_all <;> (subst h; simp_all)

theorem run_code_writer (ls : List Label) (s s' : St) (h : run false s ls = some s') (hw : s.writer = false) :
    s'.writer = false := by
  induction ls generalizing s with
  | nil => simp [run] at h; subst h; exact hw
  | cons l ls ih =>
    simp only [run] at h
    split at h
    · rename_i s1 h1; exact ih s1 h (step_code_writer s s1 l h1 hw)
    · simp at h

/-- the situation the variant can get into: the handler thread is inside `monitor.Start` with the write
lock, the API server has not answered, Shutdown() stands before `PauseHandleEvents` -/
def Stuck (s : St) : Prop :=
  s.sm = .starting ∧ s.writer = true ∧ s.apiAnswered = false ∧ s.sd = .schedStopped

theorem step_stuck (s s' : St) (l : Label) (hl : l ≠ .apiAnswer) (h : step true s l = some s')
    (hs : Stuck s) : Stuck s' := by
  obtain ⟨h1, h2, h3, h4⟩ := hs
  cases l <;> simp only [step] at h <;> (repeat' split at h) <;> simp_all

theorem run_stuck (ls : List Label) (s s' : St) (hl : ∀ l ∈ ls, l ≠ .apiAnswer)
    (h : run true s ls = some s') (hs : Stuck s) : Stuck s' := by
  induction ls generalizing s with
  | nil => simp [run] at h; subst h; exact hs
  | cons l ls ih =>
    simp only [run] at h
    split at h
    · rename_i s1 h1
      exact ih s1 (fun l' hl' => hl l' (List.mem_cons_of_mem _ hl')) h
        (step_stuck s s1 l (hl l (List.mem_cons_self ..)) h1 hs)
    · simp at h

end Lk
end ShellOp.Worker
