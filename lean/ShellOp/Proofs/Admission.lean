import ShellOp.Model.Admission
/-! Helper lemmas for C14: path splitting, the links map of a hook, the routing fold. -/
namespace ShellOp.Admission

/-! ### `strings.Split` / `strings.Join` on `/` -/

theorem splitSlash_ne_nil (s : Str) : splitSlash s ≠ [] := by
  cases s with
  | nil => simp [splitSlash]
  | cons c cs =>
    simp only [splitSlash]
    split
    · simp
    · split <;> simp

theorem joinSlash_cons_cons (p q : Str) (ps : List Str) :
    joinSlash (p :: q :: ps) = p ++ '/' :: joinSlash (q :: ps) := rfl

/-- joining what was split gives the string back -/
theorem join_split (s : Str) : joinSlash (splitSlash s) = s := by
  induction s with
  | nil => rfl
  | cons c cs ih =>
    simp only [splitSlash]
    split
    · rename_i hc
      cases hs : splitSlash cs with
      | nil => exact absurd hs (splitSlash_ne_nil cs)
      | cons p ps =>
        rw [hs] at ih
        rw [joinSlash_cons_cons, ih, hc]; rfl
    · cases hs : splitSlash cs with
      | nil => exact absurd hs (splitSlash_ne_nil cs)
      | cons p ps =>
        rw [hs] at ih
        simp only
        cases ps with
        | nil => simp only [joinSlash] at ih ⊢; rw [ih]
        | cons q qs =>
          rw [joinSlash_cons_cons] at ih ⊢
          simp [← ih]

def slashFree (s : Str) : Prop := '/' ∉ s

theorem split_slashFree (s : Str) (h : slashFree s) : splitSlash s = [s] := by
  induction s with
  | nil => rfl
  | cons c cs ih =>
    have hc : c ≠ '/' := fun e => h (by simp [e])
    have hcs : slashFree cs := fun e => h (by simp [e])
    simp [splitSlash, hc, ih hcs]

theorem split_append (s rest : Str) (h : slashFree s) :
    splitSlash (s ++ '/' :: rest) = s :: splitSlash rest := by
  induction s with
  | nil => simp [splitSlash]
  | cons c cs ih =>
    have hc : c ≠ '/' := fun e => h (by simp [e])
    have hcs : slashFree cs := fun e => h (by simp [e])
    simp [splitSlash, hc, ih hcs]

/-- **routing, part 1.** The path registered for a webhook leads back to its ids: for a
configuration id without `/` and a webhook id without empty path segments,
`detectConfigurationAndWebhook("/" + conf + "/" + wid) = (conf, wid)`. -/
theorem detect_registered (conf wid : Str) (hc : slashFree conf) (hne : conf ≠ [])
    (hw : noEmptySeg wid = true) : detect ('/' :: conf ++ '/' :: wid) = (conf, wid) := by
  have hsplit : splitSlash ('/' :: conf ++ '/' :: wid) = [] :: conf :: splitSlash wid := by
    rw [show ('/' :: conf ++ '/' :: wid) = '/' :: (conf ++ '/' :: wid) from rfl]
    simp [splitSlash, split_append conf wid hc]
  have hfilter : (splitSlash wid).filter (fun p => !p.isEmpty) = splitSlash wid := by
    apply List.filter_eq_self.2
    simpa [noEmptySeg, List.all_eq_true] using hw
  have hcne : conf.isEmpty = false := by cases conf <;> simp_all
  simp only [detect, hsplit]
  simp [hcne, hfilter, join_split]

/-! ### the links of one hook -/

theorem mem_linkPut {m : List (Str × Binding)} {b : Binding} {e : Str × Binding}
    (h : e ∈ linkPut m b) : e = (safeURL b.name, b) ∨ e ∈ m := by
  unfold linkPut at h
  split at h
  · obtain ⟨x, hx, rfl⟩ := List.mem_map.1 h
    by_cases hk : x.1 = safeURL b.name
    · simp [hk]
    · simp [hk, hx]
  · rcases List.mem_append.1 h with h | h
    · exact Or.inr h
    · simp at h; exact Or.inl h

theorem linkPut_key_self (m : List (Str × Binding)) (b : Binding) :
    ∃ e ∈ linkPut m b, e.1 = safeURL b.name := by
  unfold linkPut
  split
  · rename_i h
    obtain ⟨x, hx, hk⟩ := List.any_eq_true.1 h
    exact ⟨(safeURL b.name, b), List.mem_map.2 ⟨x, hx, by simp [beq_iff_eq.1 hk]⟩, rfl⟩
  · exact ⟨(safeURL b.name, b), by simp, rfl⟩

theorem linkPut_key_old {m : List (Str × Binding)} (b : Binding) {k : Str}
    (h : ∃ e ∈ m, e.1 = k) : ∃ e ∈ linkPut m b, e.1 = k := by
  obtain ⟨e, he, hk⟩ := h
  unfold linkPut
  split
  · by_cases hek : e.1 = safeURL b.name
    · exact ⟨(safeURL b.name, b), List.mem_map.2 ⟨e, he, by simp [hek]⟩, by simp [← hk, hek]⟩
    · exact ⟨e, List.mem_map.2 ⟨e, he, by simp [hek]⟩, hk⟩
  · exact ⟨e, by simp [he], hk⟩

theorem foldl_linkPut_mem : ∀ (l : List Binding) (m : List (Str × Binding)) (e : Str × Binding),
    e ∈ l.foldl linkPut m → e ∈ m ∨ (e.2 ∈ l ∧ e.1 = safeURL e.2.name)
  | [], _, _, h => Or.inl h
  | b :: bs, m, e, h => by
    rcases foldl_linkPut_mem bs (linkPut m b) e h with h | h
    · rcases mem_linkPut h with h | h
      · right; subst h; simp
      · exact Or.inl h
    · right; exact ⟨by simp [h.1], h.2⟩

theorem foldl_linkPut_key_old : ∀ (l : List Binding) (m : List (Str × Binding)) (k : Str),
    (∃ e ∈ m, e.1 = k) → ∃ e ∈ l.foldl linkPut m, e.1 = k
  | [], _, _, h => h
  | b :: bs, m, k, h => foldl_linkPut_key_old bs (linkPut m b) k (linkPut_key_old b h)

theorem foldl_linkPut_key : ∀ (l : List Binding) (m : List (Str × Binding)) (b : Binding),
    b ∈ l → ∃ e ∈ l.foldl linkPut m, e.1 = safeURL b.name
  | [], _, _, h => by cases h
  | x :: xs, m, b, h => by
    rcases List.mem_cons.1 h with h | h
    · subst h
      exact foldl_linkPut_key_old xs _ _ (linkPut_key_self m b)
    · exact foldl_linkPut_key xs _ b h

theorem mem_hookLinks {h : Hook} {e : Str × Binding} (he : e ∈ hookLinks h) :
    e.2 ∈ h.bindings ∧ e.1 = safeURL e.2.name := by
  rcases foldl_linkPut_mem _ _ e he with h' | ⟨h1, h2⟩
  · cases h'
  · refine ⟨?_, h2⟩
    rcases List.mem_append.1 h1 with h1 | h1 <;> exact (List.mem_filter.1 h1).1

theorem hookLinks_key {h : Hook} {b : Binding} (hb : b ∈ h.bindings) :
    ∃ e ∈ hookLinks h, e.1 = safeURL b.name := by
  apply foldl_linkPut_key
  cases hk : b.kind with
  | validating => exact List.mem_append.2 (Or.inl (List.mem_filter.2 ⟨hb, by simp [hk]⟩))
  | mutating => exact List.mem_append.2 (Or.inr (List.mem_filter.2 ⟨hb, by simp [hk]⟩))

/-- a hook answers for a webhook id only with one of its own bindings, whose id it is -/
theorem canHandle_some {h : Hook} {conf wid : Str} {b : Binding} (hc : canHandle h conf wid = some b) :
    conf = defaultConfigurationId ∧ b ∈ h.bindings ∧ wid = safeURL b.name := by
  unfold canHandle at hc
  split at hc
  · cases hc
  · rename_i hconf
    simp only [ne_eq, Decidable.not_not] at hconf
    cases hf : (hookLinks h).find? (fun e => e.1 == wid) with
    | none => simp [hf] at hc
    | some e =>
      simp only [hf, Option.map_some, Option.some.injEq] at hc
      subst hc
      have hmem := mem_hookLinks (List.mem_of_find?_eq_some hf)
      have hkey : e.1 = wid := by simpa using List.find?_some hf
      refine ⟨?_, hmem.1, by rw [← hkey, hmem.2]⟩
      unfold hookConf at hconf
      split at hconf
      · rename_i hemp
        have : h.bindings = [] := by simpa using hemp
        rw [this] at hmem; cases hmem.1
      · exact hconf.symm

/-- a hook that has a binding with this webhook id answers (with some binding of that id) -/
theorem canHandle_of_binding {h : Hook} {b : Binding} (hb : b ∈ h.bindings) :
    ∃ b', canHandle h defaultConfigurationId (safeURL b.name) = some b' := by
  obtain ⟨e, he, hk⟩ := hookLinks_key hb
  unfold canHandle hookConf
  have hne : h.bindings.isEmpty = false := by cases hh : h.bindings <;> simp_all
  simp only [hne, Bool.false_eq_true, if_false, ne_eq, not_true_eq_false]
  cases hf : (hookLinks h).find? (fun e => e.1 == safeURL b.name) with
  | some e' => exact ⟨e'.2, rfl⟩
  | none =>
    have := List.find?_eq_none.1 hf e he
    simp [hk] at this

/-! ### the routing fold (`HandleAdmissionEvent`: the last hit wins) -/

def routeStep (conf wid : Str) (acc : Option (Nat × Binding)) (h : Hook) : Option (Nat × Binding) :=
  match canHandle h conf wid with
  | some b => some (h.id, b)
  | none => acc

theorem route_eq (hooks : List Hook) (conf wid : Str) :
    route hooks conf wid =
      ((hooks.filter (fun h => h.bindings.any (fun b => b.kind == .validating))) ++
        (hooks.filter (fun h => h.bindings.any (fun b => b.kind == .mutating)))).foldl
        (routeStep conf wid) none := rfl

theorem foldl_route_some {conf wid : Str} : ∀ (l : List Hook) (acc : Option (Nat × Binding))
    (i : Nat) (b : Binding), l.foldl (routeStep conf wid) acc = some (i, b) →
    acc = some (i, b) ∨ ∃ hk ∈ l, hk.id = i ∧ canHandle hk conf wid = some b
  | [], _, _, _, h => Or.inl h
  | x :: xs, acc, i, b, h => by
    rcases foldl_route_some xs _ i b h with h | ⟨hk, hm, h1, h2⟩
    · unfold routeStep at h
      split at h
      · rename_i b' hb'
        simp only [Option.some.injEq, Prod.mk.injEq] at h
        right; exact ⟨x, by simp, h.1, by rw [hb', h.2]⟩
      · exact Or.inl h
    · right; exact ⟨hk, by simp [hm], h1, h2⟩

theorem foldl_route_unique {conf wid : Str} {i : Nat} {b : Binding} :
    ∀ (l : List Hook) (acc : Option (Nat × Binding)),
      (∀ hk ∈ l, canHandle hk conf wid = none ∨ (canHandle hk conf wid = some b ∧ hk.id = i)) →
      (acc = none ∨ acc = some (i, b)) →
      (acc = some (i, b) ∨ ∃ hk ∈ l, canHandle hk conf wid = some b) →
      l.foldl (routeStep conf wid) acc = some (i, b)
  | [], acc, _, _, h3 => by
    rcases h3 with h3 | ⟨_, hm, _⟩
    · exact h3
    · cases hm
  | x :: xs, acc, h1, h2, h3 => by
    simp only [List.foldl_cons]
    rcases h1 x (by simp) with hx | ⟨hx, hid⟩
    · apply foldl_route_unique xs _ (fun hk hm => h1 hk (by simp [hm]))
      · simpa [routeStep, hx] using h2
      · rcases h3 with h3 | ⟨hk, hm, hc⟩
        · left; simpa [routeStep, hx] using h3
        · rcases List.mem_cons.1 hm with hm | hm
          · subst hm; rw [hx] at hc; cases hc
          · right; exact ⟨hk, hm, hc⟩
    · apply foldl_route_unique xs _ (fun hk hm => h1 hk (by simp [hm]))
      · right; simp [routeStep, hx, hid]
      · left; simp [routeStep, hx, hid]

end ShellOp.Admission
