import ShellOp.Model.SnapFilter
/-! Proofs about `Model/SnapFilter`: the merge of `ApplyFilterValue` key by key, and the stability
of the slices handed out by `Snapshot()`. -/
namespace ShellOp.SnapFilter
open ShellOp.Json

/-! ## objects built by assignment -/

theorem lookup_insertKey (a : String) (v : J) (l : List (String × J)) (k : String) :
    lookupKey k (insertKey a v l) = if k = a then some v else lookupKey k l := by
  induction l with
  | nil => simp [insertKey, lookupKey]
  | cons kv rest ih =>
    obtain ⟨l0, w⟩ := kv
    unfold insertKey
    by_cases h1 : a < l0
    · simp [h1, lookupKey]
    · by_cases h2 : a = l0
      · subst h2
        by_cases hk : k = a <;> simp [h1, lookupKey, hk]
      · simp only [h1, h2, if_false, lookupKey, ih]
        by_cases hk : k = l0
        · have : k ≠ a := fun e => h2 (e ▸ hk)
          simp [hk, Ne.symm h2]
        · simp [hk]

theorem lookup_foldl (l acc : List (String × J)) (k : String) :
    lookupKey k (l.foldl (fun acc kv => insertKey kv.1 kv.2 acc) acc) = lastAssign k (lookupKey k acc) l := by
  induction l generalizing acc with
  | nil => simp [lastAssign]
  | cons kv rest ih =>
    simp only [List.foldl_cons, ih, lookup_insertKey, lastAssign]

/-- `mergeObjects` = the assignments of all members of the object-valued outputs, in output order. -/
theorem merge_fold (outs : List J) (acc : List (String × J)) :
    outs.foldl (fun acc o =>
      match o with
      | .obj kvs => kvs.foldl (fun a kv => insertKey kv.1 kv.2 a) acc
      | _ => acc) acc
    = (outs.flatMap members).foldl (fun a kv => insertKey kv.1 kv.2 a) acc := by
  induction outs generalizing acc with
  | nil => simp
  | cons o rest ih =>
    simp only [List.foldl_cons, List.flatMap_cons, List.foldl_append, ih]
    cases o <;> simp [members]

theorem mergeObjects_eq (outs : List J) :
    mergeObjects outs = .obj ((outs.flatMap members).foldl (fun a kv => insertKey kv.1 kv.2 a) []) := by
  unfold mergeObjects
  exact congrArg J.obj (merge_fold outs [])

/-- Key by key, the merge holds the last member assigned. -/
theorem lookup_merge (outs : List J) (k : String) :
    lookupKey k ((outs.flatMap members).foldl (fun a kv => insertKey kv.1 kv.2 a) []) = lastField k outs := by
  rw [lookup_foldl]
  simp [lastField, lookupKey]

theorem frDocumented_merge (outs : List J) (h : outs.length ≠ 1) :
    frDocumented outs (mergeObjects outs) = true := by
  rw [mergeObjects_eq]
  have hall : ((outs.flatMap members).map (·.1) ++
      (((outs.flatMap members).foldl (fun a kv => insertKey kv.1 kv.2 a) []).map (·.1))).all
        (fun k => decide (lookupKey k ((outs.flatMap members).foldl (fun a kv => insertKey kv.1 kv.2 a) [])
          = lastField k outs)) = true := by
    rw [List.all_eq_true]
    intro k _
    simp [lookup_merge]
  match outs, h with
  | [], _ => simp [frDocumented]
  | [v], h => exact absurd rfl h
  | a :: b :: rest, _ => simpa [frDocumented] using hall

/-! ## the heap -/

section HeapSec
variable {α : Type}

theorem read_alloc_new (h : Heap α) (xs : List α) : (h.alloc xs).1.read (h.alloc xs).2 = xs := by
  simp [Heap.alloc, Heap.read]

/-- `h'` has all arrays of `h`, unchanged, and possibly more. -/
def Heap.Extends (h h' : Heap α) : Prop := ∃ more, h'.bufs = h.bufs ++ more

theorem Heap.Extends.refl (h : Heap α) : h.Extends h := ⟨[], by simp⟩

theorem Heap.Extends.trans {a b c : Heap α} (h1 : a.Extends b) (h2 : b.Extends c) : a.Extends c := by
  obtain ⟨m1, e1⟩ := h1
  obtain ⟨m2, e2⟩ := h2
  exact ⟨m1 ++ m2, by rw [e2, e1, List.append_assoc]⟩

theorem extends_alloc (h : Heap α) (xs : List α) : h.Extends (h.alloc xs).1 := ⟨[xs], rfl⟩

theorem read_extends {h h' : Heap α} (he : h.Extends h') (s : Slice) (hs : s.buf < h.bufs.length) :
    h'.read s = h.read s := by
  obtain ⟨more, e⟩ := he
  simp [Heap.read, e, List.getElem?_append_left hs]

theorem extends_getCached_fold (h : Heap α) (cs : List (List α)) :
    h.Extends (cs.foldl (fun h c => (getCached h c).1) h) := by
  induction cs generalizing h with
  | nil => exact Heap.Extends.refl h
  | cons c rest ih => exact (extends_alloc h c).trans (ih _)

theorem extends_snapshotCall (srt : List α → List α) (s : RState α) :
    s.heap.Extends (snapshotCall srt s).1.heap := by
  unfold snapshotCall
  exact (extends_getCached_fold s.heap s.caches).trans (extends_alloc _ _)

theorem extends_rstep (srt : List α → List α) (s : RState α) (op : ROp α) :
    s.heap.Extends (rstep srt s op).heap := by
  cases op with
  | watch i c => exact Heap.Extends.refl _
  | snapshot => exact extends_snapshotCall srt s

theorem extends_rrun (srt : List α → List α) (s : RState α) (ops : List (ROp α)) :
    s.heap.Extends (rrun srt s ops).heap := by
  induction ops generalizing s with
  | nil => exact Heap.Extends.refl _
  | cons op rest ih =>
    exact (extends_rstep srt s op).trans (ih _)

theorem snapshotCall_read (srt : List α → List α) (s : RState α) :
    (snapshotCall srt s).1.heap.read (snapshotCall srt s).2 = srt s.caches.flatten := by
  unfold snapshotCall
  exact read_alloc_new _ _

theorem snapshotCall_buf_lt (srt : List α → List α) (s : RState α) :
    (snapshotCall srt s).2.buf < (snapshotCall srt s).1.heap.bufs.length := by
  simp [snapshotCall, Heap.alloc]

end HeapSec

end ShellOp.SnapFilter
