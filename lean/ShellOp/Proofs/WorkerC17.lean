import ShellOp.Proofs.WorkerStatus
/-! Helper lemmas for `Props/C17` (log bookkeeping after the exit of a worker, flags of the sources). -/
namespace ShellOp.Worker.C17

open ShellOp.Worker

/-- what the log predicates say about a queue, whatever state it is in -/
theorem log_facts (s : State) (inv : Inv s) (q : QName) :
    cleanStop q s.log = true ∧ promptExit q s.log = true ∧ exitFinal q s.log = true := by
  have hquiet : quiet q s.log = true →
      cleanStop q s.log = true ∧ promptExit q s.log = true ∧ exitFinal q s.log = true := by
    intro hq
    obtain ⟨_, _, _, i4, i5, _, _, i8, _⟩ := quiet_facts q s.log hq
    simp [cleanStop, promptExit, i4, i5, i8]
  cases hqs : s.qs q with
  | none => exact hquiet (inv.absent q hqs)
  | some qs =>
    have hQ := inv.queues q qs hqs
    unfold QInv at hQ
    split at hQ
    · exact hquiet hQ
    · obtain ⟨_, _, _, _, hs, ha, _, hp, _, _, hf⟩ := hQ
      refine ⟨?_, ?_, hf⟩
      · simp only [cleanStop, hs]
        cases hd : s.cancelled with
        | false => simp
        | true =>
          obtain ⟨a1, a2⟩ := ha hd
          simp [a1]
          by_cases h0 : startsAfterStop q s.log = 0
          · exact Or.inl h0
          · exact Or.inr (a2 (by omega))
      · simp only [promptExit, hs]
        cases hd : s.cancelled with
        | false => simp
        | true => simp [hp hd]
    · exact absurd hQ (by simp)

theorem exited_append (q : QName) (new old : List Ev) (h : exited q old = true) :
    exited q (new ++ old) = true := by
  induction new with
  | nil => simpa using h
  | cons e rest ih => cases e <;> simp_all [exited]

theorem quiet_after_exit (q : QName) (new old : List Ev) (hf : exitFinal q (new ++ old) = true)
    (hx : exited q old = true) : ∀ e ∈ new, e.ofWorker q = false := by
  induction new with
  | nil => intro e he; simp at he
  | cons e rest ih =>
    simp [exitFinal] at hf
    obtain ⟨h1, h2⟩ := hf
    have hx' := exited_append q rest old hx
    intro e' he'
    simp at he'
    rcases he' with rfl | he'
    · rcases h1 with h1 | h1
      · exact h1
      · rw [hx'] at h1; simp at h1
    · exact ih h2 e' he'

theorem starts_of_quiet (q : QName) (new old : List Ev) (h : ∀ e ∈ new, e.ofWorker q = false) :
    starts q (new ++ old) = starts q old := by
  induction new with
  | nil => rfl
  | cons e rest ih =>
    have he := h e (by simp)
    have := ih (fun e he => h e (by simp [he]))
    cases e <;> simp_all [starts, Ev.ofWorker]

theorem run_log (cfg : Cfg) (ls : List Label) : ∀ (s s' : State), run cfg s ls = some s' →
    ∃ new, s'.log = new ++ s.log := by
  induction ls with
  | nil => intro s s' h; simp [run] at h; subst h; exact ⟨[], rfl⟩
  | cons l rest ih =>
    intro s s' h
    simp only [run] at h
    split at h
    · simp at h
    · rename_i s1 hs1
      obtain ⟨n1, h1⟩ := step_log cfg s s1 l hs1
      obtain ⟨n2, h2⟩ := ih s1 s' h
      exact ⟨n2 ++ n1, by rw [h2, h1]; simp⟩

theorem deliverAll_flags (s : State) (ts : List (QName × Queue.Id)) :
    (deliverAll s ts).cronRunning = s.cronRunning ∧ (deliverAll s ts).kubePaused = s.kubePaused ∧
    (deliverAll s ts).cancelled = s.cancelled := by
  unfold deliverAll
  induction ts generalizing s with
  | nil => simp
  | cons x rest ih =>
    simp only [List.foldl_cons]
    have := ih (deliver1 s x)
    have h1 : (deliver1 s x).cronRunning = s.cronRunning ∧ (deliver1 s x).kubePaused = s.kubePaused ∧
        (deliver1 s x).cancelled = s.cancelled := by
      unfold deliver1; split <;> simp
    simp_all

theorem run_sinv (cfg : Cfg) (ls : List Label) : ∀ (s s' : State), SInv s → run cfg s ls = some s' → SInv s' := by
  induction ls with
  | nil => intro s s' inv h; simp [run] at h; subst h; exact inv
  | cons l rest ih =>
    intro s s' inv h
    simp only [run] at h
    split at h
    · simp at h
    · rename_i s1 hs1
      exact ih s1 s' (step_sinv cfg s s1 l inv hs1) h

theorem init_sinv : SInv init := by
  refine ⟨?_, ?_, ?_⟩ <;> intros <;> simp_all [init]

end ShellOp.Worker.C17
