import ShellOp.Proofs.MetricsU
import ShellOp.Proofs.MetricsSim
/-! C16: the ungrouped half of the reference registry vs. the ungrouped vecs. -/
namespace ShellOp.Metrics
open Spec

/-- the ungrouped series `(n, k)` of the reference registry. -/
def rLookup0 (ref : List RSeries) (n : Nat) (k : Labels) : Option RSeries :=
  ref.find? fun s => decide (s.name = n ∧ s.labels = k ∧ s.group = 0)

theorem rLookup0_append (a b : List RSeries) (n : Nat) (k : Labels) :
    rLookup0 (a ++ b) n k = (rLookup0 a n k).or (rLookup0 b n k) := by
  simp [rLookup0, List.find?_append]

theorem rLookup0_kept (ref : List RSeries) (gs : List Nat) (h0 : 0 ∉ gs) (n : Nat) (k : Labels) :
    rLookup0 (ref.filter (fun s => !gs.contains s.group)) n k = rLookup0 ref n k := by
  induction ref with
  | nil => rfl
  | cons s rest ih =>
    simp only [List.filter_cons]
    by_cases hs : gs.contains s.group = true
    · have hne : s.group ≠ 0 := by
        intro h; rw [h] at hs; exact h0 (by simpa using hs)
      simp only [hs, Bool.not_true, Bool.false_eq_true, if_false, ih]
      simp [rLookup0, List.find?_cons, hne]
    · have hs' : gs.contains s.group = false := by simpa using hs
      simp only [hs', Bool.not_false, if_true]
      simp only [rLookup0, List.find?_cons] at ih ⊢
      split
      · rfl
      · exact ih

theorem rLookup0_fresh (common : Labels) (ops : List Op) (gs : List Nat) (h0 : 0 ∉ gs) (n : Nat) (k : Labels) :
    rLookup0 (gs.flatMap (freshOf common ops)) n k = none := by
  simp only [rLookup0, List.find?_eq_none, List.mem_flatMap, freshOf, List.mem_map]
  rintro s ⟨g, hg, ⟨kk, v⟩, _, rfl⟩
  have : g ≠ 0 := fun h => h0 (h ▸ hg)
  simp [this]

theorem rLookup0_rUpsert (f : RSeries → Int) (h : RSeries → Nat) (n : Nat) (k : Labels) (ref : List RSeries)
    (n' : Nat) (k' : Labels) :
    rLookup0 (rUpsert (fun e => { e with val := f e, cnt := h e }) n k ref) n' k' =
      if n' = n ∧ k' = k then
        some ((fun e : RSeries => { e with val := f e, cnt := h e })
          ((rLookup0 ref n k).getD { name := n, labels := k, group := 0, val := 0 }))
      else rLookup0 ref n' k' := by
  induction ref with
  | nil =>
    simp only [rUpsert, rLookup0, List.find?_cons, List.find?_nil, Option.getD_none]
    by_cases hh : n' = n ∧ k' = k
    · simp [hh]
    · have : ¬ (n = n' ∧ k = k') := fun h' => hh ⟨h'.1.symm, h'.2.symm⟩
      simp [hh, this]
  | cons e rest ih =>
    unfold rUpsert
    by_cases hhit : e.name = n ∧ e.labels = k ∧ e.group = 0
    · simp only [hhit, and_self, if_true, rLookup0, List.find?_cons, decide_true]
      by_cases hh : n' = n ∧ k' = k
      · simp [hh, hhit.1.symm, hhit.2.1.symm, hhit.2.2.symm]
      · have : ¬ (n = n' ∧ k = k') := fun h' => hh ⟨h'.1.symm, h'.2.symm⟩
        simp [hh, this]
    · simp only [hhit, if_false, rLookup0, List.find?_cons] at ih ⊢
      by_cases he : e.name = n' ∧ e.labels = k' ∧ e.group = 0
      · have hne : ¬ (n' = n ∧ k' = k) := by
          intro hh; apply hhit; rw [he.1, he.2.1]; exact ⟨hh.1, hh.2, he.2.2⟩
        simp [he, hne]
      · simp only [he, decide_false, hhit]
        exact ih

theorem rUpsert_lookup0_aux (f : RSeries → Int) (h : RSeries → Nat) (n : Nat) (k : Labels) (ref : List RSeries)
    (n' : Nat) (k' : Labels) :
    rLookup0 (rUpsert (fun e => { e with val := f e, cnt := h e }) n k ref) n' k' =
      if n' = n ∧ k' = k then
        some ({ (rLookup0 ref n k).getD { name := n, labels := k, group := 0, val := 0 } with
                val := f ((rLookup0 ref n k).getD { name := n, labels := k, group := 0, val := 0 }),
                cnt := h ((rLookup0 ref n k).getD { name := n, labels := k, group := 0, val := 0 }) })
      else rLookup0 ref n' k' := rLookup0_rUpsert f h n k ref n' k'

/-- value and sample count of the ungrouped series `(n, k)` in the store / in the reference. -/
def uview (s : State) (n : Nat) (k : Labels) : Option (Int × Nat) :=
  (uLookup s.uentries n k).map fun e => (e.val, e.cnt)

def rview0 (ref : List RSeries) (n : Nat) (k : Labels) : Option (Int × Nat) :=
  (rLookup0 ref n k).map fun e => (e.val, e.cnt)

/-- a valid ungrouped operation is `set`, `add` or `observe` with a value (and buckets). -/
theorem valid_ungrouped (op : Op) (hv : validOp op = true) (hg : op.group = 0) :
    ∃ v, op.value = some v ∧
      (op.action = "add" ∨ op.action = "set" ∨ (op.action = "observe" ∧ op.buckets = true)) := by
  simp only [validOp, Bool.and_eq_true, Bool.not_eq_true', Facts.c16UngroupedActions] at hv
  obtain ⟨⟨⟨⟨⟨⟨⟨⟨_, h2⟩, _⟩, _⟩, h5⟩, h6⟩, h7⟩, h8⟩, _⟩ := hv
  have hg' : (op.group == 0) = true := by simpa using hg
  simp only [hg', if_true, List.contains_cons, List.contains_nil, Bool.or_false, Bool.or_eq_true, beq_iff_eq] at h2
  rcases h2 with h | h | h
  · cases hval : op.value with
    | none => simp [h, hval] at h5
    | some v => exact ⟨v, rfl, Or.inr (Or.inl h)⟩
  · cases hval : op.value with
    | none => simp [h, hval] at h6
    | some v => exact ⟨v, rfl, Or.inl h⟩
  · cases hval : op.value with
    | none => simp [h, hval] at h7
    | some v =>
      refine ⟨v, rfl, Or.inr (Or.inr ⟨h, ?_⟩)⟩
      cases hb : op.buckets with
      | true => rfl
      | false => simp [h, hb] at h8

/-- the vec family of an ungrouped operation (as in `Props/C16`). -/
def uFam (action : String) : Fam :=
  if action = "add" then .counter else if action = "set" then .gauge else .histogram

/-- `NoNameClash` for one ungrouped operation at the moment it is applied. -/
def UOk (s : State) (common : Labels) (op : Op) : Prop :=
  (∃ vec, s.vecs.find? (fun x => x.name == op.name && x.fam == uFam op.action) = some vec ∧
      vec.labelNames = (mergeLabels op.labels common).map (·.1)) ∨
  (s.vecs.find? (fun x => x.name == op.name && x.fam == uFam op.action) = none ∧ s.registered op.name = false)

/-- what `ungroupedApply` does to the vecs when the operation is admissible. -/
theorem ungroupedApply_vecs (st : State) (f : Fam) (n : Nat) (labels : Labels) (upd : UEntry → UEntry)
    (hok : (∃ vec, st.vecs.find? (fun v => v.name == n && v.fam == f) = some vec ∧ vec.labelNames = labels.map (·.1)) ∨
           (st.vecs.find? (fun v => v.name == n && v.fam == f) = none ∧ st.registered n = false)) :
    ((ungroupedApply st f n labels false upd).vecs = st.vecs ∨
      (st.vecs.find? (fun v => v.name == n && v.fam == f) = none ∧ st.registered n = false ∧
        (ungroupedApply st f n labels false upd).vecs = st.vecs ++ [{ name := n, fam := f, labelNames := labels.map (·.1) }])) := by
  unfold ungroupedApply
  rcases hok with ⟨vec, hf, hn⟩ | ⟨hf, hr⟩
  · left; simp [hf, hn]
  · right; simp [hf, hr]

def uUpd (action : String) (v : Int) (e : UEntry) : UEntry :=
  if action = "add" then { e with val := e.val + v }
  else if action = "set" then { e with val := v }
  else { e with val := e.val + v, cnt := e.cnt + 1 }

def rUpd (action : String) (v : Int) (e : RSeries) : RSeries :=
  if action = "add" then { e with val := e.val + v }
  else if action = "set" then { e with val := v }
  else { e with val := e.val + v, cnt := e.cnt + 1 }

/-- One admissible ungrouped operation on the store. -/
theorem sendOneV0_ok (st : State) (common : Labels) (op : Op) (v : Int)
    (ha : op.action = "add" ∨ op.action = "set" ∨ (op.action = "observe" ∧ op.buckets = true))
    (hv : op.value = some v) (hneg : op.action = "add" → 0 ≤ v) (hok : UOk st common op) :
    ∃ st', sendOneV0 common st op = some st' ∧ st'.gentries = st.gentries ∧ st'.colls = st.colls ∧
      (st'.vecs = st.vecs ∨
        (st.vecs.find? (fun x => x.name == op.name && x.fam == uFam op.action) = none ∧ st.registered op.name = false ∧
          st'.vecs = st.vecs ++ [{ name := op.name, fam := uFam op.action,
                                   labelNames := (mergeLabels op.labels common).map (·.1) }])) ∧
      ∀ n' k', uLookup st'.uentries n' k' =
        if n' = op.name ∧ k' = mergeLabels op.labels common then
          some (uUpd op.action v ((uLookup st.uentries op.name (mergeLabels op.labels common)).getD
            { name := op.name, key := mergeLabels op.labels common, val := 0 }))
        else uLookup st.uentries n' k' := by
  unfold UOk at hok
  rcases ha with ha | ha | ⟨ha, hb⟩
  · have hnn : ¬ v < 0 := by have := hneg ha; omega
    have hnn' : decide (v < 0) = false := by simpa using hnn
    have hf : uFam op.action = .counter := by simp [uFam, ha]
    rw [hf] at hok ⊢
    have hok1 := ungroupedApply_ok st .counter op.name (mergeLabels op.labels common)
      (fun e => { e with val := e.val + v }) hok
    have hok2 := ungroupedApply_vecs st .counter op.name (mergeLabels op.labels common)
      (fun e => { e with val := e.val + v }) hok
    refine ⟨_, by simp [sendOneV0, ha, hv, hnn'], hok1.2.1, hok1.2.2, hok2, ?_⟩
    intro n' k'
    rw [hok1.1, uLookup_uUpsert (fun e => { e with val := e.val + v }) (fun e => ⟨rfl, rfl⟩)]
    simp [uUpd, ha]
  · have hf : uFam op.action = .gauge := by simp [uFam, ha]
    rw [hf] at hok ⊢
    have hok1 := ungroupedApply_ok st .gauge op.name (mergeLabels op.labels common)
      (fun e => { e with val := v }) hok
    have hok2 := ungroupedApply_vecs st .gauge op.name (mergeLabels op.labels common)
      (fun e => { e with val := v }) hok
    refine ⟨_, by simp [sendOneV0, ha, hv], hok1.2.1, hok1.2.2, hok2, ?_⟩
    intro n' k'
    rw [hok1.1, uLookup_uUpsert (fun e => { e with val := v }) (fun e => ⟨rfl, rfl⟩)]
    simp [uUpd, ha]
  · have hf : uFam op.action = .histogram := by simp [uFam, ha]
    rw [hf] at hok ⊢
    have hok1 := ungroupedApply_ok st .histogram op.name (mergeLabels op.labels common)
      (fun e => { e with val := e.val + v, cnt := e.cnt + 1 }) hok
    have hok2 := ungroupedApply_vecs st .histogram op.name (mergeLabels op.labels common)
      (fun e => { e with val := e.val + v, cnt := e.cnt + 1 }) hok
    refine ⟨_, by simp [sendOneV0, ha, hv, hb], hok1.2.1, hok1.2.2, hok2, ?_⟩
    intro n' k'
    rw [hok1.1, uLookup_uUpsert (fun e => { e with val := e.val + v, cnt := e.cnt + 1 }) (fun e => ⟨rfl, rfl⟩)]
    simp [uUpd, ha]

/-- One ungrouped operation on the reference registry. -/
theorem uStep_lookup (common : Labels) (ref : List RSeries) (op : Op) (v : Int)
    (ha : op.action = "add" ∨ op.action = "set" ∨ op.action = "observe") (hv : op.value = some v)
    (n' : Nat) (k' : Labels) :
    rLookup0 (uStep common ref op) n' k' =
      if n' = op.name ∧ k' = mergeLabels op.labels common then
        some (rUpd op.action v ((rLookup0 ref op.name (mergeLabels op.labels common)).getD
          { name := op.name, labels := mergeLabels op.labels common, group := 0, val := 0 }))
      else rLookup0 ref n' k' := by
  unfold uStep
  simp only [hv]
  rcases ha with ha | ha | ha
  · simp only [ha, beq_self_eq_true, if_true]
    rw [rUpsert_lookup0_aux]
    simp [rUpd]
  · have h1 : ("set" == "add") = false := by decide
    simp only [ha, h1, Bool.false_eq_true, if_false, beq_self_eq_true, if_true]
    rw [rUpsert_lookup0_aux]
    simp [rUpd]
  · have h1 : ("observe" == "add") = false := by decide
    have h2 : ("observe" == "set") = false := by decide
    simp only [ha, h1, h2, Bool.false_eq_true, if_false, beq_self_eq_true, if_true]
    rw [rUpsert_lookup0_aux]
    simp [rUpd]

theorem UOk_step (s s' : State) (common : Labels) (op0 op' : Op) (hcolls : s'.colls = s.colls)
    (hvecs : s'.vecs = s.vecs ∨
      (s.vecs.find? (fun x => x.name == op0.name && x.fam == uFam op0.action) = none ∧ s.registered op0.name = false ∧
        s'.vecs = s.vecs ++ [{ name := op0.name, fam := uFam op0.action,
                               labelNames := (mergeLabels op0.labels common).map (·.1) }]))
    (hsame : op'.name = op0.name → op'.action = op0.action ∧
      (mergeLabels op'.labels common).map (·.1) = (mergeLabels op0.labels common).map (·.1))
    (h : UOk s common op') : UOk s' common op' := by
  unfold UOk State.registered at *
  rcases hvecs with hv | ⟨_, _, hv⟩
  · rw [hv, hcolls]; exact h
  · rw [hv, hcolls]
    rcases h with ⟨vec, hf, hn⟩ | ⟨hf, hr⟩
    · left; exact ⟨vec, by simp [List.find?_append, hf], hn⟩
    · by_cases hname : op'.name = op0.name
      · obtain ⟨hact, hnames⟩ := hsame hname
        left
        refine ⟨{ name := op0.name, fam := uFam op0.action, labelNames := (mergeLabels op0.labels common).map (·.1) }, ?_, hnames.symm⟩
        rw [hname, hact] at hf
        simp [List.find?_append, hf, hname, hact]
      · right
        have hne : (op0.name == op'.name) = false := by simpa using fun e : op0.name = op'.name => hname e.symm
        constructor
        · simp [List.find?_append, hf, hne]
        · simp only [List.any_append, List.any_cons, List.any_nil, Bool.or_false, hne] at hr ⊢
          simpa using hr

theorem proj_upd (a : String) (v : Int) (x : Option UEntry) (y : Option RSeries) (dU : UEntry) (dR : RSeries)
    (hxy : x.map (fun e => (e.val, e.cnt)) = y.map (fun e => (e.val, e.cnt)))
    (hd : (dU.val, dU.cnt) = (dR.val, dR.cnt)) :
    ((uUpd a v (x.getD dU)).val, (uUpd a v (x.getD dU)).cnt) = ((rUpd a v (y.getD dR)).val, (rUpd a v (y.getD dR)).cnt) := by
  have hb : ((x.getD dU).val, (x.getD dU).cnt) = ((y.getD dR).val, (y.getD dR).cnt) := by
    cases x <;> cases y <;> simp_all
  simp only [Prod.mk.injEq] at hb
  unfold uUpd rUpd
  split
  · simp [hb.1, hb.2]
  · split <;> simp [hb.1, hb.2]

/-- The loop of `sendBatchV0` and the fold of `uStep` keep the store and the reference registry in
agreement on every ungrouped series, as long as each operation is admissible when it is applied. -/
theorem sendBatchV0_refines (common : Labels) (uops : List Op)
    (hvalid : ∀ op ∈ uops, validOp op = true ∧ op.group = 0)
    (hneg : ∀ op ∈ uops, op.action = "add" → ∀ v, op.value = some v → 0 ≤ v)
    (hsame : ∀ op ∈ uops, ∀ op' ∈ uops, op'.name = op.name → op'.action = op.action ∧
      (mergeLabels op'.labels common).map (·.1) = (mergeLabels op.labels common).map (·.1))
    (s : State) (r : List RSeries) (hok : ∀ op ∈ uops, UOk s common op)
    (hsim : ∀ n k, uview s n k = rview0 r n k) :
    (sendBatchV0 common s uops).2 = true ∧ (sendBatchV0 common s uops).1.gentries = s.gentries ∧
      ∀ n k, uview (sendBatchV0 common s uops).1 n k = rview0 (uops.foldl (uStep common) r) n k := by
  induction uops generalizing s r with
  | nil => exact ⟨rfl, rfl, hsim⟩
  | cons op rest ih =>
    obtain ⟨v, hval, ha⟩ := valid_ungrouped op (hvalid op (by simp)).1 (hvalid op (by simp)).2
    obtain ⟨s', hs', hge, hco, hve, hlk⟩ := sendOneV0_ok s common op v ha hval
      (fun h => hneg op (by simp) h v hval) (hok op (by simp))
    have ha' : op.action = "add" ∨ op.action = "set" ∨ op.action = "observe" := by
      rcases ha with h | h | ⟨h, _⟩
      · exact Or.inl h
      · exact Or.inr (Or.inl h)
      · exact Or.inr (Or.inr h)
    have hsim' : ∀ n k, uview s' n k = rview0 (uStep common r op) n k := by
      intro n k
      unfold uview rview0
      rw [hlk, uStep_lookup common r op v ha' hval]
      by_cases hh : n = op.name ∧ k = mergeLabels op.labels common
      · simp only [hh, and_self, if_true, Option.map_some]
        congr 1
        exact proj_upd _ _ _ _ _ _ (hsim op.name (mergeLabels op.labels common)) rfl
      · simp only [hh, if_false]
        exact hsim n k
    have ih' := ih (fun o ho => hvalid o (List.mem_cons_of_mem _ ho))
      (fun o ho => hneg o (List.mem_cons_of_mem _ ho))
      (fun o ho o' ho' => hsame o (List.mem_cons_of_mem _ ho) o' (List.mem_cons_of_mem _ ho'))
      s' (uStep common r op)
      (fun o ho => UOk_step s s' common op o hco hve (hsame op (by simp) o (List.mem_cons_of_mem _ ho))
        (hok o (List.mem_cons_of_mem _ ho)))
      hsim'
    simp only [sendBatchV0, hs', List.foldl_cons]
    exact ⟨ih'.1, ih'.2.1.trans hge, ih'.2.2⟩

end ShellOp.Metrics
