import ShellOp.Proofs.Startup
/-! What the Synchronization phase of one hook delivers (C06): contexts of successful executions,
contexts of all executions, unlocked monitors — computed from `syncPlan`, compared with the
property's wording (`deliveredSpec`). -/
namespace ShellOp.Startup

/-- contexts of the successful hook executions of a log, in order -/
def okCtxs : List Ev → List Ctx
  | [] => []
  | .exec _ false cs :: l => cs ++ okCtxs l
  | _ :: l => okCtxs l

/-- contexts of all hook executions (failed ones too) -/
def execCtxs : List Ev → List Ctx
  | [] => []
  | .exec _ _ cs :: l => cs ++ execCtxs l
  | _ :: l => execCtxs l

/-- monitors unlocked, in order -/
def unlocked : List Ev → List Nat
  | [] => []
  | .unlock ms :: l => ms ++ unlocked l
  | _ :: l => unlocked l

theorem okCtxs_append (a b : List Ev) : okCtxs (a ++ b) = okCtxs a ++ okCtxs b := by
  induction a with
  | nil => rfl
  | cons e a ih => cases e <;> simp [okCtxs, ih] ; rename_i f _ ; cases f <;> simp [okCtxs, ih]

theorem execCtxs_append (a b : List Ev) : execCtxs (a ++ b) = execCtxs a ++ execCtxs b := by
  induction a with
  | nil => rfl
  | cons e a ih => cases e <;> simp [execCtxs, ih]

theorem unlocked_append (a b : List Ev) : unlocked (a ++ b) = unlocked a ++ unlocked b := by
  induction a with
  | nil => rfl
  | cons e a ih => cases e <;> simp [unlocked, ih]

theorem okCtxs_replicate_fail (n h : Nat) (cs : List Ctx) :
    okCtxs (List.replicate n (.exec h true cs)) = [] := by
  induction n with
  | zero => rfl
  | succ n ih => simp [List.replicate_succ, okCtxs, ih]

theorem unlocked_replicate (n h : Nat) (f : Bool) (cs : List Ctx) :
    unlocked (List.replicate n (.exec h f cs)) = [] := by
  induction n with
  | zero => rfl
  | succ n ih => simp [List.replicate_succ, unlocked, ih]

/-- a task retried until success delivers its contexts successfully exactly once -/
theorem okCtxs_retryLog (t : Task) (sc : List Bool) : okCtxs (retryLog t sc) = t.ctxs := by
  simp only [retryLog, okCtxs_append, okCtxs_replicate_fail]
  by_cases h : t.isSync <;> simp [h, okCtxs]

theorem unlocked_retryLog (t : Task) (sc : List Bool) :
    unlocked (retryLog t sc) = if t.isSync then t.mons else [] := by
  simp only [retryLog, unlocked_append, unlocked_replicate]
  by_cases h : t.isSync <;> simp [h, unlocked]

/-- every execution of a retried task, failed or not, carries the same contexts -/
theorem execCtxs_retryLog_mem (t : Task) (sc : List Bool) : ∀ c ∈ execCtxs (retryLog t sc), c ∈ t.ctxs := by
  intro c hc
  simp only [retryLog, execCtxs_append] at hc
  rcases List.mem_append.mp hc with hc | hc
  · rcases List.mem_append.mp hc with hc | hc
    · generalize leadingFails sc = n at hc
      induction n with
      | zero => simp [execCtxs] at hc
      | succ n ih =>
        simp only [List.replicate_succ, execCtxs] at hc
        rcases List.mem_append.mp hc with hc | hc
        · exact hc
        · exact ih hc
    · simpa [execCtxs] using hc
  · by_cases h : t.isSync <;> simp [h, execCtxs] at hc

/-! ### The property's wording for the Synchronization of one hook

`d b` = "binding `b` gets a Synchronization" (configVersion v1 and executeHookOnSynchronization true).
Bindings with `d b = false` get nothing. A deliverable ungrouped binding gets its own context. Of
adjacent deliverable bindings of one group only the last one's (Group) context is delivered: they
share one. -/
def deliveredSpec (d : KBinding → Bool) : List KBinding → List Ctx
  | [] => []
  | [b] => if d b then [ctxOf b] else []
  | b :: b' :: bs =>
    if d b then
      if b.group != 0 && d b' && b'.group == b.group then deliveredSpec d (b' :: bs)
      else ctxOf b :: deliveredSpec d (b' :: bs)
    else deliveredSpec d (b' :: bs)

theorem deliveredSpec_skip (d : KBinding → Bool) (b : KBinding) (bs : List KBinding) (h : d b = false) :
    deliveredSpec d (b :: bs) = deliveredSpec d bs := by
  cases bs <;> simp [deliveredSpec, h]

theorem deliveredSpec_ungrouped (d : KBinding → Bool) (b : KBinding) (bs : List KBinding) (h : d b = true)
    (hg : b.group = 0) : deliveredSpec d (b :: bs) = ctxOf b :: deliveredSpec d bs := by
  cases bs <;> simp [deliveredSpec, h, hg]

/-- a segment of deliverable bindings followed by a non-deliverable one (or nothing) is compacted as a whole -/
theorem deliveredSpec_segment (d : KBinding → Bool) : (seg : List KBinding) → (rest : List KBinding) →
    (∀ b ∈ seg, d b = true) → (∀ r, rest.head? = some r → d r = false) →
    deliveredSpec d (seg ++ rest) = compact (seg.map ctxOf) ++ deliveredSpec d rest
  | [], rest, _, _ => by simp [compact]
  | [b], rest, hs, hr => by
    have hb : d b = true := hs b (List.mem_cons_self ..)
    cases rest with
    | nil => simp [deliveredSpec, compact, hb]
    | cons r rs =>
      have : d r = false := hr r rfl
      simp [deliveredSpec, compact, hb, this]
  | b :: b' :: seg, rest, hs, hr => by
    have hb : d b = true := hs b (List.mem_cons_self ..)
    have hb' : d b' = true := hs b' (List.mem_cons_of_mem _ (List.mem_cons_self ..))
    have ih := deliveredSpec_segment d (b' :: seg) rest (fun x hx => hs x (List.mem_cons_of_mem _ hx)) hr
    simp only [List.cons_append, List.map_cons] at ih ⊢
    simp only [deliveredSpec, hb, hb', if_true, Bool.and_true, compact, ctxOf, Ctx.group]
    by_cases hc : (b.group != 0 && b'.group == b.group) = true
    · simp only [hc, if_true]; exact ih
    · have hc' : (b.group != 0 && b'.group == b.group) = false := by simpa using hc
      simp only [hc', Bool.false_eq_true, if_false, List.cons_append]
      rw [ih]; rfl

theorem takeWhile_all {α : Type} (p : α → Bool) (l : List α) : ∀ x ∈ l.takeWhile p, p x = true := by
  intro x hx
  induction l with
  | nil => simp at hx
  | cons a l ih =>
    simp only [List.takeWhile_cons] at hx
    split at hx
    · rcases List.mem_cons.mp hx with rfl | hx
      · assumption
      · exact ih hx
    · simp at hx

/-- **What the Synchronization phase of a hook delivers** (repaired code: `stop = true`).
The contexts of the successful executions are exactly `deliveredSpec`; the monitors are unlocked in
binding order, each once; every failed execution carried contexts that are delivered later. -/
theorem syncPlan_delivers (h : Hook) : ∀ (n : Nat) (bs : List KBinding), bs.length ≤ n → ∀ (sc : List Bool),
    okCtxs (syncPlan true h sc bs).1 = deliveredSpec (fun b => h.v1 && b.execSync) bs ∧
    unlocked (syncPlan true h sc bs).1 = bs.map (·.name) ∧
    ∀ c ∈ execCtxs (syncPlan true h sc bs).1, c ∈ okCtxs (syncPlan true h sc bs).1 := by
  intro n
  induction n with
  | zero =>
    intro bs hl sc
    have : bs = [] := List.length_eq_zero_iff.mp (Nat.le_zero.mp hl)
    subst this
    rw [syncPlan]; simp [okCtxs, unlocked, execCtxs, deliveredSpec]
  | succ n ih =>
    intro bs hl sc
    rcases bs with _ | ⟨b, bs⟩
    · rw [syncPlan]; simp [okCtxs, unlocked, execCtxs, deliveredSpec]
    · have hl' : bs.length ≤ n := by simp at hl; omega
      rw [syncPlan]
      by_cases hrun : (h.v1 && b.execSync) = true
      · have hv : h.v1 = true := by simp at hrun; exact hrun.1
        simp only [hrun, Bool.not_true, Bool.false_eq_true, if_false]
        by_cases hg : b.group = 0
        · simp only [hg, beq_self_eq_true, if_true]
          obtain ⟨i1, i2, i3⟩ := ih bs hl' (sc.drop (leadingFails sc + 1))
          refine ⟨?_, ?_, ?_⟩
          · rw [okCtxs_append, okCtxs_retryLog, i1, deliveredSpec_ungrouped _ b bs hrun hg]; rfl
          · rw [unlocked_append, unlocked_retryLog, i2]; rfl
          · intro c hc
            rw [execCtxs_append] at hc
            rw [okCtxs_append, okCtxs_retryLog]
            rcases List.mem_append.mp hc with hc | hc
            · exact List.mem_append_left _ (execCtxs_retryLog_mem _ _ c hc)
            · exact List.mem_append_right _ (i3 c hc)
        · have hg' : (b.group == 0) = false := by simp [hg]
          simp only [hg', Bool.false_eq_true, if_false]
          have hlen : (bs.dropWhile (mergeable true)).length ≤ n :=
            Nat.le_trans (List.dropWhile_sublist (l := bs) (mergeable true)).length_le hl'
          obtain ⟨i1, i2, i3⟩ := ih (bs.dropWhile (mergeable true)) hlen (sc.drop (leadingFails sc + 1))
          have hmerge : ∀ x, mergeable true x = (h.v1 && x.execSync) := by
            intro x; simp [mergeable, hv]
          refine ⟨?_, ?_, ?_⟩
          · rw [okCtxs_append, okCtxs_retryLog, i1]
            have hseg := deliveredSpec_segment (fun b => h.v1 && b.execSync) (b :: bs.takeWhile (mergeable true))
              (bs.dropWhile (mergeable true))
              (by
                intro x hx
                rcases List.mem_cons.mp hx with rfl | hx
                · exact hrun
                · rw [← hmerge]; exact takeWhile_all _ _ x hx)
              (by
                intro r hr
                rcases hd : bs.dropWhile (mergeable true) with _ | ⟨r', more⟩
                · simp [hd] at hr
                · simp [hd] at hr; subst hr
                  rw [← hmerge]; exact dropWhile_head_false _ bs r' more hd)
            have hsplit : b :: bs = (b :: bs.takeWhile (mergeable true)) ++ bs.dropWhile (mergeable true) := by
              simp [List.takeWhile_append_dropWhile]
            rw [hsplit, hseg]; rfl
          · rw [unlocked_append, unlocked_retryLog, i2, mergedTask_isSync]
            simp only [if_true, mergedTask, List.cons_append]
            rw [← List.map_append, List.takeWhile_append_dropWhile]; rfl
          · intro c hc
            rw [execCtxs_append] at hc
            rw [okCtxs_append, okCtxs_retryLog]
            rcases List.mem_append.mp hc with hc | hc
            · exact List.mem_append_left _ (execCtxs_retryLog_mem _ _ c hc)
            · exact List.mem_append_right _ (i3 c hc)
      · have hrun' : (h.v1 && b.execSync) = false := by simpa using hrun
        simp only [hrun', Bool.not_false, if_true]
        obtain ⟨i1, i2, i3⟩ := ih bs hl' sc
        refine ⟨?_, ?_, ?_⟩
        · simp only [List.cons_append, List.nil_append, okCtxs, i1]
          rw [deliveredSpec_skip _ b bs hrun']
        · simp only [List.cons_append, List.nil_append, unlocked, i2, List.map_cons]
        · intro c hc
          simp only [List.cons_append, List.nil_append, execCtxs, okCtxs] at hc ⊢
          exact i3 c hc

end ShellOp.Startup

namespace ShellOp.Startup

/-- the hook an event of the log belongs to (`unlock` entries name monitors, not hooks) -/
def Ev.hookOf : Ev → Option Nat
  | .exec h _ _ => some h
  | .skip h _ => some h
  | .unlock _ => none
  | .enableKube h => some h
  | .enableKubeFail h _ => some h
  | .enableSched h => some h

theorem retryLog_hook (t : Task) (sc : List Bool) : ∀ e ∈ retryLog t sc, e.hookOf = none ∨ e.hookOf = some t.hook := by
  intro e he
  simp only [retryLog] at he
  rcases List.mem_append.mp he with he | he
  · rcases List.mem_append.mp he with he | he
    · rw [List.eq_of_mem_replicate he]; right; rfl
    · simp at he; subst he; right; rfl
  · by_cases h : t.isSync <;> simp [h] at he
    subst he; left; rfl

theorem syncPlan_hook (stop : Bool) (h : Hook) : ∀ (n : Nat) (bs : List KBinding), bs.length ≤ n → ∀ (sc : List Bool),
    ∀ e ∈ (syncPlan stop h sc bs).1, e.hookOf = none ∨ e.hookOf = some h.name := by
  intro n
  induction n with
  | zero =>
    intro bs hl sc e he
    have : bs = [] := List.length_eq_zero_iff.mp (Nat.le_zero.mp hl)
    subst this
    rw [syncPlan] at he; simp at he
  | succ n ih =>
    intro bs hl sc e he
    rcases bs with _ | ⟨b, bs⟩
    · rw [syncPlan] at he; simp at he
    · have hl' : bs.length ≤ n := by simp at hl; omega
      rw [syncPlan] at he
      split at he
      · simp only [List.cons_append, List.nil_append, List.mem_cons] at he
        rcases he with rfl | rfl | he
        · right; rfl
        · left; rfl
        · exact ih bs hl' sc e he
      · split at he
        · rcases List.mem_append.mp he with he | he
          · exact retryLog_hook _ _ e he
          · exact ih bs hl' _ e he
        · have hlen : (bs.dropWhile (mergeable stop)).length ≤ n :=
            Nat.le_trans (List.dropWhile_sublist (l := bs) (mergeable stop)).length_le hl'
          rcases List.mem_append.mp he with he | he
          · exact retryLog_hook _ _ e he
          · exact ih _ hlen _ e he

theorem okCtxs_enableFailLog (h : Hook) : okCtxs (enableFailLog h) = [] := by
  unfold enableFailLog
  generalize h.kfail.takeWhile (· < h.kube.length) = l
  induction l with
  | nil => rfl
  | cons a l ih => simpa [okCtxs] using ih

theorem execCtxs_enableFailLog (h : Hook) : execCtxs (enableFailLog h) = [] := by
  unfold enableFailLog
  generalize h.kfail.takeWhile (· < h.kube.length) = l
  induction l with
  | nil => rfl
  | cons a l ih => simpa [execCtxs] using ih

theorem unlocked_enableFailLog (h : Hook) : unlocked (enableFailLog h) = [] := by
  unfold enableFailLog
  generalize h.kfail.takeWhile (· < h.kube.length) = l
  induction l with
  | nil => rfl
  | cons a l ih => simpa [unlocked] using ih

/-- everything the main queue writes while enabling hook `h` concerns `h` -/
theorem hookPlan_hook (stop : Bool) (h : Hook) (sc : List Bool) :
    ∀ e ∈ hookPlan stop h sc, e.hookOf = none ∨ e.hookOf = some h.name := by
  intro e he
  simp only [hookPlan] at he
  rcases List.mem_append.mp he with he | he
  · by_cases hk : h.kube.isEmpty <;> simp [hk] at he
    rcases he with he | rfl | he
    · simp only [enableFailLog, List.mem_map] at he
      obtain ⟨k, _, rfl⟩ := he
      right; rfl
    · right; rfl
    · exact syncPlan_hook stop h _ _ (Nat.le_refl _) _ e he
  · by_cases hs : h.sched <;> simp [hs] at he
    subst he; right; rfl

/-- `unlock` is written only directly behind the successful execution (or the skip) of the same iteration -/
theorem step_new_events (stop : Bool) (hooks : List Hook) (s : St) :
    ∃ new, (step stop hooks s).log = s.log ++ new ∧
      (new = [] ∨ (∃ h, new = [.enableSched h]) ∨ (∃ h, new = [.enableKube h] ∨ ∃ k, new = [.enableKubeFail h k]) ∨
       (∃ h cs ms, new = [.skip h cs, .unlock ms]) ∨ (∃ h cs, new = [.exec h true cs]) ∨
       (∃ h cs, new = [.exec h false cs]) ∨ (∃ h cs ms, new = [.exec h false cs, .unlock ms])) := by
  unfold step
  split
  · exact ⟨[], by simp, Or.inl rfl⟩
  · split
    · exact ⟨_, rfl, Or.inr (Or.inl ⟨_, rfl⟩)⟩
    · split
      · exact ⟨_, rfl, Or.inr (Or.inr (Or.inl ⟨_, Or.inr ⟨_, rfl⟩⟩))⟩
      · exact ⟨_, rfl, Or.inr (Or.inr (Or.inl ⟨_, Or.inl rfl⟩))⟩
    · split
      · exact ⟨_, rfl, Or.inr (Or.inr (Or.inr (Or.inl ⟨_, _, _, rfl⟩)))⟩
      · rename_i t' rest' _
        split
        · exact ⟨_, rfl, Or.inr (Or.inr (Or.inr (Or.inr (Or.inl ⟨_, _, rfl⟩))))⟩
        · by_cases hs : t'.isSync
          · exact ⟨[.exec t'.hook false t'.ctxs, .unlock t'.mons], by simp [hs],
              Or.inr (Or.inr (Or.inr (Or.inr (Or.inr (Or.inr ⟨_, _, _, rfl⟩)))))⟩
          · exact ⟨[.exec t'.hook false t'.ctxs], by simp [hs],
              Or.inr (Or.inr (Or.inr (Or.inr (Or.inr (Or.inl ⟨_, _, rfl⟩)))))⟩
        · by_cases hs : t'.isSync
          · exact ⟨[.exec t'.hook false t'.ctxs, .unlock t'.mons], by simp [hs],
              Or.inr (Or.inr (Or.inr (Or.inr (Or.inr (Or.inr ⟨_, _, _, rfl⟩)))))⟩
          · exact ⟨[.exec t'.hook false t'.ctxs], by simp [hs],
              Or.inr (Or.inr (Or.inr (Or.inr (Or.inr (Or.inl ⟨_, _, rfl⟩)))))⟩

theorem mem_takeWhile_true {α} (p : α → Bool) : ∀ (l : List α) (a : α), a ∈ l.takeWhile p → p a = true
  | [], _, h => by simp at h
  | b :: l, a, h => by
    rw [List.takeWhile_cons] at h
    split at h
    · rcases List.mem_cons.mp h with rfl | h
      · assumption
      · exact mem_takeWhile_true p l a h
    · simp at h

/-- what `taskHandleHookRun` makes of the head task before the hook runs: the tasks merged into it are a
prefix of the rest of the queue, all of the same hook and type; its monitor IDs are its own followed by
theirs, in order; the merged tasks are gone from the queue. -/
theorem prepare_shape (stop : Bool) (hooks : List Hook) (t : Task) (rest : List Task) :
    ∃ merged, rest = merged ++ (prepare stop hooks t rest).2.2 ∧
      (∀ m ∈ merged, m.hook = t.hook ∧ m.typ = t.typ) ∧
      (prepare stop hooks t rest).2.1.mons = t.mons ++ merged.flatMap (·.mons) ∧
      (prepare stop hooks t rest).2.1.typ = t.typ ∧ (prepare stop hooks t rest).2.1.hook = t.hook := by
  have triv : ∃ merged, rest = merged ++ rest ∧ (∀ m ∈ merged, m.hook = t.hook ∧ m.typ = t.typ) ∧
      t.mons = t.mons ++ merged.flatMap (·.mons) ∧ t.typ = t.typ ∧ t.hook = t.hook :=
    ⟨[], by simp, by simp, by simp, rfl, rfl⟩
  unfold prepare
  simp only
  split
  · split
    · cases hc : combine stop t rest with
      | none => exact triv
      | some p =>
        obtain ⟨t', rest'⟩ := p
        simp only [combine] at hc
        split at hc
        · cases hc
        · simp only [Option.some.injEq, Prod.mk.injEq] at hc
          obtain ⟨rfl, rfl⟩ := hc
          refine ⟨rest.takeWhile (combinable stop t), (List.takeWhile_append_dropWhile).symm, ?_, rfl, rfl, rfl⟩
          intro m hm
          have := mem_takeWhile_true _ _ _ hm
          simp only [combinable, Bool.and_eq_true, beq_iff_eq] at this
          exact ⟨this.1.1, this.1.2⟩
    · exact triv
  · exact triv

/-- which monitors one worker iteration unlocks: those of the head task and of the tasks merged into it, and
all of these tasks leave the queue in this iteration -/
theorem unlock_shape (stop : Bool) (hooks : List Hook) (s : St) (ms : List Nat)
    (h : Ev.unlock ms ∈ (step stop hooks s).log.drop s.log.length) :
    ∃ t merged, t.typ = .hookRun ∧ s.queue = t :: merged ++ (step stop hooks s).queue ∧
      (∀ m ∈ merged, m.hook = t.hook ∧ m.typ = .hookRun) ∧ ms = (t :: merged).flatMap (·.mons) := by
  unfold step at h ⊢
  split at h
  · simp at h
  · rename_i t rest hq
    simp only [hq]
    split at h
    · simp at h
    · split at h <;> simp at h
    · rename_i htyp
      obtain ⟨merged, hrest, hm, hmons, _, _⟩ := prepare_shape stop hooks t rest
      rw [htyp] at hm
      split at h
      · rename_i t' rest' hp
        rw [hp] at hrest hmons
        simp only at hrest hmons
        simp at h
        exact ⟨t, merged, htyp, by simp [hrest], hm, by simp [h, hmons]⟩
      · rename_i t' rest' hp
        rw [hp] at hrest hmons
        simp only at hrest hmons
        have fin : ms = t'.mons → ∃ t₁ mg, t₁.typ = TaskType.hookRun ∧ t :: rest = t₁ :: mg ++ rest' ∧
            (∀ m ∈ mg, m.hook = t₁.hook ∧ m.typ = TaskType.hookRun) ∧ ms = (t₁ :: mg).flatMap (·.mons) :=
          fun hms => ⟨t, merged, htyp, by simp [hrest], hm, by simp [hms, hmons]⟩
        split at h
        · simp at h
        · by_cases hs : t'.isSync <;> simp [hs] at h
          simpa using fin h
        · by_cases hs : t'.isSync <;> simp [hs] at h
          simpa using fin h

end ShellOp.Startup
