import ShellOp.Model.ConversionOverlap
/-! Requests in flight (C15): with a new envelope per step, whatever the other requests do, what
remains to be done for a request is what the sequential loop (`runPath`) would do. -/
namespace ShellOp.Conversion.Overlap
open ShellOp.Conversion

theorem upd_same {α : Type} (f : Nat → α) (i : Nat) (x : α) : upd f i x i = x := by simp [upd]
theorem upd_other {α : Type} (f : Nat → α) {i j : Nat} (x : α) (h : j ≠ i) : upd f i x j = f j := by
  simp [upd, h]

/-- the continuation invariant: for every request, finishing the loop sequentially from where it
stands gives what the loop would have given on the request alone; a built task's envelope points
to its own request -/
structure Good (links : Rule → Bool) (script : Nat → Script) (desired : Nat → Ver)
    (path0 : Nat → Path) (objs0 : Nat → List Obj) (s : Sys) : Prop where
  fin : ∀ i e, (s.fl i).fin = some e →
    (e, (s.fl i).objs, (s.fl i).inv) = runPath links (script i) (desired i) (path0 i) (objs0 i) []
  idle : ∀ i, (s.fl i).fin = none → (s.fl i).built = none →
    runPath links (script i) (desired i) (s.fl i).todo (s.fl i).objs (s.fl i).inv
      = runPath links (script i) (desired i) (path0 i) (objs0 i) []
  busy : ∀ i r e, (s.fl i).fin = none → (s.fl i).built = some (r, e) →
    links r = true ∧ e < s.next ∧ s.heap e = i ∧
    runPath links (script i) (desired i) (r :: (s.fl i).todo) (s.fl i).objs (s.fl i).inv
      = runPath links (script i) (desired i) (path0 i) (objs0 i) []

variable {links : Rule → Bool} {script : Nat → Script} {desired : Nat → Ver}
  {path0 : Nat → Path} {objs0 : Nat → List Obj}

theorem good_init : Good links script desired path0 objs0 (init path0 objs0) where
  fin := by intro i e h; simp [init] at h
  idle := by intro i _ _; simp [init]
  busy := by intro i r e _ h; simp [init] at h

theorem good_build {s : Sys} (h : Good links script desired path0 objs0 s) (i : Nat) :
    Good links script desired path0 objs0 (build links fresh s i) := by
  unfold build
  cases hf : (s.fl i).fin with
  | some e => simpa [hf] using h
  | none =>
    cases hb : (s.fl i).built with
    | some b => simpa [hf, hb] using h
    | none =>
      have hidle := h.idle i hf hb
      cases ht : (s.fl i).todo with
      | nil =>
        simp only [hf, hb, ht]
        rw [ht] at hidle
        refine ⟨?_, ?_, ?_⟩
        · intro j e hj
          by_cases hji : j = i
          · subst hji
            simp only [upd_same] at hj ⊢
            simp only [Option.some.injEq] at hj
            subst hj
            simpa [runPath] using hidle
          · simp only [upd_other _ _ hji] at hj ⊢
            exact h.fin j e hj
        · intro j hj hbj
          by_cases hji : j = i
          · subst hji
            simp [upd_same] at hj
          · simp only [upd_other _ _ hji] at hj hbj ⊢
            exact h.idle j hj hbj
        · intro j r e hj hbj
          by_cases hji : j = i
          · subst hji
            simp [upd_same] at hj
          · simp only [upd_other _ _ hji] at hj hbj ⊢
            exact h.busy j r e hj hbj
      | cons r rs =>
        simp only [hf, hb, ht]
        rw [ht] at hidle
        by_cases hl : links r = true
        · simp only [hl, Bool.not_true, Bool.false_eq_true, if_false]
          refine ⟨?_, ?_, ?_⟩
          · intro j e hj
            by_cases hji : j = i
            · subst hji
              simp [upd_same] at hj
            · simp only [upd_other _ _ hji] at hj ⊢
              exact h.fin j e hj
          · intro j hj hbj
            by_cases hji : j = i
            · subst hji
              simp [upd_same] at hbj
            · simp only [upd_other _ _ hji] at hj hbj ⊢
              exact h.idle j hj hbj
          · intro j r' e hj hbj
            by_cases hji : j = i
            · subst hji
              simp only [upd_same] at hj hbj ⊢
              simp only [Option.some.injEq, Prod.mk.injEq] at hbj
              obtain ⟨hr, he⟩ := hbj
              subst hr
              subst he
              refine ⟨hl, by simp [fresh], by simp [fresh, upd_same], ?_⟩
              exact hidle
            · simp only [upd_other _ _ hji] at hj hbj ⊢
              obtain ⟨h1, h2, h3, h4⟩ := h.busy j r' e hj hbj
              refine ⟨h1, Nat.lt_succ_of_lt h2, ?_, h4⟩
              have : e ≠ fresh s r := by simp only [fresh]; exact Nat.ne_of_lt h2
              rw [upd_other _ _ this]
              exact h3
        · have hl' : links r = false := by simpa using hl
          simp only [hl', Bool.not_false, if_true]
          refine ⟨?_, ?_, ?_⟩
          · intro j e hj
            by_cases hji : j = i
            · subst hji
              simp only [upd_same] at hj ⊢
              simp only [Option.some.injEq] at hj
              subst hj
              simpa [runPath, hl'] using hidle
            · simp only [upd_other _ _ hji] at hj ⊢
              exact h.fin j e hj
          · intro j hj hbj
            by_cases hji : j = i
            · subst hji
              simp [upd_same] at hj
            · simp only [upd_other _ _ hji] at hj hbj ⊢
              exact h.idle j hj hbj
          · intro j r' e hj hbj
            by_cases hji : j = i
            · subst hji
              simp [upd_same] at hj
            · simp only [upd_other _ _ hji] at hj hbj ⊢
              exact h.busy j r' e hj hbj

theorem good_run {s : Sys} (h : Good links script desired path0 objs0 s) (i : Nat) :
    Good links script desired path0 objs0 (run script desired s i) := by
  unfold run
  cases hf : (s.fl i).fin with
  | some e => simpa [hf] using h
  | none =>
    cases hb : (s.fl i).built with
    | none => simpa [hf, hb] using h
    | some b =>
      obtain ⟨r, e⟩ := b
      obtain ⟨hl, _, hheap, hrun⟩ := h.busy i r e hf hb
      simp only [hf, hb, hheap]
      -- the other requests are untouched
      have others : ∀ j, j ≠ i → ∀ x, (upd s.fl i x) j = s.fl j := fun j hj x => upd_other _ _ hj
      simp only [runPath, hl, Bool.not_true, Bool.false_eq_true, if_false] at hrun
      refine ⟨?_, ?_, ?_⟩
      · intro j e' hj
        by_cases hji : j = i
        · subst hji
          simp only [upd_same] at hj ⊢
          cases hs : script j (s.fl j).inv.length r (s.fl j).objs with
          | exitFail =>
            simp only [hs, afterRun, Option.some.injEq] at hj ⊢
            subst hj
            simpa [hs] using hrun
          | noResponse =>
            simp only [hs, afterRun, Option.some.injEq] at hj ⊢
            subst hj
            simpa [hs] using hrun
          | resp msg out =>
            simp only [hs, afterRun] at hj ⊢
            simp only [hs] at hrun
            by_cases hm : msg = ""
            · subst hm
              simp only [ne_eq, not_true_eq_false, if_false] at hj hrun ⊢
              by_cases hd : extractVersions out = [desired j]
              · simp only [hd, if_true, Option.some.injEq] at hj hrun ⊢
                subst hj
                exact hrun
              · simp only [hd, if_false] at hj
                rw [hf] at hj
                exact absurd hj (by simp)
            · simp only [ne_eq, hm, not_false_eq_true, if_true, Option.some.injEq] at hj hrun ⊢
              subst hj
              exact hrun
        · simp only [others j hji] at hj ⊢
          exact h.fin j e' hj
      · intro j hj hbj
        by_cases hji : j = i
        · subst hji
          simp only [upd_same] at hj hbj ⊢
          cases hs : script j (s.fl j).inv.length r (s.fl j).objs with
          | exitFail => simp [hs, afterRun] at hj
          | noResponse => simp [hs, afterRun] at hj
          | resp msg out =>
            simp only [hs, afterRun] at hj hbj ⊢
            simp only [hs] at hrun
            by_cases hm : msg = ""
            · subst hm
              simp only [ne_eq, not_true_eq_false, if_false] at hj hrun ⊢
              by_cases hd : extractVersions out = [desired j]
              · simp [hd] at hj
              · simp only [hd, if_false] at hrun ⊢
                exact hrun
            · simp [hm] at hj
        · simp only [others j hji] at hj hbj ⊢
          exact h.idle j hj hbj
      · intro j r' e' hj hbj
        by_cases hji : j = i
        · subst hji
          simp only [upd_same] at hj hbj
          cases hs : script j (s.fl j).inv.length r (s.fl j).objs with
          | exitFail => simp [hs, afterRun] at hj
          | noResponse => simp [hs, afterRun] at hj
          | resp msg out =>
            simp only [hs, afterRun] at hbj
            split at hbj
            · simp at hbj
            · split at hbj <;> simp at hbj
        · simp only [others j hji] at hj hbj ⊢
          exact h.busy j r' e' hj hbj

theorem good_exec (acts : List Act) : ∀ {s : Sys}, Good links script desired path0 objs0 s →
    Good links script desired path0 objs0 (exec links script desired fresh acts s) := by
  induction acts with
  | nil => intro s h; exact h
  | cons a as ih =>
    intro s h
    simp only [exec, List.foldl_cons]
    apply ih
    cases a with
    | build i => exact good_build h i
    | run i => exact good_run h i

end ShellOp.Conversion.Overlap
