/-
Tie T4 for metric validation (C16): `ValidateMetricOperation` and `ValidateOperations`
(pkg/metric_storage/operation/operation.go), translated on every run from the Go source with the error
list counted, have no error exactly when the model's `validOp` / `validBatch` accept.
-/
import ShellOp.Generated.Trans
import ShellOp.Model.Metrics
namespace ShellOp.Proofs.TransMetrics
open ShellOp ShellOp.Metrics

theorem bump_zero (c : Bool) (n : Nat) : (if c = true then n + 1 else n) = 0 ↔ (c = false ∧ n = 0) := by
  cases c <;> simp

theorem validate_op_iff (op : Op) (hu : Facts.c16UngroupedActions = ["set", "add", "observe"])
    (hg : Facts.c16GroupedActions = ["expire", "set", "add"]) :
    Trans.validateMetricOperation op = 0 ↔ validOp op = true := by
  unfold Trans.validateMetricOperation
  extract_lets e0 e1 e2 e3 e4 e5 e6 e7 e8 e9
  have h1 : e1 = 0 ↔ (op.action == "") = false := by simp only [e1, e0]; rw [bump_zero]; simp
  have h2 : e2 = 0 ↔ e1 = 0 ∧ (if (op.group == 0) = true then (op.action != "set" && op.action != "add" && op.action != "observe") = false
      else (op.action != "expire" && op.action != "set" && op.action != "add") = false) := by
    simp only [e2]; split <;> (rw [bump_zero]; exact And.comm)
  have h3 : e3 = 0 ↔ (op.name == 0 && op.group == 0) = false ∧ e2 = 0 := by simp only [e3]; exact bump_zero _ _
  have h4 : e4 = 0 ↔ (op.name == 0 && op.group != 0 && op.action != "expire") = false ∧ e3 = 0 := by simp only [e4]; exact bump_zero _ _
  have h5 : e5 = 0 ↔ (op.action == "set" && op.value.isNone) = false ∧ e4 = 0 := by simp only [e5]; exact bump_zero _ _
  have h6 : e6 = 0 ↔ (op.action == "add" && op.value.isNone) = false ∧ e5 = 0 := by simp only [e6]; exact bump_zero _ _
  have h7 : e7 = 0 ↔ (op.action == "observe" && op.value.isNone) = false ∧ e6 = 0 := by simp only [e7]; exact bump_zero _ _
  have h8 : e8 = 0 ↔ (op.action == "observe" && !op.buckets) = false ∧ e7 = 0 := by simp only [e8]; exact bump_zero _ _
  have h9 : e9 = 0 ↔ (op.set.isSome && op.add.isSome) = false ∧ e8 = 0 := by simp only [e9]; exact bump_zero _ _
  show e9 = 0 ↔ _
  rw [h9, h8, h7, h6, h5, h4, h3, h2, h1]
  clear h1 h2 h3 h4 h5 h6 h7 h8 h9
  unfold validOp
  rw [hu, hg]
  clear_value e0 e1 e2 e3 e4 e5 e6 e7 e8 e9
  clear e0 e1 e2 e3 e4 e5 e6 e7 e8 e9
  by_cases hgz : op.group = 0 <;> cases hs : op.set <;> cases ha : op.add <;> simp [hgz] <;> grind

theorem validate_ops_loop (ops : List Op) : ∀ n : Nat,
    (forIn (m := Id) ops n fun op r =>
      pure (ForInStep.yield (if (Trans.validateMetricOperation op != 0) = true then r + 1 else r))).run = 0
    ↔ (n = 0 ∧ ∀ op ∈ ops, Trans.validateMetricOperation op = 0) := by
  induction ops with
  | nil => intro n; simp
  | cons a r ih =>
    intro n
    simp only [List.forIn_cons, List.mem_cons, forall_eq_or_imp]
    simp only [pure_bind]
    rw [ih, bump_zero]
    simp
    constructor
    · rintro ⟨⟨h1, h2⟩, h3⟩; exact ⟨h2, h1, h3⟩
    · rintro ⟨h2, h1, h3⟩; exact ⟨⟨h1, h2⟩, h3⟩

theorem validate_ops_iff (ops : List Op) (hu : Facts.c16UngroupedActions = ["set", "add", "observe"])
    (hg : Facts.c16GroupedActions = ["expire", "set", "add"]) :
    Trans.validateOperations ops = 0 ↔ validBatch ops = true := by
  unfold Trans.validateOperations validBatch
  have := validate_ops_loop ops 0
  simp only [Id.run_bind, Id.run_pure] at *
  show (forIn (m := Id) ops 0 fun op r =>
      pure (ForInStep.yield (if (Trans.validateMetricOperation op != 0) = true then r + 1 else r))).run = 0 ↔ _
  rw [this]
  simp [List.all_eq_true, validate_op_iff _ hu hg]
end ShellOp.Proofs.TransMetrics
