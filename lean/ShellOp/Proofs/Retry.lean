import ShellOp.Model.Retry
import ShellOp.Props.C07
/-! Helper lemmas for C04: what the handler does for the head task of a queue, in list terms. -/
set_option linter.unusedSimpArgs false
namespace ShellOp.Retry

open ShellOp.Combine ShellOp.Combine.Spec

/-- Does `taskHandleHookRun` merge followers into the head task `t` of `t :: rest`? -/
def combines (cfg : Cfg) (t : Task) (rest : List Task) : Bool :=
  shouldRunHook (cfg.version t.hook) t && (cfg.version t.hook == 1) && shouldCombine t &&
    !(merged t (cfg.stopOf t) rest).isEmpty

/-- The task as it is executed (and as it stays in the queue when the run fails). -/
def ranTask (cfg : Cfg) (t : Task) (rest : List Task) : Task :=
  if combines cfg t rest then
    { t with ctxs := contexts t (merged t (cfg.stopOf t) rest),
             mons := if (monitors t (merged t (cfg.stopOf t) rest)).length > 0
                     then monitors t (merged t (cfg.stopOf t) rest) else t.mons }
  else t

/-- The queue behind the head task when the handler returns. -/
def restAfter (cfg : Cfg) (t : Task) (rest : List Task) : List Task :=
  if combines cfg t rest then rest.dropWhile (combinable t (cfg.stopOf t)) else rest

theorem ranTask_id (cfg : Cfg) (t : Task) (rest : List Task) : (ranTask cfg t rest).id = t.id := by
  unfold ranTask; split <;> rfl

theorem ranTask_af (cfg : Cfg) (t : Task) (rest : List Task) :
    (ranTask cfg t rest).allowFailure = t.allowFailure := by
  unfold ranTask; split <;> rfl

theorem setTask_cons_head (t' t : Task) (l : List Task) (hid : t'.id = t.id)
    (h : ∀ x ∈ l, x.id ≠ t.id) : setTask t' (t :: l) = t' :: l := by
  unfold setTask
  rw [List.map_cons]
  have h1 : (t.id == t'.id) = true := by simp [hid]
  rw [if_pos h1]
  congr 1
  conv => rhs; rw [← List.map_id l]
  apply List.map_congr_left
  intro x hx
  have : (x.id == t'.id) = false := by simpa [hid] using h x hx
  simp [this]

theorem head_not_in_rest (t : Task) (rest : List Task) (nd : ((t :: rest).map (·.id)).Nodup) :
    ∀ x ∈ rest, x.id ≠ t.id := by
  simp only [List.map_cons, List.nodup_cons, List.mem_map, not_exists, not_and] at nd
  intro x hx
  exact nd.1 x hx

theorem dropWhile_mem {p : Task → Bool} {l : List Task} {x : Task} (h : x ∈ l.dropWhile p) : x ∈ l :=
  (List.dropWhile_sublist p).subset h

theorem prepareRun_head (cfg : Cfg) (t : Task) (rest : List Task) (hm : t.hasMeta = true)
    (nd : ((t :: rest).map (·.id)).Nodup) :
    prepareRun cfg.stopOf (cfg.version t.hook) [(t.queue, t :: rest)] t id =
      (some (ranTask cfg t rest), [(t.queue, t :: restAfter cfg t rest)]) := by
  have hq : QSet.get [(t.queue, t :: rest)] t.queue = some (t :: rest) := by simp [QSet.get]
  unfold prepareRun
  by_cases h1 : (shouldRunHook (cfg.version t.hook) t && cfg.version t.hook == 1) = true
  · by_cases h2 : shouldCombine t = true
    · rw [C07.combine_result _ t rest (cfg.stopOf t) hq hm nd]
      by_cases h3 : merged t (cfg.stopOf t) rest = []
      · simp [h1, h2, h3, C07.specOutcome, combines, ranTask, restAfter]
      · have h3' : (merged t (cfg.stopOf t) rest).isEmpty = false := by
          cases hmm : merged t (cfg.stopOf t) rest with
          | nil => exact absurd hmm h3
          | cons a b => rfl
        simp only [Bool.and_eq_true] at h1
        simp [h1.1, h1.2, h2, h3, h3', C07.specOutcome, combines, ranTask, restAfter, QSet.set, remainder]
    · have h2' : shouldCombine t = false := by simpa using h2
      simp [h1, h2', combines, ranTask, restAfter]
  · have h1' : (shouldRunHook (cfg.version t.hook) t && cfg.version t.hook == 1) = false := by simpa using h1
    have hc : combines cfg t rest = false := by
      simp only [combines]
      rw [h1']; simp
    simp [h1', hc, ranTask, restAfter]

/-- `taskHandleHookRun` for the head task of a queue without duplicate ids, in list terms. -/
theorem handle_head (cfg : Cfg) (t : Task) (rest : List Task) (ok : Bool) (hm : t.hasMeta = true)
    (nd : ((t :: rest).map (·.id)).Nodup) :
    taskHandleHookRun cfg (t :: rest) t ok =
      { status := if shouldRunHook (cfg.version t.hook) t && !ok && !t.allowFailure then .fail else .success
        items := ranTask cfg t rest :: restAfter cfg t rest
        ran := if shouldRunHook (cfg.version t.hook) t then some (ranTask cfg t rest).ctxs else none
        unlocked := if shouldRunHook (cfg.version t.hook) t && !ok && !t.allowFailure then []
                    else if t.isSync then (ranTask cfg t rest).mons else [] } := by
  have hrest : ∀ x ∈ restAfter cfg t rest, x.id ≠ t.id := by
    intro x hx
    apply head_not_in_rest t rest nd
    unfold restAfter at hx
    split at hx
    · exact dropWhile_mem hx
    · exact hx
  simp only [taskHandleHookRun, prepareRun_head cfg t rest hm nd, QSet.get, beq_self_eq_true, if_true,
    Option.getD_some, setTask_cons_head _ t _ (ranTask_id cfg t rest) hrest]
  by_cases hr : shouldRunHook (cfg.version t.hook) t = true
  · cases ok
    · by_cases ha : t.allowFailure = true
      · simp [hr, ha, ranTask_af]
      · have ha' : t.allowFailure = false := by simpa using ha
        simp [hr, ha', ranTask_af]
    · simp [hr]
  · have hr' : shouldRunHook (cfg.version t.hook) t = false := by simpa using hr
    simp [hr']

/-! ### removal by id -/

theorem removeById_head (t : Task) (l : List Task) : removeById t.id (t :: l) = l := by
  simp [removeById]

theorem removeById_head' (t' : Task) (id : Nat) (l : List Task) (h : t'.id = id) :
    removeById id (t' :: l) = l := by
  simp [removeById, h]

/-! ### coverage -/

theorem covered_of_mem {c : Ctx} {l : List Ctx} (h : c ∈ l) : covered c l = true := by
  simp [covered, h]

theorem covered_iff (c : Ctx) (l : List Ctx) :
    covered c l = true ↔ c ∈ l ∨ (c.group ≠ 0 ∧ ∃ d ∈ l, d.group = c.group) := by
  simp [covered]

/-- If every element of `l` is covered by `l'`, whatever `l` covers `l'` covers. -/
theorem covered_trans {c : Ctx} {l l' : List Ctx} (h : covered c l = true)
    (hl : ∀ x ∈ l, covered x l' = true) : covered c l' = true := by
  rw [covered_iff] at h
  rcases h with h | ⟨hg, d, hd, hdg⟩
  · exact hl c h
  · have := hl d hd
    rw [covered_iff] at this ⊢
    rcases this with h' | ⟨_, e, he, heg⟩
    · exact Or.inr ⟨hg, d, h', hdg⟩
    · exact Or.inr ⟨hg, e, he, by rw [heg, hdg]⟩

theorem covered_mono {c : Ctx} {l l' : List Ctx} (h : covered c l = true) (hs : ∀ x ∈ l, x ∈ l') :
    covered c l' = true :=
  covered_trans h (fun x hx => covered_of_mem (hs x hx))

/-- Group compaction never loses a context: a left-out context is covered by the surviving last
context of its group run. -/
theorem compact_covers (l : List Ctx) : ∀ c ∈ l, covered c (compact l) = true := by
  induction l using compact.induct with
  | case1 => simp
  | case2 c => simp [compact, covered]
  | case3 c d rest h ih =>
    intro x hx
    rw [compact, if_pos h]
    rcases List.mem_cons.mp hx with rfl | hx
    · obtain ⟨y, ys, hy, hg⟩ := compact_head_group d rest
      rw [covered_iff]
      exact Or.inr ⟨h.1, y, by rw [hy]; simp, by rw [hg, h.2]⟩
    · exact ih x hx
  | case4 c d rest h ih =>
    intro x hx
    rw [compact, if_neg h]
    rcases List.mem_cons.mp hx with rfl | hx
    · exact covered_of_mem (by simp)
    · exact covered_mono (ih x hx) (fun y hy => by simp [hy])

/-! ### the non-allow-failure contexts of a queue -/

theorem pendingNF_cons (t : Task) (l : List Task) :
    pendingNF (t :: l) = (if t.allowFailure then [] else t.ctxs) ++ pendingNF l := by
  unfold pendingNF
  rw [List.filter_cons]
  cases t.allowFailure <;> simp

theorem pendingNF_append (a b : List Task) : pendingNF (a ++ b) = pendingNF a ++ pendingNF b := by
  simp [pendingNF, List.filter_append]

theorem pendingNF_all_af (l : List Task) (h : ∀ x ∈ l, x.allowFailure = true) : pendingNF l = [] := by
  induction l with
  | nil => rfl
  | cons a as ih =>
    rw [pendingNF_cons, h a (by simp), ih (fun x hx => h x (by simp [hx]))]
    simp

theorem pendingNF_none_af (l : List Task) (h : ∀ x ∈ l, x.allowFailure = false) :
    pendingNF l = l.flatMap (·.ctxs) := by
  induction l with
  | nil => rfl
  | cons a as ih =>
    rw [pendingNF_cons, h a (by simp), ih (fun x hx => h x (by simp [hx]))]
    simp

/-- The stop-combine predicate never lets a task with another `allowFailure` through. -/
def StopsOnAfChange (stopOf : Task → Option (Task → Bool)) : Prop :=
  ∀ t tsk : Task, tsk.allowFailure ≠ t.allowFailure → ∃ f, stopOf t = some f ∧ f tsk = true

theorem stopsOnAfChange_repaired : StopsOnAfChange stopOnAllowFailureChange := by
  intro t tsk h
  exact ⟨_, rfl, by simpa using h⟩

theorem stopsOnAfChange_withSkippedSync : StopsOnAfChange stopOnAllowFailureChangeOrSkippedSync := by
  intro t tsk h
  refine ⟨_, rfl, ?_⟩
  have : (tsk.allowFailure != t.allowFailure) = true := by simpa using h
  simp [this]

/-- With such a predicate every merged task has the head task's `allowFailure`. -/
theorem merged_same_af (stopOf : Task → Option (Task → Bool)) (hst : StopsOnAfChange stopOf)
    (t : Task) (rest : List Task) :
    ∀ o ∈ merged t (stopOf t) rest, o.allowFailure = t.allowFailure := by
  intro o ho
  have hc := (takeWhile_mem ho).2
  by_cases h : o.allowFailure = t.allowFailure
  · exact h
  · obtain ⟨f, hf, hfo⟩ := hst t o h
    simp [combinable, hf, hfo] at hc

end ShellOp.Retry
