import ShellOp.Model.Startup
/-! Helper lemmas for C06: the stable sort, the worker machine (fuel addition, the log only grows),
retry-until-success of a settled head task, the onStartup phase. -/
namespace ShellOp.Startup

/-! ## Stable sort by ORDER of a path-sorted list = sort by (ORDER, path) -/

/-- ascending ORDER, alphabetically (path rank) among equal ORDER -/
def KeyLt (a b : Hook) : Prop :=
  orderOf a < orderOf b ∨ (orderOf a = orderOf b ∧ a.name < b.name)

theorem insertByOrder_perm (a : Hook) : (l : List Hook) → (insertByOrder a l).Perm (a :: l)
  | [] => List.Perm.refl _
  | b :: l => by
    simp only [insertByOrder]; split
    · exact List.Perm.refl _
    · exact ((insertByOrder_perm a l).cons b).trans (List.Perm.swap a b l)

theorem stableSortByOrder_perm : (l : List Hook) → (stableSortByOrder l).Perm l
  | [] => List.Perm.refl _
  | a :: l => (insertByOrder_perm a _).trans ((stableSortByOrder_perm l).cons a)

theorem insertByOrder_sorted (a : Hook) : (l : List Hook) → (∀ x ∈ l, a.name < x.name) →
    l.Pairwise KeyLt → (insertByOrder a l).Pairwise KeyLt
  | [], _, _ => by simp [insertByOrder]
  | b :: l, hn, hs => by
    simp only [insertByOrder]; split
    · rename_i hab
      refine List.Pairwise.cons ?_ hs
      intro x hx
      have hbx : orderOf b ≤ orderOf x := by
        rcases List.mem_cons.mp hx with rfl | hx
        · exact Int.le_refl _
        · rcases List.rel_of_pairwise_cons hs hx with h | h
          · exact Int.le_of_lt h
          · exact Int.le_of_eq h.1
      have hax : orderOf a ≤ orderOf x := Int.le_trans hab hbx
      rcases Int.lt_or_eq_of_le hax with h | h
      · exact Or.inl h
      · exact Or.inr ⟨h, hn x hx⟩
    · rename_i hab
      have hba : orderOf b < orderOf a := Int.not_le.mp hab
      refine List.Pairwise.cons ?_ (insertByOrder_sorted a l (fun x hx => hn x (List.mem_cons_of_mem _ hx))
        (List.Pairwise.of_cons hs))
      intro x hx
      rcases List.mem_cons.mp ((insertByOrder_perm a l).mem_iff.mp hx) with rfl | hx
      · exact Or.inl hba
      · exact List.rel_of_pairwise_cons hs hx

theorem stableSortByOrder_sorted : (l : List Hook) → l.Pairwise (fun a b => a.name < b.name) →
    (stableSortByOrder l).Pairwise KeyLt
  | [], _ => List.Pairwise.nil
  | a :: l, h => by
    simp only [stableSortByOrder]
    refine insertByOrder_sorted a _ ?_ (stableSortByOrder_sorted l (List.Pairwise.of_cons h))
    intro x hx
    exact List.rel_of_pairwise_cons h ((stableSortByOrder_perm l).mem_iff.mp hx)

/-- sorting a sorted list again changes nothing (GetHooksInOrder sorts the stored slice in place on
every call) -/
theorem insertByOrder_of_le (a : Hook) : (l : List Hook) → (∀ x ∈ l, orderOf a ≤ orderOf x) →
    insertByOrder a l = a :: l
  | [], _ => rfl
  | b :: l, h => by simp [insertByOrder, h b (List.mem_cons_self ..)]

theorem stableSortByOrder_idem : (l : List Hook) → l.Pairwise (fun a b => orderOf a ≤ orderOf b) →
    stableSortByOrder l = l
  | [], _ => rfl
  | a :: l, h => by
    simp only [stableSortByOrder, stableSortByOrder_idem l (List.Pairwise.of_cons h)]
    exact insertByOrder_of_le a l (fun x hx => List.rel_of_pairwise_cons h hx)

/-! ## The worker machine -/

theorem runFuel_add (stop : Bool) (hooks : List Hook) : (a b : Nat) → (s : St) →
    runFuel stop hooks (a + b) s = runFuel stop hooks b (runFuel stop hooks a s)
  | 0, b, s => by simp [runFuel]
  | a + 1, b, s => by
    have : a + 1 + b = (a + b) + 1 := by omega
    rw [this]; simp only [runFuel]; exact runFuel_add stop hooks a b _

theorem step_log_prefix (stop : Bool) (hooks : List Hook) (s : St) : s.log <+: (step stop hooks s).log := by
  unfold step
  split
  · exact List.prefix_refl _
  · split
    · exact List.prefix_append _ _
    · split
      · exact List.prefix_append _ _
      · exact List.prefix_append _ _
    · split
      · exact List.prefix_append _ _
      · split
        · exact List.prefix_append _ _
        · simp only [List.append_assoc]; exact List.prefix_append _ _
        · simp only [List.append_assoc]; exact List.prefix_append _ _

theorem runFuel_log_prefix (stop : Bool) (hooks : List Hook) : (n : Nat) → (s : St) →
    s.log <+: (runFuel stop hooks n s).log
  | 0, s => List.prefix_refl _
  | n + 1, s => (step_log_prefix stop hooks s).trans (runFuel_log_prefix stop hooks n _)

theorem runFuel_one (stop : Bool) (hooks : List Hook) (s : St) :
    runFuel stop hooks 1 s = step stop hooks s := rfl

/-- an empty queue is final -/
theorem runFuel_nil (stop : Bool) (hooks : List Hook) : (n : Nat) → (s : St) → s.queue = [] →
    runFuel stop hooks n s = s
  | 0, _, _ => rfl
  | n + 1, s, h => by
    have : step stop hooks s = s := by unfold step; rw [h]
    simp only [runFuel, this]; exact runFuel_nil stop hooks n s h

/-! ## Retry until success -/

def leadingFails : List Bool → Nat
  | true :: l => leadingFails l + 1
  | _ => 0

def setFails (f : Nat → List Bool) (h : Nat) (v : List Bool) : Nat → List Bool :=
  fun x => if x == h then v else f x

/-- the v0 rule is in `taskHandleHookRun` (a tree without it breaks every proof below) -/
theorem v0RuleFact_true : v0RuleFact = true := rfl

/-- what a task that is retried until it succeeds writes to the log -/
def retryLog (t : Task) (script : List Bool) : List Ev :=
  List.replicate (leadingFails script) (.exec t.hook true t.ctxs) ++ [.exec t.hook false t.ctxs] ++
    (if t.isSync then [.unlock t.mons] else [])

theorem St.ext' (a b : St) (h1 : a.queue = b.queue) (h2 : a.fails = b.fails) (h3 : a.log = b.log) : a = b := by
  cases a; cases b; simp_all

theorem setFails_same (f : Nat → List Bool) (h : Nat) : setFails f h (f h) = f := by
  funext x; simp only [setFails]; split
  · rename_i hx; rw [beq_iff_eq.mp hx]
  · rfl

theorem setFails_setFails (f : Nat → List Bool) (h : Nat) (a b : List Bool) :
    setFails (setFails f h a) h b = setFails f h b := by
  funext x; simp only [setFails]; split <;> rfl

/-- one worker iteration on a runnable HookRun head, by the head of the hook's failure script -/
theorem step_hookRun (stop : Bool) (hooks : List Hook) (t t' : Task) (rest rest' : List Task) (s : St)
    (hq : s.queue = t :: rest) (ht : t.typ = .hookRun)
    (hp : prepare stop hooks t rest = (true, t', rest')) :
    step stop hooks s =
      match s.fails t'.hook with
      | true :: more => { queue := t' :: rest', fails := setFails s.fails t'.hook more,
                          log := s.log ++ [.exec t'.hook true t'.ctxs] }
      | script => { queue := rest', fails := setFails s.fails t'.hook (script.drop 1),
                    log := s.log ++ [.exec t'.hook false t'.ctxs] ++ (if t'.isSync then [.unlock t'.mons] else []) } := by
  unfold step
  rw [hq]
  simp only [ht, hp]
  rcases hs : s.fails t'.hook with _ | ⟨b, more⟩
  · simp only [List.drop_nil]
    apply St.ext' <;> simp
    rw [← hs, setFails_same]
  · cases b
    · simp only [List.drop_succ_cons, List.drop_zero]; rfl
    · rfl

/-- a settled head task (preparing it again changes nothing) is retried until it succeeds -/
theorem run_retry_settled (stop : Bool) (hooks : List Hook) (t : Task) (rest : List Task)
    (ht : t.typ = .hookRun) (hp : prepare stop hooks t rest = (true, t, rest)) :
    ∀ (script : List Bool) (s : St), s.queue = t :: rest → s.fails t.hook = script →
      runFuel stop hooks (leadingFails script + 1) s =
        { queue := rest, fails := setFails s.fails t.hook (script.drop (leadingFails script + 1)),
          log := s.log ++ retryLog t script } := by
  intro script
  induction script with
  | nil =>
    intro s hq hs
    simp only [leadingFails, runFuel, step_hookRun stop hooks t t rest rest s hq ht hp, hs, retryLog,
      List.replicate, List.nil_append, List.drop_nil, List.append_assoc]
  | cons b more ih =>
    intro s hq hs
    cases b
    · simp only [leadingFails, runFuel, step_hookRun stop hooks t t rest rest s hq ht hp, hs, retryLog,
        List.replicate, List.nil_append, List.append_assoc]
    · simp only [leadingFails]
      rw [show leadingFails more + 1 + 1 = 1 + (leadingFails more + 1) by omega, runFuel_add, runFuel_one]
      rw [step_hookRun stop hooks t t rest rest s hq ht hp, hs]
      simp only
      rw [ih _ rfl (by simp [setFails])]
      apply St.ext'
      · rfl
      · simp only [setFails_setFails]
        rw [show 1 + (leadingFails more + 1) = (leadingFails more + 1) + 1 by omega, List.drop_succ_cons]
      · simp only [retryLog, leadingFails, List.replicate_succ, List.append_assoc, List.cons_append, List.nil_append]

/-- a runnable head task: prepared (combined) once, then retried until it succeeds -/
theorem run_retry (stop : Bool) (hooks : List Hook) (t t' : Task) (rest rest' : List Task)
    (ht : t.typ = .hookRun) (ht' : t'.typ = .hookRun)
    (hp : prepare stop hooks t rest = (true, t', rest'))
    (hp' : prepare stop hooks t' rest' = (true, t', rest'))
    (script : List Bool) (s : St) (hq : s.queue = t :: rest) (hs : s.fails t'.hook = script) :
    runFuel stop hooks (leadingFails script + 1) s =
      { queue := rest', fails := setFails s.fails t'.hook (script.drop (leadingFails script + 1)),
        log := s.log ++ retryLog t' script } := by
  rcases script with _ | ⟨b, more⟩
  · simp only [leadingFails, runFuel, step_hookRun stop hooks t t' rest rest' s hq ht hp, hs, retryLog,
      List.replicate, List.nil_append, List.drop_nil, List.append_assoc]
  · cases b
    · simp only [leadingFails, runFuel, step_hookRun stop hooks t t' rest rest' s hq ht hp, hs, retryLog,
        List.replicate, List.nil_append, List.append_assoc]
    · simp only [leadingFails]
      rw [show leadingFails more + 1 + 1 = 1 + (leadingFails more + 1) by omega, runFuel_add, runFuel_one]
      rw [step_hookRun stop hooks t t' rest rest' s hq ht hp, hs]
      simp only
      rw [run_retry_settled stop hooks t' rest' ht' hp' more _ rfl (by simp [setFails])]
      apply St.ext'
      · rfl
      · simp only [setFails_setFails]
        rw [show 1 + (leadingFails more + 1) = (leadingFails more + 1) + 1 by omega, List.drop_succ_cons]
      · simp only [retryLog, leadingFails, List.replicate_succ, List.append_assoc, List.cons_append, List.nil_append]

/-! ## Preparing a head task whose follower cannot be combined -/

/-- the task behind the head is of another hook, of another type, or a Synchronization that stops combining -/
def HeadNotCombinable (stop : Bool) (t : Task) : List Task → Prop
  | [] => True
  | r :: _ => combinable stop t r = false

theorem combine_none (stop : Bool) (t : Task) (rest : List Task) (h : HeadNotCombinable stop t rest) :
    combine stop t rest = none := by
  cases rest with
  | nil => simp [combine]
  | cons r rs =>
    have h' : combinable stop t r = false := h
    simp [combine, List.takeWhile, h']

theorem prepare_no_combine (stop : Bool) (hooks : List Hook) (t : Task) (rest : List Task)
    (h : HeadNotCombinable stop t rest) :
    prepare stop hooks t rest =
      (!(t.isSync && (!(findHook hooks t.hook).v1 || !t.execSync)), t, rest) := by
  unfold prepare
  simp only [v0RuleFact_true, Bool.true_and]
  simp only [combine_none stop t rest h]
  split
  · split <;> rfl
  · rfl

theorem startupTask_isSync (h : Hook) : (startupTask h).isSync = false := rfl

/-! ## The onStartup phase -/

theorem flatMap_congr' {α β : Type} (f g : α → List β) : (l : List α) → (∀ x ∈ l, f x = g x) →
    l.flatMap f = l.flatMap g
  | [], _ => rfl
  | a :: l, h => by
    simp only [List.flatMap_cons, h a (List.mem_cons_self ..),
      flatMap_congr' f g l (fun x hx => h x (List.mem_cons_of_mem _ hx))]

theorem run_startup_phase (stop : Bool) (hooks : List Hook) (Q : List Task)
    (hQ : ∀ q, Q.head? = some q → q.typ ≠ .hookRun) :
    ∀ (L : List Hook), (L.map (·.name)).Nodup → ∀ (fails : Nat → List Bool) (log : List Ev),
      ∃ n fails', runFuel stop hooks n { queue := L.map startupTask ++ Q, fails := fails, log := log } =
          { queue := Q, fails := fails',
            log := log ++ L.flatMap (fun h => retryLog (startupTask h) (fails h.name)) } ∧
        ∀ x, x ∉ L.map (·.name) → fails' x = fails x := by
  intro L
  induction L with
  | nil => intro _ fails log; exact ⟨0, fails, by simp [runFuel], fun _ _ => rfl⟩
  | cons h L ih =>
    intro hnd fails log
    have hnd' : (L.map (·.name)).Nodup := (List.nodup_cons.mp hnd).2
    have hnot : h.name ∉ L.map (·.name) := (List.nodup_cons.mp hnd).1
    let t := startupTask h
    let rest := L.map startupTask ++ Q
    have hhead : HeadNotCombinable stop t rest := by
      cases L with
      | nil =>
        cases hq : Q with
        | nil => simp [rest, hq, HeadNotCombinable]
        | cons q qs =>
          have : q.typ ≠ .hookRun := hQ q (by simp [hq])
          simp only [rest, hq, List.map_nil, List.nil_append, HeadNotCombinable, combinable, t, startupTask]
          cases hqt : q.typ <;> simp_all
      | cons h2 L2 =>
        have : h2.name ≠ h.name := by
          intro e; apply hnot; simp [e]
        simp [rest, HeadNotCombinable, combinable, t, startupTask, this]
    have hp : prepare stop hooks t rest = (true, t, rest) := by
      rw [prepare_no_combine stop hooks t rest hhead]; simp [t, startupTask_isSync]
    have hrun := run_retry_settled stop hooks t rest rfl hp (fails h.name)
      { queue := t :: rest, fails := fails, log := log } rfl rfl
    obtain ⟨n, fails', hn, hf⟩ := ih hnd'
      (setFails fails h.name ((fails h.name).drop (leadingFails (fails h.name) + 1)))
      (log ++ retryLog t (fails h.name))
    refine ⟨(leadingFails (fails h.name) + 1) + n, fails', ?_, ?_⟩
    · rw [runFuel_add]
      have hq0 : ({ queue := (h :: L).map startupTask ++ Q, fails := fails, log := log } : St) =
          { queue := t :: rest, fails := fails, log := log } := rfl
      rw [hq0, hrun]
      have hn' : runFuel stop hooks n
          { queue := rest, fails := setFails fails t.hook (List.drop (leadingFails (fails h.name) + 1) (fails h.name)),
            log := log ++ retryLog t (fails h.name) } = _ := hn
      rw [hn']
      apply St.ext'
      · rfl
      · rfl
      · simp only [List.flatMap_cons, List.append_assoc]
        congr 2
        apply flatMap_congr'
        intro x hx
        have : x.name ≠ h.name := by
          intro e; apply hnot; exact List.mem_map.mpr ⟨x, hx, e⟩
        simp [setFails, this]
    · intro x hx
      have hx1 : x ≠ h.name := by intro e; apply hx; simp [e]
      have hx2 : x ∉ L.map (·.name) := by intro e; apply hx; simp at e ⊢; right; exact e
      rw [hf x hx2]; simp [setFails, hx1]

/-! ## The Synchronization phase of one hook -/

def ctxOf (b : KBinding) : Ctx := .sync b.name b.group

/-- a follower is merged into a runnable grouped head unless the stop condition holds for it -/
def mergeable (stop : Bool) (b : KBinding) : Bool := !(stop && !b.execSync)

/-- the task a runnable grouped head becomes after combining with `others` -/
def mergedTask (h : Nat) (b : KBinding) (others : List KBinding) : Task :=
  { typ := .hookRun, hook := h, ctxs := compact (ctxOf b :: others.map ctxOf),
    mons := b.name :: others.map (·.name), execSync := b.execSync, group := b.group }

/-- what the main queue does with the Synchronization tasks of one hook, in one piece: the log it
writes and what is left of the hook's failure script -/
def syncPlan (stop : Bool) (h : Hook) (script : List Bool) (bs : List KBinding) : List Ev × List Bool :=
  match bs with
  | [] => ([], script)
  | b :: bs' =>
    if !(h.v1 && b.execSync) then
      let r := syncPlan stop h script bs'
      ([.skip h.name [ctxOf b], .unlock [b.name]] ++ r.1, r.2)
    else if b.group == 0 then
      let r := syncPlan stop h (script.drop (leadingFails script + 1)) bs'
      (retryLog (syncTask h.name b) script ++ r.1, r.2)
    else
      let r := syncPlan stop h (script.drop (leadingFails script + 1)) (bs'.dropWhile (mergeable stop))
      (retryLog (mergedTask h.name b (bs'.takeWhile (mergeable stop))) script ++ r.1, r.2)
termination_by bs.length
decreasing_by
  all_goals simp_wf
  all_goals
    have := (List.dropWhile_sublist (l := bs') (mergeable stop)).length_le
    omega

theorem compact_subset : (l : List Ctx) → ∀ c ∈ compact l, c ∈ l
  | [], c, h => by simp [compact] at h
  | [a], c, h => by simpa [compact] using h
  | a :: b :: rest, c, h => by
    simp only [compact] at h
    split at h
    · exact List.mem_cons_of_mem _ (compact_subset (b :: rest) c h)
    · rcases List.mem_cons.mp h with rfl | h
      · exact List.mem_cons_self ..
      · exact List.mem_cons_of_mem _ (compact_subset (b :: rest) c h)

theorem compact_ne_nil : (l : List Ctx) → l ≠ [] → compact l ≠ []
  | [], h => (h rfl).elim
  | [a], _ => by simp [compact]
  | a :: b :: rest, _ => by
    simp only [compact]
    split
    · exact compact_ne_nil (b :: rest) (by simp)
    · simp

theorem mergedTask_isSync (h : Nat) (b : KBinding) (others : List KBinding) :
    (mergedTask h b others).isSync = true := by
  have hne := compact_ne_nil (ctxOf b :: others.map ctxOf) (by simp)
  have hsub := compact_subset (ctxOf b :: others.map ctxOf)
  simp only [Task.isSync, mergedTask]
  rcases hc : compact (ctxOf b :: others.map ctxOf) with _ | ⟨c, cs⟩
  · exact (hne hc).elim
  · have hm := hsub c (by rw [hc]; exact List.mem_cons_self ..)
    rcases List.mem_cons.mp hm with rfl | hm
    · rfl
    · obtain ⟨b', _, rfl⟩ := List.mem_map.mp hm; rfl

theorem combinable_syncTask (stop : Bool) (t : Task) (h : Nat) (b : KBinding)
    (ht : t.hook = h) (htt : t.typ = .hookRun) :
    combinable stop t (syncTask h b) = mergeable stop b := by
  simp [combinable, syncTask, ht, htt, mergeable, Task.isSync, Ctx.isSync]

theorem takeWhile_sync (stop : Bool) (t : Task) (h : Nat) (ht : t.hook = h) (htt : t.typ = .hookRun)
    (Q : List Task) (hQ : ∀ q, Q.head? = some q → q.typ ≠ .hookRun) : (bs : List KBinding) →
    (bs.map (syncTask h) ++ Q).takeWhile (combinable stop t) = (bs.takeWhile (mergeable stop)).map (syncTask h) ∧
    (bs.map (syncTask h) ++ Q).dropWhile (combinable stop t) = (bs.dropWhile (mergeable stop)).map (syncTask h) ++ Q
  | [] => by
    cases hq : Q with
    | nil => simp
    | cons q qs =>
      have : q.typ ≠ .hookRun := hQ q (by simp [hq])
      have hc : combinable stop t q = false := by
        simp only [combinable, htt]; cases hqt : q.typ <;> simp_all
      simp [List.takeWhile, List.dropWhile, hc]
  | b :: bs => by
    have ih := takeWhile_sync stop t h ht htt Q hQ bs
    simp only [List.map_cons, List.cons_append, List.takeWhile_cons, List.dropWhile_cons,
      combinable_syncTask stop t h b ht htt]
    cases hm : mergeable stop b
    · simp
    · simp [ih.1, ih.2]

theorem step_skip (stop : Bool) (hooks : List Hook) (t t' : Task) (rest rest' : List Task) (s : St)
    (hq : s.queue = t :: rest) (ht : t.typ = .hookRun)
    (hp : prepare stop hooks t rest = (false, t', rest')) :
    step stop hooks s = { s with queue := rest', log := s.log ++ [.skip t'.hook t'.ctxs, .unlock t'.mons] } := by
  unfold step
  rw [hq]
  simp only [ht, hp]

theorem flatMap_sync_ctxs (h : Nat) (bs : List KBinding) :
    (bs.map (syncTask h)).flatMap (·.ctxs) = bs.map ctxOf := by
  induction bs with
  | nil => rfl
  | cons b bs ih => simp [List.flatMap_cons, syncTask, ctxOf, ih]

theorem flatMap_sync_mons (h : Nat) (bs : List KBinding) :
    (bs.map (syncTask h)).flatMap (·.mons) = bs.map (·.name) := by
  induction bs with
  | nil => rfl
  | cons b bs ih => simp [List.flatMap_cons, syncTask, ih]

theorem dropWhile_head_false {α : Type} (p : α → Bool) : (l : List α) → (a : α) → (m : List α) →
    l.dropWhile p = a :: m → p a = false
  | [], _, _, h => by simp at h
  | x :: l, a, m, h => by
    simp only [List.dropWhile_cons] at h
    split at h
    · exact dropWhile_head_false p l a m h
    · rename_i hx
      injection h with h1 _
      subst h1
      simpa using hx

theorem headNotCombinable_drop (stop : Bool) (t : Task) (h : Nat) (ht : t.hook = h) (htt : t.typ = .hookRun)
    (Q : List Task) (hQ : ∀ q, Q.head? = some q → q.typ ≠ .hookRun) (bs : List KBinding) :
    HeadNotCombinable stop t ((bs.dropWhile (mergeable stop)).map (syncTask h) ++ Q) := by
  rcases hd : bs.dropWhile (mergeable stop) with _ | ⟨b', more⟩
  · cases hq : Q with
    | nil => simp [HeadNotCombinable]
    | cons q qs =>
      have : q.typ ≠ .hookRun := hQ q (by simp [hq])
      simp only [List.map_nil, List.nil_append, HeadNotCombinable, combinable, htt]
      cases hqt : q.typ <;> simp_all
  · have hb' : mergeable stop b' = false := dropWhile_head_false (mergeable stop) bs b' more hd
    simp [HeadNotCombinable, combinable_syncTask stop t h b' ht htt, hb']

/-- the grouped runnable head: what `prepare` makes of it -/
theorem prepare_grouped (stop : Bool) (hooks : List Hook) (h : Hook) (hfind : findHook hooks h.name = h)
    (b : KBinding) (bs : List KBinding) (Q : List Task) (hQ : ∀ q, Q.head? = some q → q.typ ≠ .hookRun)
    (hv : h.v1 = true) (he : b.execSync = true) (hg : b.group ≠ 0) :
    prepare stop hooks (syncTask h.name b) (bs.map (syncTask h.name) ++ Q) =
      (true, mergedTask h.name b (bs.takeWhile (mergeable stop)),
        (bs.dropWhile (mergeable stop)).map (syncTask h.name) ++ Q) := by
  have htw := takeWhile_sync stop (syncTask h.name b) h.name rfl rfl Q hQ bs
  unfold prepare
  simp only [v0RuleFact_true, Bool.true_and]
  have hs : (syncTask h.name b).isSync = true := rfl
  simp only [hs, show findHook hooks (syncTask h.name b).hook = h from hfind, hv,
    show (syncTask h.name b).execSync = true from he,
    show (syncTask h.name b).group = b.group from rfl, Bool.not_true, Bool.or_false, Bool.and_false,
    Bool.not_false, Bool.and_self, if_true, Bool.true_and]
  have hg' : (b.group == 0) = false := by simp [hg]
  simp only [hg', Bool.not_false, if_true]
  unfold combine
  simp only [htw.1, htw.2]
  rcases hot : bs.takeWhile (mergeable stop) with _ | ⟨o, os⟩
  · -- nothing to merge: the head stays as it is
    have hdrop : bs.dropWhile (mergeable stop) = bs := by
      have := List.takeWhile_append_dropWhile (p := mergeable stop) (l := bs)
      rw [hot] at this; simpa using this
    simp [hdrop, mergedTask, syncTask, ctxOf, compact]
  · simp only [List.map_cons, List.isEmpty_cons, Bool.false_eq_true, if_false]
    congr 2
    simp only [mergedTask, syncTask, ctxOf]
    have h1 := flatMap_sync_ctxs h.name (o :: os)
    have h2 := flatMap_sync_mons h.name (o :: os)
    simp only [List.map_cons] at h1 h2
    simp only [syncTask] at h1 h2
    rw [h1, h2]
    simp [ctxOf]

theorem prepare_merged_settled (stop : Bool) (hooks : List Hook) (h : Hook) (hfind : findHook hooks h.name = h)
    (b : KBinding) (bs : List KBinding) (Q : List Task) (hQ : ∀ q, Q.head? = some q → q.typ ≠ .hookRun)
    (hv : h.v1 = true) (he : b.execSync = true) :
    prepare stop hooks (mergedTask h.name b (bs.takeWhile (mergeable stop)))
        ((bs.dropWhile (mergeable stop)).map (syncTask h.name) ++ Q) =
      (true, mergedTask h.name b (bs.takeWhile (mergeable stop)),
        (bs.dropWhile (mergeable stop)).map (syncTask h.name) ++ Q) := by
  rw [prepare_no_combine stop hooks _ _
    (headNotCombinable_drop stop _ h.name rfl rfl Q hQ bs)]
  simp [mergedTask_isSync, show (mergedTask h.name b (bs.takeWhile (mergeable stop))).hook = h.name from rfl,
    hfind, hv, show (mergedTask h.name b (bs.takeWhile (mergeable stop))).execSync = b.execSync from rfl, he]

/-- **The Synchronization phase refines `syncPlan`.** -/
theorem run_sync_phase (stop : Bool) (hooks : List Hook) (h : Hook) (hfind : findHook hooks h.name = h)
    (Q : List Task) (hQ : ∀ q, Q.head? = some q → q.typ ≠ .hookRun) :
    ∀ (n : Nat) (bs : List KBinding), bs.length ≤ n → ∀ (fails : Nat → List Bool) (log : List Ev),
      ∃ k, runFuel stop hooks k { queue := bs.map (syncTask h.name) ++ Q, fails := fails, log := log } =
        { queue := Q, fails := setFails fails h.name (syncPlan stop h (fails h.name) bs).2,
          log := log ++ (syncPlan stop h (fails h.name) bs).1 } := by
  intro n
  induction n with
  | zero =>
    intro bs hlen fails log
    have : bs = [] := List.length_eq_zero_iff.mp (Nat.le_zero.mp hlen)
    subst this
    refine ⟨0, ?_⟩
    rw [syncPlan]
    simp only [runFuel, List.map_nil, List.nil_append, List.append_nil]
    apply St.ext' <;> simp [setFails_same]
  | succ n ih =>
    intro bs hlen fails log
    rcases bs with _ | ⟨b, bs⟩
    · refine ⟨0, ?_⟩
      rw [syncPlan]
      simp only [runFuel, List.map_nil, List.nil_append, List.append_nil]
      apply St.ext' <;> simp [setFails_same]
    · have hlen' : bs.length ≤ n := by simp at hlen; omega
      rw [syncPlan]
      by_cases hrun : (h.v1 && b.execSync) = true
      · have hv : h.v1 = true := by simp at hrun; exact hrun.1
        have he : b.execSync = true := by simp at hrun; exact hrun.2
        simp only [hrun, Bool.not_true, Bool.false_eq_true, if_false]
        by_cases hg : b.group = 0
        · -- ungrouped: never combined, retried alone
          simp only [hg, beq_self_eq_true, if_true]
          let t := syncTask h.name b
          let rest := bs.map (syncTask h.name) ++ Q
          have hp : prepare stop hooks t rest = (true, t, rest) := by
            unfold prepare
            simp only [v0RuleFact_true, Bool.true_and]
            have hs : t.isSync = true := rfl
            simp [hs, show t.hook = h.name from rfl, hfind, hv, show t.execSync = b.execSync from rfl, he,
              show t.group = b.group from rfl, hg]
          have hr := run_retry_settled stop hooks t rest rfl hp (fails h.name)
            { queue := t :: rest, fails := fails, log := log } rfl rfl
          obtain ⟨k, hk⟩ := ih bs hlen'
            (setFails fails h.name ((fails h.name).drop (leadingFails (fails h.name) + 1)))
            (log ++ retryLog t (fails h.name))
          refine ⟨(leadingFails (fails h.name) + 1) + k, ?_⟩
          rw [runFuel_add]
          have hq0 : ({ queue := (b :: bs).map (syncTask h.name) ++ Q, fails := fails, log := log } : St) =
              { queue := t :: rest, fails := fails, log := log } := rfl
          rw [hq0, hr]
          have hk' : runFuel stop hooks k
              { queue := rest, fails := setFails fails t.hook (List.drop (leadingFails (fails h.name) + 1) (fails h.name)),
                log := log ++ retryLog t (fails h.name) } = _ := hk
          rw [hk']
          apply St.ext'
          · rfl
          · simp [setFails_setFails, setFails]
          · simp [setFails, List.append_assoc, t]
        · -- grouped: combined with the mergeable followers, then retried
          have hg' : (b.group == 0) = false := by simp [hg]
          simp only [hg', Bool.false_eq_true, if_false]
          let t := syncTask h.name b
          let t' := mergedTask h.name b (bs.takeWhile (mergeable stop))
          let rest := bs.map (syncTask h.name) ++ Q
          let rest' := (bs.dropWhile (mergeable stop)).map (syncTask h.name) ++ Q
          have hp : prepare stop hooks t rest = (true, t', rest') :=
            prepare_grouped stop hooks h hfind b bs Q hQ hv he hg
          have hp' : prepare stop hooks t' rest' = (true, t', rest') :=
            prepare_merged_settled stop hooks h hfind b bs Q hQ hv he
          have hr := run_retry stop hooks t t' rest rest' rfl rfl hp hp' (fails h.name)
            { queue := t :: rest, fails := fails, log := log } rfl rfl
          have hlen'' : (bs.dropWhile (mergeable stop)).length ≤ n :=
            Nat.le_trans (List.dropWhile_sublist (l := bs) (mergeable stop)).length_le hlen'
          obtain ⟨k, hk⟩ := ih (bs.dropWhile (mergeable stop)) hlen''
            (setFails fails h.name ((fails h.name).drop (leadingFails (fails h.name) + 1)))
            (log ++ retryLog t' (fails h.name))
          refine ⟨(leadingFails (fails h.name) + 1) + k, ?_⟩
          rw [runFuel_add]
          have hq0 : ({ queue := (b :: bs).map (syncTask h.name) ++ Q, fails := fails, log := log } : St) =
              { queue := t :: rest, fails := fails, log := log } := rfl
          rw [hq0, hr]
          have hk' : runFuel stop hooks k
              { queue := rest', fails := setFails fails t'.hook (List.drop (leadingFails (fails h.name) + 1) (fails h.name)),
                log := log ++ retryLog t' (fails h.name) } = _ := hk
          rw [hk']
          apply St.ext'
          · rfl
          · simp [setFails_setFails, setFails]
          · simp [setFails, List.append_assoc, t']
      · -- skipped: v0 hook or executeHookOnSynchronization=false
        have hrun' : (h.v1 && b.execSync) = false := by simpa using hrun
        simp only [hrun', Bool.not_false, if_true]
        let t := syncTask h.name b
        let rest := bs.map (syncTask h.name) ++ Q
        have hp : prepare stop hooks t rest = (false, t, rest) := by
          unfold prepare
          simp only [v0RuleFact_true, Bool.true_and]
          have hs : t.isSync = true := rfl
          have hx : (!(true && (!h.v1 || !b.execSync))) = false := by
            cases hv : h.v1 <;> cases he : b.execSync <;> simp_all
          simp only [hs, show t.hook = h.name from rfl, hfind, show t.execSync = b.execSync from rfl, hx,
            Bool.false_and, Bool.false_eq_true, if_false]
        obtain ⟨k, hk⟩ := ih bs hlen' fails (log ++ [.skip t.hook t.ctxs, .unlock t.mons])
        refine ⟨1 + k, ?_⟩
        rw [runFuel_add, runFuel_one]
        have hq0 : ({ queue := (b :: bs).map (syncTask h.name) ++ Q, fails := fails, log := log } : St) =
            { queue := t :: rest, fails := fails, log := log } := rfl
        rw [hq0, step_skip stop hooks t t rest rest _ rfl rfl hp]
        have hk' : runFuel stop hooks k
            { queue := rest, fails := fails, log := log ++ [.skip t.hook t.ctxs, .unlock t.mons] } = _ := hk
        rw [hk']
        apply St.ext'
        · rfl
        · rfl
        · simp [List.append_assoc, t, syncTask, ctxOf]

/-! ## Enabling the hooks one after the other -/

/-- the failed attempts of a hook's `EnableKubernetesBindings` task: the entries of its fault sequence up to
the first one that names no binding (such an attempt succeeds) -/
def enableFailLog (h : Hook) : List Ev :=
  (h.kfail.takeWhile (· < h.kube.length)).map (.enableKubeFail h.name)

/-- what the main queue writes for one hook's `Enable…Bindings` tasks -/
def hookPlan (stop : Bool) (h : Hook) (script : List Bool) : List Ev :=
  (if h.kube.isEmpty then [] else enableFailLog h ++ .enableKube h.name :: (syncPlan stop h script h.kube).1) ++
  (if h.sched then [.enableSched h.name] else [])

theorem enableQueue_head (hs : List Hook) : ∀ q, (enableQueue hs).head? = some q → q.typ ≠ .hookRun := by
  induction hs with
  | nil => intro q h; simp [enableQueue] at h
  | cons h hs ih =>
    intro q hq
    simp only [enableQueue, enableTasks] at hq
    by_cases hk : h.kube.isEmpty <;> by_cases hsch : h.sched <;> simp [hk, hsch] at hq
    · subst hq; simp
    · exact ih q hq
    · subst hq; simp
    · subst hq; simp

theorem step_enableSched (stop : Bool) (hooks : List Hook) (n : Nat) (rest : List Task) (fails : Nat → List Bool)
    (log : List Ev) :
    step stop hooks { queue := { typ := .enableSched, hook := n } :: rest, fails := fails, log := log } =
      { queue := rest, fails := fails, log := log ++ [.enableSched n] } := rfl

/-! `EnableKubernetesBindings`: an attempt without a fault, or with a fault position beyond the last
binding, returns the Synchronization task of every binding in order; a fault at a binding returns nothing -/
theorem enableBindings_none (h : Nat) : ∀ (bs : List KBinding) (i : Nat),
    enableBindings h none i bs = some (bs.map (syncTask h))
  | [], _ => rfl
  | b :: bs, i => by
    have := enableBindings_none h bs (i + 1)
    simp [enableBindings, this]

theorem enableBindings_beyond (h k : Nat) : ∀ (bs : List KBinding) (i : Nat), i + bs.length ≤ k →
    enableBindings h (some k) i bs = some (bs.map (syncTask h))
  | [], _, _ => rfl
  | b :: bs, i, hl => by
    have hl' : i + 1 + bs.length ≤ k := by simp at hl; omega
    have hne : k ≠ i := by simp at hl; omega
    have := enableBindings_beyond h k bs (i + 1) hl'
    simp [enableBindings, hne, this]

theorem enableBindings_fail (h k : Nat) : ∀ (bs : List KBinding) (i : Nat), i ≤ k → k < i + bs.length →
    enableBindings h (some k) i bs = none
  | [], i, h1, h2 => by simp at h2; omega
  | b :: bs, i, h1, h2 => by
    by_cases he : k = i
    · subst he; simp [enableBindings]
    · have := enableBindings_fail h k bs (i + 1) (by omega) (by simp at h2; omega)
      simp [enableBindings, he, this]

theorem step_enableKube_ok (stop : Bool) (hooks : List Hook) (n : Nat) (sc : List Nat) (rest ts : List Task)
    (fails : Nat → List Bool) (log : List Ev)
    (hb : enableBindings n sc.head? 0 (findHook hooks n).kube = some ts) :
    step stop hooks { queue := { typ := .enableKube, hook := n, kfail := sc } :: rest, fails := fails, log := log } =
      { queue := ts ++ rest, fails := fails, log := log ++ [.enableKube n] } := by
  simp only [step, hb]

theorem step_enableKube_fail (stop : Bool) (hooks : List Hook) (n : Nat) (sc : List Nat) (rest : List Task)
    (fails : Nat → List Bool) (log : List Ev)
    (hb : enableBindings n sc.head? 0 (findHook hooks n).kube = none) :
    step stop hooks { queue := { typ := .enableKube, hook := n, kfail := sc } :: rest, fails := fails, log := log } =
      { queue := { typ := .enableKube, hook := n, kfail := sc.tail } :: rest, fails := fails,
        log := log ++ [.enableKubeFail n (sc.headD 0)] } := by
  simp only [step, hb]

/-- **the retried `EnableKubernetesBindings` task**: whatever its fault sequence, after finitely many
iterations the task has failed once per valid fault, then succeeded, and the head of the queue holds the
Synchronization task of EVERY binding of the hook, in binding order — a failed attempt leaves nothing
behind and takes nothing away from the successful one. -/
theorem run_enable_retry (stop : Bool) (hooks : List Hook) (n : Nat) (rest : List Task) (fails : Nat → List Bool) :
    ∀ (sc : List Nat) (log : List Ev),
      ∃ k, runFuel stop hooks k
          { queue := { typ := .enableKube, hook := n, kfail := sc } :: rest, fails := fails, log := log } =
        { queue := (findHook hooks n).kube.map (syncTask n) ++ rest, fails := fails,
          log := log ++ (sc.takeWhile (· < (findHook hooks n).kube.length)).map (.enableKubeFail n) ++ [.enableKube n] } := by
  intro sc
  induction sc with
  | nil =>
    intro log
    refine ⟨1, ?_⟩
    rw [runFuel_one, step_enableKube_ok stop hooks n [] rest _ fails log (enableBindings_none n _ 0)]
    simp
  | cons a sc ih =>
    intro log
    by_cases ha : a < (findHook hooks n).kube.length
    · obtain ⟨k, hk⟩ := ih (log ++ [.enableKubeFail n a])
      refine ⟨1 + k, ?_⟩
      rw [runFuel_add, runFuel_one,
        step_enableKube_fail stop hooks n (a :: sc) rest fails log
          (enableBindings_fail n a _ 0 (Nat.zero_le _) (by simpa using ha))]
      simp only [List.tail_cons, List.headD_cons]
      rw [hk]
      simp [ha, List.append_assoc]
    · refine ⟨1, ?_⟩
      rw [runFuel_one, step_enableKube_ok stop hooks n (a :: sc) rest _ fails log
        (enableBindings_beyond n a _ 0 (by simp; omega))]
      simp [ha]

theorem run_hook_phase (stop : Bool) (hooks : List Hook) (h : Hook) (hfind : findHook hooks h.name = h)
    (Q : List Task) (hQ : ∀ q, Q.head? = some q → q.typ ≠ .hookRun) (fails : Nat → List Bool) (log : List Ev) :
    ∃ k fails', runFuel stop hooks k { queue := enableTasks h ++ Q, fails := fails, log := log } =
        { queue := Q, fails := fails', log := log ++ hookPlan stop h (fails h.name) } ∧
      ∀ x, x ≠ h.name → fails' x = fails x := by
  -- the schedule task, if any
  have hsched : ∀ (fails : Nat → List Bool) (log : List Ev),
      ∃ k, runFuel stop hooks k
          { queue := (if h.sched then [({ typ := .enableSched, hook := h.name } : Task)] else []) ++ Q, fails := fails, log := log } =
        { queue := Q, fails := fails, log := log ++ (if h.sched then [.enableSched h.name] else []) } := by
    intro fails log
    by_cases hs : h.sched
    · refine ⟨1, ?_⟩
      simp only [hs, if_true, List.cons_append, List.nil_append, runFuel_one, step_enableSched]
    · refine ⟨0, ?_⟩
      simp [hs, runFuel]
  by_cases hk : h.kube.isEmpty
  · obtain ⟨k, hk'⟩ := hsched fails log
    refine ⟨k, fails, ?_, fun _ _ => rfl⟩
    simp only [enableTasks, hk, if_true, List.nil_append, hookPlan] at hk' ⊢
    exact hk'
  · have hQ2 : ∀ q, ((if h.sched then [({ typ := .enableSched, hook := h.name } : Task)] else []) ++ Q).head? = some q →
        q.typ ≠ .hookRun := by
      intro q hq
      by_cases hs : h.sched
      · simp [hs] at hq; subst hq; simp
      · simp only [hs, Bool.false_eq_true, if_false, List.nil_append] at hq; exact hQ q hq
    obtain ⟨k1, hk1⟩ := run_sync_phase stop hooks h hfind _ hQ2 h.kube.length h.kube (Nat.le_refl _) fails
      (log ++ enableFailLog h ++ [.enableKube h.name])
    obtain ⟨k2, hk2⟩ := hsched (setFails fails h.name (syncPlan stop h (fails h.name) h.kube).2)
      (log ++ enableFailLog h ++ [.enableKube h.name] ++ (syncPlan stop h (fails h.name) h.kube).1)
    obtain ⟨k0, hk0⟩ := run_enable_retry stop hooks h.name
      ((if h.sched then [({ typ := .enableSched, hook := h.name } : Task)] else []) ++ Q) fails h.kfail log
    rw [hfind] at hk0
    refine ⟨k0 + (k1 + k2), setFails fails h.name (syncPlan stop h (fails h.name) h.kube).2, ?_, ?_⟩
    · rw [runFuel_add]
      have hq0 : ({ queue := enableTasks h ++ Q, fails := fails, log := log } : St) =
          { queue := { typ := .enableKube, hook := h.name, kfail := h.kfail } ::
              ((if h.sched then [({ typ := .enableSched, hook := h.name } : Task)] else []) ++ Q),
            fails := fails, log := log } := by
        simp [enableTasks, hk]
      have hk0' : runFuel stop hooks k0
          { queue := { typ := .enableKube, hook := h.name, kfail := h.kfail } ::
              ((if h.sched then [({ typ := .enableSched, hook := h.name } : Task)] else []) ++ Q),
            fails := fails, log := log } =
          { queue := h.kube.map (syncTask h.name) ++
              ((if h.sched then [({ typ := .enableSched, hook := h.name } : Task)] else []) ++ Q),
            fails := fails, log := log ++ enableFailLog h ++ [.enableKube h.name] } := hk0
      rw [hq0, hk0', runFuel_add, hk1, hk2]
      apply St.ext'
      · rfl
      · rfl
      · simp [hookPlan, hk, List.append_assoc]
    · intro x hx; simp [setFails, hx]

theorem run_enable_phase (stop : Bool) (hooks : List Hook) :
    ∀ (hs : List Hook), (∀ h ∈ hs, findHook hooks h.name = h) → (hs.map (·.name)).Nodup →
      ∀ (fails : Nat → List Bool) (log : List Ev),
        ∃ k fails', runFuel stop hooks k { queue := enableQueue hs, fails := fails, log := log } =
          { queue := [], fails := fails',
            log := log ++ hs.flatMap (fun h => hookPlan stop h (fails h.name)) } := by
  intro hs
  induction hs with
  | nil => intro _ _ fails log; exact ⟨0, fails, by simp [runFuel, enableQueue]⟩
  | cons h hs ih =>
    intro hfind hnd fails log
    have hnot : h.name ∉ hs.map (·.name) := (List.nodup_cons.mp hnd).1
    obtain ⟨k1, fails1, hk1, hf1⟩ := run_hook_phase stop hooks h (hfind h (List.mem_cons_self ..))
      (enableQueue hs) (enableQueue_head hs) fails log
    obtain ⟨k2, fails2, hk2⟩ := ih (fun x hx => hfind x (List.mem_cons_of_mem _ hx)) (List.nodup_cons.mp hnd).2
      fails1 (log ++ hookPlan stop h (fails h.name))
    refine ⟨k1 + k2, fails2, ?_⟩
    rw [runFuel_add]
    have hq0 : ({ queue := enableQueue (h :: hs), fails := fails, log := log } : St) =
        { queue := enableTasks h ++ enableQueue hs, fails := fails, log := log } := rfl
    rw [hq0, hk1, hk2]
    apply St.ext'
    · rfl
    · rfl
    · simp only [List.flatMap_cons, List.append_assoc]
      congr 2
      apply flatMap_congr'
      intro x hx
      have : x.name ≠ h.name := by
        intro e; apply hnot; exact List.mem_map.mpr ⟨x, hx, e⟩
      rw [hf1 x.name this]

/-! ## The whole start -/

theorem findHook_of_mem : (hooks : List Hook) → (hooks.map (·.name)).Nodup → ∀ h ∈ hooks, findHook hooks h.name = h
  | [], _, h, hm => by simp at hm
  | a :: l, hnd, h, hm => by
    unfold findHook
    rcases List.mem_cons.mp hm with rfl | hm
    · simp [List.find?]
    · have hne : a.name ≠ h.name := by
        intro e
        have : a.name ∈ l.map (·.name) := e ▸ List.mem_map.mpr ⟨h, hm, rfl⟩
        exact (List.nodup_cons.mp hnd).1 this
      have ih := findHook_of_mem l (List.nodup_cons.mp hnd).2 h hm
      unfold findHook at ih
      have hb : (a.name == h.name) = false := by simp [hne]
      simp only [List.find?, hb]
      exact ih

theorem nodup_of_pairwise_lt (hooks : List Hook) (h : hooks.Pairwise (fun a b => a.name < b.name)) :
    (hooks.map (·.name)).Nodup := by
  rw [List.Nodup, List.pairwise_map]
  exact h.imp (fun hab => Nat.ne_of_lt hab)

theorem getHooksInOrder_perm (hooks : List Hook) :
    (getHooksInOrder hooks).Perm (hooks.filter (·.onStartup.isSome)) := stableSortByOrder_perm _

theorem getHooksInOrder_sorted (hooks : List Hook) (h : hooks.Pairwise (fun a b => a.name < b.name)) :
    (getHooksInOrder hooks).Pairwise KeyLt :=
  stableSortByOrder_sorted _ (h.sublist List.filter_sublist)

theorem getHooksInOrder_nodup (hooks : List Hook) (h : hooks.Pairwise (fun a b => a.name < b.name)) :
    ((getHooksInOrder hooks).map (·.name)).Nodup := by
  have hp := (getHooksInOrder_perm hooks).map (·.name)
  rw [hp.nodup_iff]
  exact (nodup_of_pairwise_lt hooks h).sublist (List.filter_sublist.map _)

/-- the log of the onStartup phase -/
def startupLog (hooks : List Hook) (fails : Nat → List Bool) : List Ev :=
  (getHooksInOrder hooks).flatMap (fun h => retryLog (startupTask h) (fails h.name))

/-- after finitely many worker iterations exactly the onStartup executions have happened and the main
queue holds exactly the enable tasks -/
theorem run_reaches_enable (stop : Bool) (hooks : List Hook) (hs : hooks.Pairwise (fun a b => a.name < b.name))
    (fails : Nat → List Bool) :
    ∃ n fails₁, runFuel stop hooks n (initSt hooks fails) =
      { queue := enableQueue hooks, fails := fails₁, log := startupLog hooks fails } := by
  obtain ⟨n, fails₁, hn, _⟩ := run_startup_phase stop hooks (enableQueue hooks) (enableQueue_head hooks)
    (getHooksInOrder hooks) (getHooksInOrder_nodup hooks hs) fails []
  exact ⟨n, fails₁, by simpa [initSt, bootstrap, startupLog] using hn⟩

/-- the whole start: onStartup phase, then the hooks are enabled one after the other in list order -/
theorem run_total (stop : Bool) (hooks : List Hook) (hs : hooks.Pairwise (fun a b => a.name < b.name))
    (fails : Nat → List Bool) :
    ∃ (n : Nat) (fails₁ fails₂ : Nat → List Bool), ∀ m, n ≤ m → runFuel stop hooks m (initSt hooks fails) =
      { queue := [], fails := fails₂,
        log := startupLog hooks fails ++ hooks.flatMap (fun h => hookPlan stop h (fails₁ h.name)) } := by
  obtain ⟨n1, fails₁, h1⟩ := run_reaches_enable stop hooks hs fails
  have hnd := nodup_of_pairwise_lt hooks hs
  obtain ⟨n2, fails₂, h2⟩ := run_enable_phase stop hooks hooks (findHook_of_mem hooks hnd) hnd fails₁
    (startupLog hooks fails)
  refine ⟨n1 + n2, fails₁, fails₂, ?_⟩
  intro m hm
  obtain ⟨d, rfl⟩ := Nat.exists_eq_add_of_le hm
  rw [runFuel_add, runFuel_add, h1, h2]
  exact runFuel_nil stop hooks d _ rfl

end ShellOp.Startup
