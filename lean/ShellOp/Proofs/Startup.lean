import ShellOp.Model.Startup
/-! Helper lemmas for C06: the stable sort, the worker machine (fuel addition, the log only grows),
retry-until-success of a settled head task, the onStartup phase. -/
namespace ShellOp.Startup

/-! ## Stable sort by ORDER of a path-sorted list = sort by (ORDER, path) -/

/-- ascending ORDER, alphabetically (path rank) among equal ORDER -/
def KeyLt (a b : Hook) : Prop :=
  orderOf a < orderOf b ∨ (orderOf a = orderOf b ∧ a.name < b.name)

theorem insertByOrder_perm (a : Hook) : (l : List Hook) → (insertByOrder a l).Perm (a :: l)
  | [] => List.Perm.refl _
  | b :: l => by
    simp only [insertByOrder]; split
    · exact List.Perm.refl _
    · exact ((insertByOrder_perm a l).cons b).trans (List.Perm.swap a b l)

theorem stableSortByOrder_perm : (l : List Hook) → (stableSortByOrder l).Perm l
  | [] => List.Perm.refl _
  | a :: l => (insertByOrder_perm a _).trans ((stableSortByOrder_perm l).cons a)

theorem insertByOrder_sorted (a : Hook) : (l : List Hook) → (∀ x ∈ l, a.name < x.name) →
    l.Pairwise KeyLt → (insertByOrder a l).Pairwise KeyLt
  | [], _, _ => by simp [insertByOrder]
  | b :: l, hn, hs => by
    simp only [insertByOrder]; split
    · rename_i hab
      refine List.Pairwise.cons ?_ hs
      intro x hx
      have hbx : orderOf b ≤ orderOf x := by
        rcases List.mem_cons.mp hx with rfl | hx
        · exact Int.le_refl _
        · rcases List.rel_of_pairwise_cons hs hx with h | h
          · exact Int.le_of_lt h
          · exact Int.le_of_eq h.1
      have hax : orderOf a ≤ orderOf x := Int.le_trans hab hbx
      rcases Int.lt_or_eq_of_le hax with h | h
      · exact Or.inl h
      · exact Or.inr ⟨h, hn x hx⟩
    · rename_i hab
      have hba : orderOf b < orderOf a := Int.not_le.mp hab
      refine List.Pairwise.cons ?_ (insertByOrder_sorted a l (fun x hx => hn x (List.mem_cons_of_mem _ hx))
        (List.Pairwise.of_cons hs))
      intro x hx
      rcases List.mem_cons.mp ((insertByOrder_perm a l).mem_iff.mp hx) with rfl | hx
      · exact Or.inl hba
      · exact List.rel_of_pairwise_cons hs hx

theorem stableSortByOrder_sorted : (l : List Hook) → l.Pairwise (fun a b => a.name < b.name) →
    (stableSortByOrder l).Pairwise KeyLt
  | [], _ => List.Pairwise.nil
  | a :: l, h => by
    simp only [stableSortByOrder]
    refine insertByOrder_sorted a _ ?_ (stableSortByOrder_sorted l (List.Pairwise.of_cons h))
    intro x hx
    exact List.rel_of_pairwise_cons h ((stableSortByOrder_perm l).mem_iff.mp hx)

/-- sorting a sorted list again changes nothing (GetHooksInOrder sorts the stored slice in place on
every call) -/
theorem insertByOrder_of_le (a : Hook) : (l : List Hook) → (∀ x ∈ l, orderOf a ≤ orderOf x) →
    insertByOrder a l = a :: l
  | [], _ => rfl
  | b :: l, h => by simp [insertByOrder, h b (List.mem_cons_self ..)]

theorem stableSortByOrder_idem : (l : List Hook) → l.Pairwise (fun a b => orderOf a ≤ orderOf b) →
    stableSortByOrder l = l
  | [], _ => rfl
  | a :: l, h => by
    simp only [stableSortByOrder, stableSortByOrder_idem l (List.Pairwise.of_cons h)]
    exact insertByOrder_of_le a l (fun x hx => List.rel_of_pairwise_cons h hx)

/-! ## The worker machine -/

theorem runFuel_add (stop : Bool) (hooks : List Hook) : (a b : Nat) → (s : St) →
    runFuel stop hooks (a + b) s = runFuel stop hooks b (runFuel stop hooks a s)
  | 0, b, s => by simp [runFuel]
  | a + 1, b, s => by
    have : a + 1 + b = (a + b) + 1 := by omega
    rw [this]; simp only [runFuel]; exact runFuel_add stop hooks a b _

theorem step_log_prefix (stop : Bool) (hooks : List Hook) (s : St) : s.log <+: (step stop hooks s).log := by
  unfold step
  split
  · exact List.prefix_refl _
  · split
    · exact List.prefix_append _ _
    · exact List.prefix_append _ _
    · split
      · exact List.prefix_append _ _
      · split
        · exact List.prefix_append _ _
        · simp only [List.append_assoc]; exact List.prefix_append _ _
        · simp only [List.append_assoc]; exact List.prefix_append _ _

theorem runFuel_log_prefix (stop : Bool) (hooks : List Hook) : (n : Nat) → (s : St) →
    s.log <+: (runFuel stop hooks n s).log
  | 0, s => List.prefix_refl _
  | n + 1, s => (step_log_prefix stop hooks s).trans (runFuel_log_prefix stop hooks n _)

theorem runFuel_one (stop : Bool) (hooks : List Hook) (s : St) :
    runFuel stop hooks 1 s = step stop hooks s := rfl

/-- an empty queue is final -/
theorem runFuel_nil (stop : Bool) (hooks : List Hook) : (n : Nat) → (s : St) → s.queue = [] →
    runFuel stop hooks n s = s
  | 0, _, _ => rfl
  | n + 1, s, h => by
    have : step stop hooks s = s := by unfold step; rw [h]
    simp only [runFuel, this]; exact runFuel_nil stop hooks n s h

/-! ## Retry until success -/

def leadingFails : List Bool → Nat
  | true :: l => leadingFails l + 1
  | _ => 0

def setFails (f : Nat → List Bool) (h : Nat) (v : List Bool) : Nat → List Bool :=
  fun x => if x == h then v else f x

/-- what a task that is retried until it succeeds writes to the log -/
def retryLog (t : Task) (script : List Bool) : List Ev :=
  List.replicate (leadingFails script) (.exec t.hook true t.ctxs) ++ [.exec t.hook false t.ctxs] ++
    (if t.isSync then [.unlock t.mons] else [])

theorem St.ext' (a b : St) (h1 : a.queue = b.queue) (h2 : a.fails = b.fails) (h3 : a.log = b.log) : a = b := by
  cases a; cases b; simp_all

theorem setFails_same (f : Nat → List Bool) (h : Nat) : setFails f h (f h) = f := by
  funext x; simp only [setFails]; split
  · rename_i hx; rw [beq_iff_eq.mp hx]
  · rfl

theorem setFails_setFails (f : Nat → List Bool) (h : Nat) (a b : List Bool) :
    setFails (setFails f h a) h b = setFails f h b := by
  funext x; simp only [setFails]; split <;> rfl

/-- one worker iteration on a runnable HookRun head, by the head of the hook's failure script -/
theorem step_hookRun (stop : Bool) (hooks : List Hook) (t t' : Task) (rest rest' : List Task) (s : St)
    (hq : s.queue = t :: rest) (ht : t.typ = .hookRun)
    (hp : prepare stop hooks t rest = (true, t', rest')) :
    step stop hooks s =
      match s.fails t'.hook with
      | true :: more => { queue := t' :: rest', fails := setFails s.fails t'.hook more,
                          log := s.log ++ [.exec t'.hook true t'.ctxs] }
      | script => { queue := rest', fails := setFails s.fails t'.hook (script.drop 1),
                    log := s.log ++ [.exec t'.hook false t'.ctxs] ++ (if t'.isSync then [.unlock t'.mons] else []) } := by
  unfold step
  rw [hq]
  simp only [ht, hp]
  rcases hs : s.fails t'.hook with _ | ⟨b, more⟩
  · simp only [List.drop_nil]
    apply St.ext' <;> simp
    rw [← hs, setFails_same]
  · cases b
    · simp only [List.drop_succ_cons, List.drop_zero]; rfl
    · rfl

/-- a settled head task (preparing it again changes nothing) is retried until it succeeds -/
theorem run_retry_settled (stop : Bool) (hooks : List Hook) (t : Task) (rest : List Task)
    (ht : t.typ = .hookRun) (hp : prepare stop hooks t rest = (true, t, rest)) :
    ∀ (script : List Bool) (s : St), s.queue = t :: rest → s.fails t.hook = script →
      runFuel stop hooks (leadingFails script + 1) s =
        { queue := rest, fails := setFails s.fails t.hook (script.drop (leadingFails script + 1)),
          log := s.log ++ retryLog t script } := by
  intro script
  induction script with
  | nil =>
    intro s hq hs
    simp only [leadingFails, runFuel, step_hookRun stop hooks t t rest rest s hq ht hp, hs, retryLog,
      List.replicate, List.nil_append, List.drop_nil, List.append_assoc]
  | cons b more ih =>
    intro s hq hs
    cases b
    · simp only [leadingFails, runFuel, step_hookRun stop hooks t t rest rest s hq ht hp, hs, retryLog,
        List.replicate, List.nil_append, List.append_assoc]
    · simp only [leadingFails]
      rw [show leadingFails more + 1 + 1 = 1 + (leadingFails more + 1) by omega, runFuel_add, runFuel_one]
      rw [step_hookRun stop hooks t t rest rest s hq ht hp, hs]
      simp only
      rw [ih _ rfl (by simp [setFails])]
      apply St.ext'
      · rfl
      · simp only [setFails_setFails]
        rw [show 1 + (leadingFails more + 1) = (leadingFails more + 1) + 1 by omega, List.drop_succ_cons]
      · simp only [retryLog, leadingFails, List.replicate_succ, List.append_assoc, List.cons_append, List.nil_append]

/-- a runnable head task: prepared (combined) once, then retried until it succeeds -/
theorem run_retry (stop : Bool) (hooks : List Hook) (t t' : Task) (rest rest' : List Task)
    (ht : t.typ = .hookRun) (ht' : t'.typ = .hookRun)
    (hp : prepare stop hooks t rest = (true, t', rest'))
    (hp' : prepare stop hooks t' rest' = (true, t', rest'))
    (script : List Bool) (s : St) (hq : s.queue = t :: rest) (hs : s.fails t'.hook = script) :
    runFuel stop hooks (leadingFails script + 1) s =
      { queue := rest', fails := setFails s.fails t'.hook (script.drop (leadingFails script + 1)),
        log := s.log ++ retryLog t' script } := by
  rcases script with _ | ⟨b, more⟩
  · simp only [leadingFails, runFuel, step_hookRun stop hooks t t' rest rest' s hq ht hp, hs, retryLog,
      List.replicate, List.nil_append, List.drop_nil, List.append_assoc]
  · cases b
    · simp only [leadingFails, runFuel, step_hookRun stop hooks t t' rest rest' s hq ht hp, hs, retryLog,
        List.replicate, List.nil_append, List.append_assoc]
    · simp only [leadingFails]
      rw [show leadingFails more + 1 + 1 = 1 + (leadingFails more + 1) by omega, runFuel_add, runFuel_one]
      rw [step_hookRun stop hooks t t' rest rest' s hq ht hp, hs]
      simp only
      rw [run_retry_settled stop hooks t' rest' ht' hp' more _ rfl (by simp [setFails])]
      apply St.ext'
      · rfl
      · simp only [setFails_setFails]
        rw [show 1 + (leadingFails more + 1) = (leadingFails more + 1) + 1 by omega, List.drop_succ_cons]
      · simp only [retryLog, leadingFails, List.replicate_succ, List.append_assoc, List.cons_append, List.nil_append]

/-! ## Preparing a head task whose follower cannot be combined -/

/-- the task behind the head is of another hook, of another type, or a Synchronization that stops combining -/
def HeadNotCombinable (stop : Bool) (t : Task) : List Task → Prop
  | [] => True
  | r :: _ => combinable stop t r = false

theorem combine_none (stop : Bool) (t : Task) (rest : List Task) (h : HeadNotCombinable stop t rest) :
    combine stop t rest = none := by
  cases rest with
  | nil => simp [combine]
  | cons r rs =>
    have h' : combinable stop t r = false := h
    simp [combine, List.takeWhile, h']

theorem prepare_no_combine (stop : Bool) (hooks : List Hook) (t : Task) (rest : List Task)
    (h : HeadNotCombinable stop t rest) :
    prepare stop hooks t rest =
      (!(t.isSync && (!(findHook hooks t.hook).v1 || !t.execSync)), t, rest) := by
  unfold prepare
  simp only [combine_none stop t rest h]
  split
  · split <;> rfl
  · rfl

theorem startupTask_isSync (h : Hook) : (startupTask h).isSync = false := rfl

/-! ## The onStartup phase -/

theorem flatMap_congr' {α β : Type} (f g : α → List β) : (l : List α) → (∀ x ∈ l, f x = g x) →
    l.flatMap f = l.flatMap g
  | [], _ => rfl
  | a :: l, h => by
    simp only [List.flatMap_cons, h a (List.mem_cons_self ..),
      flatMap_congr' f g l (fun x hx => h x (List.mem_cons_of_mem _ hx))]

theorem run_startup_phase (stop : Bool) (hooks : List Hook) (Q : List Task)
    (hQ : ∀ q, Q.head? = some q → q.typ ≠ .hookRun) :
    ∀ (L : List Hook), (L.map (·.name)).Nodup → ∀ (fails : Nat → List Bool) (log : List Ev),
      ∃ n fails', runFuel stop hooks n { queue := L.map startupTask ++ Q, fails := fails, log := log } =
          { queue := Q, fails := fails',
            log := log ++ L.flatMap (fun h => retryLog (startupTask h) (fails h.name)) } ∧
        ∀ x, x ∉ L.map (·.name) → fails' x = fails x := by
  intro L
  induction L with
  | nil => intro _ fails log; exact ⟨0, fails, by simp [runFuel], fun _ _ => rfl⟩
  | cons h L ih =>
    intro hnd fails log
    have hnd' : (L.map (·.name)).Nodup := (List.nodup_cons.mp hnd).2
    have hnot : h.name ∉ L.map (·.name) := (List.nodup_cons.mp hnd).1
    let t := startupTask h
    let rest := L.map startupTask ++ Q
    have hhead : HeadNotCombinable stop t rest := by
      cases L with
      | nil =>
        cases hq : Q with
        | nil => simp [rest, hq, HeadNotCombinable]
        | cons q qs =>
          have : q.typ ≠ .hookRun := hQ q (by simp [hq])
          simp only [rest, hq, List.map_nil, List.nil_append, HeadNotCombinable, combinable, t, startupTask]
          cases hqt : q.typ <;> simp_all
      | cons h2 L2 =>
        have : h2.name ≠ h.name := by
          intro e; apply hnot; simp [e]
        simp [rest, HeadNotCombinable, combinable, t, startupTask, this]
    have hp : prepare stop hooks t rest = (true, t, rest) := by
      rw [prepare_no_combine stop hooks t rest hhead]; simp [t, startupTask_isSync]
    have hrun := run_retry_settled stop hooks t rest rfl hp (fails h.name)
      { queue := t :: rest, fails := fails, log := log } rfl rfl
    obtain ⟨n, fails', hn, hf⟩ := ih hnd'
      (setFails fails h.name ((fails h.name).drop (leadingFails (fails h.name) + 1)))
      (log ++ retryLog t (fails h.name))
    refine ⟨(leadingFails (fails h.name) + 1) + n, fails', ?_, ?_⟩
    · rw [runFuel_add]
      have hq0 : ({ queue := (h :: L).map startupTask ++ Q, fails := fails, log := log } : St) =
          { queue := t :: rest, fails := fails, log := log } := rfl
      rw [hq0, hrun]
      have hn' : runFuel stop hooks n
          { queue := rest, fails := setFails fails t.hook (List.drop (leadingFails (fails h.name) + 1) (fails h.name)),
            log := log ++ retryLog t (fails h.name) } = _ := hn
      rw [hn']
      apply St.ext'
      · rfl
      · rfl
      · simp only [List.flatMap_cons, List.append_assoc]
        congr 2
        apply flatMap_congr'
        intro x hx
        have : x.name ≠ h.name := by
          intro e; apply hnot; exact List.mem_map.mpr ⟨x, hx, e⟩
        simp [setFails, this]
    · intro x hx
      have hx1 : x ≠ h.name := by intro e; apply hx; simp [e]
      have hx2 : x ∉ L.map (·.name) := by intro e; apply hx; simp at e ⊢; right; exact e
      rw [hf x hx2]; simp [setFails, hx1]

end ShellOp.Startup
