import ShellOp.Model.RateLimit
/-!
Proof of the token-bucket window bound for `Model/RateLimit`.

Key quantity: the *fill time* `D s = s.last + B·I − s.c` — the instant at which the bucket would be
full again. For request times that do not go backwards, one reservation at `t` turns it into
`max t D + I`, and the grant time `g` lies in `[D' − B·I, D' − I]`. So the fill times of successive
reservations are at least `I` apart, and any `n` of them span at least `(n−1)·I`.
-/
namespace ShellOp.RateLimit

def fill (l : Lim) (s : LState) : Int := s.last + l.B * l.I - s.c

theorem reserve_step (l : Lim) (s : LState) (t : Int) (hinf : l.inf = false) (hI : 0 < l.I) (hB : 1 ≤ l.B)
    (hc : s.c ≤ l.B * l.I) (ht : s.last ≤ t) :
    ∃ s' g, reserve l s t = (s', some g) ∧ s'.last = t ∧ s'.c ≤ l.B * l.I ∧
      fill l s + l.I ≤ fill l s' ∧ t + l.I ≤ fill l s' ∧
      fill l s' - l.B * l.I ≤ g ∧ g ≤ fill l s' - l.I ∧ t ≤ g := by
  have hcap : l.I ≤ l.B * l.I := by
    have := Int.mul_le_mul_of_nonneg_right hB (Int.le_of_lt hI)
    simpa using this
  generalize hcapdef : l.B * l.I = cap at *
  have hlast : ¬ t < s.last := by omega
  refine ⟨{ c := (if s.c + (t - s.last) > cap then cap else s.c + (t - s.last)) - l.I, last := t },
    t + (if (if s.c + (t - s.last) > cap then cap else s.c + (t - s.last)) - l.I < 0
          then -((if s.c + (t - s.last) > cap then cap else s.c + (t - s.last)) - l.I) else 0), ?_, ?_⟩
  · simp [reserve, hinf, hB, hlast, hcapdef]
  · simp only [fill, hcapdef]
    refine ⟨trivial, ?_⟩
    by_cases h1 : s.c + (t - s.last) > cap <;> simp only [h1, if_true, if_false]
    · by_cases h2 : cap - l.I < 0 <;> simp only [h2, if_true, if_false] <;> omega
    · by_cases h2 : s.c + (t - s.last) - l.I < 0 <;> simp only [h2, if_true, if_false] <;> omega

/-- grants paired with the fill time after each reservation. -/
def grantsD (l : Lim) : LState → List Int → List (Int × Int)
  | _, [] => []
  | s, t :: ts =>
    match reserve l s t with
    | (s', some g) => (g, fill l s') :: grantsD l s' ts
    | (s', none) => grantsD l s' ts

theorem grants_eq (l : Lim) (s : LState) (ts : List Int) : grants l s ts = (grantsD l s ts).map (·.1) := by
  induction ts generalizing s with
  | nil => rfl
  | cons t ts ih =>
    simp only [grants, grantsD]
    split <;> simp_all

/-- the relation between successive (grant, fill) pairs. -/
def Apart (I : Int) (a b : Int × Int) : Prop := a.2 + I ≤ b.2

theorem grantsD_spec (l : Lim) (hinf : l.inf = false) (hI : 0 < l.I) (hB : 1 ≤ l.B)
    (ts : List Int) (s : LState) (hc : s.c ≤ l.B * l.I) (hsorted : ts.Pairwise (· ≤ ·))
    (hlast : ∀ t ∈ ts, s.last ≤ t) :
    (∀ p ∈ grantsD l s ts, fill l s + l.I ≤ p.2 ∧ p.2 - l.B * l.I ≤ p.1 ∧ p.1 ≤ p.2 - l.I) ∧
    (grantsD l s ts).Pairwise (Apart l.I) := by
  induction ts generalizing s with
  | nil => simp [grantsD]
  | cons t ts ih =>
    obtain ⟨s', g, hr, hl', hc', hf1, _, hg1, hg2, _⟩ :=
      reserve_step l s t hinf hI hB hc (hlast t (by simp))
    have hs := List.pairwise_cons.mp hsorted
    have ih' := ih s' hc' hs.2 (by intro u hu; rw [hl']; exact hs.1 u hu)
    simp only [grantsD, hr]
    constructor
    · intro p hp
      rcases List.mem_cons.mp hp with rfl | hp
      · exact ⟨hf1, hg1, hg2⟩
      · have := ih'.1 p hp
        exact ⟨by omega, this.2.1, this.2.2⟩
    · refine List.pairwise_cons.mpr ⟨?_, ih'.2⟩
      intro p hp
      have := (ih'.1 p hp).1
      simp only [Apart]
      omega

theorem apart_span (I : Int) (f : List (Int × Int)) (hp : f.Pairwise (Apart I)) :
    ∀ a b, f.head? = some a → f.getLast? = some b → a.2 + ((f.length : Int) - 1) * I ≤ b.2 := by
  induction f with
  | nil => intro a b h; simp at h
  | cons x rest ih =>
    intro a b ha hb
    simp only [List.head?_cons, Option.some.injEq] at ha
    subst ha
    cases rest with
    | nil =>
      simp at hb; subst hb; simp
    | cons y rest' =>
      have hp' := List.pairwise_cons.mp hp
      have hxy : Apart I x y := hp'.1 y (by simp)
      have hb' : (y :: rest').getLast? = some b := by simpa [List.getLast?_cons_cons] using hb
      have := ih hp'.2 y b (by simp) hb'
      simp only [Apart] at hxy
      simp only [List.length_cons, Int.natCast_add, Int.natCast_one] at this ⊢
      have e : ((rest'.length : Int) + 1 + 1 - 1) * I = ((rest'.length : Int) + 1 - 1) * I + I := by
        have : ((rest'.length : Int) + 1 + 1 - 1) = ((rest'.length : Int) + 1 - 1) + 1 := by omega
        rw [this, Int.add_mul]; simp
      rw [e]
      omega

end ShellOp.RateLimit
