import ShellOp.Model.RateLimit
/-!
Proof of the token-bucket window bound for `Model/RateLimit`.

Key quantity: the *fill time* `D s = s.last + B·I − s.c` — the instant at which the bucket would be
full again. For request times that do not go backwards, one reservation at `t` turns it into
`max t D + I`, and the grant time `g` lies in `[D' − B·I, D' − I]`. So the fill times of successive
reservations are at least `I` apart, and any `n` of them span at least `(n−1)·I`.
-/
namespace ShellOp.RateLimit

def fill (l : Lim) (s : LState) : Int := s.last + l.B * l.I - s.c

theorem reserve_step (l : Lim) (s : LState) (t : Int) (hinf : l.inf = false) (hI : 0 < l.I) (hB : 1 ≤ l.B)
    (hc : s.c ≤ l.B * l.I) (ht : s.last ≤ t) :
    ∃ s' g, reserve l s t = (s', some g) ∧ s'.last = t ∧ s'.c ≤ l.B * l.I ∧
      fill l s + l.I ≤ fill l s' ∧ t + l.I ≤ fill l s' ∧
      fill l s' - l.B * l.I ≤ g ∧ g ≤ fill l s' - l.I ∧ t ≤ g := by
  have hcap : l.I ≤ l.B * l.I := by
    have := Int.mul_le_mul_of_nonneg_right hB (Int.le_of_lt hI)
    simpa using this
  generalize hcapdef : l.B * l.I = cap at *
  have hlast : ¬ t < s.last := by omega
  refine ⟨{ c := (if s.c + (t - s.last) > cap then cap else s.c + (t - s.last)) - l.I, last := t },
    t + (if (if s.c + (t - s.last) > cap then cap else s.c + (t - s.last)) - l.I < 0
          then -((if s.c + (t - s.last) > cap then cap else s.c + (t - s.last)) - l.I) else 0), ?_, ?_⟩
  · simp [reserve, hinf, hB, hlast, hcapdef]
  · simp only [fill, hcapdef]
    refine ⟨trivial, ?_⟩
    by_cases h1 : s.c + (t - s.last) > cap <;> simp only [h1, if_true, if_false]
    · by_cases h2 : cap - l.I < 0 <;> simp only [h2, if_true, if_false] <;> omega
    · by_cases h2 : s.c + (t - s.last) - l.I < 0 <;> simp only [h2, if_true, if_false] <;> omega

/-- grants paired with the fill time after each reservation. -/
def grantsD (l : Lim) : LState → List Int → List (Int × Int)
  | _, [] => []
  | s, t :: ts =>
    match reserve l s t with
    | (s', some g) => (g, fill l s') :: grantsD l s' ts
    | (s', none) => grantsD l s' ts

theorem grants_eq (l : Lim) (s : LState) (ts : List Int) : grants l s ts = (grantsD l s ts).map (·.1) := by
  induction ts generalizing s with
  | nil => rfl
  | cons t ts ih =>
    simp only [grants, grantsD]
    split <;> simp_all

/-- the relation between successive (grant, fill) pairs. -/
def Apart (I : Int) (a b : Int × Int) : Prop := a.2 + I ≤ b.2

theorem grantsD_spec (l : Lim) (hinf : l.inf = false) (hI : 0 < l.I) (hB : 1 ≤ l.B)
    (ts : List Int) (s : LState) (hc : s.c ≤ l.B * l.I) (hsorted : ts.Pairwise (· ≤ ·))
    (hlast : ∀ t ∈ ts, s.last ≤ t) :
    (∀ p ∈ grantsD l s ts, fill l s + l.I ≤ p.2 ∧ p.2 - l.B * l.I ≤ p.1 ∧ p.1 ≤ p.2 - l.I) ∧
    (grantsD l s ts).Pairwise (Apart l.I) := by
  induction ts generalizing s with
  | nil => simp [grantsD]
  | cons t ts ih =>
    obtain ⟨s', g, hr, hl', hc', hf1, _, hg1, hg2, _⟩ :=
      reserve_step l s t hinf hI hB hc (hlast t (by simp))
    have hs := List.pairwise_cons.mp hsorted
    have ih' := ih s' hc' hs.2 (by intro u hu; rw [hl']; exact hs.1 u hu)
    simp only [grantsD, hr]
    constructor
    · intro p hp
      rcases List.mem_cons.mp hp with rfl | hp
      · exact ⟨hf1, hg1, hg2⟩
      · have := ih'.1 p hp
        exact ⟨by omega, this.2.1, this.2.2⟩
    · refine List.pairwise_cons.mpr ⟨?_, ih'.2⟩
      intro p hp
      have := (ih'.1 p hp).1
      simp only [Apart]
      omega

theorem apart_span (I : Int) (f : List (Int × Int)) (hp : f.Pairwise (Apart I)) :
    ∀ a b, f.head? = some a → f.getLast? = some b → a.2 + ((f.length : Int) - 1) * I ≤ b.2 := by
  induction f with
  | nil => intro a b h; simp at h
  | cons x rest ih =>
    intro a b ha hb
    simp only [List.head?_cons, Option.some.injEq] at ha
    subst ha
    cases rest with
    | nil =>
      simp at hb; subst hb; simp
    | cons y rest' =>
      have hp' := List.pairwise_cons.mp hp
      have hxy : Apart I x y := hp'.1 y (by simp)
      have hb' : (y :: rest').getLast? = some b := by simpa [List.getLast?_cons_cons] using hb
      have := ih hp'.2 y b (by simp) hb'
      simp only [Apart] at hxy
      simp only [List.length_cons, Int.natCast_add, Int.natCast_one] at this ⊢
      have e : ((rest'.length : Int) + 1 + 1 - 1) * I = ((rest'.length : Int) + 1 - 1) * I + I := by
        have : ((rest'.length : Int) + 1 + 1 - 1) = ((rest'.length : Int) + 1 - 1) + 1 := by omega
        rw [this, Int.add_mul]; simp
      rw [e]
      omega

/-! ### the oracle `Spec.boundOK` decides the bound for every window -/

theorem exists_min_of_ne_nil (l : List Int) (h : l ≠ []) : ∃ a ∈ l, ∀ x ∈ l, a ≤ x := by
  induction l with
  | nil => exact absurd rfl h
  | cons y rest ih =>
    cases rest with
    | nil => exact ⟨y, by simp, by intro x hx; simp at hx; omega⟩
    | cons z rest' =>
      obtain ⟨a, ha, hmin⟩ := ih (by simp)
      by_cases hya : y ≤ a
      · refine ⟨y, by simp, ?_⟩
        intro x hx
        rcases List.mem_cons.mp hx with rfl | hx
        · exact Int.le_refl _
        · exact Int.le_trans hya (hmin x hx)
      · refine ⟨a, List.mem_cons_of_mem _ ha, ?_⟩
        intro x hx
        rcases List.mem_cons.mp hx with rfl | hx
        · omega
        · exact hmin x hx

theorem exists_max_of_ne_nil (l : List Int) (h : l ≠ []) : ∃ b ∈ l, ∀ x ∈ l, x ≤ b := by
  induction l with
  | nil => exact absurd rfl h
  | cons y rest ih =>
    cases rest with
    | nil => exact ⟨y, by simp, by intro x hx; simp at hx; omega⟩
    | cons z rest' =>
      obtain ⟨b, hb, hmax⟩ := ih (by simp)
      by_cases hyb : b ≤ y
      · refine ⟨y, by simp, ?_⟩
        intro x hx
        rcases List.mem_cons.mp hx with rfl | hx
        · exact Int.le_refl _
        · exact Int.le_trans (hmax x hx) hyb
      · refine ⟨b, List.mem_cons_of_mem _ hb, ?_⟩
        intro x hx
        rcases List.mem_cons.mp hx with rfl | hx
        · omega
        · exact hmax x hx

theorem filter_length_le_of_imp {α : Type} (l : List α) (p q : α → Bool) (h : ∀ x ∈ l, p x = true → q x = true) :
    (l.filter p).length ≤ (l.filter q).length := by
  induction l with
  | nil => simp
  | cons x rest ih =>
    have ih' := ih (fun y hy => h y (List.mem_cons_of_mem _ hy))
    simp only [List.filter_cons]
    by_cases hp : p x = true
    · have hq := h x (by simp) hp
      simp [hp, hq]; exact ih'
    · by_cases hq : q x = true
      · simp [hp, hq]; omega
      · simp [hp, hq]; exact ih'

/-- If `boundOK` accepts a list of start times, the bound holds for every window. -/
theorem boundOK_sound (I B : Int) (hI : 0 < I) (hB : 0 ≤ B) (gs : List Int) (h : Spec.boundOK I B gs = true)
    (t T : Int) (hT : 0 ≤ T) : (Spec.countIn gs t T : Int) ≤ B + ceilDiv T I := by
  have hceil : 0 ≤ ceilDiv T I := Int.ediv_nonneg (by omega) (Int.le_of_lt hI)
  by_cases hW : gs.filter (fun g => decide (t < g ∧ g ≤ t + T)) = []
  · simp only [Spec.countIn, hW, List.length_nil, Int.natCast_zero]; omega
  · obtain ⟨a, ha, hmin⟩ := exists_min_of_ne_nil _ hW
    obtain ⟨b, hb, hmax⟩ := exists_max_of_ne_nil _ hW
    have ha' := List.mem_filter.mp ha
    have hb' := List.mem_filter.mp hb
    have haw : t < a ∧ a ≤ t + T := by simpa using ha'.2
    have hbw : t < b ∧ b ≤ t + T := by simpa using hb'.2
    have hab : a ≤ b := hmin b hb
    have hall := (List.all_eq_true.mp ((List.all_eq_true.mp h) a ha'.1)) b hb'.1
    simp only [hab, if_true, decide_eq_true_eq] at hall
    -- the window (a-1, b] holds every start of (t, t+T]
    have hle : Spec.countIn gs t T ≤ Spec.countIn gs (a - 1) (b - a + 1) := by
      unfold Spec.countIn
      apply filter_length_le_of_imp
      intro x hx hpx
      have hxw : t < x ∧ x ≤ t + T := by simpa using hpx
      have hxW : x ∈ gs.filter (fun g => decide (t < g ∧ g ≤ t + T)) := List.mem_filter.mpr ⟨hx, hpx⟩
      have h1 := hmin x hxW
      have h2 := hmax x hxW
      simp only [decide_eq_true_eq]
      omega
    have hmono : ceilDiv (b - a + 1) I ≤ ceilDiv T I := by
      unfold ceilDiv
      exact Int.ediv_le_ediv hI (by omega)
    have : (Spec.countIn gs t T : Int) ≤ (Spec.countIn gs (a - 1) (b - a + 1) : Int) := by exact_mod_cast hle
    omega

/-- The same for the stretched bound. -/
theorem boundOKSkew_sound (I B S : Int) (hI : 0 < I) (hB : 0 ≤ B) (hS : 0 ≤ S) (gs : List Int) (h : Spec.boundOKSkew I B S gs = true)
    (t T : Int) (hT : 0 ≤ T) : (Spec.countIn gs t T : Int) ≤ B + ceilDiv (T + S) I := by
  have hceil : 0 ≤ ceilDiv (T + S) I := Int.ediv_nonneg (by omega) (Int.le_of_lt hI)
  by_cases hW : gs.filter (fun g => decide (t < g ∧ g ≤ t + T)) = []
  · simp only [Spec.countIn, hW, List.length_nil, Int.natCast_zero]; omega
  · obtain ⟨a, ha, hmin⟩ := exists_min_of_ne_nil _ hW
    obtain ⟨b, hb, hmax⟩ := exists_max_of_ne_nil _ hW
    have ha' := List.mem_filter.mp ha
    have hb' := List.mem_filter.mp hb
    have haw : t < a ∧ a ≤ t + T := by simpa using ha'.2
    have hbw : t < b ∧ b ≤ t + T := by simpa using hb'.2
    have hab : a ≤ b := hmin b hb
    have hall := (List.all_eq_true.mp ((List.all_eq_true.mp h) a ha'.1)) b hb'.1
    simp only [hab, if_true, decide_eq_true_eq] at hall
    -- the window (a-1, b] holds every start of (t, t+T]
    have hle : Spec.countIn gs t T ≤ Spec.countIn gs (a - 1) (b - a + 1) := by
      unfold Spec.countIn
      apply filter_length_le_of_imp
      intro x hx hpx
      have hxw : t < x ∧ x ≤ t + T := by simpa using hpx
      have hxW : x ∈ gs.filter (fun g => decide (t < g ∧ g ≤ t + T)) := List.mem_filter.mpr ⟨hx, hpx⟩
      have h1 := hmin x hxW
      have h2 := hmax x hxW
      simp only [decide_eq_true_eq]
      omega
    have hmono : ceilDiv (b - a + 1 + S) I ≤ ceilDiv (T + S) I := by
      unfold ceilDiv
      exact Int.ediv_le_ediv hI (by omega)
    have : (Spec.countIn gs t T : Int) ≤ (Spec.countIn gs (a - 1) (b - a + 1) : Int) := by exact_mod_cast hle
    omega

/-! ### request times that go backwards (clock-read skew between queues) -/

open Spec (backSteps)

theorem backSteps_nonneg (last : Int) (ts : List Int) : 0 ≤ backSteps last ts := by
  induction ts generalizing last with
  | nil => simp [backSteps]
  | cons t ts ih =>
    have := ih t
    simp only [backSteps]
    split <;> omega

theorem backSteps_sorted (last : Int) (ts : List Int) (hs : ts.Pairwise (· ≤ ·)) (hl : ∀ t ∈ ts, last ≤ t) :
    backSteps last ts = 0 := by
  induction ts generalizing last with
  | nil => rfl
  | cons t ts ih =>
    have h1 := List.pairwise_cons.mp hs
    have : ¬ t < last := by have := hl t (by simp); omega
    simp [backSteps, this, ih t h1.2 h1.1]

/-- one reservation at any time `t` (before or after `last`): the fill time *plus the backward
steps so far* still advances by at least `I`, and the grant stays within `[fill' − B·I, fill' − I]`. -/
theorem reserve_step_any (l : Lim) (s : LState) (t : Int) (hinf : l.inf = false) (hI : 0 < l.I) (hB : 1 ≤ l.B)
    (hc : s.c ≤ l.B * l.I) :
    ∃ s' g, reserve l s t = (s', some g) ∧ s'.last = t ∧ s'.c ≤ l.B * l.I ∧
      fill l s + l.I ≤ fill l s' + (if t < s.last then s.last - t else 0) ∧
      fill l s' - l.B * l.I ≤ g ∧ g ≤ fill l s' - l.I := by
  have hcap : l.I ≤ l.B * l.I := by
    have := Int.mul_le_mul_of_nonneg_right hB (Int.le_of_lt hI)
    simpa using this
  generalize hcapdef : l.B * l.I = cap at *
  by_cases hlast : t < s.last
  · refine ⟨{ c := (if s.c + (t - t) > cap then cap else s.c + (t - t)) - l.I, last := t },
      t + (if (if s.c + (t - t) > cap then cap else s.c + (t - t)) - l.I < 0
            then -((if s.c + (t - t) > cap then cap else s.c + (t - t)) - l.I) else 0), ?_, ?_⟩
    · simp [reserve, hinf, hB, hlast, hcapdef]
    · simp only [fill, hcapdef, hlast, if_true]
      refine ⟨trivial, ?_⟩
      have h1 : ¬ s.c + (t - t) > cap := by omega
      simp only [h1, if_false]
      by_cases h2 : s.c + (t - t) - l.I < 0 <;> simp only [h2, if_true, if_false] <;> omega
  · refine ⟨{ c := (if s.c + (t - s.last) > cap then cap else s.c + (t - s.last)) - l.I, last := t },
      t + (if (if s.c + (t - s.last) > cap then cap else s.c + (t - s.last)) - l.I < 0
            then -((if s.c + (t - s.last) > cap then cap else s.c + (t - s.last)) - l.I) else 0), ?_, ?_⟩
    · simp [reserve, hinf, hB, hlast, hcapdef]
    · simp only [fill, hcapdef, hlast, if_false]
      refine ⟨trivial, ?_⟩
      by_cases h1 : s.c + (t - s.last) > cap <;> simp only [h1, if_true, if_false]
      · by_cases h2 : cap - l.I < 0 <;> simp only [h2, if_true, if_false] <;> omega
      · by_cases h2 : s.c + (t - s.last) - l.I < 0 <;> simp only [h2, if_true, if_false] <;> omega

/-- grants paired with (fill time + backward steps so far) and the backward steps so far. -/
def grantsF (l : Lim) : LState → Int → List Int → List (Int × Int × Int)
  | _, _, [] => []
  | s, S, t :: ts =>
    let S' := S + (if t < s.last then s.last - t else 0)
    match reserve l s t with
    | (s', some g) => (g, fill l s' + S', S') :: grantsF l s' S' ts
    | (s', none) => grantsF l s' S' ts

theorem grants_eq_F (l : Lim) (s : LState) (S : Int) (ts : List Int) :
    grants l s ts = (grantsF l s S ts).map (·.1) := by
  induction ts generalizing s S with
  | nil => rfl
  | cons t ts ih =>
    simp only [grants, grantsF]
    cases hr : reserve l s t with
    | mk s' og =>
      cases og with
      | some g => simp [ih s' (S + if t < s.last then s.last - t else 0)]
      | none => simpa using ih s' (S + if t < s.last then s.last - t else 0)

def ApartF (I : Int) (a b : Int × Int × Int) : Prop := a.2.1 + I ≤ b.2.1

theorem grantsF_spec (l : Lim) (hinf : l.inf = false) (hI : 0 < l.I) (hB : 1 ≤ l.B)
    (ts : List Int) (s : LState) (S : Int) (hc : s.c ≤ l.B * l.I) :
    (∀ p ∈ grantsF l s S ts, fill l s + S + l.I ≤ p.2.1 ∧ S ≤ p.2.2 ∧ p.2.2 ≤ S + backSteps s.last ts ∧
        p.2.1 - p.2.2 - l.B * l.I ≤ p.1 ∧ p.1 ≤ p.2.1 - p.2.2 - l.I) ∧
    (grantsF l s S ts).Pairwise (ApartF l.I) := by
  induction ts generalizing s S with
  | nil => simp [grantsF]
  | cons t ts ih =>
    obtain ⟨s', g, hr, hl', hc', hf1, hg1, hg2⟩ := reserve_step_any l s t hinf hI hB hc
    have ih' := ih s' (S + (if t < s.last then s.last - t else 0)) hc'
    have hbn := backSteps_nonneg t ts
    have hjn : 0 ≤ (if t < s.last then s.last - t else 0) := by split <;> omega
    simp only [grantsF, hr, backSteps]
    rw [hl'] at ih'
    constructor
    · intro p hp
      rcases List.mem_cons.mp hp with rfl | hp
      · refine ⟨?_, ?_, ?_, ?_, ?_⟩ <;> dsimp only <;> omega
      · have := ih'.1 p hp
        refine ⟨by omega, by omega, by omega, this.2.2.2.1, this.2.2.2.2⟩
    · refine List.pairwise_cons.mpr ⟨?_, ih'.2⟩
      intro p hp
      have := (ih'.1 p hp).1
      simp only [ApartF]
      omega

theorem apartF_span (I : Int) (f : List (Int × Int × Int)) (hp : f.Pairwise (ApartF I)) :
    ∀ a b, f.head? = some a → f.getLast? = some b → a.2.1 + ((f.length : Int) - 1) * I ≤ b.2.1 := by
  induction f with
  | nil => intro a b h; simp at h
  | cons x rest ih =>
    intro a b ha hb
    simp only [List.head?_cons, Option.some.injEq] at ha
    subst ha
    cases rest with
    | nil =>
      simp at hb; subst hb; simp
    | cons y rest' =>
      have hp' := List.pairwise_cons.mp hp
      have hxy : ApartF I x y := hp'.1 y (by simp)
      have hb' : (y :: rest').getLast? = some b := by simpa [List.getLast?_cons_cons] using hb
      have := ih hp'.2 y b (by simp) hb'
      simp only [ApartF] at hxy
      simp only [List.length_cons, Int.natCast_add, Int.natCast_one] at this ⊢
      have e : ((rest'.length : Int) + 1 + 1 - 1) * I = ((rest'.length : Int) + 1 - 1) * I + I := by
        have : ((rest'.length : Int) + 1 + 1 - 1) = ((rest'.length : Int) + 1 - 1) + 1 := by omega
        rw [this, Int.add_mul]; simp
      rw [e]
      omega

/-- Executions whose observation interval `[lo, hi]` lies inside `[a, b]` were granted in `(a-1, b]`. -/
theorem countWithin_le_countIn (tr : List (Int × Int × Int))
    (hmem : ∀ p ∈ tr, p.1 ≤ p.2.1 ∧ p.2.1 ≤ p.2.2) (a b : Int) :
    Spec.countWithin (tr.map fun p => (p.1, p.2.2)) a b ≤ Spec.countIn (tr.map (·.2.1)) (a - 1) (b - a + 1) := by
  induction tr with
  | nil => simp [Spec.countWithin, Spec.countIn]
  | cons p tr ih =>
    have hp := hmem p (by simp)
    have ih' := ih (fun q hq => hmem q (by simp [hq]))
    simp only [Spec.countWithin, Spec.countIn] at ih' ⊢
    simp only [List.map_cons, List.filter_cons]
    by_cases h1 : a ≤ p.1 ∧ p.2.2 ≤ b
    · have h2 : a - 1 < p.2.1 ∧ p.2.1 ≤ a - 1 + (b - a + 1) := by omega
      simp only [h1, h2, and_self, decide_true, if_true, List.length_cons]
      omega
    · simp only [h1, decide_false, Bool.false_eq_true, if_false]
      split
      · simp only [List.length_cons]; omega
      · exact ih'

/-- If the (unknown) grant times obey the (stretched) window bound, every interval observation of
them is accepted by `boundOKIv`: a rejected observation refutes the bound whatever the grant times were. -/
theorem boundOKIv_of_windows (I B S : Int) (tr : List (Int × Int × Int))
    (hmem : ∀ p ∈ tr, p.1 ≤ p.2.1 ∧ p.2.1 ≤ p.2.2)
    (h : ∀ t T : Int, 0 ≤ T → (Spec.countIn (tr.map (·.2.1)) t T : Int) ≤ B + ceilDiv (T + S) I) :
    Spec.boundOKIv I B S (tr.map fun p => (p.1, p.2.2)) = true := by
  simp only [Spec.boundOKIv, List.all_eq_true]
  intro p _ q _
  by_cases hpq : p.1 ≤ q.2
  · simp only [hpq, if_true, decide_eq_true_eq]
    have h1 := countWithin_le_countIn tr hmem p.1 q.2
    have h2 := h (p.1 - 1) (q.2 - p.1 + 1) (by omega)
    have : (Spec.countWithin (tr.map fun p => (p.1, p.2.2)) p.1 q.2 : Int)
        ≤ (Spec.countIn (tr.map (·.2.1)) (p.1 - 1) (q.2 - p.1 + 1) : Int) := by exact_mod_cast h1
    omega
  · simp [hpq]

/-! ## The task handler (`runTasks`): process starts are a sublist of the grants -/

theorem runTasks_sublist (l : Lim) (s : LState) (tks : List HookRunTask) :
    (runTasks l s tks).Sublist (grants l s (tks.map (·.t))) := by
  induction tks generalizing s with
  | nil => simp [runTasks, grants]
  | cons tk tks ih =>
    simp only [runTasks, handleHookRun, List.map_cons, grants]
    cases hr : reserve l s tk.t with
    | mk s' g =>
      cases g with
      | none => simpa using ih s'
      | some g =>
        by_cases hc : tk.kind = .synchronization ∧ tk.runOnSync = false
        · simp only [hc, and_self, if_true, List.nil_append]
          exact List.Sublist.cons _ (ih s')
        · simp only [hc, if_false, hookRun, List.singleton_append]
          exact List.Sublist.cons_cons _ (ih s')

theorem runTasks_eq_grants (l : Lim) (s : LState) (tks : List HookRunTask)
    (hrun : ∀ tk ∈ tks, ¬ (tk.kind = .synchronization ∧ tk.runOnSync = false)) :
    runTasks l s tks = grants l s (tks.map (·.t)) := by
  induction tks generalizing s with
  | nil => simp [runTasks, grants]
  | cons tk tks ih =>
    have h1 := hrun tk (by simp)
    have h2 : ∀ tk ∈ tks, ¬ (tk.kind = .synchronization ∧ tk.runOnSync = false) :=
      fun x hx => hrun x (by simp [hx])
    simp only [runTasks, handleHookRun, List.map_cons, grants]
    cases hr : reserve l s tk.t with
    | mk s' g =>
      cases g with
      | none => simpa using ih s' h2
      | some g =>
        simp only [h1, if_false, hookRun, List.singleton_append]
        rw [ih s' h2]

theorem countIn_sublist {as bs : List Int} (h : as.Sublist bs) (t T : Int) :
    Spec.countIn as t T ≤ Spec.countIn bs t T := by
  unfold Spec.countIn
  exact (h.filter _).length_le

/-! ## The handler with a bounded wait and combined series (`runQTasks`) -/

theorem waitCtx_none_state (l : Lim) (s s' : LState) (t : Int) (d : Option Int)
    (h : waitCtx l s t d = (s', none)) : s' = s := by
  unfold waitCtx at h
  cases hr : reserve l s t with
  | mk s1 g =>
    rw [hr] at h
    cases g with
    | none => simp at h; exact h.symm
    | some g =>
      cases d with
      | none => simp at h
      | some d =>
        by_cases hd : g - t ≤ d
        · simp [hd] at h
        · simp [hd] at h; exact h.symm

theorem waitCtx_some_reserve (l : Lim) (s s' : LState) (t g : Int) (d : Option Int)
    (h : waitCtx l s t d = (s', some g)) : reserve l s t = (s', some g) := by
  unfold waitCtx at h
  cases hr : reserve l s t with
  | mk s1 g1 =>
    rw [hr] at h
    cases g1 with
    | none => simp at h
    | some g1 =>
      cases d with
      | none => simpa using h
      | some d =>
        by_cases hd : g1 - t ≤ d
        · simpa [hd] using h
        · simp [hd] at h

/-- The process starts of any list of handler calls — waits with any deadlines, failed or not, series
of any length — are a sublist of the limiter's grants for the request times of the calls whose wait
succeeded (a failed wait takes no token and starts nothing). -/
theorem runQTasks_sublist (l : Lim) (s : LState) (qs : List QTask) :
    ∃ ts : List Int, ts.Sublist (qs.map (·.task.t)) ∧ (runQTasks l s qs).Sublist (grants l s ts) := by
  induction qs generalizing s with
  | nil => exact ⟨[], by simp, by simp [runQTasks, grants]⟩
  | cons q qs ih =>
    cases hw : waitCtx l s q.task.t q.deadline with
    | mk s' g =>
      cases g with
      | none =>
        have hs := waitCtx_none_state l s s' q.task.t q.deadline hw
        subst hs
        obtain ⟨ts, h1, h2⟩ := ih s'
        refine ⟨ts, ?_, ?_⟩
        · simpa using List.Sublist.cons q.task.t h1
        · simpa [runQTasks, handleHookRunQ, hw] using h2
      | some g =>
        have hr := waitCtx_some_reserve l s s' q.task.t g q.deadline hw
        obtain ⟨ts, h1, h2⟩ := ih s'
        refine ⟨q.task.t :: ts, ?_, ?_⟩
        · simpa using List.Sublist.cons_cons q.task.t h1
        · simp only [runQTasks, handleHookRunQ, hw, grants, hr]
          by_cases hc : q.task.kind = .synchronization ∧ q.task.runOnSync = false
          · simp only [hc, and_self, if_true, List.nil_append]
            exact List.Sublist.cons _ h2
          · simp only [hc, if_false, handleRunHookN, hookRun, List.singleton_append]
            exact List.Sublist.cons_cons _ h2

/-! ## Several hooks in one directory; the other tasks of the queues -/

/-- a `Wait` of hook `k` leaves the limiter state of every other hook as it was -/
theorem reserveAt_other (lims : List Lim) (ss : List LState) (k j : Nat) (t : Int) (h : k ≠ j) :
    (reserveAt lims ss k t).1[j]? = ss[j]? := by
  unfold reserveAt
  cases lims[k]? with
  | none => rfl
  | some l =>
    cases ss[k]? with
    | none => rfl
    | some s => simp [List.getElem?_set_ne h]

/-- … and moves the state of hook `k` as a `Wait` on its own limiter does -/
theorem reserveAt_self (lims : List Lim) (ss : List LState) (k : Nat) (t : Int) (l : Lim) (s : LState)
    (hl : lims[k]? = some l) (hs : ss[k]? = some s) :
    (reserveAt lims ss k t).1[k]? = some (reserve l s t).1 ∧ (reserveAt lims ss k t).2 = (reserve l s t).2 := by
  obtain ⟨hlt, he⟩ := List.getElem?_eq_some_iff.mp hs
  simp [reserveAt, hl, hlt, he]

/-- The grants of hook `j` of a hooks directory, whatever the other hooks do meanwhile, are the grants of
its own limiter for its own requests. -/
theorem setGrants_eq (lims : List Lim) (j : Nat) (l : Lim) (hl : lims[j]? = some l) (rs : List (Nat × Int)) :
    ∀ (ss : List LState) (s : LState), ss[j]? = some s →
      setGrants lims j ss rs = grants l s ((rs.filter fun r => r.1 == j).map (·.2)) := by
  induction rs with
  | nil => intro ss s _; simp [setGrants, grants]
  | cons r rs ih =>
    intro ss s hs
    obtain ⟨k, t⟩ := r
    by_cases hk : k = j
    · subst hk
      obtain ⟨h1, h2⟩ := reserveAt_self lims ss k t l s hl hs
      have := ih _ _ h1
      simp only [setGrants, if_true, h2, this, List.filter_cons, beq_self_eq_true, List.map_cons, grants]
      cases hr : reserve l s t with
      | mk s' g => cases g <;> simp
    · have h1 : (reserveAt lims ss k t).1[j]? = some s := by rw [reserveAt_other lims ss k j t hk]; exact hs
      have := ih _ _ h1
      have hb : (k == j) = false := by simp [hk]
      simp [setGrants, hk, this, hb]

/-- Tasks that are not `HookRun`s take no part: the process starts of a mixed task list are those of its
`HookRun` tasks on the one limiter the hook was loaded with. -/
def OpTask.hookRun? : OpTask → Option QTask
  | .hookRun q => some q
  | _ => none

theorem runOps_eq_runQTasks (l : Lim) (s : LState) (os : List OpTask) :
    runOps l s os = runQTasks l s (os.filterMap OpTask.hookRun?) := by
  induction os generalizing s with
  | nil => simp [runOps, runQTasks]
  | cons o os ih =>
    cases o <;> simp [runOps, opStep, OpTask.hookRun?, runQTasks, ih, List.filterMap_cons]

end ShellOp.RateLimit
