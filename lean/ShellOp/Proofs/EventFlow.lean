import ShellOp.Model.EventFlow
/-!
# Proofs over `Model/EventFlow`
-/
namespace ShellOp.EventFlow

namespace Tail

theorem covered_init : Covered {} := ⟨by simp, Or.inl rfl⟩

theorem covered_step (s : St) (a : Act) (h : Covered s) : Covered (step addLast s a) := by
  obtain ⟨hh, hc⟩ := h
  cases a with
  | change k =>
    refine ⟨by simpa [step] using hh, Or.inr (Or.inl ?_)⟩
    simp [step]
  | consume =>
    cases hp : s.pending with
    | nil => simpa [step, hp] using (⟨hh, hc⟩ : Covered s)
    | cons k rest =>
      refine ⟨by simp [step, hp, addLast], Or.inr (Or.inr ?_)⟩
      cases hr : s.running with
      | false => simp [step, hp, addLast, waiting, hr]
      | true =>
        have hq := hh hr
        cases hq' : s.q with
        | nil => exact absurd hq' hq
        | cons x t => simp [step, hp, addLast, waiting, hr, hq']
  | begin m =>
    cases hr : s.running with
    | true => simpa [step, hr] using (⟨hh, hc⟩ : Covered s)
    | false =>
      cases hq : s.q with
      | nil => simpa [step, hr, hq] using (⟨hh, hc⟩ : Covered s)
      | cons x t => exact ⟨by simp [step, hr, hq], Or.inl (by simp [step, hr, hq])⟩
  | finish =>
    cases hr : s.running with
    | false => simpa [step, hr] using (⟨hh, hc⟩ : Covered s)
    | true =>
      refine ⟨by simp [step, hr], ?_⟩
      rcases hc with h1 | h2 | h3
      · exact Or.inl (by simpa [step, hr] using h1)
      · exact Or.inr (Or.inl (by simpa [step, hr] using h2))
      · exact Or.inr (Or.inr (by simpa [step, hr, waiting] using h3))
  | fail =>
    cases hr : s.running with
    | false => simpa [step, hr] using (⟨hh, hc⟩ : Covered s)
    | true =>
      refine ⟨by simp [step, hr], ?_⟩
      rcases hc with h1 | h2 | h3
      · exact Or.inl (by simpa [step, hr] using h1)
      · exact Or.inr (Or.inl (by simpa [step, hr] using h2))
      · refine Or.inr (Or.inr ?_)
        simp only [waiting, hr, if_true] at h3
        have : s.q ≠ [] := by
          intro hq; rw [hq] at h3; exact h3 rfl
        simpa [step, hr, waiting] using this

theorem covered_run (s : St) (sched : List Act) (h : Covered s) : Covered (run addLast s sched) := by
  induction sched generalizing s with
  | nil => exact h
  | cons a t ih => exact ih _ (covered_step s a h)

end Tail

namespace Shared

/-- with the code's binding the `Run` of every stored factory is bound to the factory's context -/
def BoundToFactory (s : St) : Prop := ∀ f, s.fac = some f → f.runStop = .factory

theorem bound_step (s : St) (op : Op) (h : BoundToFactory s) : BoundToFactory (step bindFactory s op) := by
  cases op with
  | start i =>
    cases hf : s.fac with
    | none => intro f; simp [step, hf, bindFactory]; intro h'; rw [← h']
    | some g =>
      intro f; simp only [step, hf]; intro h'
      have := h g hf
      cases h'; exact this
  | stop i =>
    cases hf : s.fac with
    | none => intro f; simp [step, hf]
    | some g =>
      have hg := h g hf
      intro f
      simp only [step, hf]
      split
      · split
        · simp
        · intro h'; cases h'; exact hg
      · intro h'; cases h'; exact hg

theorem bound_run (s : St) (ops : List Op) (h : BoundToFactory s) : BoundToFactory (run bindFactory s ops) := by
  induction ops generalizing s with
  | nil => exact h
  | cons a t ih => exact ih _ (bound_step s a h)

end Shared

end ShellOp.EventFlow
