/-
Tie T4 for the task queue: every function of `ShellOp/Generated/Trans.lean` (translated on every run
from `pkg/task/queue/task_queue.go` by `extract/translate.go`) equals the hand-written code-shaped
model of `ShellOp/Model/Queue.lean` that the C05 theorems are about. A change to the Go function
changes the generated definition and its equation here stops checking.
-/
import ShellOp.Generated.Trans
import ShellOp.Model.Queue
namespace ShellOp.Proofs.TransQueue
open ShellOp ShellOp.Queue
open ShellOp.TransPrelude (hasId callFn)

theorem addFirst_eq (q : Items) (t : Queue.Id) : Trans.addFirst q (some t) = ((), Queue.addFirst q t) := by
  simp [Trans.addFirst, Queue.addFirst]

theorem addLast_eq (q : Items) (t : Queue.Id) : Trans.addLast q (some t) = ((), Queue.addLast q t) := by
  simp [Trans.addLast, Queue.addLast]

theorem removeFirst_eq (q : Items) : Trans.removeFirst q = Queue.removeFirst q := by
  cases q with
  | nil => simp [Trans.removeFirst, Queue.removeFirst]
  | cons a r =>
    have : ((r.length : Int) + 1 = 0) = False := by simp; omega
    simp [Trans.removeFirst, Queue.removeFirst, this]

theorem getFirst_eq (q : Items) : Trans.GetFirst q = (Queue.getFirst q, q) := by
  cases q with
  | nil => simp [Trans.GetFirst, Queue.getFirst]
  | cons a r =>
    have : ((r.length : Int) + 1 = 0) = False := by simp; omega
    simp [Trans.GetFirst, Queue.getFirst, this]

theorem get_loop (q : Items) (id : Queue.Id) (l : Items) :
    (forIn (m := Id) l ((none : Option (Slot × List Slot)), ()) fun t __s =>
        if hasId t id = true then pure (ForInStep.done (some (t, q), ()))
        else pure (ForInStep.yield (none, ()))).run
      = (match l.find? (· == some id) with
         | some t => (some (t, q), ())
         | none => (none, ())) := by
  induction l with
  | nil => simp
  | cons a r ih =>
    simp only [List.forIn_cons, List.find?_cons]
    by_cases h : hasId a id = true
    · have h' : (a == some id) = true := h
      simp [h, h']
    · have h' : (a == some id) = false := by simpa [hasId] using h
      simp [h, h']
      simpa using ih

theorem get_eq (q : Items) (id : Queue.Id) : Trans.get q id = (Queue.get q id, q) := by
  unfold Trans.get Queue.get
  simp
  rw [get_loop]
  cases q.find? (· == some id) <;> simp

theorem set_append_replicate {α : Type} (A : List α) (k m : Nat) (d x : α) (hk : A.length = k) :
    (A ++ List.replicate (m + 1) d).set k x = (A ++ [x]) ++ List.replicate m d := by
  subst hk
  simp [List.replicate_succ]

/-- the body of the translated `addAfter` loop, as the elaborator produces it -/
def aaBody (id : Queue.Id) (t : Slot) (x : Slot × Nat) (s : List Slot × Bool) : Id (ForInStep (List Slot × Bool)) :=
  if s.snd = false then
    if hasId x.fst id = true then
      pure (ForInStep.yield ((s.fst.set x.snd x.fst).set (x.snd + 1) t, true))
    else pure (ForInStep.yield (s.fst.set x.snd x.fst, s.snd))
  else pure (ForInStep.yield (s.fst.set (x.snd + 1) x.fst, s.snd))

theorem aa_found (id : Queue.Id) (t : Slot) (l : Items) : ∀ (k m : Nat) (A : Items), A.length = k + 1 →
    (forIn (m := Id) (l.zipIdx k) (A ++ List.replicate (l.length + m) none, true) (aaBody id t)).run
      = (A ++ l ++ List.replicate m none, true) := by
  induction l with
  | nil => intro k m A _; simp
  | cons a r ih =>
    intro k m A hA
    simp only [List.zipIdx_cons, List.forIn_cons, aaBody]
    have e : r.length + 1 + m = (r.length + m) + 1 := by omega
    simp only [List.length_cons, e]
    rw [set_append_replicate A (k+1) (r.length + m) none a hA]
    simp
    have := ih (k+1) m (A ++ [a]) (by simp [hA])
    simpa [aaBody] using this

theorem addAfterLoop_true (id new : Queue.Id) (l : Items) : addAfterLoop id new l true = l := by
  induction l with
  | nil => simp [addAfterLoop]
  | cons a r ih => simp [addAfterLoop, ih]

theorem aa_notfound (id new : Queue.Id) (l : Items) : ∀ (k m : Nat) (A : Items), A.length = k →
    (forIn (m := Id) (l.zipIdx k) (A ++ List.replicate (l.length + 1 + m) none, false) (aaBody id (some new))).run
      = (A ++ addAfterLoop id new l false ++ List.replicate m none, idFound l id) := by
  induction l with
  | nil => intro k m A _; simp [addAfterLoop, idFound, Nat.add_comm 1 m, List.replicate_succ]
  | cons a r ih =>
    intro k m A hA
    simp only [List.zipIdx_cons, List.forIn_cons, aaBody]
    have e : (a :: r).length + 1 + m = (r.length + 1 + m) + 1 := by simp; omega
    rw [e, set_append_replicate A k _ none a hA]
    by_cases h : hasId a id = true
    · have h' : (a == some id) = true := h
      have e2 : r.length + 1 + m = (r.length + m) + 1 := by omega
      simp only [h, if_true]
      rw [e2, set_append_replicate (A ++ [a]) (k+1) _ none (some new) (by simp [hA])]
      simp [addAfterLoop, h', idFound]
      have := aa_found id (some new) r (k+1) m (A ++ [a] ++ [some new]) (by simp [hA])
      simpa [addAfterLoop_true] using this
    · have h' : (a == some id) = false := by simpa [hasId] using h
      simp only [h]
      simp [addAfterLoop, h', idFound]
      have := ih (k+1) m (A ++ [a]) (by simp [hA])
      simpa [idFound] using this

theorem addAfter_eq (q : Items) (id t : Queue.Id) : Trans.addAfter q id (some t) = ((), Queue.addAfter q id t) := by
  have key := aa_notfound id t q 0 0 [] rfl
  simp only [List.nil_append, Nat.add_zero, List.replicate_zero, List.append_nil] at key
  unfold Trans.addAfter Queue.addAfter
  simp
  have key' : (forIn (m := Id) (List.zipIdx q) (List.replicate (List.length q + 1) none, false) fun x __s =>
                  if __s.snd = false then
                    if hasId x.fst id = true then
                      pure (ForInStep.yield ((__s.fst.set x.snd x.fst).set (x.snd + 1) (some t), true))
                    else pure (ForInStep.yield (__s.fst.set x.snd x.fst, __s.snd))
                  else pure (ForInStep.yield (__s.fst.set (x.snd + 1) x.fst, __s.snd))).run
      = (addAfterLoop id t q false, idFound q id) := key
  rw [key']
  cases h : idFound q id <;> simp

/-! ### filter -/

theorem filter_loop (f : Slot → Bool) (l : Items) : ∀ acc : Items,
    (forIn (m := Id) l acc fun t __s =>
        if callFn (some f) t = true then pure (ForInStep.yield (__s ++ [t])) else pure (ForInStep.yield __s)).run
      = acc ++ l.filter f := by
  induction l with
  | nil => intro acc; simp
  | cons a r ih =>
    intro acc
    simp only [List.forIn_cons, List.filter_cons]
    by_cases h : f a = true
    · simp [callFn, h]; simpa [callFn] using ih (acc ++ [a])
    · simp [callFn, h]; simpa [callFn] using ih acc

theorem filter_eq (q : Items) (f : Slot → Bool) : Trans.filterQ q (some f) = ((), q.filter f) := by
  unfold Trans.filterQ
  simp
  simpa using filter_loop f q []

theorem filter_nil_fn (q : Items) : Trans.filterQ q none = ((), q) := by
  simp [Trans.filterQ]



/-! ### addBefore -/

def abBody (id : Queue.Id) (t : Slot) (x : Slot × Nat) (s : List Slot × Bool) : Id (ForInStep (List Slot × Bool)) :=
  if s.snd = false then
    if hasId x.fst id = false then pure (ForInStep.yield (s.fst.set x.snd x.fst, s.snd))
    else pure (ForInStep.yield ((s.fst.set x.snd t).set (x.snd + 1) x.fst, true))
  else pure (ForInStep.yield (s.fst.set (x.snd + 1) x.fst, s.snd))

theorem ab_found (id : Queue.Id) (t : Slot) (l : Items) : ∀ (k m : Nat) (A : Items), A.length = k + 1 →
    (forIn (m := Id) (l.zipIdx k) (A ++ List.replicate (l.length + m) none, true) (abBody id t)).run
      = (A ++ l ++ List.replicate m none, true) := by
  induction l with
  | nil => intro k m A _; simp
  | cons a r ih =>
    intro k m A hA
    simp only [List.zipIdx_cons, List.forIn_cons, abBody]
    have e : r.length + 1 + m = (r.length + m) + 1 := by omega
    simp only [List.length_cons, e]
    rw [set_append_replicate A (k+1) (r.length + m) none a hA]
    simp
    have := ih (k+1) m (A ++ [a]) (by simp [hA])
    simpa [abBody] using this

theorem addBeforeLoop_true (id new : Queue.Id) (l : Items) : addBeforeLoop id new l true = l := by
  induction l with
  | nil => simp [addBeforeLoop]
  | cons a r ih => simp [addBeforeLoop, ih]

theorem ab_notfound (id new : Queue.Id) (l : Items) : ∀ (k m : Nat) (A : Items), A.length = k →
    (forIn (m := Id) (l.zipIdx k) (A ++ List.replicate (l.length + 1 + m) none, false) (abBody id (some new))).run
      = (A ++ addBeforeLoop id new l false ++ List.replicate m none, idFound l id) := by
  induction l with
  | nil => intro k m A _; simp [addBeforeLoop, idFound, Nat.add_comm 1 m, List.replicate_succ]
  | cons a r ih =>
    intro k m A hA
    simp only [List.zipIdx_cons, List.forIn_cons, abBody]
    have e : (a :: r).length + 1 + m = (r.length + 1 + m) + 1 := by simp; omega
    by_cases h : hasId a id = true
    · have h' : (a == some id) = true := h
      have e2 : r.length + 1 + m = (r.length + m) + 1 := by omega
      simp only [h]
      rw [e, set_append_replicate A k _ none (some new) hA]
      simp only [Bool.true_eq_false, if_false, if_true]
      rw [e2, set_append_replicate (A ++ [some new]) (k+1) _ none a (by simp [hA])]
      simp [addBeforeLoop, h', idFound]
      have := ab_found id (some new) r (k+1) m (A ++ [some new] ++ [a]) (by simp [hA])
      simpa [addBeforeLoop_true] using this
    · have h' : (a == some id) = false := by simpa [hasId] using h
      have h2 : hasId a id = false := by simpa using h
      simp only [h2]
      rw [e, set_append_replicate A k _ none a hA]
      simp [addBeforeLoop, h', idFound]
      have := ih (k+1) m (A ++ [a]) (by simp [hA])
      simpa [idFound] using this

theorem addBefore_eq (q : Items) (id t : Queue.Id) : Trans.addBefore q id (some t) = ((), Queue.addBefore q id t) := by
  have key := ab_notfound id t q 0 0 [] rfl
  simp only [List.nil_append, Nat.add_zero, List.replicate_zero, List.append_nil] at key
  unfold Trans.addBefore Queue.addBefore
  simp
  have key' : (forIn (m := Id) (List.zipIdx q) (List.replicate (List.length q + 1) none, false) fun x __s =>
                  if __s.snd = false then
                    if hasId x.fst id = false then pure (ForInStep.yield (__s.fst.set x.snd x.fst, __s.snd))
                    else pure (ForInStep.yield ((__s.fst.set x.snd (some t)).set (x.snd + 1) x.fst, true))
                  else pure (ForInStep.yield (__s.fst.set (x.snd + 1) x.fst, __s.snd))).run
      = (addBeforeLoop id t q false, idFound q id) := key
  rw [key']
  cases h : idFound q id <;> simp

/-! ### removeLast / getLast -/

theorem getD_last (q : Items) (a : Slot) : (a :: q)[(a :: q).length - 1]?.getD none = ((a :: q).getLast?).join := by
  rw [List.getLast?_eq_getElem?]
  cases h : (a :: q)[(a :: q).length - 1]? <;> simp [Option.join]

theorem removeLast_eq (q : Items) : Trans.removeLast q = Queue.removeLast q := by
  unfold Trans.removeLast Queue.removeLast
  cases q with
  | nil => simp
  | cons a r =>
    have hl : (a :: r)[(a :: r).length - 1]? = (a :: r).getLast? := (List.getLast?_eq_getElem? (l := a :: r)).symm
    have hne : (a :: r).getLast? = some ((a :: r).getLast (by simp)) := List.getLast?_eq_some_getLast (by simp)
    have htake : List.take ((a :: r).length - 1) (a :: r) = (a :: r).dropLast := by
      rw [List.dropLast_eq_take]
    by_cases h1 : r = []
    · subst h1; simp
    · have : ¬ ((r.length : Int) + 1 = 1) := by
        have : r.length ≠ 0 := by simpa using h1
        omega
      simp only [List.length_cons] at *
      simp [this, hne]
      have h0 : ¬ ((r.length : Int) + 1 = 0) := by omega
      simp only [h0, if_false]
      simp [List.getLast_eq_getElem, List.dropLast_eq_take]



/-! ### remove -/

theorem rm_loop (id : Queue.Id) (l : Items) : ∀ k : Nat,
    (forIn (m := Id) (l.zipIdx k) (-1 : Int) fun x __s =>
        if hasId x.fst id = true then pure (ForInStep.done (↑x.snd : Int)) else pure (ForInStep.yield __s)).run
      = (match l.findIdx? (· == some id) with
         | some i => ((k + i : Nat) : Int)
         | none => -1) := by
  induction l with
  | nil => intro k; simp
  | cons a r ih =>
    intro k
    simp only [List.zipIdx_cons, List.forIn_cons, List.findIdx?_cons]
    by_cases h : hasId a id = true
    · have h' : (a == some id) = true := h
      simp [h, h']
    · have h' : (a == some id) = false := by simpa [hasId] using h
      simp [h, h']
      have := ih (k+1)
      cases hf : List.findIdx? (fun x => x == some id) r with
      | none => simpa [hf] using this
      | some i => simp [hf] at this ⊢; rw [this]; show ((k : Int) + 1 + (i : Int)) = (k : Int) + ((i : Int) + 1); omega

theorem removeGo_findIdx (id : Queue.Id) (q : Items) :
    removeGo q id = (match q.findIdx? (· == some id) with
      | none => (none, q)
      | some i => (q[i]?.getD none, q.take i ++ q.drop (i + 1))) := by
  induction q with
  | nil => simp [removeGo]
  | cons a r ih =>
    simp only [removeGo, List.findIdx?_cons]
    by_cases h : (a == some id) = true
    · simp [h]
    · have h' : (a == some id) = false := by simpa using h
      simp [h', ih]
      cases hf : List.findIdx? (fun x => x == some id) r <;> simp

theorem remove_eq (q : Items) (id : Queue.Id) : Trans.remove q id = Queue.remove q id := by
  unfold Trans.remove Queue.remove
  simp
  rw [rm_loop id q 0, removeGo_findIdx]
  cases hf : List.findIdx? (fun x => x == some id) q with
  | none => simp
  | some i =>
    have : ¬ ((i : Int) = -1) := by omega
    simp [this]



theorem getLast_eq (q : Items) : Trans.getLast q = (Queue.getLast q, q) := by
  unfold Trans.getLast Queue.getLast
  cases q with
  | nil => simp
  | cons a r =>
    have h0 : ¬ ((r.length : Int) + 1 = 0) := by omega
    simp [h0, List.getLast?_eq_getElem?]

theorem foldr_range_getElem {α β : Type} (H : β → Option α → β) (l : List α) (q : β) :
    List.foldr (fun x y => H y l[x]?) q (List.range l.length) = l.foldr (fun a y => H y (some a)) q := by
  induction l with
  | nil => simp
  | cons a r ih =>
    simp only [List.length_cons, List.range_succ_eq_map, List.foldr_cons, List.foldr_map]
    simp
    rw [ih]

theorem applyOk_eq (q : Items) (tid : Queue.Id) (st : Status) (hst : st = .success ∨ st = .keep)
    (head after tail : List Queue.Id) :
    Trans.applyOk q tid st (after.map some) (head.map some) (tail.map some)
      = ((), Queue.applyResult q tid st head after tail) := by
  unfold Trans.applyOk
  simp
  have hA : ∀ q0 : Items, List.foldr (fun x y => (Trans.addAfter y tid ((Option.map some after[x]?).getD none)).snd) q0
                  (List.range after.length) = after.reverse.foldl (fun q a => Queue.addAfter q tid a) q0 := by
    intro q0
    rw [foldr_range_getElem (fun y o => (Trans.addAfter y tid ((Option.map some o).getD none)).snd) after q0]
    simp [addAfter_eq, List.foldl_reverse]
  have hH : ∀ q0 : Items, List.foldr (fun x y => (Trans.addFirst y ((Option.map some head[x]?).getD none)).snd) q0
                  (List.range head.length) = head.reverse.foldl Queue.addFirst q0 := by
    intro q0
    rw [foldr_range_getElem (fun y o => (Trans.addFirst y ((Option.map some o).getD none)).snd) head q0]
    simp [addFirst_eq, List.foldl_reverse]
  have hT : ∀ q0 : Items, List.foldl (fun b a => (Trans.addLast b a).snd) q0 (List.map some tail) = tail.foldl Queue.addLast q0 := by
    intro q0
    simp [List.foldl_map, addLast_eq]
  simp only [hA, hH, hT, remove_eq]
  rcases hst with h | h <;> subst h <;> simp [applyResult, Queue.remove]

/-! ### the public wrappers (lock and metrics dropped by the translation) -/

theorem AddFirst_eq (q : Items) (t : Queue.Id) : Trans.AddFirst q (some t) = ((), Queue.addFirst q t) := by
  simp [Trans.AddFirst, addFirst_eq]
theorem AddLast_eq (q : Items) (t : Queue.Id) : Trans.AddLast q (some t) = ((), Queue.addLast q t) := by
  simp [Trans.AddLast, addLast_eq]
theorem RemoveFirst_eq (q : Items) : Trans.RemoveFirst q = Queue.removeFirst q := by
  simp [Trans.RemoveFirst, removeFirst_eq]
theorem RemoveLast_eq (q : Items) : Trans.RemoveLast q = Queue.removeLast q := by
  simp [Trans.RemoveLast, removeLast_eq]
theorem AddAfter_eq (q : Items) (id t : Queue.Id) : Trans.AddAfter q id (some t) = ((), Queue.addAfter q id t) := by
  simp [Trans.AddAfter, addAfter_eq]
theorem AddBefore_eq (q : Items) (id t : Queue.Id) : Trans.AddBefore q id (some t) = ((), Queue.addBefore q id t) := by
  simp [Trans.AddBefore, addBefore_eq]
theorem Remove_eq (q : Items) (id : Queue.Id) : Trans.Remove q id = Queue.remove q id := by
  simp [Trans.Remove, remove_eq]

end ShellOp.Proofs.TransQueue
