import ShellOp.Model.SnapshotCache
namespace ShellOp.SnapshotCache

/-- Invariant of the per-run cache: a binding was asked for iff it is cached, and never twice. -/
structure Ok (snap : Nat → Nat → View) (s : St) : Prop where
  nodup : s.calls.Nodup
  cached : ∀ b, b ∈ s.calls ↔ (lookup s.cache b).isSome
  fromCall : ∀ b v, lookup s.cache b = some v → ∃ k, s.calls[k]? = some b ∧ v = snap k b

/-- `s'` extends `s`: what was cached stays cached with the same view. -/
def Ext (s s' : St) : Prop := ∀ b v, lookup s.cache b = some v → lookup s'.cache b = some v

theorem Ext.refl (s : St) : Ext s s := fun _ _ h => h
theorem Ext.trans {a b c : St} (h1 : Ext a b) (h2 : Ext b c) : Ext a c := fun x v h => h2 x v (h1 x v h)

theorem ok_init (snap : Nat → Nat → View) : Ok snap {} := ⟨by simp, by simp [lookup], by simp [lookup]⟩

theorem getCached_spec (snap : Nat → Nat → View) (s : St) (b : Nat) (h : Ok snap s) :
    Ok snap (getCached snap s b).1 ∧ Ext s (getCached snap s b).1 ∧
    lookup (getCached snap s b).1.cache b = some (getCached snap s b).2 := by
  unfold getCached
  cases hl : lookup s.cache b with
  | some v => exact ⟨h, Ext.refl s, hl⟩
  | none =>
    have hnot : b ∉ s.calls := by
      intro hb; have := (h.cached b).mp hb; simp [hl] at this
    refine ⟨⟨?_, ?_, ?_⟩, ?_, ?_⟩
    · simp only [List.nodup_append, List.nodup_cons, List.not_mem_nil, not_false_eq_true,
        List.nodup_nil, and_self, List.mem_singleton, true_and]
      refine ⟨h.nodup, ?_⟩
      intro a ha c hc; subst hc; intro e; subst e; exact hnot ha
    · intro c
      simp only [List.mem_append, List.mem_singleton, lookup]
      by_cases hc : b = c
      · subst hc; simp
      · simp only [hc, if_false]
        rw [← h.cached c]
        constructor
        · rintro (h1 | h1)
          · exact h1
          · exact absurd h1.symm hc
        · exact Or.inl
    · intro c v hc
      simp only [lookup] at hc
      by_cases hbc : b = c
      · subst hbc
        simp only [if_true, Option.some.injEq] at hc
        exact ⟨s.calls.length, by simp, hc.symm⟩
      · simp only [hbc, if_false] at hc
        obtain ⟨k, hk, hv⟩ := h.fromCall c v hc
        have hlt : k < s.calls.length := by
          rcases Nat.lt_or_ge k s.calls.length with h1 | h1
          · exact h1
          · rw [List.getElem?_eq_none_iff.mpr h1] at hk; simp at hk
        exact ⟨k, by rw [List.getElem?_append_left hlt]; exact hk, hv⟩
    · intro c v hc
      simp only [lookup]
      by_cases hbc : b = c
      · subst hbc; rw [hl] at hc; simp at hc
      · simp [hbc, hc]
    · simp [lookup]

theorem includeLoop_spec (snap : Nat → Nat → View) (names : List Nat) :
    ∀ (s : St) (acc : List (Nat × View)), Ok snap s → (∀ p ∈ acc, lookup s.cache p.1 = some p.2) →
    let r := names.foldl (fun (acc : St × List (Nat × View)) name =>
      let r := getCached snap acc.1 name
      (r.1, acc.2 ++ [(name, r.2)])) (s, acc)
    Ok snap r.1 ∧ Ext s r.1 ∧ (∀ p ∈ r.2, lookup r.1.cache p.1 = some p.2) := by
  induction names with
  | nil => intro s acc h ha; exact ⟨h, Ext.refl s, ha⟩
  | cons n rest ih =>
    intro s acc h ha
    simp only [List.foldl_cons]
    obtain ⟨h1, e1, l1⟩ := getCached_spec snap s n h
    have ha' : ∀ p ∈ acc ++ [(n, (getCached snap s n).2)],
        lookup (getCached snap s n).1.cache p.1 = some p.2 := by
      intro p hp
      rcases List.mem_append.mp hp with hp | hp
      · exact e1 p.1 p.2 (ha p hp)
      · simp only [List.mem_singleton] at hp; subst hp; exact l1
    obtain ⟨h2, e2, l2⟩ := ih (getCached snap s n).1 _ h1 ha'
    exact ⟨h2, Ext.trans e1 e2, l2⟩

/-- every view in a refreshed context is the cached one -/
def OutOk (s : St) (o : Out) : Prop :=
  (∀ p ∈ o.snaps, lookup s.cache p.1 = some p.2) ∧ (∀ v, o.objects = some v → lookup s.cache o.binding = some v)

theorem OutOk.ext {s s' : St} {o : Out} (h : OutOk s o) (e : Ext s s') : OutOk s' o :=
  ⟨fun p hp => e _ _ (h.1 p hp), fun v hv => e _ _ (h.2 v hv)⟩

theorem refresh_spec (snap : Nat → Nat → View) (s : St) (bc : BC) (h : Ok snap s) :
    Ok snap (refresh snap s bc).1 ∧ Ext s (refresh snap s bc).1 ∧ OutOk (refresh snap s bc).1 (refresh snap s bc).2 := by
  obtain ⟨h1, e1, l1⟩ := includeLoop_spec snap bc.includes s [] h (by simp)
  unfold refresh includeLoop
  by_cases hs : bc.isSync = true
  · simp only [hs, if_true]
    obtain ⟨h2, e2, l2⟩ := getCached_spec snap _ bc.binding h1
    refine ⟨h2, Ext.trans e1 e2, ?_, ?_⟩
    · intro p hp; exact e2 _ _ (l1 p hp)
    · intro v hv; simp only [Option.some.injEq] at hv; subst hv; exact l2
  · simp only [hs]
    refine ⟨h1, e1, ?_, ?_⟩
    · intro p hp; exact l1 p hp
    · intro v hv; simp at hv

theorem updateSnapshots_spec (snap : Nat → Nat → View) (ctxs : List BC) :
    ∀ (s : St) (acc : List Out), Ok snap s → (∀ o ∈ acc, OutOk s o) →
    let r := ctxs.foldl (fun (acc : St × List Out) bc =>
      let r := refresh snap acc.1 bc
      (r.1, acc.2 ++ [r.2])) (s, acc)
    Ok snap r.1 ∧ (∀ o ∈ r.2, OutOk r.1 o) := by
  induction ctxs with
  | nil => intro s acc h ha; exact ⟨h, ha⟩
  | cons bc rest ih =>
    intro s acc h ha
    simp only [List.foldl_cons]
    obtain ⟨h1, e1, o1⟩ := refresh_spec snap s bc h
    apply ih _ _ h1
    intro o ho
    rcases List.mem_append.mp ho with ho | ho
    · exact (ha o ho).ext e1
    · simp only [List.mem_singleton] at ho; subst ho; exact o1

end ShellOp.SnapshotCache
