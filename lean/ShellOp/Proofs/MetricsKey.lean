import ShellOp.Model.Metrics
/-! Series identity across label shapes: helper lemmas for `C16.labelValues_eq_iff_gkey_eq`
(label sets with strictly increasing names, lookups, `gkey`). -/
namespace ShellOp.Metrics

/-- label names strictly increasing: how `mergeLabels` hands a label set over. -/
def KeysSorted (l : Labels) : Prop := l.Pairwise (fun a b => a.1 < b.1)

def lookupD (l : Labels) (k : Nat) : Nat := (l.lookup k).getD 0

theorem lookup_none_of_lt (k j v : Nat) (t : Labels) (h : KeysSorted ((k, v) :: t)) (hj : j ≤ k) :
    t.lookup j = none := by
  rw [List.lookup_eq_none_iff]
  intro x hx
  have := (List.pairwise_cons.mp h).1 x hx
  simp only [bne_iff_ne, ne_eq]
  simp at this
  omega

theorem insertLabel_sorted (k v : Nat) (l : Labels) (h : KeysSorted l) :
    KeysSorted (insertLabel k v l) ∧ ∀ x ∈ insertLabel k v l, x.1 = k ∨ x ∈ l := by
  induction l with
  | nil => simp [insertLabel, KeysSorted]
  | cons a t ih =>
    obtain ⟨k', v'⟩ := a
    have ht : KeysSorted t := (List.pairwise_cons.mp h).2
    have ha := (List.pairwise_cons.mp h).1
    unfold insertLabel
    by_cases h1 : k < k'
    · simp only [h1, if_true]
      refine ⟨List.pairwise_cons.mpr ⟨?_, h⟩, ?_⟩
      · intro x hx
        rcases List.mem_cons.mp hx with rfl | hx
        · exact h1
        · exact Nat.lt_trans h1 (ha x hx)
      · intro x hx
        rcases List.mem_cons.mp hx with rfl | hx
        · exact Or.inl rfl
        · exact Or.inr hx
    · simp only [h1, if_false]
      by_cases h2 : k = k'
      · simp only [h2, if_true]
        refine ⟨List.pairwise_cons.mpr ⟨ha, ht⟩, ?_⟩
        intro x hx
        rcases List.mem_cons.mp hx with rfl | hx
        · exact Or.inl rfl
        · exact Or.inr (List.mem_cons_of_mem _ hx)
      · simp only [h2, if_false]
        obtain ⟨ihs, ihm⟩ := ih ht
        refine ⟨List.pairwise_cons.mpr ⟨?_, ihs⟩, ?_⟩
        · intro x hx
          rcases ihm x hx with e | hx
          · show k' < x.1
            rw [e]; omega
          · exact ha x hx
        · intro x hx
          rcases List.mem_cons.mp hx with rfl | hx
          · exact Or.inr (by simp)
          · rcases ihm x hx with e | hx
            · exact Or.inl e
            · exact Or.inr (List.mem_cons_of_mem _ hx)

theorem mergeLabels_sorted (opLabels common : Labels) : KeysSorted (mergeLabels opLabels common) := by
  unfold mergeLabels
  have : ∀ (xs : Labels) (acc : Labels), KeysSorted acc →
      KeysSorted (xs.foldl (fun acc kv => insertLabel kv.1 kv.2 acc) acc) := by
    intro xs
    induction xs with
    | nil => intro acc h; exact h
    | cons x xs ih => intro acc h; exact ih _ (insertLabel_sorted x.1 x.2 acc h).1
  exact this _ [] List.Pairwise.nil

theorem gkey_sorted (l : Labels) (h : KeysSorted l) : KeysSorted (gkey l) :=
  List.Pairwise.filter _ h

theorem lookupD_gkey (l : Labels) (h : KeysSorted l) (k : Nat) : lookupD (gkey l) k = lookupD l k := by
  induction l with
  | nil => rfl
  | cons a t ih =>
    obtain ⟨k', v'⟩ := a
    have ht : KeysSorted t := (List.pairwise_cons.mp h).2
    by_cases hk : k = k'
    · subst hk
      have hn : t.lookup k = none := lookup_none_of_lt k k v' t h (Nat.le_refl _)
      by_cases hv : v' = 0
      · subst hv
        have : gkey ((k, 0) :: t) = gkey t := by simp [gkey]
        rw [this, ih ht]
        simp [lookupD, List.lookup_cons, hn]
      · have : gkey ((k, v') :: t) = (k, v') :: gkey t := by simp [gkey, hv]
        rw [this]
        simp [lookupD, List.lookup_cons]
    · have hne : (k == k') = false := by simpa using hk
      by_cases hv : v' = 0
      · subst hv
        have : gkey ((k', 0) :: t) = gkey t := by simp [gkey]
        rw [this, ih ht]
        simp [lookupD, List.lookup_cons, hne]
      · have : gkey ((k', v') :: t) = (k', v') :: gkey t := by simp [gkey, hv]
        rw [this]
        have := ih ht
        simp only [lookupD, List.lookup_cons, hne] at this ⊢
        exact this

theorem sorted_nonzero_ext (l l' : Labels) (h : KeysSorted l) (h' : KeysSorted l')
    (hz : ∀ x ∈ l, x.2 ≠ 0) (hz' : ∀ x ∈ l', x.2 ≠ 0)
    (he : ∀ k, lookupD l k = lookupD l' k) : l = l' := by
  induction l generalizing l' with
  | nil =>
    cases l' with
    | nil => rfl
    | cons b t' =>
      obtain ⟨k', v'⟩ := b
      have := he k'
      simp [lookupD, List.lookup_cons] at this
      exact absurd this.symm (hz' (k', v') (by simp))
  | cons a t ih =>
    cases l' with
    | nil =>
      obtain ⟨k, v⟩ := a
      have := he k
      simp [lookupD, List.lookup_cons] at this
      exact absurd this (hz (k, v) (by simp))
    | cons b t' =>
      obtain ⟨k, v⟩ := a
      obtain ⟨k', v'⟩ := b
      have hv : v ≠ 0 := hz (k, v) (by simp)
      have hv' : v' ≠ 0 := hz' (k', v') (by simp)
      have hkk : k = k' := by
        rcases Nat.lt_trichotomy k k' with hlt | heq | hgt
        · exfalso
          have h1 := he k
          have hn : t'.lookup k = none := lookup_none_of_lt k' k v' t' h' (Nat.le_of_lt hlt)
          have hne : (k == k') = false := by simpa using Nat.ne_of_lt hlt
          simp [lookupD, List.lookup_cons, hne, hn] at h1
          exact hv h1
        · exact heq
        · exfalso
          have h1 := he k'
          have hn : t.lookup k' = none := lookup_none_of_lt k k' v t h (Nat.le_of_lt hgt)
          have hne : (k' == k) = false := by simpa using Nat.ne_of_lt hgt
          simp [lookupD, List.lookup_cons, hne, hn] at h1
          exact hv' h1.symm
      subst hkk
      have hvv : v = v' := by
        have h1 := he k
        simpa [lookupD, List.lookup_cons] using h1
      subst hvv
      have ht : KeysSorted t := (List.pairwise_cons.mp h).2
      have ht' : KeysSorted t' := (List.pairwise_cons.mp h').2
      have : t = t' := by
        apply ih t' ht ht' (fun x hx => hz x (List.mem_cons_of_mem _ hx)) (fun x hx => hz' x (List.mem_cons_of_mem _ hx))
        intro j
        by_cases hj : j = k
        · subst hj
          simp [lookupD, lookup_none_of_lt j j v t h (Nat.le_refl _), lookup_none_of_lt j j v t' h' (Nat.le_refl _)]
        · have hne : (j == k) = false := by simpa using hj
          have := he j
          simpa [lookupD, List.lookup_cons, hne] using this
      rw [this]

theorem gkey_nonzero (l : Labels) : ∀ x ∈ gkey l, x.2 ≠ 0 := by
  intro x hx
  simp [gkey] at hx
  exact hx.2

end ShellOp.Metrics
