import ShellOp.Model.Worker
import ShellOp.Proofs.Queue
/-!
Invariants of the worker model (`Model/Worker`): one per-worker invariant `WInv` that carries every
log property of C03 and C17, shown to be preserved by each step of the worker (`wstep_inv`), by the
handler's return and `Filter`, by deliveries, by the stop request and by events of other queues.
-/
namespace ShellOp.Worker

open ShellOp.Queue (Id Items)

/-! ### classification of program counters -/

/-- the task the worker holds (picked, in the handler, or being applied) -/
def holds : Pc → Option Id
  | .returned (some t) | .running t | .handled t _ | .apply t _ => some t
  | _ => none

def isRunning : Pc → Bool
  | .running _ => true
  | _ => false

/-- positions from which the handler is entered without another look at the context -/
def committed : Pc → Bool
  | .afterCheck1 _ | .shortcut | .ticked _ _ | .waitGet _ | .returned (some _) => true
  | _ => false

/-- positions from which the worker can still log a point other than `afterHandler`, or a start -/
def emitter : Pc → Bool
  | .afterCheck1 _ | .shortcut | .ticked _ _ | .waitGet _ | .returned (some _) | .apply _ _ => true
  | _ => false

def finSinceStop (q : QName) : List Ev → Bool
  | [] => false
  | .stop :: _ => false
  | .fin q' _ :: rest => if q' = q then true else finSinceStop q rest
  | _ :: rest => finSinceStop q rest

/-! ### the per-worker invariant -/

structure WInv (done : Bool) (q : QName) (items : Items) (pc : Pc) (log : List Ev) : Prop where
  busy_eq : busy q log = isRunning pc
  ovl : noOverlap q log = true
  head : ∀ t, holds pc = some t → Queue.getFirst items = some t
  commit : committed pc = true → committedPos (lastOf q log) = true
  stopLog : stopRequested log = done
  atMost : done = true → startsAfterStop q log ≤ 1 ∧
            (startsAfterStop q log = 1 → committedPos (posAtStop q log) = true)
  commitStop : done = true → committed pc = true →
            startsAfterStop q log = 0 ∧ committedPos (posAtStop q log) = true
  prompt : done = true → promptExitAux q log false = true
  emit : done = true → emitter pc = true → finSinceStop q log = false
  exitIff : exited q log = decide (pc = .stopped)
  exitFin : exitFinal q log = true

/-- a queue without a worker: nothing of its worker in the log -/
structure NoWorker (done : Bool) (q : QName) (log : List Ev) : Prop where
  none : ∀ e ∈ log, e.ofWorker q = false
  stopLog : stopRequested log = done

theorem promptAux_true_of_noFin (q : QName) (log : List Ev) (h : finSinceStop q log = false) :
    ∀ b, promptExitAux q log b = true := by
  induction log with
  | nil => intro b; rfl
  | cons e rest ih =>
    intro b
    cases e with
    | fin q' t =>
      by_cases hq : q' = q
      · simp [finSinceStop, hq] at h
      · simp [finSinceStop, hq] at h
        simp [promptExitAux, hq, ih h]
    | pt q' p =>
      simp [finSinceStop] at h
      simp only [promptExitAux]
      split <;> exact ih h _
    | start q' t hd =>
      simp [finSinceStop] at h
      simp only [promptExitAux]
      split <;> exact ih h _
    | stop => rfl
    | recv q' t => simp [finSinceStop] at h; simpa [promptExitAux] using ih h b
    | drop q' t => simp [finSinceStop] at h; simpa [promptExitAux] using ih h b
    | exit q' => simp [finSinceStop] at h; simpa [promptExitAux] using ih h b

macro "winv_simp" : tactic => `(tactic|
  simp_all [busy, noOverlap, isRunning, holds, committed, emitter, lastOf, Ev.ofWorker, committedPos,
    stopRequested, startsAfterStop, posAtStop, promptExitAux, finSinceStop, exited, exitFinal, leaveWait])

macro "winv_close" : tactic => `(tactic|
  (constructor <;> first
    | (winv_simp; done)
    | (intro hd; refine promptAux_true_of_noFin _ _ ?_ _; winv_simp; done)))

/-- Every step of the worker preserves the invariant (repaired code: `fix = true`). -/
theorem wstep_inv (cfg : Cfg) (hfix : cfg.fix = true) (done : Bool) (q : QName) (qs qs' : QState)
    (pc pc' : Pc) (a : WAct) (evs : List Ev) (log : List Ev)
    (inv : WInv done q qs.items pc log)
    (h : wstep cfg done q qs pc a = some (qs', pc', evs)) :
    WInv done q qs'.items pc' (evs.reverse ++ log) := by
  obtain ⟨hb, ho, hh, hc, hs, ha, hcs, hp, he, hx, hf⟩ := inv
  cases pc <;> cases a <;> simp [wstep] at h
  case loopTop.step =>
    split at h <;> simp at h <;> obtain ⟨rfl, rfl, rfl⟩ := h
    · winv_close
    · winv_close
  case afterCheck1.step =>
    split at h <;> simp at h <;> obtain ⟨rfl, rfl, rfl⟩ := h
    · winv_close
    · winv_close
  case shortcut.step =>
    obtain ⟨rfl, rfl, rfl⟩ := h
    cases hg : Queue.getFirst qs.items <;> winv_close
  case waitLoop.selDone =>
    obtain ⟨rfl, rfl, rfl, rfl⟩ := h
    winv_close
  case waitLoop.selTick =>
    obtain ⟨rfl, rfl, rfl⟩ := h
    winv_close
  case tickRecv.step =>
    split at h <;> simp at h <;> obtain ⟨rfl, rfl, rfl⟩ := h
    · winv_close
    · winv_close
  case ticked.tickStep =>
    split at h
    · split at h <;> simp at h <;> obtain ⟨rfl, rfl, rfl⟩ := h
      · winv_close
      · winv_close
    · simp at h; obtain ⟨rfl, rfl, rfl⟩ := h
      winv_close
  case waitGet.step =>
    obtain ⟨rfl, rfl, rfl⟩ := h
    cases hg : Queue.getFirst qs.items <;> winv_close
  case returned.step t =>
    cases t with
    | none =>
      simp at h; obtain ⟨rfl, rfl, rfl⟩ := h
      winv_close
    | some t =>
      simp at h; obtain ⟨rfl, rfl, rfl⟩ := h
      have hg := hh t rfl
      winv_close
  case handled.step =>
    split at h <;> simp at h <;> obtain ⟨rfl, rfl, rfl⟩ := h
    · winv_close
    · winv_close
  case apply.step =>
    obtain ⟨rfl, rfl, rfl⟩ := h
    winv_close

/-- The handler returns. -/
theorem handlerReturn_inv (done : Bool) (q : QName) (items : Items) (t : Id) (r : Result) (log : List Ev)
    (inv : WInv done q items (.running t) log) :
    WInv done q items (.handled t r) (.pt q .afterHandler :: .fin q t :: log) := by
  obtain ⟨hb, ho, hh, hc, hs, ha, hcs, hp, he, hx, hf⟩ := inv
  winv_close

theorem getFirst_filter_keep (items : Items) (t : Id) (keep : Id → Bool) (hk : keep t = true)
    (h : Queue.getFirst items = some t) : Queue.getFirst (Queue.filter items keep) = some t := by
  cases items with
  | nil => simp [Queue.getFirst] at h
  | cons x rest =>
    simp [Queue.getFirst] at h
    subst h
    simp [Queue.filter, Queue.getFirst, hk]

theorem getFirst_addLast (items : Items) (t x : Id) (h : Queue.getFirst items = some t) :
    Queue.getFirst (Queue.addLast items x) = some t := by
  cases items with
  | nil => simp [Queue.getFirst] at h
  | cons y rest => simpa [Queue.getFirst, Queue.addLast] using h

/-- The handler compacts its own queue (`Filter`), keeping the task it handles. -/
theorem handlerFilter_inv (done : Bool) (q : QName) (items : Items) (t : Id) (keep : List Id) (log : List Ev)
    (inv : WInv done q items (.running t) log) :
    WInv done q (Queue.filter items (fun x => x == t || keep.contains x)) (.running t) log := by
  obtain ⟨hb, ho, hh, hc, hs, ha, hcs, hp, he, hx, hf⟩ := inv
  refine ⟨hb, ho, ?_, hc, hs, ha, hcs, hp, he, hx, hf⟩
  intro t' ht'
  simp [holds] at ht'; subst ht'
  exact getFirst_filter_keep _ _ _ (by simp) (hh _ rfl)

/-- The consumer appends a task to this queue. -/
theorem recv_inv (done : Bool) (q : QName) (items : Items) (pc : Pc) (x : Id) (log : List Ev)
    (inv : WInv done q items pc log) :
    WInv done q (Queue.addLast items x) pc (.recv q x :: log) := by
  obtain ⟨hb, ho, hh, hc, hs, ha, hcs, hp, he, hx, hf⟩ := inv
  have hh' : ∀ t, holds pc = some t → Queue.getFirst (Queue.addLast items x) = some t :=
    fun t ht => getFirst_addLast _ _ _ (hh t ht)
  constructor <;> first | (winv_simp; done) | exact hh'

/-- An event that is not one of this queue's worker and is not the stop request. -/
theorem foreign_inv (done : Bool) (q : QName) (items : Items) (pc : Pc) (e : Ev) (log : List Ev)
    (inv : WInv done q items pc log) (hw : e.ofWorker q = false) (hns : e ≠ .stop) :
    WInv done q items pc (e :: log) := by
  obtain ⟨hb, ho, hh, hc, hs, ha, hcs, hp, he, hx, hf⟩ := inv
  cases e <;> simp [Ev.ofWorker] at hw hns <;> winv_close

/-- The stop request. -/
theorem stop_inv (q : QName) (items : Items) (pc : Pc) (log : List Ev)
    (inv : WInv false q items pc log) : WInv true q items pc (.stop :: log) := by
  obtain ⟨hb, ho, hh, hc, hs, ha, hcs, hp, he, hx, hf⟩ := inv
  winv_close

theorem lastOf_none_of_noWorker (q : QName) (log : List Ev) (h : ∀ e ∈ log, e.ofWorker q = false) :
    lastOf q log = none := by
  induction log with
  | nil => rfl
  | cons e rest ih =>
    have := h e (by simp)
    simp [lastOf, this]
    exact ih (fun e he => h e (by simp [he]))

/-- nothing of `q`'s worker in the log -/
def quiet (q : QName) : List Ev → Bool
  | [] => true
  | e :: rest => !e.ofWorker q && quiet q rest

theorem quiet_facts (q : QName) (log : List Ev) (h : quiet q log = true) :
    busy q log = false ∧ noOverlap q log = true ∧ lastOf q log = none ∧ startsAfterStop q log = 0 ∧
    (∀ b, promptExitAux q log b = true) ∧ finSinceStop q log = false ∧ exited q log = false ∧
    exitFinal q log = true ∧ posAtStop q log = none := by
  induction log with
  | nil => simp [busy, noOverlap, lastOf, startsAfterStop, promptExitAux, finSinceStop, exited, exitFinal, posAtStop]
  | cons e rest ih =>
    simp [quiet] at h
    obtain ⟨he, hr⟩ := h
    obtain ⟨i1, i2, i3, i4, i5, i6, i7, i8, i9⟩ := ih hr
    cases e <;> simp [Ev.ofWorker] at he <;>
      simp_all [busy, noOverlap, lastOf, startsAfterStop, promptExitAux, finSinceStop, exited, exitFinal,
        posAtStop, Ev.ofWorker]

theorem quiet_foreign (q : QName) (e : Ev) (log : List Ev) (h : quiet q log = true)
    (he : e.ofWorker q = false) : quiet q (e :: log) = true := by simp [quiet, h, he]

/-- A freshly spawned worker (`go func()` of Start): it is at the top of its loop. -/
theorem spawn_inv (done : Bool) (q : QName) (items : Items) (log : List Ev)
    (hq : quiet q log = true) (hs : stopRequested log = done) :
    WInv done q items (.loopTop 0) (.pt q .loop :: log) := by
  obtain ⟨i1, i2, i3, i4, i5, i6, i7, i8, i9⟩ := quiet_facts q log hq
  constructor <;> first
    | (simp_all [busy, noOverlap, isRunning, holds, committed, emitter, lastOf, Ev.ofWorker, committedPos,
        stopRequested, startsAfterStop, posAtStop, promptExitAux, finSinceStop, exited, exitFinal]; done)
    | (intro _; exact promptAux_true_of_noFin _ _ (by simp [finSinceStop, i6]) _)

end ShellOp.Worker
