import ShellOp.Model.Metrics
/-! C16: ungrouped updates — lookup characterisation of `uUpsert` / `sendOneV0`. -/
namespace ShellOp.Metrics

/-- the ungrouped series `(n, k)`. -/
def uLookup (l : List UEntry) (n : Nat) (k : Labels) : Option UEntry :=
  l.find? fun e => decide (e.name = n ∧ e.key = k)

theorem uLookup_uUpsert (upd : UEntry → UEntry) (hupd : ∀ e, (upd e).name = e.name ∧ (upd e).key = e.key)
    (n : Nat) (k : Labels) (l : List UEntry) (n' : Nat) (k' : Labels) :
    uLookup (uUpsert upd n k l) n' k' =
      if n' = n ∧ k' = k then some (upd ((uLookup l n k).getD { name := n, key := k, val := 0 }))
      else uLookup l n' k' := by
  induction l with
  | nil =>
    simp only [uUpsert, uLookup, List.find?_cons, List.find?_nil, (hupd _).1, (hupd _).2, Option.getD_none]
    by_cases h : n' = n ∧ k' = k
    · simp [h]
    · have : ¬ (n = n' ∧ k = k') := fun h' => h ⟨h'.1.symm, h'.2.symm⟩
      simp [h, this]
  | cons e rest ih =>
    unfold uUpsert
    by_cases hhit : e.name = n ∧ e.key = k
    · simp only [hhit, and_self, if_true, uLookup, List.find?_cons, (hupd _).1, (hupd _).2, decide_true]
      by_cases h : n' = n ∧ k' = k
      · simp [h]
      · have : ¬ (n = n' ∧ k = k') := fun h' => h ⟨h'.1.symm, h'.2.symm⟩
        simp [h, this]
    · simp only [hhit, if_false, uLookup, List.find?_cons] at ih ⊢
      by_cases he : e.name = n' ∧ e.key = k'
      · have hne : ¬ (n' = n ∧ k' = k) := by
          intro h; apply hhit; rw [he.1, he.2]; exact h
        simp [he, hne]
      · simp only [he, decide_false, hhit]
        exact ih

/-- the effect of one ungrouped operation of family `f` on a metric whose vec either exists with
this family and these label names, or whose name is free. -/
theorem ungroupedApply_ok (st : State) (f : Fam) (n : Nat) (labels : Labels) (upd : UEntry → UEntry)
    (hok : (∃ vec, st.vecs.find? (fun v => v.name == n && v.fam == f) = some vec ∧ vec.labelNames = labels.map (·.1)) ∨
           (st.vecs.find? (fun v => v.name == n && v.fam == f) = none ∧ st.registered n = false)) :
    (ungroupedApply st f n labels false upd).uentries = uUpsert upd n labels st.uentries ∧
    (ungroupedApply st f n labels false upd).gentries = st.gentries ∧
    (ungroupedApply st f n labels false upd).colls = st.colls := by
  unfold ungroupedApply
  rcases hok with ⟨vec, hf, hn⟩ | ⟨hf, hr⟩
  · simp [hf, hn]
  · simp [hf, hr]

end ShellOp.Metrics
