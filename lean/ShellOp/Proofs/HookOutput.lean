import ShellOp.Model.HookOutput
/-
Facts about the model of `MetricOperationsFromReader` (`HookOutput.loop`): what it accepts is a
stream of whole documents followed by blanks only, and whatever stops the decoder after any number
of good documents makes the whole file unparsable.
-/
namespace ShellOp.HookOutput

/-- The reader has consumed whole, decodable documents of `s` and stands before `rest`. -/
inductive Reaches : List Char → List Char → Prop
  | refl (s : List Char) : Reaches s s
  | doc (s : List Char) (v : J) (mid rest : List Char) :
      decodeNext s = .doc v mid → mid.length < s.length → (decodeOp v).isSome = true →
      Reaches mid rest → Reaches s rest

/-- The file is a stream of decodable documents followed by blanks only: nothing is left unread. -/
def IsStream (s : List Char) : Prop := ∃ rest, Reaches s rest ∧ skipWs rest = []

theorem decodeNext_eof {s : List Char} (h : decodeNext s = .eof) : skipWs s = [] := by
  unfold decodeNext at h
  split at h
  · assumption
  · split at h <;> cases h

theorem loop_none_of_err {s rest : List Char} (hr : Reaches s rest) (he : decodeNext rest = .err) :
    ∀ f, loop f s = none := by
  induction hr with
  | refl s =>
    intro f
    cases f with
    | zero => rfl
    | succ f => simp [loop, he]
  | doc s v mid rest hd hl hv _ ih =>
    intro f
    cases f with
    | zero => rfl
    | succ f =>
      obtain ⟨op, hop⟩ := Option.isSome_iff_exists.mp hv
      simp [loop, hd, hl, hop, ih he f]

theorem loop_some_stream : ∀ (f : Nat) (s : List Char) (ops : List MetricOp),
    loop f s = some ops → IsStream s := by
  intro f
  induction f with
  | zero => intro s ops h; simp [loop] at h
  | succ f ih =>
    intro s ops h
    unfold loop at h
    split at h
    · rename_i he
      exact ⟨s, .refl s, decodeNext_eof he⟩
    · cases h
    · rename_i v mid hd
      split at h
      · rename_i hl
        split at h
        · cases h
        · rename_i op hop
          cases hl2 : loop f mid with
          | none => simp [hl2] at h
          | some ops' =>
            obtain ⟨rest, hr, hw⟩ := ih mid ops' hl2
            exact ⟨rest, .doc s v mid rest hd hl (by simp [hop]) hr, hw⟩
      · cases h

/-- A byte that cannot start a JSON value, possibly after blanks, stops the decoder with an error
(not with `io.EOF`). -/
theorem decodeNext_stray (ws r : List Char) (c : Char) (hws : ws.all isWs = true)
    (hc : c = '}' ∨ c = ']' ∨ c = ',' ∨ c = ':') : decodeNext (ws ++ c :: r) = .err := by
  have hskip : skipWs (ws ++ c :: r) = c :: r := by
    unfold skipWs
    induction ws with
    | nil => rcases hc with h | h | h | h <;> subst h <;> simp [isWs]
    | cons w ws ih =>
      simp only [List.all_cons, Bool.and_eq_true] at hws
      simp [hws.1, ih hws.2]
  have hskip2 : skipWs (c :: r) = c :: r := by
    rcases hc with h | h | h | h <;> subst h <;> simp [skipWs, List.dropWhile, isWs]
  unfold decodeNext
  rw [hskip]
  have hf : fuelFor (c :: r) = (2 * (c :: r).length + 3) + 1 := rfl
  simp only [hf, parse, hskip2]
  rcases hc with h | h | h | h <;> subst h <;> simp [parseNum]

theorem not_reaches_nil {rest : List Char} (h : Reaches [] rest) : rest = [] := by
  cases h with
  | refl => rfl
  | doc _ v mid _ _ hl _ _ => simp at hl

/-- **Stray closer ⇒ unparsable**: a metrics file in which, after any number of good documents, the
next token is a closing brace/bracket (or a comma / colon) is rejected as a whole. -/
theorem stray_closer_unparsable (s rest ws r : List Char) (c : Char) (hr : Reaches s rest)
    (hrest : rest = ws ++ c :: r) (hws : ws.all isWs = true)
    (hc : c = '}' ∨ c = ']' ∨ c = ',' ∨ c = ':') : metricsOk s = false := by
  have hne : s.isEmpty = false := by
    cases s with
    | nil =>
      have := not_reaches_nil hr
      rw [hrest] at this
      simp at this
    | cons _ _ => rfl
  have hl := loop_none_of_err hr (by rw [hrest]; exact decodeNext_stray ws r c hws hc) (s.length + 1)
  simp [metricsOk, hne, fromReader, hl]

/-- **Accepted ⇒ fully read**: a metrics file that is accepted is a stream of decodable documents
with nothing but blanks after the last one (no byte of the file is silently ignored). -/
theorem metricsOk_stream (s : List Char) (h : metricsOk s = true) : IsStream s := by
  unfold metricsOk at h
  split at h
  · rename_i he
    have : s = [] := by simpa using he
    subst this
    exact ⟨[], .refl [], rfl⟩
  · split at h
    · cases h
    · rename_i ops hf
      exact loop_some_stream _ s ops hf

/-! ## Accepted ⇒ applied -/

/-- **Validation is sound for application**: an operation `ValidateMetricOperation` accepts has a
branch WITH AN EFFECT in `sendBatchV0` / `applyGroupOperations` — it is neither an error of the
ungrouped path (the validation would have had to report it) nor dropped silently by the grouped
loop. This is the statement a validation table with an action nobody applies falsifies. -/
theorem validOp_applied (op : MetricOp) (h : validOp op = true) : applyOp op = .effect := by
  unfold validOp at h
  unfold applyOp
  simp only [bne] at h
  cases hg : (op.group == ([] : List Char)) <;> cases hs : (op.action == "set".toList) <;>
    cases ha : (op.action == "add".toList) <;> cases ho : (op.action == "observe".toList) <;>
    cases he : (op.action == "expire".toList) <;> cases hv : op.value <;> cases hb : op.buckets <;>
    cases hS : op.set <;> cases hA : op.add <;> simp_all <;> grind

/-- An accepted operation other than an expire has a name (the series it is applied to). -/
theorem validOp_named (op : MetricOp) (h : validOp op = true) (hx : op.action ≠ "expire".toList) :
    op.name ≠ [] := by
  unfold validOp at h
  simp only [bne] at h
  intro hn
  have he : (op.action == "expire".toList) = false := by simpa using hx
  cases hg : (op.group == ([] : List Char)) <;> simp_all

/-- A file with an operation that has no effect (error or silently dropped) is not accepted. -/
theorem metricsOk_all_applied (s : List Char) (hne : s ≠ []) (h : metricsOk s = true) :
    ∃ ops, fromReader s = some ops ∧ ∀ op ∈ ops, applyOp op = .effect := by
  unfold metricsOk at h
  have he : s.isEmpty = false := by cases s <;> simp_all
  rw [he] at h
  simp only [Bool.false_eq_true, if_false] at h
  cases hf : fromReader s with
  | none => rw [hf] at h; cases h
  | some ops =>
    rw [hf] at h
    refine ⟨ops, rfl, fun op hop => validOp_applied op ?_⟩
    exact (List.all_eq_true.mp h) op hop

/-- The contrapositive, as the property states it: output that cannot be applied ⇒ not accepted. -/
theorem unapplied_not_ok (s : List Char) (ops : List MetricOp) (hf : fromReader s = some ops)
    (op : MetricOp) (hop : op ∈ ops) (hn : applyOp op ≠ .effect) : metricsOk s = false := by
  cases hm : metricsOk s with
  | false => rfl
  | true =>
    have hne : s ≠ [] := by
      intro h0
      subst h0
      have : fromReader [] = some [] := by decide
      rw [this] at hf
      cases hf
      cases hop
    obtain ⟨ops', hf', hall⟩ := metricsOk_all_applied s hne hm
    rw [hf] at hf'
    cases hf'
    exact absurd (hall op hop) hn

end ShellOp.HookOutput
