import ShellOp.Model.WaitHead
/-! `waitForTask` returns the head the queue has at its LAST look (C03, head first on the retry path). -/
namespace ShellOp.WaitHead
open ShellOp.Queue (Id Items getFirst)

theorem waitLoop_some : ∀ (looks : List Look) (r : Option Id), waitLoop looks = some r →
    ∃ pre k post, looks = pre ++ k :: post ∧ k.expired = true ∧ k.atEmpty.isEmpty = false ∧
      r = getFirst k.atGet ∧ waitLoop pre = none
  | [], r, h => by simp [waitLoop] at h
  | k :: rest, r, h => by
    unfold waitLoop at h
    by_cases hk : (k.expired && !k.atEmpty.isEmpty) = true
    · rw [if_pos hk] at h
      have hk' := hk
      simp only [Bool.and_eq_true, Bool.not_eq_true'] at hk'
      refine ⟨[], k, rest, rfl, hk'.1, hk'.2, ?_, rfl⟩
      injection h with h
      exact h.symm
    · rw [if_neg hk] at h
      obtain ⟨pre, k', post, e, h1, h2, h3, h4⟩ := waitLoop_some rest r h
      refine ⟨k :: pre, k', post, by simp [e], h1, h2, h3, ?_⟩
      unfold waitLoop
      rw [if_neg hk]
      exact h4

end ShellOp.WaitHead
