import ShellOp.Model.MonitorEnable
namespace ShellOp.MonitorEnable

/-- Invariant of the repaired order. A namespace entry is "covered" when its informers are enabled,
or its callback has not read the flag yet, or the range still has it on its list. -/
structure Good (s : MSt) : Prop where
  flag_iff : s.flag = true ↔ s.ea ≠ .start
  notRangeDone : s.ea ≠ .rangeDone
  statics : (s.ea ≠ .start ∧ s.ea ≠ .flagSet) → ∀ b ∈ s.statics, b = true
  ranging : ∀ todo, s.ea = .ranging todo → ∀ p ∈ s.varying, p.2 = true ∨ p.1 ∈ s.inflight ∨ p.1 ∈ todo
  finished : s.ea = .done → ∀ p ∈ s.varying, p.2 = true ∨ p.1 ∈ s.inflight

theorem mem_enableNs {v : List (Nat × Bool)} {ns : Nat} {p : Nat × Bool} (h : p ∈ enableNs v ns) :
    (p.1 = ns ∧ p.2 = true) ∨ (p.1 ≠ ns ∧ p ∈ v) := by
  simp only [enableNs, List.mem_map] at h
  obtain ⟨q, hq, rfl⟩ := h
  by_cases hn : q.1 = ns
  · left; simp [hn]
  · right; simp [hn, hq]

theorem good_init (st : List Bool) (v : List (Nat × Bool)) :
    Good { statics := st, varying := v } := by
  constructor <;> simp

theorem good_del (s s' : MSt) (ns : Nat) (g : Good s) (h : step true s (.nsDel ns) = some s') : Good s' := by
  have sub : ∀ (t : MSt), t.flag = s.flag → t.ea = s.ea → t.statics = s.statics → t.inflight = s.inflight →
      (∀ p ∈ t.varying, p ∈ s.varying) → Good t := by
    intro t hf he hs hi hv
    constructor
    · rw [hf, he]; exact g.flag_iff
    · rw [he]; exact g.notRangeDone
    · rw [he, hs]; exact g.statics
    · intro todo ht p hp; rw [he] at ht; rw [hi]; exact g.ranging todo ht p (hv p hp)
    · intro hd p hp; rw [he] at hd; rw [hi]; exact g.finished hd p (hv p hp)
  simp only [step] at h
  split at h
  · simp at h
  · split at h
    · simp only [Option.some.injEq] at h; subst h
      exact sub _ rfl rfl rfl rfl (fun p hp => (List.mem_filter.mp hp).1)
    · simp only [Option.some.injEq] at h; subst h
      exact sub _ rfl rfl rfl rfl (fun p hp => hp)

theorem good_step (s s' : MSt) (a : MAct) (g : Good s) (h : step true s a = some s') : Good s' := by
  cases a with
  | ea =>
    simp only [step] at h
    split at h
    · -- start → flagSet
      rename_i hea
      simp only [if_true, Option.some.injEq] at h; subst h
      constructor <;> simp
    · rename_i hea
      simp only [Option.some.injEq] at h; subst h
      have hf := g.flag_iff
      constructor
      · simp [hea] at hf ⊢; exact hf
      · simp
      · intro _ b hb; simp at hb; exact hb.2
      · intro todo ht; simp at ht
      · intro hd; simp at hd
    · rename_i hea
      simp only [Option.some.injEq] at h; subst h
      have hf := g.flag_iff
      constructor
      · simp [hea] at hf ⊢; exact hf
      · simp
      · intro _; exact g.statics (by simp [hea])
      · intro todo ht p hp
        simp only [EaPc.ranging.injEq] at ht; subst ht
        right; right; exact List.mem_map.mpr ⟨p, hp, rfl⟩
      · intro hd; simp at hd
    · rename_i hea
      simp only [if_true, Option.some.injEq] at h; subst h
      have hf := g.flag_iff
      constructor
      · simp [hea] at hf ⊢; exact hf
      · simp
      · intro _; exact g.statics (by simp [hea])
      · intro todo ht; simp at ht
      · intro _ p hp
        rcases g.ranging [] hea p hp with h | h | h
        · exact Or.inl h
        · exact Or.inr h
        · simp at h
    · rename_i ns rest hea
      simp only [Option.some.injEq] at h; subst h
      have hf := g.flag_iff
      constructor
      · simp [hea] at hf ⊢; exact hf
      · simp
      · intro _; exact g.statics (by simp [hea])
      · intro todo ht p hp
        simp only [EaPc.ranging.injEq] at ht; subst ht
        rcases mem_enableNs hp with ⟨_, h2⟩ | ⟨hne, hp'⟩
        · exact Or.inl h2
        · rcases g.ranging (ns :: rest) hea p hp' with h | h | h
          · exact Or.inl h
          · exact Or.inr (Or.inl h)
          · rcases List.mem_cons.mp h with h | h
            · exact absurd h hne
            · exact Or.inr (Or.inr h)
      · intro hd; simp at hd
    · rename_i hea; exact absurd hea g.notRangeDone
    · simp at h
  | visitExtra ns =>
    simp only [step] at h
    split at h
    · rename_i todo hea
      simp only [Option.some.injEq] at h; subst h
      constructor
      · exact g.flag_iff
      · exact g.notRangeDone
      · exact g.statics
      · intro todo' ht p hp
        rcases mem_enableNs hp with ⟨_, h2⟩ | ⟨_, hp'⟩
        · exact Or.inl h2
        · exact g.ranging todo' ht p hp'
      · intro hd; rw [hea] at hd; simp at hd
    · simp at h
  | nsStore ns =>
    simp only [step] at h
    split at h
    · simp only [Option.some.injEq] at h; subst h
      exact ⟨g.flag_iff, g.notRangeDone, g.statics, g.ranging, g.finished⟩
    · simp only [Option.some.injEq] at h; subst h
      constructor
      · exact g.flag_iff
      · exact g.notRangeDone
      · exact g.statics
      · intro todo ht p hp
        rcases List.mem_append.mp hp with hp | hp
        · rcases g.ranging todo ht p hp with h | h | h
          · exact Or.inl h
          · exact Or.inr (Or.inl (List.mem_append_left _ h))
          · exact Or.inr (Or.inr h)
        · simp at hp; subst hp; right; left; simp
      · intro hd p hp
        rcases List.mem_append.mp hp with hp | hp
        · rcases g.finished hd p hp with h | h
          · exact Or.inl h
          · exact Or.inr (List.mem_append_left _ h)
        · simp at hp; subst hp; right; simp
  | nsRead ns =>
    simp only [step] at h
    split at h
    · rename_i hin
      simp only [Option.some.injEq] at h; subst h
      have key : ∀ p : Nat × Bool, p.1 ∈ s.inflight → (s.flag = true) →
          p ∈ (if s.flag = true then enableNs s.varying ns else s.varying) →
          p.2 = true ∨ p.1 ∈ s.inflight.erase ns := by
        intro p hpin hfl hp
        simp only [hfl, if_true] at hp
        rcases mem_enableNs hp with ⟨_, h2⟩ | ⟨hne, _⟩
        · exact Or.inl h2
        · exact Or.inr ((List.mem_erase_of_ne hne).mpr hpin)
      constructor
      · exact g.flag_iff
      · exact g.notRangeDone
      · exact g.statics
      · intro todo ht p hp
        have hfl : s.flag = true := g.flag_iff.mpr (by rw [ht]; simp)
        have hp0 : p ∈ enableNs s.varying ns := by simpa [hfl] using hp
        rcases mem_enableNs hp0 with ⟨_, h2⟩ | ⟨hne, hp'⟩
        · exact Or.inl h2
        · rcases g.ranging todo ht p hp' with h | h | h
          · exact Or.inl h
          · exact Or.inr (Or.inl ((List.mem_erase_of_ne hne).mpr h))
          · exact Or.inr (Or.inr h)
      · intro hd p hp
        have hfl : s.flag = true := g.flag_iff.mpr (by rw [hd]; simp)
        have hp0 : p ∈ enableNs s.varying ns := by simpa [hfl] using hp
        rcases mem_enableNs hp0 with ⟨_, h2⟩ | ⟨hne, hp'⟩
        · exact Or.inl h2
        · rcases g.finished hd p hp' with h | h
          · exact Or.inl h
          · exact Or.inr ((List.mem_erase_of_ne hne).mpr h)
    · simp at h
  | nsDel ns => exact good_del s s' ns g h

theorem good_of_start (s : MSt) (h1 : s.ea = .start) (h2 : s.flag = false) : Good s := by
  constructor <;> simp [h1, h2]

/-! ## Namespaces that go away and come back: the two indexes stay in step -/

theorem keys_enableNs (v : List (Nat × Bool)) (ns : Nat) :
    (enableNs v ns).map (·.1) = v.map (·.1) := by
  induction v with
  | nil => rfl
  | cons p rest ih =>
    simp only [enableNs, List.map_cons] at ih ⊢
    by_cases hp : p.1 = ns <;> simp [hp, ih]

/-- Invariant: every live matching namespace has an entry in `VaryingInformers`, and every entry
there has a cancel function or a callback in flight that is about to store one (so the delete
callback, which looks at `cancelForNs`, never skips a namespace that has informers). -/
structure Tracks (s : MSt) : Prop where
  watched : ∀ n ∈ s.live, n ∈ keys s
  cancelIdx : ∀ n ∈ keys s, n ∈ s.cancel ∨ n ∈ s.inflight

theorem tracks_initial (st : List Bool) (nss : List Nat) : Tracks (initial st nss) := by
  constructor
  · intro n hn; simp [keys, initial] at hn ⊢; exact hn
  · intro n hn; simp [keys, initial] at hn ⊢; exact hn

theorem tracks_step (fx : Bool) (s s' : MSt) (a : MAct) (g : Tracks s) (h : step fx s a = some s') :
    Tracks s' := by
  have keep : ∀ (t : MSt), keys t = keys s → t.live = s.live → t.cancel = s.cancel →
      t.inflight = s.inflight → Tracks t := by
    intro t hk hl hc hi
    exact ⟨by rw [hk, hl]; exact g.watched, by rw [hk, hc, hi]; exact g.cancelIdx⟩
  cases a with
  | ea =>
    simp only [step] at h
    split at h
    · split at h <;> (simp only [Option.some.injEq] at h; subst h; exact keep _ rfl rfl rfl rfl)
    · simp only [Option.some.injEq] at h; subst h; exact keep _ rfl rfl rfl rfl
    · simp only [Option.some.injEq] at h; subst h; exact keep _ rfl rfl rfl rfl
    · split at h <;> (simp only [Option.some.injEq] at h; subst h; exact keep _ rfl rfl rfl rfl)
    · simp only [Option.some.injEq] at h; subst h
      exact keep _ (by simp [keys, keys_enableNs]) rfl rfl rfl
    · simp only [Option.some.injEq] at h; subst h; exact keep _ rfl rfl rfl rfl
    · simp at h
  | visitExtra ns =>
    simp only [step] at h
    split at h
    · simp only [Option.some.injEq] at h; subst h
      exact keep _ (by simp [keys, keys_enableNs]) rfl rfl rfl
    · simp at h
  | nsStore ns =>
    simp only [step] at h
    split at h
    · rename_i hin
      simp only [Option.some.injEq] at h; subst h
      constructor
      · intro n hn
        simp only [List.mem_cons] at hn
        rcases hn with rfl | hn
        · simp only [List.any_eq_true, beq_iff_eq] at hin
          obtain ⟨p, hp, rfl⟩ := hin
          exact List.mem_map.mpr ⟨p, hp, rfl⟩
        · exact g.watched n hn
      · exact g.cancelIdx
    · simp only [Option.some.injEq] at h; subst h
      constructor
      · intro n hn
        simp only [List.mem_cons] at hn
        simp only [keys, List.map_append, List.mem_append, List.map_cons, List.map_nil, List.mem_singleton]
        rcases hn with rfl | hn
        · right; trivial
        · left; exact g.watched n hn
      · intro n hn
        simp only [keys, List.map_append, List.mem_append, List.map_cons, List.map_nil, List.mem_singleton] at hn
        rcases hn with hn | rfl
        · rcases g.cancelIdx n hn with h | h
          · exact Or.inl h
          · exact Or.inr (List.mem_append_left _ h)
        · right; simp
  | nsRead ns =>
    simp only [step] at h
    split at h
    · simp only [Option.some.injEq] at h; subst h
      have hk : (if s.flag = true then enableNs s.varying ns else s.varying).map (·.1) = s.varying.map (·.1) := by
        by_cases hf : s.flag = true <;> simp [hf, keys_enableNs]
      constructor
      · intro n hn
        show n ∈ (if s.flag = true then enableNs s.varying ns else s.varying).map (·.1)
        rw [hk]; exact g.watched n hn
      · intro n hn
        have hn' : n ∈ keys s := by
          have : n ∈ (if s.flag = true then enableNs s.varying ns else s.varying).map (·.1) := hn
          rw [hk] at this; exact this
        by_cases hne : n = ns
        · left; simp [hne]
        · rcases g.cancelIdx n hn' with h | h
          · left; exact List.mem_append_left _ h
          · right; exact (List.mem_erase_of_ne hne).mpr h
    · simp at h
  | nsDel ns =>
    simp only [step] at h
    split at h
    · simp at h
    · rename_i hinf
      have hinf : s.inflight = [] := by simpa using hinf
      split at h
      · simp only [Option.some.injEq] at h; subst h
        constructor
        · intro n hn
          simp only [List.mem_filter, bne_iff_ne, ne_eq, decide_eq_true_eq] at hn
          have := g.watched n hn.1
          simp only [keys, List.mem_map] at this ⊢
          obtain ⟨p, hp, rfl⟩ := this
          exact ⟨p, List.mem_filter.mpr ⟨hp, by simpa using hn.2⟩, rfl⟩
        · intro n hn
          simp only [keys, List.mem_map, List.mem_filter] at hn
          obtain ⟨p, ⟨hp, hne⟩, rfl⟩ := hn
          rcases g.cancelIdx p.1 (List.mem_map.mpr ⟨p, hp, rfl⟩) with h | h
          · left; exact List.mem_filter.mpr ⟨h, hne⟩
          · rw [hinf] at h; simp at h
      · rename_i hc
        simp only [Option.some.injEq] at h; subst h
        constructor
        · intro n hn
          simp only [List.mem_filter] at hn
          exact g.watched n hn.1
        · exact g.cancelIdx

theorem tracks_run (fx : Bool) (s : MSt) (sched : List MAct) (g : Tracks s) : Tracks (run fx s sched) := by
  unfold run
  induction sched generalizing s with
  | nil => exact g
  | cons a rest ih =>
    simp only [List.foldl_cons]
    apply ih
    cases h : step fx s a with
    | none => simpa using g
    | some s' => simpa using tracks_step fx s s' a g h

theorem good_run (s : MSt) (sched : List MAct) (g : Good s) : Good (run true s sched) := by
  unfold run
  induction sched generalizing s with
  | nil => exact g
  | cons a rest ih =>
    simp only [List.foldl_cons]
    apply ih
    cases h : step true s a with
    | none => simpa using g
    | some s' => simpa using good_step s s' a g h

end ShellOp.MonitorEnable
