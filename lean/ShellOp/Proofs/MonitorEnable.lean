import ShellOp.Model.MonitorEnable
namespace ShellOp.MonitorEnable

/-- Invariant of the repaired order. A namespace entry is "covered" when its informers are enabled,
or its callback has not read the flag yet, or the range still has it on its list. -/
structure Good (s : MSt) : Prop where
  flag_iff : s.flag = true ↔ s.ea ≠ .start
  notRangeDone : s.ea ≠ .rangeDone
  statics : (s.ea ≠ .start ∧ s.ea ≠ .flagSet) → ∀ b ∈ s.statics, b = true
  ranging : ∀ todo, s.ea = .ranging todo → ∀ p ∈ s.varying, p.2 = true ∨ p.1 ∈ s.inflight ∨ p.1 ∈ todo
  finished : s.ea = .done → ∀ p ∈ s.varying, p.2 = true ∨ p.1 ∈ s.inflight

theorem mem_enableNs {v : List (Nat × Bool)} {ns : Nat} {p : Nat × Bool} (h : p ∈ enableNs v ns) :
    (p.1 = ns ∧ p.2 = true) ∨ (p.1 ≠ ns ∧ p ∈ v) := by
  simp only [enableNs, List.mem_map] at h
  obtain ⟨q, hq, rfl⟩ := h
  by_cases hn : q.1 = ns
  · left; simp [hn]
  · right; simp [hn, hq]

theorem good_init (st : List Bool) (v : List (Nat × Bool)) :
    Good { statics := st, varying := v } := by
  constructor <;> simp

theorem good_step (s s' : MSt) (a : MAct) (g : Good s) (h : step true s a = some s') : Good s' := by
  cases a with
  | ea =>
    simp only [step] at h
    split at h
    · -- start → flagSet
      rename_i hea
      simp only [if_true, Option.some.injEq] at h; subst h
      constructor <;> simp
    · rename_i hea
      simp only [Option.some.injEq] at h; subst h
      have hf := g.flag_iff
      constructor
      · simp [hea] at hf ⊢; exact hf
      · simp
      · intro _ b hb; simp at hb; exact hb.2
      · intro todo ht; simp at ht
      · intro hd; simp at hd
    · rename_i hea
      simp only [Option.some.injEq] at h; subst h
      have hf := g.flag_iff
      constructor
      · simp [hea] at hf ⊢; exact hf
      · simp
      · intro _; exact g.statics (by simp [hea])
      · intro todo ht p hp
        simp only [EaPc.ranging.injEq] at ht; subst ht
        right; right; exact List.mem_map.mpr ⟨p, hp, rfl⟩
      · intro hd; simp at hd
    · rename_i hea
      simp only [if_true, Option.some.injEq] at h; subst h
      have hf := g.flag_iff
      constructor
      · simp [hea] at hf ⊢; exact hf
      · simp
      · intro _; exact g.statics (by simp [hea])
      · intro todo ht; simp at ht
      · intro _ p hp
        rcases g.ranging [] hea p hp with h | h | h
        · exact Or.inl h
        · exact Or.inr h
        · simp at h
    · rename_i ns rest hea
      simp only [Option.some.injEq] at h; subst h
      have hf := g.flag_iff
      constructor
      · simp [hea] at hf ⊢; exact hf
      · simp
      · intro _; exact g.statics (by simp [hea])
      · intro todo ht p hp
        simp only [EaPc.ranging.injEq] at ht; subst ht
        rcases mem_enableNs hp with ⟨_, h2⟩ | ⟨hne, hp'⟩
        · exact Or.inl h2
        · rcases g.ranging (ns :: rest) hea p hp' with h | h | h
          · exact Or.inl h
          · exact Or.inr (Or.inl h)
          · rcases List.mem_cons.mp h with h | h
            · exact absurd h hne
            · exact Or.inr (Or.inr h)
      · intro hd; simp at hd
    · rename_i hea; exact absurd hea g.notRangeDone
    · simp at h
  | visitExtra ns =>
    simp only [step] at h
    split at h
    · rename_i todo hea
      simp only [Option.some.injEq] at h; subst h
      constructor
      · exact g.flag_iff
      · exact g.notRangeDone
      · exact g.statics
      · intro todo' ht p hp
        rcases mem_enableNs hp with ⟨_, h2⟩ | ⟨_, hp'⟩
        · exact Or.inl h2
        · exact g.ranging todo' ht p hp'
      · intro hd; rw [hea] at hd; simp at hd
    · simp at h
  | nsStore ns =>
    simp only [step] at h
    split at h
    · simp at h
    · simp only [Option.some.injEq] at h; subst h
      constructor
      · exact g.flag_iff
      · exact g.notRangeDone
      · exact g.statics
      · intro todo ht p hp
        rcases List.mem_append.mp hp with hp | hp
        · rcases g.ranging todo ht p hp with h | h | h
          · exact Or.inl h
          · exact Or.inr (Or.inl (List.mem_append_left _ h))
          · exact Or.inr (Or.inr h)
        · simp at hp; subst hp; right; left; simp
      · intro hd p hp
        rcases List.mem_append.mp hp with hp | hp
        · rcases g.finished hd p hp with h | h
          · exact Or.inl h
          · exact Or.inr (List.mem_append_left _ h)
        · simp at hp; subst hp; right; simp
  | nsRead ns =>
    simp only [step] at h
    split at h
    · rename_i hin
      simp only [Option.some.injEq] at h; subst h
      have key : ∀ p : Nat × Bool, p.1 ∈ s.inflight → (s.flag = true) →
          p ∈ (if s.flag = true then enableNs s.varying ns else s.varying) →
          p.2 = true ∨ p.1 ∈ s.inflight.erase ns := by
        intro p hpin hfl hp
        simp only [hfl, if_true] at hp
        rcases mem_enableNs hp with ⟨_, h2⟩ | ⟨hne, _⟩
        · exact Or.inl h2
        · exact Or.inr ((List.mem_erase_of_ne hne).mpr hpin)
      constructor
      · exact g.flag_iff
      · exact g.notRangeDone
      · exact g.statics
      · intro todo ht p hp
        have hfl : s.flag = true := g.flag_iff.mpr (by rw [ht]; simp)
        have hp0 : p ∈ enableNs s.varying ns := by simpa [hfl] using hp
        rcases mem_enableNs hp0 with ⟨_, h2⟩ | ⟨hne, hp'⟩
        · exact Or.inl h2
        · rcases g.ranging todo ht p hp' with h | h | h
          · exact Or.inl h
          · exact Or.inr (Or.inl ((List.mem_erase_of_ne hne).mpr h))
          · exact Or.inr (Or.inr h)
      · intro hd p hp
        have hfl : s.flag = true := g.flag_iff.mpr (by rw [hd]; simp)
        have hp0 : p ∈ enableNs s.varying ns := by simpa [hfl] using hp
        rcases mem_enableNs hp0 with ⟨_, h2⟩ | ⟨hne, hp'⟩
        · exact Or.inl h2
        · rcases g.finished hd p hp' with h | h
          · exact Or.inl h
          · exact Or.inr ((List.mem_erase_of_ne hne).mpr h)
    · simp at h

theorem good_run (s : MSt) (sched : List MAct) (g : Good s) : Good (run true s sched) := by
  unfold run
  induction sched generalizing s with
  | nil => exact g
  | cons a rest ih =>
    simp only [List.foldl_cons]
    apply ih
    cases h : step true s a with
    | none => simpa using g
    | some s' => simpa using good_step s s' a g h

end ShellOp.MonitorEnable
