import ShellOp.Proofs.Metrics
/-! C16: the value half of `group_replacement` — what a group owns after its part of a batch is
exactly what `Spec.written` describes. -/
namespace ShellOp.Metrics

/-- what `g` owns in a flat collection, as a lookup (name, labels) ↦ value. -/
def ownedLookup (l : List GEntry) (g : Nat) (k : Nat × Labels) : Option Int :=
  ((owned l g).map fun e => ((e.name, e.key), e.val)).lookup k

theorem ownedLookup_nil (g : Nat) (k : Nat × Labels) : ownedLookup [] g k = none := rfl

theorem ownedLookup_cons (e : GEntry) (rest : List GEntry) (g : Nat) (k : Nat × Labels) :
    ownedLookup (e :: rest) g k =
      if e.group = g then (if k = (e.name, e.key) then some e.val else ownedLookup rest g k)
      else ownedLookup rest g k := by
  unfold ownedLookup owned
  by_cases hg : e.group = g
  · simp only [List.filter_cons, hg, beq_self_eq_true, if_true, List.map_cons, List.lookup_cons]
    by_cases hk : k = (e.name, e.key)
    · subst hk; simp
    · have : (k == (e.name, e.key)) = false := by simpa using hk
      simp [this, hk]
  · have : (e.group == g) = false := by simpa using hg
    simp [List.filter_cons, this, hg]

/-- the lookup of what `g` owns after one `Set`/`Add` on the collection, when every entry with the
written identity is owned by `g` (no cross-group series). -/
theorem ownedLookup_gUpsert (upd : Int → Int → Int) (n : Nat) (kk : Labels) (v : Int) (g : Nat)
    (l : List GEntry) (hown : ∀ e ∈ l, (e.name, e.key) = (n, kk) → e.group = g) (k : Nat × Labels) :
    ownedLookup (gUpsert upd n kk v g l) g k =
      if k = (n, kk) then some (upd ((ownedLookup l g (n, kk)).getD 0) v) else ownedLookup l g k := by
  induction l with
  | nil =>
    simp only [gUpsert, ownedLookup_cons, ownedLookup_nil, if_true]
    by_cases hk : k = (n, kk) <;> simp [hk]
  | cons e rest ih =>
    have hrest : ∀ e' ∈ rest, (e'.name, e'.key) = (n, kk) → e'.group = g :=
      fun e' he' => hown e' (List.mem_cons_of_mem _ he')
    unfold gUpsert
    by_cases hhit : e.name = n ∧ e.key = kk
    · have hg : e.group = g := hown e (by simp) (by rw [hhit.1, hhit.2])
      simp only [hhit, and_self, if_true, ownedLookup_cons, hg]
      by_cases hk : k = (n, kk)
      · simp [hk]
      · simp [hk]
    · simp only [hhit, if_false, ownedLookup_cons]
      have hne : (e.name, e.key) ≠ (n, kk) := by
        intro h; apply hhit; simpa using h
      rw [ih hrest]
      by_cases hg : e.group = g
      · simp only [hg, if_true]
        by_cases hk : k = (n, kk)
        · have : ¬ k = (e.name, e.key) := by rw [hk]; exact fun h => hne h.symm
          have h2 : ¬ (n, kk) = (e.name, e.key) := fun h => hne h.symm
          simp [hk, h2]
        · simp [hk]
      · simp [hg]

theorem gUpsert_mem (upd : Int → Int → Int) (n : Nat) (kk : Labels) (v : Int) (g : Nat) (l : List GEntry) :
    ∀ e ∈ gUpsert upd n kk v g l,
      (∃ e0 ∈ l, e0.name = e.name ∧ e0.key = e.key ∧ e0.group = e.group) ∨
        (e.group = g ∧ e.name = n ∧ e.key = kk) := by
  induction l with
  | nil => intro e he; simp [gUpsert] at he; subst he; right; exact ⟨rfl, rfl, rfl⟩
  | cons e0 rest ih =>
    intro e he
    unfold gUpsert at he
    by_cases hhit : e0.name = n ∧ e0.key = kk
    · simp only [hhit, and_self, if_true] at he
      rcases List.mem_cons.mp he with rfl | he'
      · left; exact ⟨e0, by simp, hhit.1.symm ▸ rfl, hhit.2.symm ▸ rfl, rfl⟩
      · left; exact ⟨e, List.mem_cons_of_mem _ he', rfl, rfl, rfl⟩
    · simp only [hhit, if_false] at he
      rcases List.mem_cons.mp he with rfl | he'
      · left; exact ⟨e, by simp, rfl, rfl, rfl⟩
      · rcases ih e he' with ⟨e1, h1, h2⟩ | h
        · left; exact ⟨e1, List.mem_cons_of_mem _ h1, h2⟩
        · right; exact h

/-! ### the specification side -/

theorem lookup_filter_ne {β : Type} (acc : List ((Nat × Labels) × β)) (k k0 : Nat × Labels) (h : k ≠ k0) :
    (acc.filter (fun x => x.1 != k0)).lookup k = acc.lookup k := by
  induction acc with
  | nil => rfl
  | cons x rest ih =>
    obtain ⟨a, b⟩ := x
    by_cases hx : a = k0
    · subst hx
      have hk : (k == a) = false := by simpa using h
      simp only [List.filter_cons, bne_self_eq_false, Bool.false_eq_true, if_false, List.lookup_cons, hk]
      exact ih
    · by_cases hk : k = a
      · simp [List.filter_cons, hx, List.lookup_cons, hk]
      · have hk' : (k == a) = false := by simpa using hk
        simp [List.filter_cons, hx, List.lookup_cons, hk', ih]

/-- the family a grouped write addresses. -/
def opFam (op : Op) : Fam := if op.action == "add" then .counter else .gauge

/-- the value update a grouped write performs. -/
def opUpd (op : Op) : Int → Int → Int := if op.action == "add" then counterUpd else gaugeUpd

/-- operations as the parser hands them over: a shortcut field implies the action and value. -/
def Normalized (op : Op) : Prop :=
  (∀ a, op.add = some a → op.action = "add" ∧ op.value = some a) ∧
  (∀ v, op.set = some v → op.action = "set" ∧ op.value = some v)

theorem normalize_normalized (op : Op) (hv : validOp (normalize op) = true) : Normalized (normalize op) := by
  unfold normalize at hv ⊢
  cases hs : op.set <;> cases ha : op.add <;> simp_all [Normalized, validOp]

/-- a valid grouped operation is `expire`, `set` or `add`, and the latter two carry a value. -/
theorem valid_grouped (op : Op) (hv : validOp op = true) (hg : op.group ≠ 0) :
    op.action = "expire" ∨ (op.action = "set" ∧ ∃ v, op.value = some v) ∨ (op.action = "add" ∧ ∃ v, op.value = some v) := by
  simp only [validOp, Bool.and_eq_true, Bool.not_eq_true', Facts.c16GroupedActions] at hv
  obtain ⟨⟨⟨⟨⟨⟨⟨⟨_, h2⟩, _⟩, _⟩, h5⟩, h6⟩, _⟩, _⟩, _⟩ := hv
  have hg' : (op.group == 0) = false := by simpa using hg
  simp only [hg', Bool.false_eq_true, if_false, List.contains_cons, List.contains_nil, Bool.or_false,
    Bool.or_eq_true, beq_iff_eq] at h2
  rcases h2 with h | h | h
  · exact Or.inl h
  · right; left
    refine ⟨h, ?_⟩
    cases hval : op.value with
    | none => simp [h, hval] at h5
    | some v => exact ⟨v, rfl⟩
  · right; right
    refine ⟨h, ?_⟩
    cases hval : op.value with
    | none => simp [h, hval] at h6
    | some v => exact ⟨v, rfl⟩

/-- One valid, normalized write of group `g`: the loop body is the vault call of its type. -/
theorem applyGroupOp_write (common : Labels) (g : Nat) (s : State) (op : Op)
    (hv : validOp op = true) (hn : Normalized op) (hg : op.group ≠ 0) (hx : op.action ≠ "expire") :
    ∃ v, op.value = some v ∧
      applyGroupOp common g s op =
        if op.action = "add" then groupedCounterAdd s g op.name v (mergeLabels op.labels common)
        else groupedGaugeSet s g op.name v (mergeLabels op.labels common) := by
  rcases valid_grouped op hv hg with h | ⟨h, v, hval⟩ | ⟨h, v, hval⟩
  · exact absurd h hx
  · refine ⟨v, hval, ?_⟩
    have hadd : op.add = none := by
      cases ha : op.add with
      | none => rfl
      | some a => have := (hn.1 a ha).1; rw [h] at this; exact absurd this (by decide)
    simp [applyGroupOp, h, hval, hadd]
  · refine ⟨v, hval, ?_⟩
    simp [applyGroupOp, h, hval]

/-- whether `GetOrCreate…Collector(n, f)` succeeds depends on the collectors and vecs only. -/
def collOK (colls : List (Nat × Fam)) (vecs : List Vec) (n : Nat) (f : Fam) : Bool :=
  match colls.lookup n with
  | some f' => decide (f' = f)
  | none => !(vecs.any (·.name == n) || colls.any (·.1 == n))

theorem getOrCreateColl_ne_none (s : State) (n : Nat) (f : Fam) :
    getOrCreateColl s n f ≠ none ↔ collOK s.colls s.vecs n f = true := by
  unfold getOrCreateColl collOK State.registered
  cases h : s.colls.lookup n with
  | some f' => by_cases hf : f' = f <;> simp [hf]
  | none => cases hr : (s.vecs.any (·.name == n) || s.colls.any (·.1 == n)) <;> simp [hr]

/-- the result of a successful `getOrCreateColl`. -/
theorem getOrCreateColl_some {s s' : State} {n : Nat} {f : Fam} (h : getOrCreateColl s n f = some s') :
    s'.gentries = s.gentries ∧ s'.vecs = s.vecs ∧ s'.uentries = s.uentries ∧
      (s'.colls = s.colls ∨ (s.colls.lookup n = none ∧ s'.colls = s.colls ++ [(n, f)])) := by
  unfold getOrCreateColl at h
  split at h
  · split at h
    · cases h; exact ⟨rfl, rfl, rfl, Or.inl rfl⟩
    · cases h
  · rename_i hl
    split at h
    · cases h
    · cases h; exact ⟨rfl, rfl, rfl, Or.inr ⟨hl, rfl⟩⟩

/-- creating the collector `(n0, f0)` keeps every other request that agreed with it satisfiable. -/
theorem collOK_after_create (colls : List (Nat × Fam)) (vecs : List Vec) (n0 : Nat) (f0 : Fam)
    (hnone : colls.lookup n0 = none) (n : Nat) (f : Fam) (hsame : n = n0 → f = f0)
    (hok : collOK colls vecs n f = true) : collOK (colls ++ [(n0, f0)]) vecs n f = true := by
  unfold collOK at hok ⊢
  rw [List.lookup_append]
  by_cases hn : n = n0
  · subst hn
    simp [hnone, List.lookup_cons, hsame rfl]
  · have hne : (n == n0) = false := by simpa using hn
    cases hl : colls.lookup n with
    | some f' => simpa [hl] using hok
    | none =>
      have hne' : (n0 == n) = false := by simpa using fun h : n0 = n => hn h.symm
      simp only [hl, Option.none_or, List.lookup_cons, hne, List.lookup_nil, List.any_append,
        List.any_cons, List.any_nil, Bool.or_false, hne'] at hok ⊢
      exact hok

/-- the invariant of a group's part `all` of a batch while it is being applied. -/
structure ReplInv (common : Labels) (g : Nat) (all : List Op) (s : State) : Prop where
  own : ∀ op ∈ all, op.action ≠ "expire" → ∀ e ∈ s.gentries, (e.name, e.key) = opIdent common op → e.group = g
  coll : ∀ op ∈ all, op.action ≠ "expire" → collOK s.colls s.vecs op.name (opFam op) = true

theorem ReplInv.expire {common : Labels} {g : Nat} {all : List Op} {s : State} (h : ReplInv common g all s) :
    ReplInv common g all (expireGroup s g) :=
  ⟨fun op hop hx e he hid => h.own op hop hx e (List.mem_filter.mp he).1 hid, h.coll⟩

/-- the effect of one write of the batch part on the grouped entries, and the invariant. -/
theorem ReplInv.write {common : Labels} {g : Nat} {all : List Op} {s : State} (h : ReplInv common g all s)
    (hsame : ∀ op ∈ all, ∀ op' ∈ all, op.name = op'.name → op.action ≠ "expire" → op'.action ≠ "expire" →
      op.action = op'.action)
    (op : Op) (hop : op ∈ all) (hx : op.action ≠ "expire") (v : Int) (labels : Labels)
    (hl : labels = mergeLabels op.labels common) :
    let s1 := if op.action = "add" then groupedCounterAdd s g op.name v labels else groupedGaugeSet s g op.name v labels
    s1.gentries = gUpsert (opUpd op) op.name (gkey labels) v g s.gentries ∧ ReplInv common g all s1 := by
  have hok := h.coll op hop hx
  have hne := (getOrCreateColl_ne_none s op.name (opFam op)).mpr hok
  obtain ⟨s', hs'⟩ := Option.ne_none_iff_exists'.mp hne
  obtain ⟨hge, hve, _, hco⟩ := getOrCreateColl_some hs'
  -- both vault calls have the same shape
  have hshape : (if op.action = "add" then groupedCounterAdd s g op.name v labels
        else groupedGaugeSet s g op.name v labels) =
      { s' with gentries := gUpsert (opUpd op) op.name (gkey labels) v g s'.gentries } := by
    by_cases ha : op.action = "add"
    · have : opFam op = .counter := by simp [opFam, ha]
      rw [this] at hs'
      simp [ha, groupedCounterAdd, hs', opUpd]
    · have hb : (op.action == "add") = false := by simpa using ha
      have : opFam op = .gauge := by simp [opFam, hb]
      rw [this] at hs'
      simp [ha, groupedGaugeSet, hs', opUpd, hb]
  simp only [hshape, hge, true_and]
  constructor
  · intro op' hop' hx' e he hid
    rcases gUpsert_mem _ _ _ _ _ _ e he with ⟨e0, he0, h1, h2, h3⟩ | hgr
    · rw [← h3]; exact h.own op' hop' hx' e0 he0 (by rw [h1, h2]; exact hid)
    · exact hgr.1
  · intro op' hop' hx'
    have hok' := h.coll op' hop' hx'
    simp only [hve]
    rcases hco with hco | ⟨hnone, hco⟩
    · rw [hco]; exact hok'
    · rw [hco]
      refine collOK_after_create _ _ _ _ hnone _ _ ?_ hok'
      intro hn
      have := hsame op' hop' op hop hn hx' hx
      simp [opFam, this]

theorem written_step_lookup (common : Labels) (acc : List ((Nat × Labels) × Int)) (op : Op) (v : Int)
    (hx : op.action ≠ "expire") (hval : op.value = some v) (ha : op.action = "add" ∨ op.action = "set")
    (k : Nat × Labels) :
    (Spec.writtenStep common acc op).lookup k =
      if k = opIdent common op then some (opUpd op ((acc.lookup (opIdent common op)).getD 0) v)
      else acc.lookup k := by
  have hx' : (op.action == "expire") = false := by simpa using hx
  unfold Spec.writtenStep
  simp only [hx', Bool.false_eq_true, if_false, hval]
  rcases ha with ha | ha
  · simp only [ha, beq_self_eq_true]
    by_cases hk : k = opIdent common op
    · simp [hk, opIdent, List.lookup_cons, opUpd, ha, counterUpd]
    · have hk' : (k == (op.name, gkey (mergeLabels op.labels common))) = false := by simpa [opIdent] using hk
      simp only [List.lookup_cons, hk', hk, if_false]
      exact lookup_filter_ne _ _ _ (by simpa [opIdent] using hk)
  · have hadd : ("set" == "add") = false := by decide
    simp only [ha, hadd, beq_self_eq_true]
    by_cases hk : k = opIdent common op
    · simp [hk, opIdent, List.lookup_cons, opUpd, ha, gaugeUpd]
    · have hk' : (k == (op.name, gkey (mergeLabels op.labels common))) = false := by simpa [opIdent] using hk
      simp only [List.lookup_cons, hk', hk, if_false]
      exact lookup_filter_ne _ _ _ (by simpa [opIdent] using hk)

theorem ownedLookup_expire (s : State) (g : Nat) (k : Nat × Labels) :
    ownedLookup (expireGroup s g).gentries g k = none := by
  have : owned (expireGroup s g).gentries g = [] := by
    simp only [owned, expireGroup, List.filter_filter, List.filter_eq_nil_iff]
    intro e _; simp
  simp [ownedLookup, this]

/-- what the part `all` of group `g` must look like. -/
structure PartOK (g : Nat) (all : List Op) : Prop where
  valid : ∀ op ∈ all, validOp op = true
  norm : ∀ op ∈ all, Normalized op
  grp : ∀ op ∈ all, op.group = g
  gne : g ≠ 0
  same : ∀ op ∈ all, ∀ op' ∈ all, op.name = op'.name → op.action ≠ "expire" → op'.action ≠ "expire" →
    op.action = op'.action

/-- Folding the loop body over (a suffix of) the group's operations tracks `Spec.writtenStep`. -/
theorem foldl_written (common : Labels) (g : Nat) (all : List Op) (hp : PartOK g all) (ops : List Op)
    (hsub : ∀ op ∈ ops, op ∈ all) (s : State) (acc : List ((Nat × Labels) × Int))
    (hinv : ReplInv common g all s) (hacc : ∀ k, ownedLookup s.gentries g k = acc.lookup k) :
    ∀ k, ownedLookup (ops.foldl (applyGroupOp common g) s).gentries g k =
      (ops.foldl (Spec.writtenStep common) acc).lookup k := by
  induction ops generalizing s acc with
  | nil => exact hacc
  | cons op ops ih =>
    have hop : op ∈ all := hsub op (by simp)
    have hsub' : ∀ op' ∈ ops, op' ∈ all := fun op' h => hsub op' (List.mem_cons_of_mem _ h)
    simp only [List.foldl_cons]
    by_cases hx : op.action = "expire"
    · have hx' : (op.action == "expire") = true := by simpa using hx
      have e1 : applyGroupOp common g s op = expireGroup s g := by simp [applyGroupOp, hx']
      have e2 : Spec.writtenStep common acc op = [] := by simp [Spec.writtenStep, hx']
      rw [e1, e2]
      exact ih hsub' _ _ hinv.expire (fun k => by rw [ownedLookup_expire]; rfl)
    · have hgne : op.group ≠ 0 := by rw [hp.grp op hop]; exact hp.gne
      obtain ⟨v, hval, hstep⟩ := applyGroupOp_write common g s op (hp.valid op hop) (hp.norm op hop) hgne hx
      have hw := hinv.write hp.same op hop hx v (mergeLabels op.labels common) rfl
      simp only at hw
      rw [hstep]
      refine ih hsub' _ _ hw.2 ?_
      intro k
      have hact : op.action = "add" ∨ op.action = "set" := by
        rcases valid_grouped op (hp.valid op hop) hgne with h | ⟨h, _⟩ | ⟨h, _⟩
        · exact absurd h hx
        · exact Or.inr h
        · exact Or.inl h
      rw [hw.1, written_step_lookup common acc op v hx hval hact k]
      have hown : ∀ e ∈ s.gentries, (e.name, e.key) = (op.name, gkey (mergeLabels op.labels common)) → e.group = g :=
        fun e he hid => hinv.own op hop hx e he (by simpa [opIdent] using hid)
      rw [ownedLookup_gUpsert _ _ _ _ _ _ hown k]
      simp only [opIdent, hacc]
      by_cases hk : k = (op.name, gkey (mergeLabels op.labels common)) <;> simp [hk]

/-! ### several groups in one batch -/

/-- one vault call made for another group `g2` keeps the invariant of `g`'s part, provided it does
not address a series `g`'s part writes and agrees with it on the type of shared names. -/
theorem ReplInv.vault_call {common : Labels} {g : Nat} {all : List Op} {s : State} (h : ReplInv common g all s)
    (g2 : Nat) (hg : g2 ≠ g) (f : Fam) (upd : Int → Int → Int) (n : Nat) (key : Labels) (v : Int)
    (hdisj : ∀ op ∈ all, op.action ≠ "expire" → opIdent common op ≠ (n, key))
    (hsame : ∀ op ∈ all, op.action ≠ "expire" → op.name = n → opFam op = f) :
    ReplInv common g all
      (match getOrCreateColl s n f with
       | none => s
       | some s' => { s' with gentries := gUpsert upd n key v g2 s'.gentries }) := by
  cases hc : getOrCreateColl s n f with
  | none => exact h
  | some s' =>
    obtain ⟨hge, hve, _, hco⟩ := getOrCreateColl_some hc
    constructor
    · intro op hop hx e he hid
      simp only [hge] at he
      rcases gUpsert_mem _ _ _ _ _ _ e he with ⟨e0, he0, h1, h2, h3⟩ | ⟨_, hn, hk⟩
      · rw [← h3]; exact h.own op hop hx e0 he0 (by rw [h1, h2]; exact hid)
      · exact absurd (by rw [← hid, hn, hk]) (hdisj op hop hx)
    · intro op hop hx
      have hok := h.coll op hop hx
      simp only [hve]
      rcases hco with hco | ⟨hnone, hco⟩
      · rw [hco]; exact hok
      · rw [hco]
        exact collOK_after_create _ _ _ _ hnone _ _ (hsame op hop hx) hok

/-- what the operations of the other groups must satisfy relative to `g`'s part `all`. -/
structure OtherOK (common : Labels) (all : List Op) (ops2 : List Op) : Prop where
  valid : ∀ op ∈ ops2, validOp op = true
  norm : ∀ op ∈ ops2, Normalized op
  gne : ∀ op ∈ ops2, op.group ≠ 0
  disj : ∀ op2 ∈ ops2, op2.action ≠ "expire" → ∀ op ∈ all, op.action ≠ "expire" →
    opIdent common op ≠ opIdent common op2
  same : ∀ op2 ∈ ops2, op2.action ≠ "expire" → ∀ op ∈ all, op.action ≠ "expire" → op.name = op2.name →
    op.action = op2.action

theorem ReplInv.other_op {common : Labels} {g : Nat} {all : List Op} {s : State} (h : ReplInv common g all s)
    (g2 : Nat) (hg : g2 ≠ g) (op2 : Op) (hv : validOp op2 = true) (hn : Normalized op2) (hg2 : op2.group ≠ 0)
    (hdisj : op2.action ≠ "expire" → ∀ op ∈ all, op.action ≠ "expire" → opIdent common op ≠ opIdent common op2)
    (hsame : op2.action ≠ "expire" → ∀ op ∈ all, op.action ≠ "expire" → op.name = op2.name → op.action = op2.action) :
    ReplInv common g all (applyGroupOp common g2 s op2) := by
  by_cases hx : op2.action = "expire"
  · have hx' : (op2.action == "expire") = true := by simpa using hx
    have e1 : applyGroupOp common g2 s op2 = expireGroup s g2 := by simp [applyGroupOp, hx']
    rw [e1]
    exact ⟨fun op hop hx e he hid => h.own op hop hx e (List.mem_filter.mp he).1 hid, h.coll⟩
  · obtain ⟨v, _, hstep⟩ := applyGroupOp_write common g2 s op2 hv hn hg2 hx
    rw [hstep]
    by_cases ha : op2.action = "add"
    · simp only [ha, if_true, groupedCounterAdd]
      refine h.vault_call g2 hg .counter counterUpd _ _ v (hdisj hx) ?_
      intro op hop hxo hname
      have := hsame hx op hop hxo hname
      simp [opFam, this, ha]
    · simp only [ha, if_false, groupedGaugeSet]
      refine h.vault_call g2 hg .gauge gaugeUpd _ _ v (hdisj hx) ?_
      intro op hop hxo hname
      have := hsame hx op hop hxo hname
      have hb : (op2.action == "add") = false := by simpa using ha
      simp [opFam, this, hb]

theorem ReplInv.other_group {common : Labels} {g : Nat} {all : List Op} {s : State} (h : ReplInv common g all s)
    (g2 : Nat) (hg : g2 ≠ g) (ops2 : List Op) (hok : OtherOK common all ops2) :
    ReplInv common g all (applyGroupOperations common s g2 ops2) := by
  unfold applyGroupOperations
  have h0 : ReplInv common g all (expireGroup s g2) :=
    ⟨fun op hop hx e he hid => h.own op hop hx e (List.mem_filter.mp he).1 hid, h.coll⟩
  generalize expireGroup s g2 = s0 at h0
  induction ops2 generalizing s0 with
  | nil => exact h0
  | cons op2 rest ih =>
    simp only [List.foldl_cons]
    refine ih ⟨fun o ho => hok.valid o (List.mem_cons_of_mem _ ho), fun o ho => hok.norm o (List.mem_cons_of_mem _ ho),
      fun o ho => hok.gne o (List.mem_cons_of_mem _ ho), fun o ho => hok.disj o (List.mem_cons_of_mem _ ho),
      fun o ho => hok.same o (List.mem_cons_of_mem _ ho)⟩ _ ?_
    exact h0.other_op g2 hg op2 (hok.valid op2 (by simp)) (hok.norm op2 (by simp)) (hok.gne op2 (by simp))
      (hok.disj op2 (by simp)) (hok.same op2 (by simp))

/-- after `g`'s part was applied, the parts of other groups leave what `g` owns as it is. -/
theorem ownedLookup_other_group (common : Labels) (s : State) (g g2 : Nat) (hg : g2 ≠ g) (all ops2 : List Op)
    (hid : IdIn s.gentries g (writeIdents common all)) (hok : OtherOK common all ops2) :
    owned (applyGroupOperations common s g2 ops2).gentries g = owned s.gentries g := by
  apply applyGroupOperations_owned_other common s g2 g ops2 hg
  intro op2 hop2 hx2 e he hEq
  have hmem := hid e he
  simp only [writeIdents, List.mem_map, List.mem_filter] at hmem
  obtain ⟨op, ⟨hop, hxo⟩, hident⟩ := hmem
  have hxo' : op.action ≠ "expire" := by simpa using hxo
  exact hok.disj op2 hop2 hx2 op hop hxo' (by rw [hident, hEq])

end ShellOp.Metrics
