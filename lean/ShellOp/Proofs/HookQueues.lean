import ShellOp.Model.HookQueues
/-!
Lemmas about `Model/HookQueues`: what `ensure` (the loop body of `initAndStartHookQueues`) preserves
and establishes.
-/
namespace ShellOp.HookQueues

/-- every queue of the set is started and listens to the stop request -/
def Wired (s : QSet) : Prop := ∀ q ∈ s, hearsStop q = true ∧ q.started = true

def Has (s : QSet) (n : QName) : Prop := ∃ q ∈ s, q.name = n

theorem getByName_isSome (s : QSet) (n : QName) : (getByName s n).isSome = true ↔ Has s n := by
  unfold getByName Has
  rw [List.find?_isSome]
  constructor
  · rintro ⟨q, hq, h⟩; exact ⟨q, hq, by simpa using h⟩
  · rintro ⟨q, hq, h⟩; exact ⟨q, hq, by simpa using h⟩

theorem mem_start (s : QSet) (n : QName) (q : Q) (h : q ∈ start s n) :
    ∃ q0 ∈ s, q.name = q0.name ∧ q.ctx = q0.ctx ∧ (q.started = true ↔ (q0.started = true ∨ q0.name = n)) := by
  unfold start at h
  rw [List.mem_map] at h
  obtain ⟨q0, hq0, rfl⟩ := h
  refine ⟨q0, hq0, ?_⟩
  by_cases hn : q0.name = n <;> simp [hn]

theorem start_has (s : QSet) (n m : QName) : Has (start s n) m ↔ Has s m := by
  unfold Has start
  constructor
  · rintro ⟨q, hq, rfl⟩
    rw [List.mem_map] at hq
    obtain ⟨q0, hq0, rfl⟩ := hq
    exact ⟨q0, hq0, by split <;> rfl⟩
  · rintro ⟨q, hq, rfl⟩
    exact ⟨_, List.mem_map.mpr ⟨q, hq, rfl⟩, by split <;> rfl⟩

theorem mem_put (s : QSet) (q0 q : Q) (h : q ∈ put s q0) : q = q0 ∨ (q ∈ s ∧ q.name ≠ q0.name) := by
  unfold put at h
  rcases List.mem_cons.mp h with h | h
  · exact .inl h
  · rw [List.mem_filter] at h
    exact .inr ⟨h.1, by simpa using h.2⟩

theorem put_has (s : QSet) (q0 : Q) (m : QName) : Has (put s q0) m ↔ (m = q0.name ∨ Has s m) := by
  unfold Has put
  constructor
  · rintro ⟨q, hq, rfl⟩
    rcases List.mem_cons.mp hq with h | h
    · exact .inl (by rw [h])
    · exact .inr ⟨q, (List.mem_filter.mp h).1, rfl⟩
  · rintro (rfl | ⟨q, hq, rfl⟩)
    · exact ⟨q0, List.mem_cons_self, rfl⟩
    · by_cases hn : q.name = q0.name
      · exact ⟨q0, List.mem_cons_self, hn.symm⟩
      · exact ⟨q, List.mem_cons_of_mem _ (List.mem_filter.mpr ⟨hq, by simpa using hn⟩), rfl⟩

/-- The loop body keeps every queue wired: a queue it creates is derived from `tqs.ctx` and started. -/
theorem ensure_wired (s : QSet) (n : QName) (h : Wired s) : Wired (ensure s n) := by
  unfold ensure
  split
  · intro q hq
    obtain ⟨q1, hq1, hname, hctx, hst⟩ := mem_start _ _ _ hq
    rcases mem_put _ _ _ hq1 with rfl | ⟨hs, _⟩
    · refine ⟨?_, hst.mpr (.inr rfl)⟩
      simp only [hearsStop, hctx]
      decide
    · have := h q1 hs
      refine ⟨?_, hst.mpr (.inl this.2)⟩
      have h1 := this.1
      simp only [hearsStop, hctx] at h1 ⊢
      exact h1
  · exact h

theorem ensure_has (s : QSet) (n : QName) : Has (ensure s n) n := by
  unfold ensure
  split
  · rw [start_has]; unfold newNamedQueue; rw [put_has]; exact .inl rfl
  · rename_i hn
    have : (getByName s n).isSome = true := by
      cases h : getByName s n <;> simp_all
    exact (getByName_isSome s n).mp this

theorem ensure_keeps (s : QSet) (n m : QName) (h : Has s m) : Has (ensure s n) m := by
  unfold ensure
  split
  · rw [start_has]; unfold newNamedQueue; rw [put_has]; exact .inr h
  · exact h

/-- one hook's bindings -/
theorem hook_fold (names : List QName) (s : QSet) (h : Wired s) :
    Wired (names.foldl ensure s) ∧ (∀ m, Has s m → Has (names.foldl ensure s) m) ∧
    (∀ m ∈ names, Has (names.foldl ensure s) m) := by
  induction names generalizing s with
  | nil => exact ⟨h, fun _ hm => hm, fun _ hm => by cases hm⟩
  | cons n rest ih =>
    obtain ⟨w, keep, has⟩ := ih (ensure s n) (ensure_wired s n h)
    refine ⟨w, fun m hm => keep m (ensure_keeps s n m hm), ?_⟩
    intro m hm
    rcases List.mem_cons.mp hm with rfl | hm
    · exact keep _ (ensure_has s _)
    · exact has m hm

/-- all hooks of one binding kind -/
theorem hooks_fold (hooks : List (List QName)) (s : QSet) (h : Wired s) :
    Wired (hooks.foldl (fun s h => h.foldl ensure s) s) ∧
    (∀ m, Has s m → Has (hooks.foldl (fun s h => h.foldl ensure s) s) m) ∧
    (∀ hk ∈ hooks, ∀ m ∈ hk, Has (hooks.foldl (fun s h => h.foldl ensure s) s) m) := by
  induction hooks generalizing s with
  | nil => exact ⟨h, fun _ hm => hm, fun _ hk => by cases hk⟩
  | cons hk rest ih =>
    obtain ⟨w1, keep1, has1⟩ := hook_fold hk s h
    obtain ⟨w, keep, has⟩ := ih (hk.foldl ensure s) w1
    refine ⟨w, fun m hm => keep m (keep1 m hm), ?_⟩
    intro hk' hmem m hm
    rcases List.mem_cons.mp hmem with rfl | hmem
    · exact keep m (has1 m hm)
    · exact has hk' hmem m hm

theorem bootstrap_wired : Wired bootstrap := by
  intro q hq
  simp [bootstrap, start, newNamedQueue, put] at hq
  subst hq
  decide

theorem bootstrap_has_main : Has bootstrap 0 := ⟨_, List.mem_cons_self, rfl⟩

end ShellOp.HookQueues
