import ShellOp.Model.Combine
/-! Helper lemmas: each loop of `Model/Combine` computes the list function of the specification. -/
set_option linter.unusedSimpArgs false
namespace ShellOp.Combine

open Spec

/-! ### The `Iterate` callback -/

theorem foldl_iterCb_stopped (t : Task) (f : Option (Task → Bool)) (items : List Task) (acc : List Task) :
    items.foldl (iterCb t f) ⟨true, acc⟩ = ⟨true, acc⟩ := by
  induction items with
  | nil => rfl
  | cons x xs ih => simpa [List.foldl, iterCb] using ih

theorem foldl_iterCb (t : Task) (f : Option (Task → Bool)) (items : List Task) (acc : List Task) :
    (items.foldl (iterCb t f) ⟨false, acc⟩).others
      = acc ++ (items.filter (fun x => x.id != t.id)).takeWhile (combinable t f) := by
  induction items generalizing acc with
  | nil => simp
  | cons x xs ih =>
    simp only [List.foldl_cons]
    by_cases hid : x.id = t.id
    · simp [iterCb, hid, ih]
    · have hne : (x.id != t.id) = true := by simpa using hid
      by_cases hm : x.hasMeta = true
      · by_cases hh : (x.hook == t.hook && t.typ == x.typ) = true
        · cases f with
          | none =>
            have hc : combinable t none x = true := by
              simp only [combinable, hm, Bool.true_and]
              simp only [Bool.and_eq_true] at hh
              simp [hh.1, hh.2]
            simp [iterCb, hid, hm, hh, ih, hne, hc, List.filter_cons, List.takeWhile_cons]
          | some g =>
            by_cases hg : g x = true
            · have hc : combinable t (some g) x = false := by simp [combinable, hg]
              simp [iterCb, hid, hm, hh, hg, foldl_iterCb_stopped, hne, hc, List.filter_cons,
                List.takeWhile_cons]
            · have hg' : g x = false := by simpa using hg
              have hc : combinable t (some g) x = true := by
                simp only [combinable, hm, Bool.true_and]
                simp only [Bool.and_eq_true] at hh
                simp [hh.1, hh.2, hg']
              simp [iterCb, hid, hm, hh, hg', ih, hne, hc, List.filter_cons, List.takeWhile_cons]
        · have hh' : (x.hook == t.hook && t.typ == x.typ) = false := by simpa using hh
          have hc : combinable t f x = false := by
            simp only [combinable, hm, Bool.true_and]
            rw [hh']; simp
          simp [iterCb, hid, hm, hh', foldl_iterCb_stopped, hne, hc, List.filter_cons,
            List.takeWhile_cons]
      · have hm' : x.hasMeta = false := by simpa using hm
        have hc : combinable t f x = false := by simp [combinable, hm']
        simp [iterCb, hid, hm', foldl_iterCb_stopped, hne, hc, List.filter_cons, List.takeWhile_cons]

/-- `Iterate` collects the longest prefix of combinable tasks of the queue (the executed task
itself skipped wherever it stands). -/
theorem iterate_eq (items : List Task) (t : Task) (f : Option (Task → Bool)) :
    iterate items t f = (items.filter (fun x => x.id != t.id)).takeWhile (combinable t f) := by
  simp [iterate, foldl_iterCb]

/-! ### The plan -/

theorem foldl_planStep (others : List Task) (p : Plan) :
    (others.foldl planStep p).combined = p.combined ++ others.flatMap (·.ctxs) ∧
    (others.foldl planStep p).mons = p.mons ++ others.flatMap (·.mons) ∧
    ∀ k, (others.foldl planStep p).tasksFilter k =
      if k ∈ others.map (·.id) then some false else p.tasksFilter k := by
  induction others generalizing p with
  | nil => simp
  | cons x xs ih =>
    obtain ⟨h1, h2, h3⟩ := ih (planStep p x)
    refine ⟨?_, ?_, ?_⟩
    · rw [List.foldl_cons, h1]; simp [planStep]
    · rw [List.foldl_cons, h2]
      by_cases hx : x.mons.length > 0
      · simp [planStep, hx]
      · have : x.mons = [] := by
          cases hm : x.mons with
          | nil => rfl
          | cons a b => simp [hm] at hx
        simp [planStep, this]
    · intro k
      rw [List.foldl_cons, h3]
      simp only [planStep, GoMap.store]
      by_cases hk : k ∈ xs.map (·.id)
      · simp [hk]
      · by_cases hkx : k = x.id
        · simp [hkx]
        · have : (k == x.id) = false := by simpa using hkx
          simp [hk, hkx, this]

theorem mkPlan_combined (t : Task) (others : List Task) :
    (mkPlan t others).combined = t.ctxs ++ others.flatMap (·.ctxs) := by
  simp [mkPlan, (foldl_planStep others _).1]

theorem mkPlan_mons (t : Task) (others : List Task) :
    (mkPlan t others).mons = t.mons ++ others.flatMap (·.mons) := by
  simp [mkPlan, (foldl_planStep others _).2.1]

/-- The `Filter` callback drops exactly the tasks whose id is the id of a merged task. -/
theorem filterCb_mkPlan (t : Task) (others : List Task) (x : Task) :
    filterCb (mkPlan t others).tasksFilter x = !(others.map (·.id)).contains x.id := by
  simp only [filterCb, mkPlan, (foldl_planStep others _).2.2, GoMap.store]
  by_cases hk : x.id ∈ others.map (·.id)
  · simp [hk]
  · have : (List.map (fun x => x.id) others).contains x.id = false := by simpa using hk
    simp only [hk, if_false, this]
    by_cases hx : x.id = t.id <;> simp [hx]

theorem filterStep_mkPlan (items : List Task) (t : Task) (others : List Task) :
    filterStep items (mkPlan t others).tasksFilter
      = items.filter (fun x => !(others.map (·.id)).contains x.id) := by
  simp only [filterStep]
  congr 1
  funext x
  exact filterCb_mkPlan t others x

/-! ### Removing a middle segment by id from a list without duplicate ids -/

theorem filter_notin_all (l : List Task) (ids : List Nat) (h : ∀ x ∈ l, x.id ∉ ids) :
    l.filter (fun x => !ids.contains x.id) = l := by
  rw [List.filter_eq_self]
  intro x hx
  simpa using h x hx

theorem filter_notin_none (l : List Task) :
    l.filter (fun x => !(l.map (·.id)).contains x.id) = [] := by
  rw [List.filter_eq_nil_iff]
  intro x hx
  simp
  exact ⟨x, hx, rfl⟩

/-- In `a ++ m ++ b`, when no task of `a` or `b` carries the id of a task of `m`, dropping the ids
of `m` leaves `a ++ b`. -/
theorem filter_mid (a m b : List Task) (ha : ∀ x ∈ a, x.id ∉ m.map (·.id))
    (hb : ∀ x ∈ b, x.id ∉ m.map (·.id)) :
    (a ++ m ++ b).filter (fun x => !(m.map (·.id)).contains x.id) = a ++ b := by
  rw [List.filter_append, List.filter_append, filter_notin_none, List.append_nil,
    filter_notin_all a _ ha, filter_notin_all b _ hb]

theorem takeWhile_mem {p : Task → Bool} {l : List Task} {x : Task} (h : x ∈ l.takeWhile p) :
    x ∈ l ∧ p x = true := by
  induction l with
  | nil => simp at h
  | cons a as ih =>
    rw [List.takeWhile_cons] at h
    by_cases ha : p a = true
    · simp only [ha, if_true, List.mem_cons] at h
      rcases h with rfl | h
      · exact ⟨by simp, ha⟩
      · exact ⟨by simp [(ih h).1], (ih h).2⟩
    · simp [ha] at h

/-! ### Group compaction -/

theorem compactLoop_eq (l : List Ctx) (n i : Nat) (acc : List Ctx) (h : i + n = l.length) :
    compactLoop l n i acc = acc ++ compact (l.drop i) := by
  induction n generalizing i acc with
  | zero =>
    have : l.length ≤ i := by omega
    simp [compactLoop, List.drop_eq_nil_of_le this, compact]
  | succ n ih =>
    have hi : i < l.length := by omega
    have hd : l.drop i = l[i] :: l.drop (i + 1) := List.drop_eq_getElem_cons hi
    rw [compactLoop, List.getElem?_eq_getElem hi]
    simp only
    rw [ih (i + 1) _ (by omega), hd]
    by_cases hlast : i + 1 < l.length
    · have hd2 : l.drop (i + 1) = l[i + 1] :: l.drop (i + 2) := List.drop_eq_getElem_cons hlast
      have hle : i + 1 ≤ l.length - 1 := by omega
      rw [hd2, List.getElem?_eq_getElem hlast]
      simp only [compact]
      by_cases hg : l[i].group = 0
      · simp [hg]
      · by_cases he : l[i + 1].group = l[i].group
        · simp [hg, he, hle]
        · simp [hg, he, hle]
    · have hnil : l.drop (i + 1) = [] := List.drop_eq_nil_of_le (by omega)
      have hle : ¬ (i + 1 ≤ l.length - 1) := by omega
      simp [hnil, compact, hle]

/-- The index loop keeps the last context of every same-group run. -/
theorem compactGo_eq (l : List Ctx) : compactGo l = compact l := by
  simp [compactGo, compactLoop_eq l l.length 0 [] (by omega)]

theorem compact_ne_nil (c : Ctx) (l : List Ctx) : compact (c :: l) ≠ [] := by
  induction l generalizing c with
  | nil => simp [compact]
  | cons d rest ih =>
    simp only [compact]
    split
    · exact ih d
    · simp

/-- The first surviving context of `d :: rest` has `d`'s group. -/
theorem compact_head_group (d : Ctx) (rest : List Ctx) :
    ∃ x xs, compact (d :: rest) = x :: xs ∧ x.group = d.group := by
  induction rest generalizing d with
  | nil => exact ⟨d, [], by simp [compact], rfl⟩
  | cons e r ih =>
    simp only [compact]
    split
    · next h =>
      obtain ⟨x, xs, hx, hg⟩ := ih e
      exact ⟨x, xs, hx, by rw [hg, h.2]⟩
    · exact ⟨d, _, rfl, rfl⟩

/-- Compacting again after more contexts arrived loses nothing: re-combining a task whose
contexts were already compacted equals compacting the whole concatenation. -/
theorem compact_append_compact (a b : List Ctx) : compact (compact a ++ b) = compact (a ++ b) := by
  induction a using compact.induct with
  | case1 => simp [compact]
  | case2 c => simp [compact]
  | case3 c d rest h ih =>
    have : compact (c :: d :: rest) = compact (d :: rest) := by simp [compact, h]
    rw [this, ih]
    simp [compact, h]
  | case4 c d rest h ih =>
    have : compact (c :: d :: rest) = c :: compact (d :: rest) := by simp [compact, h]
    rw [this]
    obtain ⟨x, xs, hx, hg⟩ := compact_head_group d rest
    have h' : ¬ (c.group ≠ 0 ∧ x.group = c.group) := by rw [hg]; exact h
    have e1 : compact (c :: compact (d :: rest) ++ b) = c :: compact (compact (d :: rest) ++ b) := by
      rw [hx]; simp [compact, h']
    have e2 : compact (c :: d :: rest ++ b) = c :: compact (d :: rest ++ b) := by simp [compact, h]
    rw [e1, e2, ih]

/-! ### The queue set -/

theorem QSet.get_set_same (qs : QSet) (n : Nat) (old new : List Task) (h : qs.get n = some old) :
    (qs.set n new).get n = some new := by
  induction qs with
  | nil => simp [QSet.get] at h
  | cons p ps ih =>
    obtain ⟨k, v⟩ := p
    by_cases hp : (k == n) = true
    · simp [QSet.get, QSet.set, hp]
    · have hp' : (k == n) = false := by simpa using hp
      simp only [QSet.get, hp'] at h
      have h' : QSet.get ps n = some old := by simpa using h
      simp [QSet.set, hp', QSet.get, ih h']

theorem QSet.get_set_other (qs : QSet) (n m : Nat) (new : List Task) (h : m ≠ n) :
    (qs.set n new).get m = qs.get m := by
  induction qs with
  | nil => rfl
  | cons p ps ih =>
    obtain ⟨k, v⟩ := p
    by_cases hp : (k == n) = true
    · have hkn : k = n := by simpa using hp
      have hkm : (k == m) = false := by
        have : k ≠ m := fun e => h (by rw [← e, hkn])
        simpa using this
      simp [QSet.get, QSet.set, hp, hkm, ih]
    · have hp' : (k == n) = false := by simpa using hp
      by_cases hm : (k == m) = true
      · simp [QSet.set, hp', QSet.get, hm]
      · have hm' : (k == m) = false := by simpa using hm
        simp [QSet.set, hp', QSet.get, hm', ih]

theorem QSet.get_appendEnv (apps : List (Nat × List Task)) (qs : QSet) (n : Nat) :
    (appendEnv apps qs).get n = (qs.get n).map (· ++ appsFor apps n) := by
  induction qs with
  | nil => rfl
  | cons p ps ih =>
    obtain ⟨k, v⟩ := p
    by_cases hp : (k == n) = true
    · have hkn : k = n := by simpa using hp
      simp [QSet.get, appendEnv, hkn]
    · have hp' : (k == n) = false := by simpa using hp
      simp [QSet.get, appendEnv, hp', ih]

end ShellOp.Combine
