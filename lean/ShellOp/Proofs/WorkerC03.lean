import ShellOp.Proofs.WorkerSys
/-! Helper lemmas for `Props/C03`: agreement of two states outside one queue (non-interference). -/
namespace ShellOp.Worker.C03

open ShellOp.Worker

theorem log_facts (s : State) (inv : Inv s) (q : QName) : noOverlap q s.log = true := by
  cases hqs : s.qs q with
  | none => exact (quiet_facts q s.log (inv.absent q hqs)).2.1
  | some qs =>
    have hQ := inv.queues q qs hqs
    unfold QInv at hQ
    split at hQ
    · exact (quiet_facts q s.log hQ).2.1
    · exact hQ.ovl
    · exact absurd hQ (by simp)

theorem deliver1_other (s : State) (x : QName × Queue.Id) (q : QName) (hne : x.1 ≠ q) :
    (deliver1 s x).qs q = s.qs q := by
  unfold deliver1
  split
  · rfl
  · simp [upd]; intro h; exact absurd h.symm hne

/-- two states that differ at most in the state of queue `A` (its tasks, its worker, its status) -/
structure AgreeExcept (A : QName) (s₁ s₂ : State) : Prop where
  others : ∀ B, B ≠ A → s₁.qs B = s₂.qs B
  exists_ : (s₁.qs A).isSome = (s₂.qs A).isSome
  cancelled : s₁.cancelled = s₂.cancelled
  callers : s₁.callers = s₂.callers
  cron : s₁.cronRunning = s₂.cronRunning
  sched : s₁.schedCancelled = s₂.schedCancelled
  kube : s₁.kubePaused = s₂.kubePaused

theorem deliver1_agree (A : QName) (s₁ s₂ : State) (x : QName × Queue.Id) (h : AgreeExcept A s₁ s₂) :
    AgreeExcept A (deliver1 s₁ x) (deliver1 s₂ x) := by
  obtain ⟨h1, h2, h3, h4, h5, h6, h7⟩ := h
  by_cases hx : x.1 = A
  · refine ⟨?_, ?_, ?_, ?_, ?_, ?_, ?_⟩
    · intro B hB
      rw [deliver1_other s₁ x B (by rw [hx]; exact fun h => hB h.symm),
          deliver1_other s₂ x B (by rw [hx]; exact fun h => hB h.symm)]
      exact h1 B hB
    · unfold deliver1
      rw [hx]
      cases ha : s₁.qs A <;> cases hb : s₂.qs A <;> simp_all [upd]
    all_goals (unfold deliver1; split <;> split <;> simp_all)
  · have e := h1 x.1 hx
    unfold deliver1
    rw [e]
    cases hb : s₂.qs x.1 with
    | none => exact ⟨h1, h2, h3, h4, h5, h6, h7⟩
    | some qs =>
      refine ⟨?_, ?_, h3, h4, h5, h6, h7⟩
      · intro B hB
        simp only [upd]
        split
        · rfl
        · exact h1 B hB
      · simp only [upd]
        have : ¬ A = x.1 := fun h => hx h.symm
        simp [this, h2]

theorem deliverAll_agree (A : QName) (ts : List (QName × Queue.Id)) : ∀ (s₁ s₂ : State),
    AgreeExcept A s₁ s₂ → AgreeExcept A (deliverAll s₁ ts) (deliverAll s₂ ts) := by
  induction ts with
  | nil => intro s₁ s₂ h; exact h
  | cons x rest ih =>
    intro s₁ s₂ h
    simp only [deliverAll, List.foldl_cons]
    exact ih _ _ (deliver1_agree A s₁ s₂ x h)

theorem agree_upd (A B : QName) (s₁ s₂ : State) (v : QState) (hB : B ≠ A) (h : AgreeExcept A s₁ s₂) :
    (∀ C, C ≠ A → upd s₁.qs B v C = upd s₂.qs B v C) ∧
    (upd s₁.qs B v A).isSome = (upd s₂.qs B v A).isSome := by
  constructor
  · intro C hC
    simp only [upd]
    split
    · rfl
    · exact h.others C hC
  · have : ¬ A = B := fun e => hB e.symm
    simp [upd, this, h.exists_]

theorem agree_upd' (A B : QName) (s₁ s₂ : State) (v : QState) (hB : B ≠ A) (h : AgreeExcept A s₁ s₂)
    (n1 n2 : List QName) (l1 l2 : List Ev) (c c2 : Nat → CPc) (hc : c = c2) (d1 d2 : Bool) (hd : d1 = d2) :
    AgreeExcept A
      { qs := upd s₁.qs B v, names := n1, cancelled := d1, callers := c,
        cronRunning := s₁.cronRunning, schedCancelled := s₁.schedCancelled, kubePaused := s₁.kubePaused, log := l1 }
      { qs := upd s₂.qs B v, names := n2, cancelled := d2, callers := c2,
        cronRunning := s₂.cronRunning, schedCancelled := s₂.schedCancelled, kubePaused := s₂.kubePaused, log := l2 } := by
  obtain ⟨a, b⟩ := agree_upd A B s₁ s₂ v hB h
  exact ⟨a, b, hd, hc, h.cron, h.sched, h.kube⟩

end ShellOp.Worker.C03
