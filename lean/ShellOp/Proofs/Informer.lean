import ShellOp.Model.Informer
/-! Invariant of the repaired hand-over protocol (`fx = true`) and its preservation. -/
namespace ShellOp.Informer

/-- The invariant. `base`/`anyMark`/`syncMark` index into the history `fired`. -/
structure Good (s : St) : Prop where
  base_le : s.base ≤ s.anyMark
  any_le : s.anyMark ≤ s.fired.length
  sync_le : s.syncMark ≤ s.anyMark
  noFlag : ∀ e f, s.wpc ≠ .haveFlag e f
  locked : s.enabled = false → s.buf ++ inflight s = s.fired.drop s.base ∧ s.delivered = []
  unlocked : s.enabled = true → s.delivered ++ inflight s = s.fired.drop s.base ∧ s.buf = []
  reading : s.enabled = false → s.readers ≠ [] →
    s.fired.drop s.anyMark = [] ∨ s.fired.drop s.anyMark = inflight s
  oneReader : s.readers.length ≤ 1

theorem good_init (types : List Kind) (c : Cache) (w : List Ev) : Good (init types c w) := by
  constructor <;> simp [init, inflight]

theorem drop_append_singleton {α} (l : List α) (x : α) (n : Nat) (h : n ≤ l.length) :
    (l ++ [x]).drop n = l.drop n ++ [x] := by
  rw [List.drop_append_of_le_length h]

theorem lockHeld_true (s : St) : lockHeld true s = !s.readers.isEmpty := by simp [lockHeld]

theorem good_w1 (s s' : St) (g : Good s) (h : stepW1 s = some s') : Good s' := by
  unfold stepW1 at h
  split at h
  · rename_i ev rest hw hp
    simp only [Option.some.injEq] at h
    subst h
    have hinf : inflight s = [] := by simp [inflight, hw]
    by_cases hf : (!(ev.kind != Kind.deleted && s.cache.get ev.id == some ev.cs) && s.types.contains ev.kind) = true
    · -- the event fires
      simp only [hf, if_true]
      have hbl : s.base ≤ s.fired.length := Nat.le_trans g.base_le g.any_le
      constructor
      · exact g.base_le
      · simp; exact Nat.le_succ_of_le g.any_le
      · exact g.sync_le
      · intro e f; simp
      · intro he
        have := g.locked he
        rw [hinf, List.append_nil] at this
        refine ⟨?_, this.2⟩
        simp only [inflight]
        rw [drop_append_singleton _ _ _ hbl, this.1]
      · intro he
        have := g.unlocked he
        rw [hinf, List.append_nil] at this
        refine ⟨?_, this.2⟩
        simp only [inflight]
        rw [drop_append_singleton _ _ _ hbl, this.1]
      · intro he hr
        right
        have := g.reading he hr
        rw [hinf] at this
        have hnil : s.fired.drop s.anyMark = [] := by rcases this with h | h <;> exact h
        simp only [inflight]
        rw [drop_append_singleton _ _ _ g.any_le, hnil]; rfl
      · exact g.oneReader
    · -- filtered out: only the cache and the input change
      simp only [hf]
      have hinf' : inflight { s with cache := (if (ev.kind == Kind.deleted) = true then s.cache.erase ev.id else s.cache.put ev.id ev.cs), pending := rest, wpc := WPc.idle, fired := s.fired } = [] := by
        simp [inflight]
      constructor
      · exact g.base_le
      · exact g.any_le
      · exact g.sync_le
      · intro e f; simp
      · intro he; have := g.locked he; rw [hinf] at this; simpa [inflight] using this
      · intro he; have := g.unlocked he; rw [hinf] at this; simpa [inflight] using this
      · intro he hr; have := g.reading he hr; rw [hinf] at this; simpa [inflight] using this
      · exact g.oneReader
  · simp at h

theorem inflight_suffix (s : St) (g : Good s) : inflight s <:+ s.fired := by
  cases he : s.enabled
  · have := (g.locked he).1
    exact List.IsSuffix.trans ⟨s.buf, this⟩ (List.drop_suffix _ _)
  · have := (g.unlocked he).1
    exact List.IsSuffix.trans ⟨s.delivered, this⟩ (List.drop_suffix _ _)

theorem drop_length_sub_of_suffix {α} (l t : List α) (h : t <:+ l) : l.drop (l.length - t.length) = t := by
  obtain ⟨p, rfl⟩ := h
  simp

theorem good_step (s s' : St) (a : Action) (g : Good s) (h : step true s a = some s') : Good s' := by
  cases a with
  | w1 => exact good_w1 s s' g h
  | w2 =>
    simp only [step] at h
    split at h
    · rename_i ev hw
      simp only [if_true, lockHeld_true] at h
      split at h
      · simp at h
      · rename_i hl
        have hr : s.readers = [] := by simpa using hl
        have hinf : inflight s = [ev] := by simp [inflight, hw]
        split at h
        · rename_i hen
          simp only [Option.some.injEq] at h; subst h
          have := g.unlocked hen
          rw [hinf] at this
          constructor <;> try simp [inflight, hen]
          · exact g.base_le
          · exact g.any_le
          · exact g.sync_le
          · exact ⟨this.1, this.2⟩
          · exact g.oneReader
        · rename_i hen
          have hen' : s.enabled = false := by simpa using hen
          simp only [Option.some.injEq] at h; subst h
          have := g.locked hen'
          rw [hinf] at this
          constructor <;> try simp [inflight, hen']
          · exact g.base_le
          · exact g.any_le
          · exact g.sync_le
          · exact ⟨this.1, this.2⟩
          · intro hne; exact absurd hr hne
          · exact g.oneReader
    · simp at h
  | w3 =>
    simp only [step] at h
    split at h
    · rename_i ev f hw; exact absurd hw (g.noFlag ev f)
    · simp at h
  | s1 t =>
    simp only [step, lockHeld_true] at h
    split at h
    · simp at h
    · rename_i hl
      have hr : s.readers = [] := by simpa using hl
      simp only [hr, List.contains_nil, Bool.false_eq_true, if_false] at h
      split at h
      · rename_i hen
        simp only [Option.some.injEq] at h; subst h
        constructor <;> try simp [inflight, hen]
        · exact g.base_le
        · exact g.any_le
        · exact g.sync_le
        · intro e; exact ⟨g.noFlag e false, g.noFlag e true⟩
        · have := g.unlocked hen; simpa [inflight] using this
      · rename_i hen
        have hen' : s.enabled = false := by simpa using hen
        have hbl : s.base ≤ s.fired.length := Nat.le_trans g.base_le g.any_le
        by_cases ht : t = Tag.sync
        · simp only [ht, if_true, Option.some.injEq] at h; subst h
          constructor <;> try simp [inflight, hen']
          · exact hbl
          · intro e; exact ⟨g.noFlag e false, g.noFlag e true⟩
          · have := g.locked hen'; simpa [inflight] using this
        · simp only [ht, if_false, Option.some.injEq] at h; subst h
          constructor <;> try simp [inflight, hen']
          · exact hbl
          · exact Nat.le_trans g.sync_le g.any_le
          · intro e; exact ⟨g.noFlag e false, g.noFlag e true⟩
          · have := g.locked hen'; simpa [inflight] using this
  | s2 t =>
    simp only [step] at h
    split at h
    · rename_i hc
      have hne : s.readers ≠ [] := by
        intro h0; rw [h0] at hc; simp at hc
      have hone := g.oneReader
      have herase : s.readers.erase t = [] := by
        match hrs : s.readers, hc, hone with
        | [x], hc, _ =>
          have : t = x := by simpa using hc
          subst this; simp
        | [], hc, _ => simp at hc
        | _ :: _ :: _, _, hone => simp at hone
      split at h
      · rename_i hen
        simp only [Option.some.injEq] at h; subst h
        constructor <;> try simp [inflight, hen, herase]
        · exact g.base_le
        · exact g.any_le
        · exact g.sync_le
        · intro e; exact ⟨g.noFlag e false, g.noFlag e true⟩
        · have := g.unlocked hen; simpa [inflight] using this
      · rename_i hen
        have hen' : s.enabled = false := by simpa using hen
        simp only [Option.some.injEq] at h; subst h
        have hsuf := inflight_suffix s g
        have hdrop := drop_length_sub_of_suffix _ _ hsuf
        have hlen : (inflight s).length ≤ s.fired.length := hsuf.length_le
        have hinf_eq : inflight { s with readers := s.readers.erase t, buf := [], base := s.fired.length - (inflight s).length } = inflight s := by
          simp [inflight]
        constructor
        · -- base' ≤ anyMark
          show s.fired.length - (inflight s).length ≤ s.anyMark
          rcases g.reading hen' hne with h0 | h1
          · have : s.fired.length ≤ s.anyMark := by
              have := List.drop_eq_nil_iff.mp h0; exact this
            omega
          · have hl : (s.fired.drop s.anyMark).length = (inflight s).length := by rw [h1]
            simp at hl; omega
        · exact g.any_le
        · exact g.sync_le
        · exact g.noFlag
        · intro _
          refine ⟨?_, (g.locked hen').2⟩
          rw [hinf_eq]; simpa using hdrop.symm
        · intro he; simp [hen'] at he
        · intro _ hr; simp [herase] at hr
        · simp [herase]
    · simp at h
  | e =>
    simp only [step, lockHeld_true] at h
    split at h
    · simp at h
    · rename_i hl
      have hr : s.readers = [] := by simpa using hl
      split at h
      · simp only [Option.some.injEq] at h; subst h; exact g
      · rename_i hen
        have hen' : s.enabled = false := by simpa using hen
        simp only [Option.some.injEq] at h; subst h
        have := g.locked hen'
        constructor <;> try simp [inflight]
        · exact g.base_le
        · exact g.any_le
        · exact g.sync_le
        · intro e; exact ⟨g.noFlag e false, g.noFlag e true⟩
        · rw [this.2]; simpa [inflight] using this.1
        · exact g.oneReader

theorem good_run (s : St) (sched : List Action) (g : Good s) : Good (run true s sched) := by
  unfold run
  induction sched generalizing s with
  | nil => exact g
  | cons a rest ih =>
    simp only [List.foldl_cons]
    apply ih
    cases h : step true s a with
    | none => simpa using g
    | some s' => simpa using good_step s s' a g h

end ShellOp.Informer
