import ShellOp.Model.Patch
/-! Helper lemmas for C13: association lists, the per-operation refinement `execOne ⊑ Spec`, the
parse loop. -/
namespace ShellOp.Patch

/-! ### association lists -/

theorem aget_aerase_same {β : Type} (l : List (Nat × β)) (k : Nat) : aget (aerase l k) k = none := by
  induction l with
  | nil => simp [aerase, aget]
  | cons p t ih =>
    obtain ⟨k', v⟩ := p
    by_cases h : k' = k
    · simpa [aerase, h] using ih
    · simp only [aerase, List.filter_cons, ne_eq, h, not_false_eq_true, decide_true, ↓reduceIte, aget]
      simpa [aerase] using ih

theorem aget_aerase_other {β : Type} (l : List (Nat × β)) (k k' : Nat) (h : k' ≠ k) :
    aget (aerase l k) k' = aget l k' := by
  induction l with
  | nil => simp [aerase, aget]
  | cons p t ih =>
    obtain ⟨k₀, v⟩ := p
    by_cases h0 : k₀ = k
    · have : k₀ ≠ k' := fun e => h (by rw [← e, h0])
      simpa [aerase, h0, aget, this, h0 ▸ this] using ih
    · simp only [aerase, List.filter_cons, ne_eq, h0, not_false_eq_true, decide_true, ↓reduceIte, aget]
      by_cases h1 : k₀ = k'
      · simp [h1]
      · simpa [h1, aerase] using ih

theorem aget_aset_same {β : Type} (l : List (Nat × β)) (k : Nat) (v : β) : aget (aset l k v) k = some v := by
  simp [aset, aget]

theorem aget_aset_other {β : Type} (l : List (Nat × β)) (k k' : Nat) (v : β) (h : k' ≠ k) :
    aget (aset l k v) k' = aget l k' := by
  have : k ≠ k' := fun e => h e.symm
  simp [aset, aget, this, aget_aerase_other l k k' h]

theorem aerase_of_absent {β : Type} (l : List (Nat × β)) (k : Nat) (h : aget l k = none) : aerase l k = l := by
  induction l with
  | nil => simp [aerase]
  | cons p t ih =>
    obtain ⟨k', v⟩ := p
    by_cases h0 : k' = k
    · simp [aget, h0] at h
    · simp only [aget, h0, ↓reduceIte] at h
      simp only [aerase, List.filter_cons, ne_eq, h0, not_false_eq_true, decide_true, ↓reduceIte, List.cons.injEq, true_and]
      simpa [aerase] using ih h

/-! ### `withRep` does not change what the Spec says -/

theorem effect_withRep (pf : PatchFn) (op : Op) (r : NumRep) (c : Cluster) :
    Spec.effect pf (op.withRep r) c = Spec.effect pf op c := by
  cases op with
  | create ign upd src => cases src <;> simp [Op.withRep, Spec.effect]
  | delete p k g s => simp [Op.withRep]
  | patch kind k g s im ihe b => simp [Op.withRep]

theorem calls_withRep (pf : PatchFn) (op : Op) (r : NumRep) (c : Cluster) :
    Spec.calls pf (op.withRep r) c = Spec.calls pf op c := by
  cases op with
  | create ign upd src => cases src <;> simp [Op.withRep, Spec.calls]
  | delete p k g s => simp [Op.withRep]
  | patch kind k g s im ihe b => simp [Op.withRep]

theorem intTyped_withRep_f64 (op : Op) : (op.withRep .f64).intTyped = false := by
  cases op with
  | create ign upd src => cases src <;> simp [Op.withRep, Op.intTyped]
  | delete p k g s => simp [Op.withRep, Op.intTyped]
  | patch kind k g s im ihe b => simp [Op.withRep, Op.intTyped]

/-! ### one operation: the executor computes the documented effect and calls -/

def resOf (failed : Bool) : Res := if failed then .err else .ok

theorem execOne_refines (pf : PatchFn) (op : Op) (st : St) (h : op.intTyped = false) :
    execOne pf op st =
      (⟨(Spec.effect pf op st.cluster).1, st.log ++ Spec.calls pf op st.cluster⟩,
        resOf (Spec.effect pf op st.cluster).2) := by
  obtain ⟨c, lg⟩ := st
  cases op with
  | create ign upd src =>
    cases src with
    | bad => simp [execOne, execCreate, Spec.effect, Spec.calls, resOf]
    | good k gvr o rep =>
      cases gvr
      · simp [execOne, execCreate, Spec.effect, Spec.calls, resOf]
      · have hp : (rep = .int && o.any (fun p => p.2.isInt)) = false := by
          cases rep
          · simp
          · simpa [Op.intTyped] using h
        cases hg : aget c k with
        | none =>
          simp [execOne, execCreate, Spec.effect, Spec.calls, resOf, hp, apiCreate, hg, St.call]
        | some o0 =>
          cases ign <;> cases upd <;>
            simp [execOne, execCreate, Spec.effect, Spec.calls, resOf, hp, apiCreate, apiGet,
              apiUpdate, hg, St.call]
  | delete p k gvr sub =>
    cases gvr
    · simp [execOne, execDelete, Spec.effect, Spec.calls, resOf]
    · cases hg : aget c k with
      | none =>
        simp [execOne, execDelete, Spec.effect, Spec.calls, resOf, apiDelete, hg, St.call,
          aerase_of_absent c k hg]
      | some o0 =>
        cases p <;>
          simp [execOne, execDelete, Spec.effect, Spec.calls, resOf, apiDelete, apiGet, hg, St.call,
            aget_aerase_same]
  | patch kind k gvr sub im ihe body =>
    cases kind with
    | jq =>
      cases gvr
      · simp [execOne, execFilter, Spec.effect, Spec.calls, resOf]
      · cases hg : aget c k with
        | none =>
          cases im <;>
            simp [execOne, execFilter, Spec.effect, Spec.calls, resOf, apiGet, hg, St.call]
        | some o =>
          cases hb : body.bind (fun b => pf .jq b o) with
          | none =>
            simp [execOne, execFilter, Spec.effect, Spec.calls, resOf, apiGet, hg, St.call, hb]
          | some o' =>
            cases he : objEqb o o' <;>
              simp [execOne, execFilter, Spec.effect, Spec.calls, resOf, apiGet, apiUpdate, hg,
                St.call, hb, he]
    | merge =>
      cases body with
      | none => simp [execOne, execPatch, Spec.effect, Spec.calls, resOf]
      | some b =>
        cases gvr
        · simp [execOne, execPatch, Spec.effect, Spec.calls, resOf]
        · cases hg : aget c k with
          | none =>
            cases im <;>
              simp [execOne, execPatch, Spec.effect, Spec.calls, resOf, apiPatch, hg, St.call]
          | some o =>
            cases hb : pf .merge b o <;>
              simp [execOne, execPatch, Spec.effect, Spec.calls, resOf, apiPatch, hg, St.call, hb]
    | json =>
      cases body with
      | none => simp [execOne, execPatch, Spec.effect, Spec.calls, resOf]
      | some b =>
        cases gvr
        · simp [execOne, execPatch, Spec.effect, Spec.calls, resOf]
        · cases hg : aget c k with
          | none =>
            cases im <;>
              simp [execOne, execPatch, Spec.effect, Spec.calls, resOf, apiPatch, hg, St.call]
          | some o =>
            cases hb : pf .json b o <;>
              simp [execOne, execPatch, Spec.effect, Spec.calls, resOf, apiPatch, hg, St.call, hb]

/-! ### the loop of `ExecuteOperations` is the in-order, once-each run of the Spec -/

theorem execute_refines (pf : PatchFn) (ops : List Op) :
    ∀ (st : St) (n : Nat), (∀ op ∈ ops, op.intTyped = false) →
      execute pf ops st n =
        ⟨⟨(Spec.run pf ops ⟨st.cluster, st.log, n⟩).cluster, (Spec.run pf ops ⟨st.cluster, st.log, n⟩).calls⟩,
          (Spec.run pf ops ⟨st.cluster, st.log, n⟩).nfailed, false⟩ := by
  induction ops with
  | nil => intro st n _; simp [execute, Spec.run]
  | cons op rest ih =>
    intro st n h
    have h1 : op.intTyped = false := h op (by simp)
    have h2 : ∀ o ∈ rest, o.intTyped = false := fun o ho => h o (by simp [ho])
    have hr := execOne_refines pf op st h1
    cases hf : (Spec.effect pf op st.cluster).2
    · simp [hf, resOf] at hr
      simp [execute, hr, Spec.run, hf, ih _ _ h2]
    · simp [hf, resOf] at hr
      simp [execute, hr, Spec.run, hf, ih _ _ h2]

/-! ### the parse loop -/

theorem parseLoop_all_valid (nz : Bool) (f : Form) (ds : List Doc) :
    ∀ acc, (∀ d ∈ ds, d.valid = true) → parseLoop nz f ds acc = (acc ++ ds.map (opOf nz f), false) := by
  induction ds with
  | nil => intro acc _; simp [parseLoop]
  | cons d rest ih =>
    intro acc h
    have hd : d.valid = true := h d (by simp)
    simp only [parseLoop, hd, ↓reduceIte]
    rw [ih _ (fun x hx => h x (by simp [hx]))]
    simp

theorem parseLoop_some_invalid (nz : Bool) (f : Form) (ds : List Doc) :
    ∀ acc, (∃ d ∈ ds, d.valid = false) → (parseLoop nz f ds acc).2 = true := by
  induction ds with
  | nil => intro acc h; simp at h
  | cons d rest ih =>
    intro acc h
    cases hd : d.valid
    · simp [parseLoop, hd]
    · simp only [parseLoop, hd, ↓reduceIte]
      apply ih
      obtain ⟨x, hx, hv⟩ := h
      simp only [List.mem_cons] at hx
      rcases hx with rfl | hx
      · rw [hd] at hv; cases hv
      · exact ⟨x, hx, hv⟩

/-- The operations built before the first invalid document are a prefix of the documents' operations
(this is what `ParseOperations` returns next to the error; no caller uses it). -/
theorem parseLoop_prefix (nz : Bool) (f : Form) (ds : List Doc) :
    ∀ acc, ∃ k, (parseLoop nz f ds acc).1 = acc ++ (ds.take k).map (opOf nz f) := by
  induction ds with
  | nil => intro acc; exact ⟨0, by simp [parseLoop]⟩
  | cons d rest ih =>
    intro acc
    cases hd : d.valid
    · exact ⟨0, by simp [parseLoop, hd]⟩
    · obtain ⟨k, hk⟩ := ih (acc ++ [opOf nz f d])
      exact ⟨k + 1, by simp [parseLoop, hd, hk]⟩

/-! ### histories with other writers: the retrying executors compute `Spec.effectH` -/

/-- What an executor returns when it computed the outcome `r` starting with log `lg`. -/
def outH (lg : List Action) (r : Spec.OutH) : St × Writers × Res :=
  (⟨r.cluster, lg ++ r.calls⟩, r.ws, resOf r.failed)

theorem filterAttempts_refines (pf : PatchFn) (k : Key) (sub : Sub) (im ihe : Bool) (body : Option Body) :
    ∀ (n : Nat) (first : Bool) (c : Cluster) (lg : List Action) (ws : Writers),
      filterAttempts pf k sub im body n ⟨c, lg⟩ ws =
        outH lg (Spec.effectH pf (.patch .jq k true sub im ihe body) n first c ws) := by
  intro n
  induction n with
  | zero => intro first c lg ws; simp [filterAttempts, Spec.effectH, outH, resOf]
  | succ n ih =>
    intro first c lg ws
    cases hg : aget c k with
    | none =>
      cases im <;> cases first <;>
        simp [filterAttempts, Spec.effectH, Spec.locked, Spec.cycle, Spec.calls, Spec.effect, outH,
          resOf, apiGet, hg, St.call]
    | some o =>
      cases hb : body.bind (fun b => pf .jq b o) with
      | none =>
        cases first <;>
          simp [filterAttempts, Spec.effectH, Spec.locked, Spec.cycle, Spec.calls, Spec.effect, outH,
            resOf, apiGet, hg, St.call, hb]
      | some o' =>
        cases he : objEqb o o' with
        | true =>
          cases first <;>
            simp [filterAttempts, Spec.effectH, Spec.locked, Spec.cycle, Spec.calls, Spec.effect, outH,
              resOf, apiGet, hg, St.call, hb, he]
        | false =>
          cases hw : popWriter ws k with
          | none =>
            cases first <;>
              simp [filterAttempts, Spec.effectH, Spec.locked, Spec.cycle, Spec.calls, Spec.effect,
                outH, resOf, apiGet, apiUpdateH, hg, St.call, hb, he, hw]
          | some bw =>
            obtain ⟨b, ws'⟩ := bw
            have := ih false (aset c k (landed b o)) (lg ++ [⟨.get, k, 0⟩, ⟨.update, k, sub⟩]) ws'
            cases first <;>
              simp [filterAttempts, Spec.effectH, Spec.locked, Spec.cycle, Spec.calls,
                outH, resOf, apiGet, apiUpdateH, hg, St.call, hb, he, hw, this]

theorem updateAttempts_refines (pf : PatchFn) (k : Key) (o : Obj) (rep : NumRep) :
    ∀ (n : Nat) (c : Cluster) (lg : List Action) (ws : Writers) (o0 : Obj), aget c k = some o0 →
      updateAttempts k o n ⟨c, lg⟩ ws =
        outH lg (Spec.effectH pf (.create false true (.good k true o rep)) n false c ws) := by
  intro n
  induction n with
  | zero => intro c lg ws o0 _; simp [updateAttempts, Spec.effectH, outH, resOf]
  | succ n ih =>
    intro c lg ws o0 hg
    cases hw : popWriter ws k with
    | none =>
      simp [updateAttempts, Spec.effectH, Spec.locked, Spec.cycle, Spec.calls, Spec.effect,
        outH, resOf, apiGet, apiUpdateH, hg, St.call, hw]
    | some bw =>
      obtain ⟨b, ws'⟩ := bw
      have := ih (aset c k (landed b o0)) (lg ++ [⟨.get, k, 0⟩, ⟨.update, k, 0⟩]) ws' (landed b o0)
        (aget_aset_same _ _ _)
      simp [updateAttempts, Spec.effectH, Spec.locked, Spec.cycle, Spec.calls,
        outH, resOf, apiGet, apiUpdateH, hg, St.call, hw, this]

/-- The first attempt of CreateOrUpdate on a present object = the `Create` call, then the cycle. -/
theorem effectH_createOrUpdate_first (pf : PatchFn) (k : Key) (o o0 : Obj) (rep : NumRep) (n : Nat)
    (c : Cluster) (ws : Writers) (hg : aget c k = some o0) :
    Spec.effectH pf (.create false true (.good k true o rep)) (n + 1) true c ws =
      let r := Spec.effectH pf (.create false true (.good k true o rep)) (n + 1) false c ws
      ⟨r.cluster, r.ws, r.failed, ⟨.create, k, 0⟩ :: r.calls⟩ := by
  cases hw : popWriter ws k with
  | none => simp [Spec.effectH, Spec.locked, Spec.cycle, Spec.calls, Spec.effect, hg, hw]
  | some bw =>
    obtain ⟨b, ws'⟩ := bw
    simp [Spec.effectH, Spec.locked, Spec.cycle, Spec.calls, hg, hw]

/-- An operation whose documented run does not end with an `Update` does not meet the other writers. -/
theorem effectH_unlocked (pf : PatchFn) (op : Op) (n : Nat) (c : Cluster) (ws : Writers)
    (h : Spec.locked pf op c = none) :
    Spec.effectH pf op (n + 1) true c ws =
      ⟨(Spec.effect pf op c).1, ws, (Spec.effect pf op c).2, Spec.calls pf op c⟩ := by
  simp [Spec.effectH, h]

theorem execOneH_refines (pf : PatchFn) (op : Op) (st : St) (ws : Writers) (h : op.intTyped = false) :
    execOneH pf op st ws = outH st.log (Spec.effectH pf op retrySteps true st.cluster ws) := by
  obtain ⟨c, lg⟩ := st
  have hrs : retrySteps = 3 + 1 := rfl
  cases op with
  | create ign upd src =>
    cases src with
    | bad => simp [execOneH, execCreateH, hrs, Spec.effectH, Spec.locked, Spec.calls, Spec.effect, outH, resOf]
    | good k gvr o rep =>
      cases gvr
      · simp [execOneH, execCreateH, hrs, Spec.effectH, Spec.locked, Spec.calls, Spec.effect, outH, resOf]
      · have hp : (rep = .int && o.any (fun p => p.2.isInt)) = false := by
          cases rep
          · simp
          · simpa [Op.intTyped] using h
        cases hg : aget c k with
        | none =>
          simp [execOneH, execCreateH, hrs, Spec.effectH, Spec.locked, Spec.calls, Spec.effect, outH,
            resOf, hp, apiCreate, hg, St.call]
        | some o0 =>
          cases ign
          · cases upd
            · simp [execOneH, execCreateH, hrs, Spec.effectH, Spec.locked, Spec.calls, Spec.effect,
                outH, resOf, hp, apiCreate, hg, St.call]
            · have h1 := updateAttempts_refines pf k o rep (3 + 1) c (lg ++ [⟨.create, k, 0⟩]) ws o0 hg
              have h2 := effectH_createOrUpdate_first pf k o o0 rep 3 c ws hg
              simp only [execOneH, execCreateH, hrs, hp, apiCreate, hg, St.call] at *
              simp [h1, h2, outH]
          · cases upd <;>
              simp [execOneH, execCreateH, hrs, Spec.effectH, Spec.locked, Spec.calls, Spec.effect,
                outH, resOf, hp, apiCreate, hg, St.call]
  | delete p k gvr sub =>
    have hl : Spec.locked pf (.delete p k gvr sub) c = none := by
      cases gvr <;> cases p <;> cases hg : aget c k <;> simp [Spec.locked, Spec.calls, hg]
    have := execOne_refines pf (.delete p k gvr sub) ⟨c, lg⟩ (by simp [Op.intTyped])
    simp only [execOne] at this
    simp [execOneH, hrs, effectH_unlocked pf _ 3 c ws hl, this, outH]
  | patch kind k gvr sub im ihe body =>
    cases kind with
    | jq =>
      cases gvr
      · simp [execOneH, execFilterH, hrs, Spec.effectH, Spec.locked, Spec.calls, Spec.effect, outH, resOf]
      · simpa [execOneH, execFilterH] using
          filterAttempts_refines pf k sub im ihe body retrySteps true c lg ws
    | merge =>
      have hl : Spec.locked pf (.patch .merge k gvr sub im ihe body) c = none := by
        cases gvr <;> cases body <;> simp [Spec.locked, Spec.calls]
      have := execOne_refines pf (.patch .merge k gvr sub im ihe body) ⟨c, lg⟩ (by simp [Op.intTyped])
      simp only [execOne, reduceCtorEq, ↓reduceIte] at this
      simp [execOneH, hrs, effectH_unlocked pf _ 3 c ws hl, outH, this]
    | json =>
      have hl : Spec.locked pf (.patch .json k gvr sub im ihe body) c = none := by
        cases gvr <;> cases body <;> simp [Spec.locked, Spec.calls]
      have := execOne_refines pf (.patch .json k gvr sub im ihe body) ⟨c, lg⟩ (by simp [Op.intTyped])
      simp only [execOne, reduceCtorEq, ↓reduceIte] at this
      simp [execOneH, hrs, effectH_unlocked pf _ 3 c ws hl, outH, this]

theorem executeH_refines (pf : PatchFn) (ops : List Op) :
    ∀ (st : St) (ws : Writers) (n : Nat), (∀ op ∈ ops, op.intTyped = false) →
      executeH pf ops st ws n =
        ⟨⟨(Spec.runH pf ops ⟨st.cluster, ws, st.log, n⟩).cluster, (Spec.runH pf ops ⟨st.cluster, ws, st.log, n⟩).calls⟩,
          (Spec.runH pf ops ⟨st.cluster, ws, st.log, n⟩).ws,
          (Spec.runH pf ops ⟨st.cluster, ws, st.log, n⟩).nfailed, false⟩ := by
  induction ops with
  | nil => intro st ws n _; simp [executeH, Spec.runH]
  | cons op rest ih =>
    intro st ws n h
    have h1 : op.intTyped = false := h op (by simp)
    have h2 : ∀ o ∈ rest, o.intTyped = false := fun o ho => h o (by simp [ho])
    have hr := execOneH_refines pf op st ws h1
    cases hf : (Spec.effectH pf op retrySteps true st.cluster ws).failed
    · simp [hf, resOf, outH] at hr
      simp [executeH, hr, Spec.runH, hf, ih _ _ _ h2]
    · simp [hf, resOf, outH] at hr
      simp [executeH, hr, Spec.runH, hf, ih _ _ _ h2]

theorem effectH_withRep (pf : PatchFn) (op : Op) (r : NumRep) :
    ∀ (n : Nat) (first : Bool) (c : Cluster) (ws : Writers),
      Spec.effectH pf (op.withRep r) n first c ws = Spec.effectH pf op n first c ws := by
  intro n
  induction n with
  | zero => intro first c ws; simp [Spec.effectH]
  | succ n ih =>
    intro first c ws
    simp [Spec.effectH, Spec.locked, Spec.cycle, effect_withRep, calls_withRep, ih]

theorem runH_withRep (pf : PatchFn) (r : NumRep) (ops : List Op) :
    ∀ o, Spec.runH pf (ops.map (Op.withRep r)) o = Spec.runH pf ops o := by
  induction ops with
  | nil => intro o; rfl
  | cons op rest ih => intro o; simp [Spec.runH, effectH_withRep, ih]

/-- Without other writers the history-aware Spec is the plain one. -/
theorem effectH_no_writers (pf : PatchFn) (op : Op) (n : Nat) (c : Cluster) :
    Spec.effectH pf op (n + 1) true c [] =
      ⟨(Spec.effect pf op c).1, [], (Spec.effect pf op c).2, Spec.calls pf op c⟩ := by
  cases hl : Spec.locked pf op c with
  | none => simp [Spec.effectH, hl]
  | some k => cases hg : aget c k <;> simp [Spec.effectH, hl, hg, popWriter]

theorem runH_no_writers (pf : PatchFn) (ops : List Op) :
    ∀ (c : Cluster) (lg : List Action) (n : Nat),
      Spec.runH pf ops ⟨c, [], lg, n⟩ =
        ⟨(Spec.run pf ops ⟨c, lg, n⟩).cluster, [], (Spec.run pf ops ⟨c, lg, n⟩).calls, (Spec.run pf ops ⟨c, lg, n⟩).nfailed⟩ := by
  induction ops with
  | nil => intro c lg n; simp [Spec.runH, Spec.run]
  | cons op rest ih =>
    intro c lg n
    have : retrySteps = 3 + 1 := rfl
    simp [Spec.runH, Spec.run, this, effectH_no_writers, ih]

/-! ### the hook run -/

theorem onHookError_withRep (ss : Sub) (r : NumRep) (ops : List Op) :
    onHookError ss (ops.map (Op.withRep r)) = (onHookError ss ops).map (Op.withRep r) := by
  induction ops with
  | nil => rfl
  | cons op rest ih =>
    have h : (op.withRep r).onHookError ss = op.onHookError ss := by
      cases op with
      | create ign upd src => cases src <;> rfl
      | delete p k g s => rfl
      | patch kind k g s im ihe b => rfl
    simp only [onHookError] at ih ⊢
    simp only [List.map_cons, List.filter_cons, h]
    split <;> simp [ih]

/-! ### files of overlapping runs: a run's file is touched by that run only -/

theorem frun_own (path : Nat → Path) (hinj : ∀ a b, path a = path b → a = b) (r : Nat)
    (sched : List (Nat × FStep)) :
    ∀ s s' : FState, aget s.files (path r) = aget s'.files (path r) → aget s.got r = aget s'.got r →
      aget (frun path sched s).files (path r) =
        aget (frun path (sched.filter (fun e => e.1 == r)) s').files (path r) ∧
      aget (frun path sched s).got r = aget (frun path (sched.filter (fun e => e.1 == r)) s').got r := by
  induction sched with
  | nil => intro s s' hf hg; exact ⟨hf, hg⟩
  | cons e rest ih =>
    obtain ⟨q, st⟩ := e
    intro s s' hf hg
    by_cases hq : q = r
    · subst hq
      simp only [List.filter_cons, beq_self_eq_true, ↓reduceIte, frun]
      apply ih
      · cases st <;> simp [fstep, aget_aset_same, aget_aerase_same, hf]
      · cases st <;> simp [fstep, aget_aset_same, hf, hg]
    · have hne : (q == r) = false := by simp [hq]
      simp only [List.filter_cons, hne, frun]
      have hp : path r ≠ path q := fun e => hq (hinj _ _ e).symm
      have hr : r ≠ q := fun e => hq e.symm
      apply ih
      · cases st <;> simp [fstep, aget_aset_other _ _ _ _ hp, aget_aerase_other _ _ _ hp, hf]
      · cases st <;> simp [fstep, aget_aset_other _ _ _ _ hr, hg]

/-! ### addressing with a memo -/

/-- Every remembered resource is what the discovery answers for any coordinates with that key. -/
def MemoOk (kf : Coord → Nat) (d : Discovery) (memo : List (Nat × Resource)) : Prop :=
  ∀ c r, aget memo (kf c) = some r → d c.group c.version c.kind = some r

theorem targetsMemo_sound (kf : Coord → Nat) (d : Discovery)
    (hk : ∀ c c', kf c = kf c' → c.group = c'.group ∧ c.version = c'.version ∧ c.kind = c'.kind)
    (cs : List Coord) : ∀ memo, MemoOk kf d memo → targetsMemo kf d memo cs = targets d cs := by
  induction cs with
  | nil => intro _ _; rfl
  | cons c rest ih =>
    intro memo hm
    simp only [targetsMemo, targets, List.map_cons, resolveMemo]
    cases hg : aget memo (kf c) with
    | some r =>
      have := hm c r hg
      simp only [target, this, Option.map_some]
      rw [ih memo hm]; rfl
    | none =>
      cases hd : d c.group c.version c.kind with
      | none =>
        simp only [target, hd, Option.map_none]
        rw [ih memo hm]; rfl
      | some r =>
        simp only [target, hd, Option.map_some]
        have hm' : MemoOk kf d ((kf c, r) :: memo) := by
          intro c' r' h
          simp only [aget] at h
          by_cases he : kf c = kf c'
          · simp only [he, if_true] at h
            obtain ⟨h1, h2, h3⟩ := hk c c' he
            rw [← h1, ← h2, ← h3, hd]; exact h
          · simp only [he, if_false] at h
            exact hm c' r' h
        rw [ih _ hm']; rfl

end ShellOp.Patch
