import ShellOp.Model.Metrics
/-! Helper lemmas for C16: frame properties of the grouped / ungrouped primitives. -/
namespace ShellOp.Metrics

/-! ### the grouped primitives never touch the ungrouped store -/

theorem getOrCreateColl_frame {st st' : State} {n : Nat} {f : Fam} (h : getOrCreateColl st n f = some st') :
    st'.vecs = st.vecs ∧ st'.uentries = st.uentries ∧ st'.gentries = st.gentries := by
  unfold getOrCreateColl at h
  split at h
  · split at h
    · cases h; exact ⟨rfl, rfl, rfl⟩
    · cases h
  · split at h
    · cases h
    · cases h; exact ⟨rfl, rfl, rfl⟩

theorem groupedGaugeSet_u (st : State) (g n : Nat) (v : Int) (l : Labels) :
    (groupedGaugeSet st g n v l).vecs = st.vecs ∧ (groupedGaugeSet st g n v l).uentries = st.uentries := by
  unfold groupedGaugeSet
  split
  · exact ⟨rfl, rfl⟩
  · rename_i st' h; have := getOrCreateColl_frame h; exact ⟨this.1, this.2.1⟩

theorem groupedCounterAdd_u (st : State) (g n : Nat) (v : Int) (l : Labels) :
    (groupedCounterAdd st g n v l).vecs = st.vecs ∧ (groupedCounterAdd st g n v l).uentries = st.uentries := by
  unfold groupedCounterAdd
  split
  · exact ⟨rfl, rfl⟩
  · rename_i st' h; have := getOrCreateColl_frame h; exact ⟨this.1, this.2.1⟩

theorem applyGroupOp_u (common : Labels) (g : Nat) (st : State) (op : Op) :
    (applyGroupOp common g st op).vecs = st.vecs ∧ (applyGroupOp common g st op).uentries = st.uentries := by
  unfold applyGroupOp
  split
  · exact ⟨rfl, rfl⟩
  · split
    · exact groupedCounterAdd_u ..
    · exact groupedCounterAdd_u ..
    · exact groupedGaugeSet_u ..
    · exact groupedGaugeSet_u ..
    · exact ⟨rfl, rfl⟩

theorem applyGroupOperations_u (common : Labels) (st : State) (g : Nat) (ops : List Op) :
    (applyGroupOperations common st g ops).vecs = st.vecs ∧
    (applyGroupOperations common st g ops).uentries = st.uentries := by
  unfold applyGroupOperations
  suffices h : ∀ s : State, (ops.foldl (applyGroupOp common g) s).vecs = s.vecs ∧
      (ops.foldl (applyGroupOp common g) s).uentries = s.uentries from by
    have := h (expireGroup st g); simpa [expireGroup] using this
  induction ops with
  | nil => intro s; exact ⟨rfl, rfl⟩
  | cons op ops ih =>
    intro s
    have h1 := applyGroupOp_u common g s op
    have h2 := ih (applyGroupOp common g s op)
    simp only [List.foldl_cons]
    exact ⟨h2.1.trans h1.1, h2.2.trans h1.2⟩

/-! ### the ungrouped primitives never touch the grouped store -/

theorem ungroupedApply_g (st : State) (f : Fam) (n : Nat) (l : Labels) (neg : Bool) (upd : UEntry → UEntry) :
    (ungroupedApply st f n l neg upd).colls = st.colls ∧ (ungroupedApply st f n l neg upd).gentries = st.gentries := by
  unfold ungroupedApply
  dsimp only
  split
  · split <;> exact ⟨rfl, rfl⟩
  · split
    · exact ⟨rfl, rfl⟩
    · split <;> exact ⟨rfl, rfl⟩

theorem sendOneV0_g {common : Labels} {st st' : State} {op : Op} (h : sendOneV0 common st op = some st') :
    st'.colls = st.colls ∧ st'.gentries = st.gentries := by
  unfold sendOneV0 at h
  split at h
  · cases h; exact ungroupedApply_g ..
  · cases h; exact ungroupedApply_g ..
  · split at h
    · cases h; exact ungroupedApply_g ..
    · cases h
  · cases h

theorem sendBatchV0_g (common : Labels) (st : State) (ops : List Op) :
    (sendBatchV0 common st ops).1.colls = st.colls ∧ (sendBatchV0 common st ops).1.gentries = st.gentries := by
  induction ops generalizing st with
  | nil => exact ⟨rfl, rfl⟩
  | cons op ops ih =>
    unfold sendBatchV0
    split
    · exact ⟨rfl, rfl⟩
    · rename_i st' h
      have h1 := sendOneV0_g h
      have h2 := ih st'
      exact ⟨h2.1.trans h1.1, h2.2.trans h1.2⟩

/-! ### entries owned by a group that the batch does not touch -/

def owned (l : List GEntry) (g : Nat) : List GEntry := l.filter (·.group == g)

theorem gUpsert_owned_other (upd : Int → Int → Int) (n : Nat) (k : Labels) (v : Int) (g g' : Nat)
    (l : List GEntry) (hg : g ≠ g')
    (hno : ∀ e ∈ owned l g', ¬ (e.name = n ∧ e.key = k)) :
    owned (gUpsert upd n k v g l) g' = owned l g' := by
  induction l with
  | nil => simp [gUpsert, owned, hg]
  | cons e rest ih =>
    unfold gUpsert
    by_cases he : e.name = n ∧ e.key = k
    · -- the entry hit by the write is not owned by g'
      have hne : (e.group == g') = false := by
        cases hge : e.group == g'
        · rfl
        · exact absurd he (hno e (by simp [owned, hge]))
      simp [he, owned, hne]
    · have hrest : ∀ e' ∈ owned rest g', ¬ (e'.name = n ∧ e'.key = k) := by
        intro e' he'
        apply hno
        simp only [owned, List.filter_cons] at he' ⊢
        split
        · exact List.mem_cons_of_mem _ he'
        · exact he'
      have := ih hrest
      simp only [he, if_false, owned, List.filter_cons] at this ⊢
      split <;> simp_all [owned]

theorem expire_owned_other (st : State) (g g' : Nat) (hg : g ≠ g') :
    owned (expireGroup st g).gentries g' = owned st.gentries g' := by
  simp only [expireGroup, owned, List.filter_filter]
  apply List.filter_congr
  intro e _
  by_cases h : e.group = g'
  · subst h; simp; exact fun h' => hg h'.symm
  · simp [h]

/-- the identity (name, key) a grouped write operation addresses. -/
def opIdent (common : Labels) (op : Op) : Nat × Labels := (op.name, gkey (mergeLabels op.labels common))

theorem groupedGaugeSet_owned_other (st : State) (g g' n : Nat) (v : Int) (l : Labels) (hg : g ≠ g')
    (hno : ∀ e ∈ owned st.gentries g', ¬ (e.name = n ∧ e.key = gkey l)) :
    owned (groupedGaugeSet st g n v l).gentries g' = owned st.gentries g' := by
  unfold groupedGaugeSet
  split
  · rfl
  · rename_i st' h
    have hf := getOrCreateColl_frame h
    simp only
    rw [gUpsert_owned_other _ _ _ _ _ _ _ hg (by simpa [hf.2.2] using hno), hf.2.2]

theorem groupedCounterAdd_owned_other (st : State) (g g' n : Nat) (v : Int) (l : Labels) (hg : g ≠ g')
    (hno : ∀ e ∈ owned st.gentries g', ¬ (e.name = n ∧ e.key = gkey l)) :
    owned (groupedCounterAdd st g n v l).gentries g' = owned st.gentries g' := by
  unfold groupedCounterAdd
  split
  · rfl
  · rename_i st' h
    have hf := getOrCreateColl_frame h
    simp only
    rw [gUpsert_owned_other _ _ _ _ _ _ _ hg (by simpa [hf.2.2] using hno), hf.2.2]

theorem applyGroupOp_owned_other (common : Labels) (g g' : Nat) (st : State) (op : Op) (hg : g ≠ g')
    (hno : op.action ≠ "expire" → ∀ e ∈ owned st.gentries g', (e.name, e.key) ≠ opIdent common op) :
    owned (applyGroupOp common g st op).gentries g' = owned st.gentries g' := by
  unfold applyGroupOp
  by_cases hx : (op.action == "expire") = true
  · simp only [hx, if_true]
    exact expire_owned_other st g g' hg
  · have hx' : op.action ≠ "expire" := by simpa using hx
    have hno' : ∀ e ∈ owned st.gentries g', ¬ (e.name = op.name ∧ e.key = gkey (mergeLabels op.labels common)) := by
      intro e he ⟨h1, h2⟩
      exact hno hx' e he (by simp [opIdent, h1, h2])
    simp only [hx, Bool.false_eq_true, if_false]
    split
    · exact groupedCounterAdd_owned_other _ _ _ _ _ _ hg hno'
    · exact groupedCounterAdd_owned_other _ _ _ _ _ _ hg hno'
    · exact groupedGaugeSet_owned_other _ _ _ _ _ _ hg hno'
    · exact groupedGaugeSet_owned_other _ _ _ _ _ _ hg hno'
    · rfl

theorem applyGroupOperations_owned_other (common : Labels) (st : State) (g g' : Nat) (ops : List Op)
    (hg : g ≠ g')
    (hno : ∀ op ∈ ops, op.action ≠ "expire" → ∀ e ∈ owned st.gentries g', (e.name, e.key) ≠ opIdent common op) :
    owned (applyGroupOperations common st g ops).gentries g' = owned st.gentries g' := by
  unfold applyGroupOperations
  rw [← expire_owned_other st g g' hg] at hno ⊢
  generalize expireGroup st g = s at hno ⊢
  induction ops generalizing s with
  | nil => rfl
  | cons op ops ih =>
    simp only [List.foldl_cons]
    have h1 := applyGroupOp_owned_other common g g' s op hg (hno op (by simp))
    rw [ih (applyGroupOp common g s op) (by
      intro op' hop' hx e he
      rw [h1] at he
      exact hno op' (by simp [hop']) hx e he), h1]

end ShellOp.Metrics

namespace ShellOp.Metrics

/-! ### after a group's part of a batch, what the group owns was written by that part -/

/-- every entry owned by `g` has its identity in `ids`. -/
def IdIn (l : List GEntry) (g : Nat) (ids : List (Nat × Labels)) : Prop :=
  ∀ e ∈ owned l g, (e.name, e.key) ∈ ids

theorem IdIn.mono {l : List GEntry} {g : Nat} {ids ids' : List (Nat × Labels)} (h : IdIn l g ids)
    (hs : ∀ x ∈ ids, x ∈ ids') : IdIn l g ids' := fun e he => hs _ (h e he)

theorem gUpsert_IdIn (upd : Int → Int → Int) (n : Nat) (k : Labels) (v : Int) (g g2 : Nat)
    (l : List GEntry) (ids : List (Nat × Labels)) (h : IdIn l g ids) :
    IdIn (gUpsert upd n k v g2 l) g ((n, k) :: ids) := by
  induction l with
  | nil =>
    intro e he
    simp only [gUpsert, owned, List.filter_cons] at he
    split at he
    · simp at he; subst he; simp
    · simp at he
  | cons e0 rest ih =>
    have hrest : IdIn rest g ids := by
      intro e he; apply h
      simp only [owned, List.filter_cons] at he ⊢
      split
      · exact List.mem_cons_of_mem _ he
      · exact he
    intro e he
    unfold gUpsert at he
    by_cases hhit : e0.name = n ∧ e0.key = k
    · simp only [hhit, and_self, if_true, owned, List.filter_cons] at he
      split at he
      · rcases List.mem_cons.mp he with rfl | he'
        · simp [hhit.1, hhit.2]
        · exact List.mem_cons_of_mem _ (hrest e (by simpa [owned] using he'))
      · exact List.mem_cons_of_mem _ (hrest e (by simpa [owned] using he))
    · simp only [hhit, if_false, owned, List.filter_cons] at he
      split at he
      · rename_i hg0
        rcases List.mem_cons.mp he with rfl | he'
        · exact List.mem_cons_of_mem _ (h e (by simp [owned, List.filter_cons, hg0]))
        · exact ih hrest e (by simpa [owned] using he')
      · exact ih hrest e (by simpa [owned] using he)

theorem gUpsert_IdIn_other (upd : Int → Int → Int) (n : Nat) (k : Labels) (v : Int) (g g2 : Nat)
    (hg : g2 ≠ g) (l : List GEntry) (ids : List (Nat × Labels)) (h : IdIn l g ids) :
    IdIn (gUpsert upd n k v g2 l) g ids := by
  induction l with
  | nil =>
    intro e he
    simp [gUpsert, owned, List.filter_cons, hg] at he
  | cons e0 rest ih =>
    have hrest : IdIn rest g ids := by
      intro e he; apply h
      simp only [owned, List.filter_cons] at he ⊢
      split
      · exact List.mem_cons_of_mem _ he
      · exact he
    intro e he
    unfold gUpsert at he
    by_cases hhit : e0.name = n ∧ e0.key = k
    · simp only [hhit, and_self, if_true, owned, List.filter_cons] at he
      split at he
      · rename_i hg0
        rcases List.mem_cons.mp he with rfl | he'
        · have hg0' : (e0.group == g) = true := hg0
          have := h e0 (by simp [owned, List.filter_cons, hg0'])
          rw [hhit.1, hhit.2] at this
          exact this
        · exact hrest e (by simpa [owned] using he')
      · exact hrest e (by simpa [owned] using he)
    · simp only [hhit, if_false, owned, List.filter_cons] at he
      split at he
      · rename_i hg0
        rcases List.mem_cons.mp he with rfl | he'
        · exact h e (by simp [owned, List.filter_cons, hg0])
        · exact ih hrest e (by simpa [owned] using he')
      · exact ih hrest e (by simpa [owned] using he)

theorem expire_IdIn_self (st : State) (g : Nat) : IdIn (expireGroup st g).gentries g [] := by
  intro e he
  simp [owned, expireGroup, List.mem_filter] at he

theorem expire_IdIn (st : State) (g g2 : Nat) (ids : List (Nat × Labels)) (h : IdIn st.gentries g ids) :
    IdIn (expireGroup st g2).gentries g ids := by
  intro e he
  apply h
  simp only [owned, expireGroup, List.mem_filter] at he ⊢
  exact ⟨he.1.1, he.2⟩

/-- the write operations (everything but `expire`) of a list, as identities. -/
def writeIdents (common : Labels) (ops : List Op) : List (Nat × Labels) :=
  (ops.filter (fun op => !(op.action == "expire"))).map (opIdent common)

theorem groupedGaugeSet_IdIn (st : State) (g g2 n : Nat) (v : Int) (l : Labels) (ids) (h : IdIn st.gentries g ids) :
    IdIn (groupedGaugeSet st g2 n v l).gentries g ((n, gkey l) :: ids) := by
  unfold groupedGaugeSet
  split
  · exact h.mono (fun x hx => List.mem_cons_of_mem _ hx)
  · rename_i st' hc
    have hf := getOrCreateColl_frame hc
    exact gUpsert_IdIn _ _ _ _ _ _ _ _ (by simpa [hf.2.2] using h)

theorem groupedCounterAdd_IdIn (st : State) (g g2 n : Nat) (v : Int) (l : Labels) (ids) (h : IdIn st.gentries g ids) :
    IdIn (groupedCounterAdd st g2 n v l).gentries g ((n, gkey l) :: ids) := by
  unfold groupedCounterAdd
  split
  · exact h.mono (fun x hx => List.mem_cons_of_mem _ hx)
  · rename_i st' hc
    have hf := getOrCreateColl_frame hc
    exact gUpsert_IdIn _ _ _ _ _ _ _ _ (by simpa [hf.2.2] using h)

theorem groupedGaugeSet_IdIn_other (st : State) (g g2 n : Nat) (v : Int) (l : Labels) (hg : g2 ≠ g) (ids)
    (h : IdIn st.gentries g ids) : IdIn (groupedGaugeSet st g2 n v l).gentries g ids := by
  unfold groupedGaugeSet
  split
  · exact h
  · rename_i st' hc
    have hf := getOrCreateColl_frame hc
    exact gUpsert_IdIn_other _ _ _ _ _ _ hg _ _ (by simpa [hf.2.2] using h)

theorem groupedCounterAdd_IdIn_other (st : State) (g g2 n : Nat) (v : Int) (l : Labels) (hg : g2 ≠ g) (ids)
    (h : IdIn st.gentries g ids) : IdIn (groupedCounterAdd st g2 n v l).gentries g ids := by
  unfold groupedCounterAdd
  split
  · exact h
  · rename_i st' hc
    have hf := getOrCreateColl_frame hc
    exact gUpsert_IdIn_other _ _ _ _ _ _ hg _ _ (by simpa [hf.2.2] using h)

theorem applyGroupOp_IdIn (common : Labels) (g : Nat) (st : State) (op : Op) (ids)
    (h : IdIn st.gentries g ids) :
    IdIn (applyGroupOp common g st op).gentries g (writeIdents common [op] ++ ids) := by
  unfold applyGroupOp
  by_cases hx : (op.action == "expire") = true
  · simp only [hx, if_true]
    exact (expire_IdIn_self st g).mono (by simp)
  · simp only [hx]
    have hw : writeIdents common [op] = [opIdent common op] := by simp [writeIdents, hx]
    rw [hw]
    simp only [Bool.false_eq_true, if_false, List.cons_append, List.nil_append, opIdent]
    split
    · exact groupedCounterAdd_IdIn _ _ _ _ _ _ _ h
    · exact groupedCounterAdd_IdIn _ _ _ _ _ _ _ h
    · exact groupedGaugeSet_IdIn _ _ _ _ _ _ _ h
    · exact groupedGaugeSet_IdIn _ _ _ _ _ _ _ h
    · exact h.mono (fun x hx => List.mem_cons_of_mem _ hx)

theorem applyGroupOp_IdIn_other (common : Labels) (g g2 : Nat) (hg : g2 ≠ g) (st : State) (op : Op) (ids)
    (h : IdIn st.gentries g ids) : IdIn (applyGroupOp common g2 st op).gentries g ids := by
  unfold applyGroupOp
  split
  · exact expire_IdIn st g g2 ids h
  · split
    · exact groupedCounterAdd_IdIn_other _ _ _ _ _ _ hg _ h
    · exact groupedCounterAdd_IdIn_other _ _ _ _ _ _ hg _ h
    · exact groupedGaugeSet_IdIn_other _ _ _ _ _ _ hg _ h
    · exact groupedGaugeSet_IdIn_other _ _ _ _ _ _ hg _ h
    · exact h

theorem writeIdents_append (common : Labels) (a b : List Op) :
    writeIdents common (a ++ b) = writeIdents common a ++ writeIdents common b := by
  simp [writeIdents]

theorem foldl_applyGroupOp_IdIn (common : Labels) (g : Nat) (ops : List Op) (s : State) (ids)
    (h : IdIn s.gentries g ids) :
    IdIn (ops.foldl (applyGroupOp common g) s).gentries g (writeIdents common ops ++ ids) := by
  induction ops generalizing s ids with
  | nil => simpa [writeIdents] using h
  | cons op ops ih =>
    simp only [List.foldl_cons]
    have h1 := applyGroupOp_IdIn common g s op ids h
    have h2 := ih _ _ h1
    refine h2.mono ?_
    intro x hx
    have : op :: ops = [op] ++ ops := rfl
    rw [this, writeIdents_append]
    simp only [List.mem_append] at hx ⊢
    rcases hx with hx | hx | hx
    · exact Or.inl (Or.inr hx)
    · exact Or.inl (Or.inl hx)
    · exact Or.inr hx

theorem applyGroupOperations_IdIn (common : Labels) (st : State) (g : Nat) (ops : List Op) :
    IdIn (applyGroupOperations common st g ops).gentries g (writeIdents common ops) := by
  have := foldl_applyGroupOp_IdIn common g ops (expireGroup st g) [] (expire_IdIn_self st g)
  simpa [applyGroupOperations] using this

theorem applyGroupOperations_IdIn_other (common : Labels) (st : State) (g g2 : Nat) (hg : g2 ≠ g)
    (ops : List Op) (ids) (h : IdIn st.gentries g ids) :
    IdIn (applyGroupOperations common st g2 ops).gentries g ids := by
  unfold applyGroupOperations
  have h0 := expire_IdIn st g g2 ids h
  generalize expireGroup st g2 = s at h0
  induction ops generalizing s with
  | nil => exact h0
  | cons op ops ih => exact ih _ (applyGroupOp_IdIn_other common g g2 hg s op ids h0)

end ShellOp.Metrics
