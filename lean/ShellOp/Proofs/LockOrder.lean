import ShellOp.Model.LockOrder
/-! Lock order ⇒ no deadlock, for any number of goroutines and locks (C03, "queues do not block each other"). -/
namespace ShellOp.LockOrder

/-- a number above every lock some goroutine is about to take -/
def bound : List Thread → Nat
  | [] => 0
  | t :: ts => (t.next.getD 0 + 1) + bound ts

theorem lt_bound : ∀ ts : List Thread, ∀ t ∈ ts, ∀ l, t.next = some l → l < bound ts
  | [], _, h, _, _ => by cases h
  | x :: xs, t, h, l, hn => by
    rcases List.mem_cons.mp h with rfl | h'
    · simp [bound, hn]; omega
    · have := lt_bound xs t h' l hn
      simp [bound]; omega

/-- follow the chain "wants l, held by u, u wants l' > l, …": it ends at a goroutine that is not blocked -/
theorem holder_chain (ts : List Thread) (B : Nat)
    (hB : ∀ t ∈ ts, ∀ l, t.next = some l → l < B)
    (hord : ∀ t ∈ ts, Ordered t) :
    ∀ n l, B - l ≤ n → l < B → (∃ u ∈ ts, l ∈ u.held) →
      ∃ u ∈ ts, u.held ≠ [] ∧ ¬ Blocked ts u := by
  intro n
  induction n with
  | zero => intro l h1 h2 _; omega
  | succ n ih =>
    intro l h1 h2 hh
    obtain ⟨u, hu, hl⟩ := hh
    by_cases hb : Blocked ts u
    · obtain ⟨l', hn, hh'⟩ := hb
      have hlt : l < l' := hord u hu l' hn l hl
      have hB' : l' < B := hB u hu l' hn
      exact ih l' (by omega) hB' hh'
    · refine ⟨u, hu, ?_, hb⟩
      intro h
      rw [h] at hl
      cases hl

/-- **No deadlock under a lock order.** Any number of goroutines, any number of locks: if every goroutine
takes locks in increasing rank and one of them waits for a lock, then some goroutine that holds a lock is
NOT waiting — it goes on and releases; never are all of them waiting for each other. -/
theorem ordered_never_all_blocked (ts : List Thread) (hord : ∀ t ∈ ts, Ordered t)
    (t : Thread) (ht : t ∈ ts) (hb : Blocked ts t) :
    ∃ u ∈ ts, u.held ≠ [] ∧ ¬ Blocked ts u := by
  obtain ⟨l, hn, hh⟩ := hb
  exact holder_chain ts (bound ts) (lt_bound ts) hord (bound ts - l) l (Nat.le_refl _) (lt_bound ts t ht l hn) hh

end ShellOp.LockOrder
