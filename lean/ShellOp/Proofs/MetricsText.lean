import ShellOp.Model.MetricsText
import ShellOp.Proofs.HookOutput
/-
The text path of C16: the byte-level validation (`HookOutput.validOp`, on what the reader decoded from
the file) and the typed validation (`Metrics.validOp`, on what `SendBatch` is given) are one predicate,
so "the file is accepted" (`HookOutput.metricsOk`) decides whether anything is applied.
-/
namespace ShellOp.MetricsText
open ShellOp ShellOp.Metrics

theorem toList_beq (s t : String) : (s.toList == t.toList) = (s == t) := by
  by_cases h : s = t
  · subst h; simp
  · have h' : s.toList ≠ t.toList := fun e => h (String.toList_inj.mp e)
    rw [beq_eq_false_iff_ne.mpr h', beq_eq_false_iff_ne.mpr h]

theorem toList_beq_nil (s : String) : (s.toList == []) = (s == "") := by
  have h0 : "".toList = [] := rfl
  rw [← h0]
  exact toList_beq s ""

/-- **Both validations agree** on an operation and its reading. -/
theorem validOp_of_abstracts (m : HookOutput.MetricOp) (op : Op) (h : abstracts m op = true)
    (hu : Facts.c16UngroupedActions = ["set", "add", "observe"])
    (hg : Facts.c16GroupedActions = ["expire", "set", "add"]) :
    HookOutput.validOp m = validOp op := by
  simp only [abstracts, Bool.and_eq_true, beq_iff_eq] at h
  obtain ⟨⟨⟨⟨⟨⟨hn, hgr⟩, hact⟩, hadd⟩, hset⟩, hval⟩, hb⟩ := h
  have en : (m.name == []) = (op.name == 0) := by
    rw [← hn]; cases m.name <;> rfl
  have eg : (m.group == []) = (op.group == 0) := by
    rw [← hgr]; cases m.group <;> rfl
  have es := toList_beq op.action "set"
  have ea := toList_beq op.action "add"
  have eo := toList_beq op.action "observe"
  have ee := toList_beq op.action "expire"
  have e0 := toList_beq_nil op.action
  unfold HookOutput.validOp validOp
  rw [hu, hg]
  simp only [hact, hadd, hset, hval, hb, en, eg, es, ea, eo, ee, e0, bne, List.contains_cons,
    List.contains_nil, Bool.or_false]
  generalize (op.action == "set") = bs
  generalize (op.action == "add") = ba
  generalize (op.action == "observe") = bo
  generalize (op.action == "expire") = be
  generalize (op.action == "") = b0
  generalize (op.name == 0) = bn
  generalize (op.group == 0) = bg
  cases op.value <;> cases op.add <;> cases op.set <;> cases op.buckets <;>
    cases bs <;> cases ba <;> cases bo <;> cases be <;> cases b0 <;> cases bn <;> cases bg <;> rfl

theorem all_validOp_of_abstractsAll (hu : Facts.c16UngroupedActions = ["set", "add", "observe"])
    (hg : Facts.c16GroupedActions = ["expire", "set", "add"]) :
    ∀ (ms : List HookOutput.MetricOp) (ops : List Op), abstractsAll ms ops = true →
      ms.all HookOutput.validOp = validBatch ops
  | [], [], _ => rfl
  | [], _ :: _, h => by simp [abstractsAll] at h
  | _ :: _, [], h => by simp [abstractsAll] at h
  | m :: ms, op :: ops, h => by
    simp only [abstractsAll, Bool.and_eq_true] at h
    have ih := all_validOp_of_abstractsAll hu hg ms ops h.2
    have h1 := validOp_of_abstracts m op h.1 hu hg
    simp only [validBatch] at ih
    simp [validBatch, List.all_cons, h1, ih]

/-- The reader's verdict on a non-empty file. -/
theorem metricsOk_nonempty (file : List Char) (hne : file.isEmpty = false) :
    HookOutput.metricsOk file =
      (match HookOutput.fromReader file with
       | none => false
       | some ms => ms.all HookOutput.validOp) := by
  unfold HookOutput.metricsOk
  simp only [hne, Bool.false_eq_true, if_false] <;> rfl

theorem fromReader_nil : HookOutput.fromReader [] = some [] := by decide

end ShellOp.MetricsText
