import ShellOp.Model.Config
/-! Helper lemmas for C10: what the conversion loops compute, `MergeArrays` as an order-preserving union. -/
namespace ShellOp.Config

/-! ### Except helpers -/

theorem map_ok {α β : Type} (f : α → β) (x : Except Err α) (b : β) (h : x.map f = .ok b) :
    ∃ a, x = .ok a ∧ f a = b := by
  cases x with
  | error e => simp [Except.map] at h
  | ok a => exact ⟨a, rfl, by simpa [Except.map] using h⟩

/-! ### The loops -/

theorem kubeLoop_ok (i : Nat) (ks : List KubeV1) (r : List KubeEff) (h : kubeLoop i ks = .ok r) :
    r = ks.map convertKube ∧ ∀ k ∈ ks, checkKube k = true := by
  induction ks generalizing i r with
  | nil => simp [kubeLoop] at h; simp [h]
  | cons k ks ih =>
    unfold kubeLoop at h
    split at h
    · obtain ⟨r', hr', rfl⟩ := map_ok _ _ _ h
      obtain ⟨h1, h2⟩ := ih _ _ hr'
      subst h1
      refine ⟨rfl, ?_⟩
      intro k' hk'
      simp only [List.mem_cons] at hk'
      rcases hk' with rfl | hk'
      · assumption
      · exact h2 k' hk'
    · simp at h

theorem kubeLoop_err (i : Nat) (ks : List KubeV1) (h : ∃ k ∈ ks, checkKube k = false) :
    ∃ e, kubeLoop i ks = .error e := by
  cases hr : kubeLoop i ks with
  | error e => exact ⟨e, rfl⟩
  | ok r =>
    obtain ⟨k, hk, hc⟩ := h
    have := (kubeLoop_ok i ks r hr).2 k hk
    simp [hc] at this

theorem kubeLoop_total (i : Nat) (ks : List KubeV1) (h : ∀ k ∈ ks, checkKube k = true) :
    kubeLoop i ks = .ok (ks.map convertKube) := by
  induction ks generalizing i with
  | nil => rfl
  | cons k ks ih =>
    unfold kubeLoop
    simp only [h k (by simp), if_true, ih (i + 1) (fun k' hk' => h k' (by simp [hk']))]
    rfl

theorem kubeInclLoop_ok (all : List KubeEff) (i : Nat) (ks : List KubeEff) (h : kubeInclLoop all i ks = .ok ()) :
    ∀ k ∈ ks, checkIncludes all k.includes = true := by
  induction ks generalizing i with
  | nil => simp
  | cons k ks ih =>
    unfold kubeInclLoop at h
    split at h
    · simp at h
    · rename_i hc
      intro k' hk'
      simp only [List.mem_cons] at hk'
      rcases hk' with rfl | hk'
      · simp only [Bool.and_eq_true, decide_eq_true_eq, Bool.not_eq_true', not_and, Bool.not_eq_false] at hc
        by_cases hl : k'.includes.length > 0
        · exact hc hl
        · have : k'.includes = [] := by
            cases hi : k'.includes with
            | nil => rfl
            | cons a b => simp [hi] at hl
          simp [checkIncludes, this]
      · exact ih _ h k' hk'

theorem kubeInclLoop_total (all : List KubeEff) (i : Nat) (ks : List KubeEff)
    (h : ∀ k ∈ ks, checkIncludes all k.includes = true) : kubeInclLoop all i ks = .ok () := by
  induction ks generalizing i with
  | nil => rfl
  | cons k ks ih =>
    unfold kubeInclLoop
    simp only [h k (by simp), Bool.not_true, Bool.and_false, Bool.false_eq_true, if_false]
    exact ih _ (fun k' hk' => h k' (by simp [hk']))

theorem schedLoop_ok (kubes : List KubeEff) (i : Nat) (ss : List SchedV1) (r : List SchedEff)
    (h : schedLoop kubes i ss = .ok r) :
    r = ss.map convertSched ∧ ∀ s ∈ ss, checkSched kubes s = true := by
  induction ss generalizing i r with
  | nil => simp [schedLoop] at h; simp [h]
  | cons s ss ih =>
    unfold schedLoop at h
    split at h
    · obtain ⟨r', hr', rfl⟩ := map_ok _ _ _ h
      obtain ⟨h1, h2⟩ := ih _ _ hr'
      subst h1
      refine ⟨rfl, ?_⟩
      intro s' hs'
      simp only [List.mem_cons] at hs'
      rcases hs' with rfl | hs'
      · assumption
      · exact h2 s' hs'
    · simp at h

theorem schedLoop_total (kubes : List KubeEff) (i : Nat) (ss : List SchedV1)
    (h : ∀ s ∈ ss, checkSched kubes s = true) : schedLoop kubes i ss = .ok (ss.map convertSched) := by
  induction ss generalizing i with
  | nil => rfl
  | cons s ss ih =>
    unfold schedLoop
    simp only [h s (by simp), if_true, ih (i + 1) (fun s' hs' => h s' (by simp [hs']))]
    rfl

theorem admLoop_ok (kubes : List KubeEff) (p : String) (mk : Nat → Err) (i : Nat) (as : List AdmV1)
    (r : List AdmEff) (h : admLoop kubes p mk i as = .ok r) :
    r = as.map (convertAdm p) ∧ ∀ a ∈ as, checkAdm kubes a = true := by
  induction as generalizing i r with
  | nil => simp [admLoop] at h; simp [h]
  | cons a as ih =>
    unfold admLoop at h
    split at h
    · obtain ⟨r', hr', rfl⟩ := map_ok _ _ _ h
      obtain ⟨h1, h2⟩ := ih _ _ hr'
      subst h1
      refine ⟨rfl, ?_⟩
      intro a' ha'
      simp only [List.mem_cons] at ha'
      rcases ha' with rfl | ha'
      · assumption
      · exact h2 a' ha'
    · simp at h

theorem admLoop_total (kubes : List KubeEff) (p : String) (mk : Nat → Err) (i : Nat) (as : List AdmV1)
    (h : ∀ a ∈ as, checkAdm kubes a = true) : admLoop kubes p mk i as = .ok (as.map (convertAdm p)) := by
  induction as generalizing i with
  | nil => rfl
  | cons a as ih =>
    unfold admLoop
    simp only [h a (by simp), if_true, ih (i + 1) (fun a' ha' => h a' (by simp [ha']))]
    rfl

theorem convLoop_ok (kubes : List KubeEff) (i : Nat) (cs : List ConvV1) (r : List ConvEff)
    (h : convLoop kubes i cs = .ok r) :
    r = cs.map convertConv ∧ ∀ c ∈ cs, checkConv kubes c = true := by
  induction cs generalizing i r with
  | nil => simp [convLoop] at h; simp [h]
  | cons c cs ih =>
    unfold convLoop at h
    split at h
    · obtain ⟨r', hr', rfl⟩ := map_ok _ _ _ h
      obtain ⟨h1, h2⟩ := ih _ _ hr'
      subst h1
      refine ⟨rfl, ?_⟩
      intro c' hc'
      simp only [List.mem_cons] at hc'
      rcases hc' with rfl | hc'
      · assumption
      · exact h2 c' hc'
    · simp at h

theorem convLoop_total (kubes : List KubeEff) (i : Nat) (cs : List ConvV1)
    (h : ∀ c ∈ cs, checkConv kubes c = true) : convLoop kubes i cs = .ok (cs.map convertConv) := by
  induction cs generalizing i with
  | nil => rfl
  | cons c cs ih =>
    unfold convLoop
    simp only [h c (by simp), if_true, ih (i + 1) (fun c' hc' => h c' (by simp [hc']))]
    rfl

theorem groupCheckLoop_ok (all : List KubeEff) (i : Nat) (ks : List KubeEff) (h : groupCheckLoop all i ks = .ok ()) :
    ∀ k ∈ ks, ∀ snaps, groupSnapshots all k.group = some snaps → checkIncludes all snaps = true := by
  induction ks generalizing i with
  | nil => simp
  | cons k ks ih =>
    unfold groupCheckLoop at h
    intro k' hk' snaps hsn
    simp only [List.mem_cons] at hk'
    split at h
    · rename_i sn hg
      split at h
      · rcases hk' with rfl | hk'
        · rw [hg] at hsn; cases hsn; assumption
        · exact ih _ h k' hk' snaps hsn
      · simp at h
    · rename_i hg
      rcases hk' with rfl | hk'
      · simp [hg] at hsn
      · exact ih _ h k' hk' snaps hsn

theorem groupCheckLoop_total (all : List KubeEff) (i : Nat) (ks : List KubeEff)
    (h : ∀ k ∈ ks, ∀ snaps, groupSnapshots all k.group = some snaps → checkIncludes all snaps = true) :
    groupCheckLoop all i ks = .ok () := by
  induction ks generalizing i with
  | nil => rfl
  | cons k ks ih =>
    unfold groupCheckLoop
    have ih' := ih (i + 1) (fun k' hk' => h k' (by simp [hk']))
    cases hg : groupSnapshots all k.group with
    | none => simpa using ih'
    | some sn => simp [h k (by simp) sn hg, ih']

/-! ### MergeArrays -/

theorem mergeLoop2_eq (a2 marked seen res : List String)
    (hinv : ∀ x ∈ a2, (x ∈ marked ↔ x ∉ seen)) :
    mergeLoop2 a2 marked res = res ++ Spec.dedupFrom seen a2 := by
  induction a2 generalizing marked seen res with
  | nil => simp [mergeLoop2, Spec.dedupFrom]
  | cons a a2 ih =>
    unfold mergeLoop2 Spec.dedupFrom
    by_cases hm : a ∈ marked
    · have hs : a ∉ seen := (hinv a (by simp)).1 hm
      simp only [hm, hs, if_true, if_false]
      rw [ih (marked.filter (· != a)) (a :: seen) (res ++ [a])]
      · simp
      · intro x hx
        have := hinv x (by simp [hx])
        simp only [List.mem_filter, bne_iff_ne, ne_eq, List.mem_cons, not_or]
        constructor
        · rintro ⟨h1, h2⟩; exact ⟨h2, this.1 h1⟩
        · rintro ⟨h1, h2⟩; exact ⟨this.2 h2, h1⟩
    · have hs : a ∈ seen := by
        by_cases h : a ∈ seen
        · exact h
        · exact absurd ((hinv a (by simp)).2 h) hm
      simp only [hm, hs, if_true, if_false]
      exact ih marked seen res (fun x hx => hinv x (by simp [hx]))

/-- `MergeArrays` (as written, with its marking map) is the order-preserving union. -/
theorem mergeArrays_eq_union (a1 a2 : List String) : mergeArrays a1 a2 = Spec.union a1 a2 := by
  unfold mergeArrays Spec.union
  apply mergeLoop2_eq
  intro x hx
  simp [List.mem_filter, hx]

theorem mem_dedupFrom (seen l : List String) (x : String) :
    x ∈ Spec.dedupFrom seen l ↔ x ∈ l ∧ x ∉ seen := by
  induction l generalizing seen with
  | nil => simp [Spec.dedupFrom]
  | cons a l ih =>
    unfold Spec.dedupFrom
    by_cases ha : a ∈ seen
    · simp only [ha, if_true, ih, List.mem_cons]
      constructor
      · rintro ⟨h1, h2⟩; exact ⟨Or.inr h1, h2⟩
      · rintro ⟨h1 | h1, h2⟩
        · subst h1; exact absurd ha h2
        · exact ⟨h1, h2⟩
    · simp only [ha, if_false, List.mem_cons, ih, not_or]
      constructor
      · rintro (h | ⟨h1, h2, h3⟩)
        · subst h; exact ⟨Or.inl rfl, ha⟩
        · exact ⟨Or.inr h1, h3⟩
      · rintro ⟨h1 | h1, h2⟩
        · exact Or.inl h1
        · by_cases hxa : x = a
          · exact Or.inl hxa
          · exact Or.inr ⟨h1, hxa, h2⟩

theorem nodup_dedupFrom (seen l : List String) : (Spec.dedupFrom seen l).Nodup := by
  induction l generalizing seen with
  | nil => simp [Spec.dedupFrom]
  | cons a l ih =>
    unfold Spec.dedupFrom
    by_cases ha : a ∈ seen
    · simp only [ha, if_true]; exact ih seen
    · simp only [ha, if_false, List.nodup_cons]
      refine ⟨?_, ih _⟩
      rw [mem_dedupFrom]
      simp

theorem sublist_dedupFrom (seen l : List String) : (Spec.dedupFrom seen l).Sublist l := by
  induction l generalizing seen with
  | nil => simp [Spec.dedupFrom]
  | cons a l ih =>
    unfold Spec.dedupFrom
    by_cases ha : a ∈ seen
    · simp only [ha, if_true]; exact (ih seen).cons a
    · simp only [ha, if_false]; exact (ih _).cons_cons a

theorem mergeGroup_eq (kubes : List KubeEff) (g : String) (incl : List String) :
    mergeGroup kubes g incl = Spec.groupIncludes kubes g incl := by
  unfold mergeGroup groupSnapshots Spec.groupIncludes
  by_cases hg : g = ""
  · simp [hg]
  · have hg' : (g == "") = false := by simpa using hg
    simp only [hg', Bool.false_eq_true, if_false]
    cases hl : (kubes.filter (fun k => k.group == g)).map (·.name) with
    | nil => simp [Spec.groupNames, hl, Spec.union, Spec.dedupFrom]
    | cons a t =>
      simp only [List.isEmpty_cons, Bool.false_eq_true, if_false]
      rw [mergeArrays_eq_union, Spec.groupNames, hl]

/-- What a successful `convertV1` means: every check passed and the result is the converted bindings, in
order, with the group merge applied. -/
theorem convertV1Core_ok (gc : Bool) (p : String) (d : DocV1) (e : Effective) (h : convertV1Core gc p d = .ok e) :
    convertSettings d.settings = .ok e.settings ∧ convertOnStartup d.onStartup = .ok e.onStartup ∧
    (∀ k ∈ d.kubes, checkKube k = true) ∧
    (∀ k ∈ d.kubes.map convertKube, checkIncludes (d.kubes.map convertKube) k.includes = true) ∧
    (∀ s ∈ d.scheds, checkSched (d.kubes.map convertKube) s = true) ∧
    (∀ a ∈ d.validating, checkAdm (d.kubes.map convertKube) a = true) ∧
    validatingWebhooksOK d.validating (d.validating.map (convertAdm p)) = true ∧
    (∀ a ∈ d.mutating, checkAdm (d.kubes.map convertKube) a = true) ∧
    (∀ c ∈ d.conversions, checkConv (d.kubes.map convertKube) c = true) ∧
    (gc = true → ∀ k ∈ d.kubes.map convertKube, ∀ snaps, groupSnapshots (d.kubes.map convertKube) k.group = some snaps →
      checkIncludes (d.kubes.map convertKube) snaps = true) ∧
    e.kubes = (d.kubes.map convertKube).map (KubeEff.merged (d.kubes.map convertKube)) ∧
    e.scheds = (d.scheds.map convertSched).map (SchedEff.merged (d.kubes.map convertKube)) ∧
    e.validating = (d.validating.map (convertAdm p)).map (AdmEff.merged (d.kubes.map convertKube)) ∧
    e.mutating = (d.mutating.map (convertAdm Facts.c10DefaultMutatingPolicy)).map (AdmEff.merged (d.kubes.map convertKube)) ∧
    e.conversions = (d.conversions.map convertConv).map (ConvEff.merged (d.kubes.map convertKube)) := by
  unfold convertV1Core at h
  simp only [bind, Except.bind] at h
  cases hs : convertSettings d.settings with
  | error x => simp [hs] at h
  | ok s =>
  cases ho : convertOnStartup d.onStartup with
  | error x => simp [hs, ho] at h
  | ok o =>
  cases hk : kubeLoop 0 d.kubes with
  | error x => simp [hs, ho, hk] at h
  | ok ks =>
  obtain ⟨rfl, hkc⟩ := kubeLoop_ok _ _ _ hk
  cases hi : kubeInclLoop (d.kubes.map convertKube) 0 (d.kubes.map convertKube) with
  | error x => simp [hs, ho, hk, hi] at h
  | ok u =>
  have hic := kubeInclLoop_ok _ _ _ hi
  cases hsc : schedLoop (d.kubes.map convertKube) 0 d.scheds with
  | error x => simp [hs, ho, hk, hi, hsc] at h
  | ok ss =>
  obtain ⟨rfl, hscc⟩ := schedLoop_ok _ _ _ _ hsc
  cases hv : admLoop (d.kubes.map convertKube) p .validating 0 d.validating with
  | error x => simp [hs, ho, hk, hi, hsc, hv] at h
  | ok vs =>
  obtain ⟨rfl, hvc⟩ := admLoop_ok _ _ _ _ _ _ hv
  cases hw : validatingWebhooksOK d.validating (d.validating.map (convertAdm p)) with
  | false => simp [hs, ho, hk, hi, hsc, hv, hw, throw, throwThe, MonadExceptOf.throw] at h
  | true =>
  cases hm : admLoop (d.kubes.map convertKube) Facts.c10DefaultMutatingPolicy .mutating 0 d.mutating with
  | error x => simp [hs, ho, hk, hi, hsc, hv, hw, hm] at h
  | ok ms =>
  obtain ⟨rfl, hmc⟩ := admLoop_ok _ _ _ _ _ _ hm
  cases hc : convLoop (d.kubes.map convertKube) 0 d.conversions with
  | error x => simp [hs, ho, hk, hi, hsc, hv, hw, hm, hc] at h
  | ok cs =>
  obtain ⟨rfl, hcc⟩ := convLoop_ok _ _ _ _ hc
  cases gc with
  | false =>
    simp only [hs, ho, hk, hi, hsc, hv, hw, hm, hc, pure, Except.pure, Bool.not_true, Bool.false_eq_true,
      if_false, Except.ok.injEq] at h
    subst h
    exact ⟨rfl, rfl, hkc, hic, hscc, hvc, rfl, hmc, hcc, by simp, rfl, rfl, rfl, rfl, rfl⟩
  | true =>
    cases hg : groupCheckLoop (d.kubes.map convertKube) 0 (d.kubes.map convertKube) with
    | error x => simp [hs, ho, hk, hi, hsc, hv, hw, hm, hc, hg] at h
    | ok u =>
      have hgc := groupCheckLoop_ok _ _ _ hg
      simp only [hs, ho, hk, hi, hsc, hv, hw, hm, hc, hg, pure, Except.pure, Bool.not_true, Bool.false_eq_true,
        if_false, if_true, Except.ok.injEq] at h
      subst h
      exact ⟨rfl, rfl, hkc, hic, hscc, hvc, rfl, hmc, hcc, fun _ => hgc, rfl, rfl, rfl, rfl, rfl⟩

/-- Conversely: when every check passes the conversion succeeds. -/
theorem convertV1_total (p : String) (d : DocV1) (s : Option (Int × Int)) (o : Option Int)
    (hs : convertSettings d.settings = .ok s) (ho : convertOnStartup d.onStartup = .ok o)
    (hk : ∀ k ∈ d.kubes, checkKube k = true)
    (hi : ∀ k ∈ d.kubes.map convertKube, checkIncludes (d.kubes.map convertKube) k.includes = true)
    (hsc : ∀ s ∈ d.scheds, checkSched (d.kubes.map convertKube) s = true)
    (hv : ∀ a ∈ d.validating, checkAdm (d.kubes.map convertKube) a = true)
    (hw : validatingWebhooksOK d.validating (d.validating.map (convertAdm p)) = true)
    (hm : ∀ a ∈ d.mutating, checkAdm (d.kubes.map convertKube) a = true)
    (hc : ∀ c ∈ d.conversions, checkConv (d.kubes.map convertKube) c = true)
    (hg : ∀ k ∈ d.kubes.map convertKube, ∀ snaps, groupSnapshots (d.kubes.map convertKube) k.group = some snaps →
      checkIncludes (d.kubes.map convertKube) snaps = true) :
    ∃ e, convertV1 p d = .ok e := by
  unfold convertV1 convertV1Core
  simp only [bind, Except.bind, hs, ho, kubeLoop_total 0 d.kubes hk, kubeInclLoop_total _ 0 _ hi,
    schedLoop_total _ 0 _ hsc, admLoop_total _ _ _ 0 _ hv, hw, admLoop_total _ _ _ 0 _ hm,
    convLoop_total _ 0 _ hc, groupCheckLoop_total _ 0 _ hg, Bool.not_true, Bool.false_eq_true, if_false, if_true]
  exact ⟨_, rfl⟩

end ShellOp.Config
