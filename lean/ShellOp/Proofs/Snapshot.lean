import ShellOp.Model.Snapshot
/-! Helper lemmas for C02: association-list maps, the informer cache against the finite-map spec. -/
namespace ShellOp.Snapshot

section KMap
variable {α : Type} (key : α → Key)

theorem find?_filter_ne (l : List α) (k k' : Key) :
    (l.filter (fun x => decide (key x ≠ k'))).find? (fun x => decide (key x = k)) =
      if k = k' then none else l.find? (fun x => decide (key x = k)) := by
  rw [List.find?_filter]
  by_cases hk : k = k'
  · subst hk; simp
  · rw [if_neg hk]
    congr 1
    funext a
    by_cases h : key a = k
    · simp [h, hk]
    · simp [h]

theorem kget_kput (l : List α) (e : α) (k : Key) :
    kget key (kput key l e) k = if k = key e then some e else kget key l k := by
  unfold kget kput
  rw [List.find?_append, find?_filter_ne]
  by_cases h : k = key e
  · simp [h]
  · have : key e ≠ k := fun x => h x.symm
    simp [h, this]

theorem kget_kdel (l : List α) (k' k : Key) :
    kget key (kdel key l k') k = if k = k' then none else kget key l k := by
  unfold kget kdel
  exact find?_filter_ne key l k k'

theorem keysNodup_kdel (l : List α) (k : Key) (h : KeysNodup key l) : KeysNodup key (kdel key l k) :=
  List.Pairwise.filter _ h

theorem keysNodup_kput (l : List α) (e : α) (h : KeysNodup key l) : KeysNodup key (kput key l e) := by
  unfold KeysNodup kput
  rw [List.pairwise_append]
  refine ⟨List.Pairwise.filter _ h, by simp, ?_⟩
  intro a ha b hb
  simp only [List.mem_filter, decide_eq_true_eq] at ha
  simp only [List.mem_singleton] at hb
  subst hb
  exact ha.2

theorem mem_of_kget (l : List α) (k : Key) (e : α) (h : kget key l k = some e) : e ∈ l ∧ key e = k := by
  unfold kget at h
  exact ⟨List.mem_of_find?_eq_some h, by simpa using List.find?_some h⟩

theorem kget_of_mem (l : List α) (e : α) (hn : KeysNodup key l) (h : e ∈ l) : kget key l (key e) = some e := by
  unfold kget
  induction l with
  | nil => cases h
  | cons a t ih =>
    rw [KeysNodup, List.pairwise_cons] at hn
    rcases List.mem_cons.1 h with rfl | ht
    · simp
    · have : key a ≠ key e := hn.1 e ht
      simp [List.find?_cons, this, ih hn.2 ht]

theorem mem_kput (l : List α) (e x : α) : x ∈ kput key l e ↔ (x ∈ l ∧ key x ≠ key e) ∨ x = e := by
  simp [kput]

theorem mem_kdel (l : List α) (k : Key) (x : α) : x ∈ kdel key l k ↔ x ∈ l ∧ key x ≠ k := by
  simp [kdel]

end KMap

/-! ### the informer cache -/

theorem mkEntry_key (cfg : Cfg) (o : Obj) : (mkEntry cfg o).key = o.key := by
  unfold mkEntry; cases cfg.hasFilter <;> cases cfg.keepFull <;> rfl

theorem mkEntry_fr (cfg : Cfg) (o : Obj) :
    (mkEntry cfg o).fr = if cfg.hasFilter then cfg.flt o.content else 0 := by
  unfold mkEntry; cases cfg.hasFilter <;> cases cfg.keepFull <;> rfl

theorem mkEntry_sum (cfg : Cfg) (o : Obj) :
    (mkEntry cfg o).sum = if cfg.hasFilter then cfg.chk (cfg.flt o.content) else cfg.chk o.content := by
  unfold mkEntry; cases cfg.hasFilter <;> cases cfg.keepFull <;> rfl

theorem mkEntry_obj (cfg : Cfg) (o : Obj) :
    (mkEntry cfg o).obj = if cfg.keepFull then some o.content else none := by
  unfold mkEntry; cases cfg.hasFilter <;> cases cfg.keepFull <;> rfl

theorem mkEntry_isSome (cfg : Cfg) (o : Obj) : (mkEntry cfg o).obj.isSome = cfg.keepFull := by
  rw [mkEntry_obj]; cases cfg.keepFull <;> simp

/-- Relation between a cache and a finite map of objects. -/
def Tracks (cfg : Cfg) (c : Cache) (m : Key → Option Obj) : Prop :=
  KeysNodup Entry.key c ∧ ∀ k, kget Entry.key c k = (m k).map (mkEntry cfg)

theorem tracks_nil (cfg : Cfg) : Tracks cfg [] (fun _ => none) := by
  refine ⟨List.Pairwise.nil, fun k => ?_⟩
  simp [kget]

section Fold
variable {α : Type} (key : α → Key)

/-- assigning a list of values in order: the last one with the key wins -/
theorem kget_foldl_kput (fl c : List α) (k : Key) :
    kget key (fl.foldl (kput key) c) k =
      match fl.reverse.find? (fun x => decide (key x = k)) with
      | some e => some e
      | none => kget key c k := by
  induction fl generalizing c with
  | nil => simp
  | cons a t ih =>
    simp only [List.foldl_cons, List.reverse_cons, List.find?_append]
    rw [ih]
    cases t.reverse.find? (fun x => decide (key x = k)) with
    | some e => simp
    | none =>
      rw [kget_kput]
      by_cases hk : k = key a
      · subst hk; simp
      · have : key a ≠ k := fun e => hk e.symm
        simp [hk, this]

theorem keysNodup_foldl_kput (fl c : List α) (h : KeysNodup key c) :
    KeysNodup key (fl.foldl (kput key) c) := by
  induction fl generalizing c with
  | nil => exact h
  | cons a t ih => exact ih _ (keysNodup_kput key c a h)

theorem keysNodup_reverse (l : List α) (h : KeysNodup key l) : KeysNodup key l.reverse := by
  unfold KeysNodup at *
  rw [List.pairwise_reverse]
  exact h.imp (fun hab => fun e => hab e.symm)

theorem find?_reverse_of_nodup (l : List α) (h : KeysNodup key l) (k : Key) :
    l.reverse.find? (fun x => decide (key x = k)) = l.find? (fun x => decide (key x = k)) := by
  cases hf : l.find? (fun x => decide (key x = k)) with
  | some e =>
    have hm := List.mem_of_find?_eq_some hf
    have hk : key e = k := by simpa using List.find?_some hf
    have := kget_of_mem key l.reverse e (keysNodup_reverse key l h) (List.mem_reverse.2 hm)
    rw [hk] at this
    exact this
  | none =>
    rw [List.find?_eq_none] at hf ⊢
    intro x hx
    exact hf x (List.mem_reverse.1 hx)

end Fold

theorem find?_map_mkEntry (cfg : Cfg) (l : List Obj) (k : Key) :
    (l.map (mkEntry cfg)).find? (fun e => decide (e.key = k)) =
      (l.find? (fun o => decide (o.key = k))).map (mkEntry cfg) := by
  induction l with
  | nil => rfl
  | cons o t ih =>
    by_cases h : o.key = k <;> simp [List.find?_cons, mkEntry_key, h, ih]

theorem tracks_loadExisted (cfg : Cfg) (items : List Obj) :
    Tracks cfg (loadExisted cfg [] items) (specInit items) := by
  unfold loadExisted
  have hn1 : KeysNodup Entry.key ((items.map (mkEntry cfg)).foldl (kput Entry.key) []) :=
    keysNodup_foldl_kput _ _ _ List.Pairwise.nil
  refine ⟨keysNodup_foldl_kput _ _ _ List.Pairwise.nil, fun k => ?_⟩
  rw [kget_foldl_kput, find?_reverse_of_nodup _ _ hn1]
  have h2 := kget_foldl_kput Entry.key (items.map (mkEntry cfg)) [] k
  unfold kget at h2
  rw [h2, ← List.map_reverse, find?_map_mkEntry]
  unfold specInit
  cases items.reverse.find? (fun o => decide (o.key = k)) <;> simp [kget]

theorem tracks_handleWatch (cfg : Cfg) (c : Cache) (m : Key → Option Obj) (ev : WatchEv)
    (h : Tracks cfg c m) : Tracks cfg (handleWatch cfg c ev.1 ev.2).1 (specStep m ev) := by
  obtain ⟨t, o⟩ := ev
  cases t with
  | deleted =>
    refine ⟨keysNodup_kdel _ _ _ h.1, fun k => ?_⟩
    simp only [handleWatch, specStep]
    rw [kget_kdel]
    by_cases hk : k = o.key <;> simp [hk, h.2]
  | added =>
    refine ⟨keysNodup_kput _ _ _ h.1, fun k => ?_⟩
    simp only [handleWatch, specStep]
    rw [kget_kput, mkEntry_key]
    by_cases hk : k = o.key <;> simp [hk, h.2]
  | modified =>
    refine ⟨keysNodup_kput _ _ _ h.1, fun k => ?_⟩
    simp only [handleWatch, specStep]
    rw [kget_kput, mkEntry_key]
    by_cases hk : k = o.key <;> simp [hk, h.2]

theorem tracks_foldl_watch (cfg : Cfg) (evs : List WatchEv) (c : Cache) (m : Key → Option Obj)
    (h : Tracks cfg c m) :
    Tracks cfg (evs.foldl (fun c ev => (handleWatch cfg c ev.1 ev.2).1) c) (evs.foldl specStep m) := by
  induction evs generalizing c m with
  | nil => exact h
  | cons ev t ih => exact ih _ _ (tracks_handleWatch cfg c m ev h)

theorem tracks_runInformer (cfg : Cfg) (items : List Obj) (evs : List WatchEv) :
    Tracks cfg (runInformer cfg items evs) (specAfter items evs) :=
  tracks_foldl_watch cfg evs _ _ (tracks_loadExisted cfg items)


/-! ### order -/

/-- The order `Less` induces, as a function of the keys only. -/
def lessKey (kf : Bool) (ridOf : Key → Nat) (a b : Key) : Bool :=
  if !kf then ridOf a < ridOf b
  else if a.ns < b.ns then true
  else if a.ns > b.ns then false
  else a.name < b.name

theorem lessGo_eq_lessKey (ridOf : Key → Nat) (kf : Bool) (p q : Entry)
    (hp : p.obj.isSome = kf) (hq : q.obj.isSome = kf) :
    lessGo ridOf p q = lessKey kf ridOf p.key q.key := by
  unfold lessGo lessKey
  cases kf with
  | false =>
    have h1 : p.obj.isNone = true := by cases h : p.obj <;> simp_all
    simp [h1]
  | true =>
    have h1 : p.obj.isNone = false := by cases h : p.obj <;> simp_all
    have h2 : q.obj.isNone = false := by cases h : q.obj <;> simp_all
    simp [h1, h2]

/-- Keys that `Less` cannot separate are equal (same kind; the resource-id rank is injective). -/
theorem lessKey_antisymm (kf : Bool) (ridOf : Key → Nat) (a b : Key)
    (hkind : a.kind = b.kind) (hinj : ridOf a = ridOf b → a = b)
    (h1 : lessKey kf ridOf b a = false) (h2 : lessKey kf ridOf a b = false) : a = b := by
  unfold lessKey at h1 h2
  cases kf with
  | false =>
    simp only [Bool.not_false, if_true, decide_eq_false_iff_not, Nat.not_lt] at h1 h2
    exact hinj (Nat.le_antisymm h1 h2)
  | true =>
    simp only [Bool.not_true, Bool.false_eq_true, if_false] at h1 h2
    have hns : a.ns = b.ns := by
      by_cases h : a.ns < b.ns
      · simp [h] at h2
      · by_cases h' : b.ns < a.ns
        · simp [h'] at h1
        · omega
    have hname : a.name = b.name := by
      have e1 : ¬ b.ns < a.ns := by omega
      have e2 : ¬ a.ns < b.ns := by omega
      have e3 : ¬ b.ns > a.ns := by omega
      have e4 : ¬ a.ns > b.ns := by omega
      simp only [e1, e2, e3, e4, if_false, decide_eq_false_iff_not, Nat.not_lt] at h1 h2
      omega
    cases a; cases b; simp_all

/-! ### reads in any iteration order -/

/-- per-informer reads: each a permutation (Go map iteration order) of that informer's cache -/
inductive ReadsOf : List (List Entry) → List Informer → Prop
  | nil : ReadsOf [] []
  | cons {r : List Entry} {i : Informer} {rs : List (List Entry)} {is : List Informer} :
      r.Perm i.cache → ReadsOf rs is → ReadsOf (r :: rs) (i :: is)

/-- `reads` is what one `Snapshot()` call may collect: the static informers in order, the varying
ones in some `sync.Map` range order, every `getCachedObjects()` in some Go-map iteration order. -/
def ReadOrder (m : Monitor) (reads : List (List Entry)) : Prop :=
  ∃ vs : List (Nat × List Informer), vs.Perm m.varying ∧
    ReadsOf reads (m.static ++ (vs.map (·.2)).flatten)

def cachesOf (l : List Informer) : List Entry := (l.map (·.cache)).flatten

theorem cachesOf_append (a b : List Informer) : cachesOf (a ++ b) = cachesOf a ++ cachesOf b := by
  simp [cachesOf]

theorem readsOf_perm_flatten (reads : List (List Entry)) (infs : List Informer)
    (h : ReadsOf reads infs) : reads.flatten.Perm (cachesOf infs) := by
  induction h with
  | nil => simp [cachesOf]
  | cons hp _ ih => simpa [cachesOf] using hp.append ih

theorem cachesOf_varying (l : List (Nat × List Informer)) :
    cachesOf ((l.map (·.2)).flatten) = (l.map (fun p => cachesOf p.2)).flatten := by
  induction l with
  | nil => simp [cachesOf]
  | cons p t ih =>
    simp only [List.map_cons, List.flatten_cons, cachesOf_append, ih]

theorem allEntries_eq (m : Monitor) : m.allEntries = cachesOf m.informers := by
  unfold Monitor.allEntries Monitor.informers
  rw [cachesOf_append, cachesOf_varying]
  rfl

theorem readOrder_perm (m : Monitor) (reads : List (List Entry)) (h : ReadOrder m reads) :
    reads.flatten.Perm m.allEntries := by
  obtain ⟨vs, hv, hf⟩ := h
  refine (readsOf_perm_flatten _ _ hf).trans ?_
  rw [allEntries_eq]
  unfold Monitor.informers
  rw [cachesOf_append, cachesOf_append, cachesOf_varying, cachesOf_varying]
  exact (List.Perm.refl _).append ((hv.map _).flatten)

theorem readOrder_canonical (m : Monitor) : ReadOrder m (m.informers.map (·.cache)) := by
  refine ⟨m.varying, List.Perm.refl _, ?_⟩
  unfold Monitor.informers
  generalize m.static ++ (m.varying.map (·.2)).flatten = l
  induction l with
  | nil => exact ReadsOf.nil
  | cons a t ih => exact ReadsOf.cons (List.Perm.refl _) ih

/-! ### no duplicates under disjoint scopes -/

theorem scopesApart_ne (i j : Informer) (k1 k2 : Key) (h : scopesApart i j = true)
    (h1 : i.inScope k1 = true) (h2 : j.inScope k2 = true) : k1 ≠ k2 := by
  intro e
  subst e
  unfold scopesApart at h
  unfold Informer.inScope at h1 h2
  cases hi : i.ns <;> cases hj : j.ns <;> cases hi' : i.name <;> cases hj' : j.name <;>
    simp_all <;> omega

theorem keysNodup_flatten_caches (infs : List Informer)
    (hd : infs.Pairwise (fun i j => scopesApart i j = true))
    (hs : ∀ i ∈ infs, ∀ e ∈ i.cache, i.inScope e.key = true)
    (hn : ∀ i ∈ infs, KeysNodup Entry.key i.cache) :
    KeysNodup Entry.key (cachesOf infs) := by
  unfold KeysNodup cachesOf
  rw [List.pairwise_flatten]
  constructor
  · intro l hl
    obtain ⟨i, hi, rfl⟩ := List.mem_map.1 hl
    exact hn i hi
  · rw [List.pairwise_map]
    refine hd.imp_of_mem ?_
    intro i j hi hj hij x hx y hy
    exact scopesApart_ne i j x.key y.key hij (hs i hi x hx) (hs j hj y hy)

/-! ### `UpdateSnapshots` -/

section MapLemmas
variable {β : Type}

theorem mget_mput (l : List (Nat × β)) (k k' : Nat) (v : β) :
    mget (mput l k v) k' = if k' = k then some v else mget l k' := by
  induction l with
  | nil =>
    by_cases h : k' = k
    · simp [mput, mget, h]
    · have : k ≠ k' := fun e => h e.symm
      simp [mput, mget, h, this]
  | cons p t ih =>
    unfold mput
    by_cases hp : p.1 = k
    · by_cases h : k' = k
      · simp [hp, mget, h]
      · have : k ≠ k' := fun e => h e.symm
        have hp' : p.1 ≠ k' := hp ▸ this
        simp [hp, mget, h, this, hp']
    · by_cases h : k' = k
      · subst h; simp [hp, mget, ih]
      · by_cases hq : p.1 = k' <;> simp [hp, mget, ih, h, hq]

theorem mput_mput (l : List (Nat × β)) (k : Nat) (a b : β) : mput (mput l k a) k b = mput l k b := by
  induction l with
  | nil => simp [mput]
  | cons p t ih =>
    by_cases hp : p.1 = k <;> simp [mput, hp, ih]

def MKeys (l : List (Nat × β)) : List Nat := l.map (·.1)

theorem mkeys_mput (l : List (Nat × β)) (k : Nat) (v : β) :
    MKeys (mput l k v) = if k ∈ MKeys l then MKeys l else MKeys l ++ [k] := by
  induction l with
  | nil => simp [mput, MKeys]
  | cons p t ih =>
    unfold MKeys at ih ⊢
    by_cases hp : p.1 = k
    · simp [mput, hp]
    · have hk : k ≠ p.1 := fun e => hp e.symm
      simp only [mput, hp, if_false, List.map_cons, ih, List.mem_cons, hk, false_or]
      split <;> simp

theorem mkeys_nodup_mput (l : List (Nat × β)) (k : Nat) (v : β) (h : (MKeys l).Nodup) :
    (MKeys (mput l k v)).Nodup := by
  rw [mkeys_mput]
  split
  · exact h
  · rename_i hk
    rw [List.nodup_append]
    exact ⟨h, by simp, by intro a ha b hb; simp at hb; subst hb; exact fun e => hk (e ▸ ha)⟩

theorem mget_isSome_iff (l : List (Nat × β)) (k : Nat) : (mget l k).isSome ↔ k ∈ MKeys l := by
  induction l with
  | nil => simp [mget, MKeys]
  | cons p t ih =>
    unfold MKeys at ih ⊢
    by_cases hp : p.1 = k
    · simp [mget, hp]
    · have hk : k ≠ p.1 := fun e => hp e.symm
      simp [mget, hp, ih, hk]

end MapLemmas

/-- later state of the per-execution cache: nothing that was cached changes -/
def Ext (a b : USt) : Prop := ∀ k v, mget a.cache k = some v → mget b.cache k = some v

theorem Ext.refl (a : USt) : Ext a a := fun _ _ h => h
theorem Ext.trans {a b c : USt} (h1 : Ext a b) (h2 : Ext b c) : Ext a c := fun k v h => h2 k v (h1 k v h)

/-- every cached value is the result of one `SnapshotsFor` call of this execution, every binding
was read at most once (one read per cache key) -/
def WF (read : Nat → Nat → Option Snap) (st : USt) : Prop :=
  (MKeys st.cache).Nodup ∧ st.cache.length = st.reads ∧
  ∀ k v, mget st.cache k = some v → ∃ t, t < st.reads ∧ v = read k t

def viewOf (st : USt) : Nat → Snap := fun n => (cached st n).getD []

theorem ensure_ext (read : Nat → Nat → Option Snap) (st : USt) (n : Nat) : Ext st (ensure read st n) := by
  unfold ensure
  cases h : mget st.cache n with
  | some v => exact Ext.refl st
  | none =>
    intro k v hk
    simp only [mget_mput]
    by_cases e : k = n
    · subst e; rw [h] at hk; cases hk
    · simp [e, hk]

theorem ensure_has (read : Nat → Nat → Option Snap) (st : USt) (n : Nat) :
    (mget (ensure read st n).cache n).isSome = true := by
  unfold ensure
  cases h : mget st.cache n with
  | some v => simp [h]
  | none => simp [mget_mput]

theorem ensure_wf (read : Nat → Nat → Option Snap) (st : USt) (n : Nat) (h : WF read st) :
    WF read (ensure read st n) := by
  unfold ensure
  cases hm : mget st.cache n with
  | some v => exact h
  | none =>
    have hnot : n ∉ MKeys st.cache := by
      intro hc
      have := (mget_isSome_iff st.cache n).2 hc
      simp [hm] at this
    refine ⟨mkeys_nodup_mput _ _ _ h.1, ?_, ?_⟩
    · have := congrArg List.length (mkeys_mput st.cache n (read n st.reads))
      rw [if_neg hnot] at this
      simp only [MKeys, List.length_map, List.length_append, List.length_singleton] at this
      simp only [this, h.2.1]
    · intro k v hk
      simp only [mget_mput] at hk
      by_cases e : k = n
      · subst e
        simp only [if_true, Option.some.injEq] at hk
        exact ⟨st.reads, Nat.lt_succ_self _, hk.symm⟩
      · simp only [e, if_false] at hk
        obtain ⟨t, ht, hv⟩ := h.2.2 k v hk
        exact ⟨t, Nat.lt_succ_of_lt ht, hv⟩

theorem cached_ext {a b : USt} (h : Ext a b) (k : Nat) (hk : (mget a.cache k).isSome = true) :
    cached b k = cached a k := by
  unfold cached
  cases hm : mget a.cache k with
  | none => simp [hm] at hk
  | some v => rw [h k v hm]

theorem viewOf_ext {a b : USt} (h : Ext a b) (k : Nat) (hk : (mget a.cache k).isSome = true) :
    viewOf b k = viewOf a k := by
  unfold viewOf; rw [cached_ext h k hk]

theorem isSome_ext {a b : USt} (h : Ext a b) (k : Nat) (hk : (mget a.cache k).isSome = true) :
    (mget b.cache k).isSome = true := by
  cases hm : mget a.cache k with
  | none => simp [hm] at hk
  | some v => rw [h k v hm]; rfl

theorem fillSnapshots_cons (read : Nat → Nat → Option Snap) (acc : List (Nat × Snap)) (st : USt) (n : Nat)
    (ns : List Nat) :
    fillSnapshots read st acc (n :: ns) =
      fillSnapshots read (ensure read st n) (mput acc n (viewOf (ensure read st n) n)) ns := by
  simp only [fillSnapshots]
  unfold viewOf
  cases cached (ensure read st n) n <;> simp [mput_mput]

theorem fill_spec (read : Nat → Nat → Option Snap) (names : List Nat) (st : USt) (acc : List (Nat × Snap)) :
    Ext st (fillSnapshots read st acc names).1 ∧
    (WF read st → WF read (fillSnapshots read st acc names).1) ∧
    ((MKeys acc).Nodup → (MKeys (fillSnapshots read st acc names).2).Nodup) ∧
    (∀ n ∈ names, (mget (fillSnapshots read st acc names).1.cache n).isSome = true) ∧
    (∀ n, mget (fillSnapshots read st acc names).2 n =
      if n ∈ names then some (viewOf (fillSnapshots read st acc names).1 n) else mget acc n) := by
  induction names generalizing st acc with
  | nil => exact ⟨Ext.refl st, id, id, by simp, by simp [fillSnapshots]⟩
  | cons n ns ih =>
    rw [fillSnapshots_cons]
    obtain ⟨e, w, nd, has, vals⟩ := ih (ensure read st n) (mput acc n (viewOf (ensure read st n) n))
    refine ⟨(ensure_ext read st n).trans e, fun h => w (ensure_wf read st n h),
      fun h => nd (mkeys_nodup_mput _ _ _ h), ?_, ?_⟩
    · intro k hk
      rcases List.mem_cons.1 hk with rfl | hk
      · exact isSome_ext e _ (ensure_has read st _)
      · exact has k hk
    · intro k
      rw [vals k]
      by_cases hk : k ∈ ns
      · simp [hk]
      · simp only [hk, if_false, mget_mput, List.mem_cons, or_false]
        by_cases e' : k = n
        · subst e'
          simp [viewOf_ext e _ (ensure_has read st _)]
        · simp [e']

/-- What `UpdateSnapshots` guarantees for one context, relative to a view (binding ↦ snapshot). -/
def BCok (hb : HookBindings) (view : Nat → Snap) (bc bc' : BC) : Prop :=
  bc'.binding = bc.binding ∧ bc'.btype = bc.btype ∧ bc'.isSync = bc.isSync ∧
  (MKeys bc'.snapshots).Nodup ∧
  (∀ n, mget bc'.snapshots n = if n ∈ inclOf hb bc then some (view n) else none) ∧
  bc'.objects = (if bc.btype = .kubernetes ∧ bc.isSync = true then view bc.binding else bc.objects)

def AllOk (hb : HookBindings) (view : Nat → Snap) : List BC → List BC → Prop
  | [], [] => True
  | b :: bs, b' :: bs' => BCok hb view b b' ∧ AllOk hb view bs bs'
  | _, _ => False

theorem updateOne_spec (hb : HookBindings) (read : Nat → Nat → Option Snap) (st : USt) (bc : BC) :
    Ext st (updateOne hb read st bc).1 ∧
    (WF read st → WF read (updateOne hb read st bc).1) ∧
    ∀ st', Ext (updateOne hb read st bc).1 st' → BCok hb (viewOf st') bc (updateOne hb read st bc).2 := by
  obtain ⟨e, w, nd, has, vals⟩ := fill_spec read (inclOf hb bc) st []
  unfold updateOne
  by_cases hs : bc.btype = .kubernetes ∧ bc.isSync = true
  · rw [if_pos hs]
    refine ⟨e.trans (ensure_ext read _ _), fun h => ensure_wf read _ _ (w h), ?_⟩
    intro st' he
    have e2 := (ensure_ext read (fillSnapshots read st [] (inclOf hb bc)).1 bc.binding).trans he
    refine ⟨rfl, rfl, rfl, nd (by simp [MKeys]), ?_, ?_⟩
    · intro n
      show mget (fillSnapshots read st [] (inclOf hb bc)).2 n = _
      rw [vals n]
      by_cases hn : n ∈ inclOf hb bc
      · simp [hn, viewOf_ext e2 n (has n hn)]
      · simp [hn, mget]
    · rw [if_pos hs]
      exact (viewOf_ext he _ (ensure_has read _ _)).symm
  · rw [if_neg hs]
    refine ⟨e, w, ?_⟩
    intro st' he
    refine ⟨rfl, rfl, rfl, nd (by simp [MKeys]), ?_, ?_⟩
    · intro n
      show mget (fillSnapshots read st [] (inclOf hb bc)).2 n = _
      rw [vals n]
      by_cases hn : n ∈ inclOf hb bc
      · simp [hn, viewOf_ext he n (has n hn)]
      · simp [hn, mget]
    · rw [if_neg hs]

theorem allOk_ext_irrelevant : True := trivial

theorem updateLoop_spec (hb : HookBindings) (read : Nat → Nat → Option Snap) (ctx : List BC) (st : USt) :
    Ext st (updateLoop hb read st ctx).1 ∧
    (WF read st → WF read (updateLoop hb read st ctx).1) ∧
    ∀ st', Ext (updateLoop hb read st ctx).1 st' → AllOk hb (viewOf st') ctx (updateLoop hb read st ctx).2 := by
  induction ctx generalizing st with
  | nil => exact ⟨Ext.refl st, id, fun _ _ => trivial⟩
  | cons bc rest ih =>
    obtain ⟨e1, w1, ok1⟩ := updateOne_spec hb read st bc
    obtain ⟨e2, w2, ok2⟩ := ih (updateOne hb read st bc).1
    simp only [updateLoop]
    refine ⟨e1.trans e2, fun h => w2 (w1 h), ?_⟩
    intro st' he
    exact ⟨ok1 st' (e2.trans he), ok2 st' he⟩

/-! ### MergeArrays / group expansion -/

theorem mem_mergeTail (seen a2 : List Nat) (n : Nat) :
    n ∈ mergeTail seen a2 ↔ n ∈ a2 ∧ n ∉ seen := by
  induction a2 generalizing seen with
  | nil => simp [mergeTail]
  | cons a t ih =>
    unfold mergeTail
    by_cases h : seen.contains a = true
    · have ha : a ∈ seen := by simpa using h
      rw [if_pos h, ih, List.mem_cons]
      constructor
      · rintro ⟨h1, h2⟩; exact ⟨Or.inr h1, h2⟩
      · rintro ⟨h1 | h1, h2⟩
        · subst h1; exact absurd ha h2
        · exact ⟨h1, h2⟩
    · have ha : a ∉ seen := by simpa using h
      rw [if_neg h, List.mem_cons, ih, List.mem_cons, List.mem_cons]
      constructor
      · rintro (h1 | ⟨h1, h2⟩)
        · subst h1; exact ⟨Or.inl rfl, ha⟩
        · exact ⟨Or.inr h1, fun hs => h2 (Or.inr hs)⟩
      · rintro ⟨h1 | h1, h2⟩
        · exact Or.inl h1
        · by_cases e : n = a
          · exact Or.inl e
          · refine Or.inr ⟨h1, fun hs => ?_⟩
            rcases hs with hs | hs
            · exact e hs
            · exact h2 hs

theorem mem_mergeArrays (a1 a2 : List Nat) (n : Nat) : n ∈ mergeArrays a1 a2 ↔ n ∈ a1 ∨ n ∈ a2 := by
  unfold mergeArrays
  rw [List.mem_append, mem_mergeTail]
  by_cases h : n ∈ a1 <;> simp [h]

/-! ### one informer against the cluster history -/

theorem Tracks.congr {cfg : Cfg} {c : Cache} {m m' : Key → Option Obj} (h : Tracks cfg c m)
    (e : ∀ k, m k = m' k) : Tracks cfg c m' := by
  have : m = m' := funext e
  exact this ▸ h

/-- the cluster's objects matching the informer's selectors, as a finite map -/
def matching (p : Obj → Bool) (cl : Cluster) : Key → Option Obj := fun k => (kget Obj.key cl k).filter p

theorem kget_none_of_nodup_cons {α : Type} (key : α → Key) (a : α) (t : List α)
    (h : KeysNodup key (a :: t)) : kget key t (key a) = none := by
  unfold kget
  rw [List.find?_eq_none]
  intro x hx
  rw [KeysNodup, List.pairwise_cons] at h
  have := h.1 x hx
  simpa using fun e => this e.symm

theorem kget_filter {α : Type} (key : α → Key) (p : α → Bool) (l : List α) (k : Key)
    (h : KeysNodup key l) : kget key (l.filter p) k = (kget key l k).filter p := by
  induction l with
  | nil => simp [kget]
  | cons a t ih =>
    have ht : KeysNodup key t := by rw [KeysNodup, List.pairwise_cons] at h; exact h.2
    by_cases hk : key a = k
    · by_cases hp : p a = true
      · simp [kget, List.filter_cons, hp, hk, Option.filter]
      · have hn := kget_none_of_nodup_cons key a t h
        rw [hk] at hn
        have := ih ht
        rw [hn] at this
        simp only [List.filter_cons, hp, Bool.false_eq_true, if_false, this]
        simp [kget, hk, Option.filter, hp]
    · by_cases hp : p a = true
      · have := ih ht
        unfold kget at this ⊢
        simp [List.filter_cons, hp, hk, this]
      · have := ih ht
        unfold kget at this ⊢
        simp [List.filter_cons, hp, hk, this]

theorem keysNodup_filter {α : Type} (key : α → Key) (p : α → Bool) (l : List α) (h : KeysNodup key l) :
    KeysNodup key (l.filter p) := List.Pairwise.filter _ h

theorem keysNodup_applyOp (cl : Cluster) (op : COp) (h : KeysNodup Obj.key cl) :
    KeysNodup Obj.key (applyOp cl op) := by
  cases op with
  | set o => exact keysNodup_kput _ _ _ h
  | del k => exact keysNodup_kdel _ _ _ h

theorem keysNodup_applyOps (ops : List COp) (cl : Cluster) (h : KeysNodup Obj.key cl) :
    KeysNodup Obj.key (applyOps cl ops) := by
  unfold applyOps
  induction ops generalizing cl with
  | nil => exact h
  | cons op t ih => exact ih _ (keysNodup_applyOp cl op h)

theorem specInit_filter (p : Obj → Bool) (cl : Cluster) (h : KeysNodup Obj.key cl) (k : Key) :
    specInit (cl.filter p) k = matching p cl k := by
  unfold specInit matching
  rw [find?_reverse_of_nodup Obj.key _ (keysNodup_filter _ _ _ h)]
  exact kget_filter Obj.key p cl k h

theorem foldl_adds (objs : List Obj) (m : Key → Option Obj) (k : Key) :
    ((objs.map (fun o => (EvType.added, o))).foldl specStep m) k =
      match objs.reverse.find? (fun o => decide (o.key = k)) with
      | some o => some o
      | none => m k := by
  induction objs generalizing m with
  | nil => simp
  | cons o t ih =>
    simp only [List.map_cons, List.foldl_cons, List.reverse_cons, List.find?_append]
    rw [ih]
    cases t.reverse.find? (fun o => decide (o.key = k)) with
    | some x => simp
    | none =>
      by_cases hk : k = o.key
      · subst hk; simp [specStep]
      · have : o.key ≠ k := fun e => hk e.symm
        simp [specStep, hk, this]

theorem watchOf_spec (p : Obj → Bool) (cl : Cluster) (op : COp) (k : Key) :
    ((watchOf p cl op).foldl specStep (matching p cl)) k = matching p (applyOp cl op) k := by
  cases op with
  | set o =>
    simp only [watchOf, applyOp, matching]
    rw [kget_kput]
    cases hold : kget Obj.key cl o.key with
    | none =>
      by_cases hp : p o = true
      · by_cases hk : k = o.key <;> simp [matching, Option.filter, hp, specStep, hk]
      · by_cases hk : k = o.key
        · subst hk; simp [matching, Option.filter, hp, hold]
        · simp [matching, Option.filter, hp, hk]
    | some old =>
      have hko : old.key = o.key := (mem_of_kget Obj.key cl o.key old hold).2
      by_cases hp : p o = true <;> by_cases hq : p old = true
      · by_cases hk : k = o.key <;> simp [matching, Option.filter, hp, hq, specStep, hk]
      · by_cases hk : k = o.key <;> simp [matching, Option.filter, hp, hq, specStep, hk]
      · by_cases hk : k = o.key
        · subst hk; simp [matching, Option.filter, hp, hq, specStep, hko]
        · simp [matching, Option.filter, hp, hq, specStep, hko, hk]
      · by_cases hk : k = o.key
        · subst hk; simp [matching, Option.filter, hp, hq, hold]
        · simp [matching, Option.filter, hp, hq, hk]
  | del k' =>
    simp only [watchOf, applyOp, matching]
    rw [kget_kdel]
    cases hold : kget Obj.key cl k' with
    | none =>
      by_cases hk : k = k'
      · subst hk; simp [matching, Option.filter, hold]
      · simp [matching, Option.filter, hk]
    | some old =>
      have hko : old.key = k' := (mem_of_kget Obj.key cl k' old hold).2
      by_cases hq : p old = true
      · by_cases hk : k = k' <;> simp [matching, Option.filter, hq, specStep, hko, hk]
      · by_cases hk : k = k'
        · subst hk; simp [matching, Option.filter, hq, hold]
        · simp [matching, Option.filter, hq, hk]

theorem watchAll_spec (p : Obj → Bool) (ops : List COp) (cl : Cluster) :
    (watchAll p cl ops).foldl specStep (matching p cl) = matching p (applyOps cl ops) := by
  induction ops generalizing cl with
  | nil => rfl
  | cons op t ih =>
    simp only [watchAll, List.foldl_append]
    have : (watchOf p cl op).foldl specStep (matching p cl) = matching p (applyOp cl op) :=
      funext (watchOf_spec p cl op)
    rw [this, ih]
    rfl

/-! ### a `Snapshot()` call racing with the watch threads -/

theorem drop_cons_step {α : Type} (l : List α) (h : Nat) (ev : α) (rest : List α)
    (hd : l.drop h = ev :: rest) :
    l.take (h + 1) = l.take h ++ [ev] ∧ l.drop (h + 1) = rest ∧ h < l.length := by
  induction l generalizing h with
  | nil => simp at hd
  | cons a t ih =>
    cases h with
    | zero =>
      simp only [List.drop_zero, List.cons.injEq] at hd
      obtain ⟨rfl, rfl⟩ := hd
      simp
    | succ h =>
      simp only [List.drop_succ_cons] at hd
      obtain ⟨h1, h2, h3⟩ := ih h hd
      refine ⟨?_, ?_, ?_⟩
      · simp only [List.take_succ_cons, h1, List.cons_append]
      · simpa using h2
      · simp only [List.length_cons]; omega

structure CInv (cfg : Cfg) (init : Nat → Cache) (evs : Nat → List WatchEv) (s : CState) : Prop where
  caches : ∀ i, s.caches i = cacheAt cfg init evs i (s.handled i)
  pending : ∀ i, s.pending i = (evs i).drop (s.handled i)
  handled : ∀ i, s.handled i ≤ (evs i).length
  acc : s.acc = ((List.range s.next).map (fun j => cacheAt cfg init evs j (s.cut j))).flatten
  cut : ∀ j, j < s.next → s.cut j ≤ s.handled j
  next : s.next ≤ s.n

theorem cinv_init (cfg : Cfg) (init : Nat → Cache) (evs : Nat → List WatchEv) (n : Nat) :
    CInv cfg init evs (cinit init evs n) :=
  { caches := fun i => by simp [cinit, cacheAt]
    pending := fun i => by simp [cinit]
    handled := fun i => by simp [cinit]
    acc := by simp [cinit]
    cut := fun j hj => by simp [cinit] at hj
    next := by simp [cinit] }

theorem cstep_n (cfg : Cfg) (s : CState) (a : CAct) : (cstep cfg s a).n = s.n := by
  cases a with
  | w i =>
    simp only [cstep]
    cases s.pending i <;> rfl
  | r =>
    simp only [cstep]
    split <;> rfl

theorem cinv_step (cfg : Cfg) (init : Nat → Cache) (evs : Nat → List WatchEv) (s : CState) (a : CAct)
    (h : CInv cfg init evs s) : CInv cfg init evs (cstep cfg s a) := by
  cases a with
  | w i =>
    cases hp : s.pending i with
    | nil => simpa [cstep, hp] using h
    | cons ev rest =>
      have hd : (evs i).drop (s.handled i) = ev :: rest := by rw [← h.pending i, hp]
      obtain ⟨h1, h2, h3⟩ := drop_cons_step (evs i) (s.handled i) ev rest hd
      simp only [cstep, hp]
      exact
      { caches := fun j => by
          by_cases e : j = i
          · subst e
            simp only [if_true]
            unfold cacheAt
            rw [h1, List.foldl_append]
            have := h.caches j
            unfold cacheAt at this
            rw [← this]; rfl
          · simp only [e, if_false]; exact h.caches j
        pending := fun j => by
          by_cases e : j = i
          · subst e; simp only [if_true]; exact h2.symm
          · simp only [e, if_false]; exact h.pending j
        handled := fun j => by
          by_cases e : j = i
          · subst e; simp only [if_true]; omega
          · simp only [e, if_false]; exact h.handled j
        acc := h.acc
        cut := fun j hj => by
          have := h.cut j hj
          by_cases e : j = i
          · subst e; simp only [if_true]; omega
          · simp only [e, if_false]; exact this
        next := h.next }
  | r =>
    by_cases hn : s.next < s.n
    · simp only [cstep, hn, if_true]
      exact
      { caches := h.caches
        pending := h.pending
        handled := h.handled
        acc := by
          simp only [List.range_succ, List.map_append, List.flatten_append, List.map_cons, List.map_nil,
            List.flatten_cons, List.flatten_nil, List.append_nil, if_true]
          rw [h.acc, h.caches s.next]
          congr 2
          apply List.map_congr_left
          intro j hj
          have : j ≠ s.next := by
            have := List.mem_range.1 hj
            omega
          simp [this]
        cut := fun j hj => by
          have hj' : j < s.next + 1 := hj
          by_cases e : j = s.next
          · subst e; simp
          · simp only [e, if_false]
            exact h.cut j (by omega)
        next := by show s.next + 1 ≤ s.n; omega }
    · simpa [cstep, hn] using h

theorem cinv_run (cfg : Cfg) (init : Nat → Cache) (evs : Nat → List WatchEv) (sched : List CAct)
    (s : CState) (h : CInv cfg init evs s) :
    CInv cfg init evs (crun cfg s sched) ∧ (crun cfg s sched).n = s.n := by
  unfold crun
  induction sched generalizing s with
  | nil => exact ⟨h, rfl⟩
  | cons a t ih =>
    obtain ⟨h3, h4⟩ := ih _ (cinv_step cfg init evs s a h)
    exact ⟨h3, h4.trans (cstep_n cfg s a)⟩

/-! ### the driver's insertion sort meets `SortContract` -/

theorem lessKey_iff (kf : Bool) (ridOf : Key → Nat) (a b : Key) :
    lessKey kf ridOf a b = true ↔
      (kf = false ∧ ridOf a < ridOf b) ∨ (kf = true ∧ (a.ns < b.ns ∨ (a.ns = b.ns ∧ a.name < b.name))) := by
  unfold lessKey
  cases kf with
  | false => simp
  | true =>
    simp only [Bool.not_true, Bool.false_eq_true, if_false]
    constructor
    · intro h
      right
      refine ⟨trivial, ?_⟩
      by_cases h1 : a.ns < b.ns
      · exact Or.inl h1
      · by_cases h2 : a.ns > b.ns
        · simp [h1, h2] at h
        · simp only [h1, h2, if_false, decide_eq_true_eq] at h
          exact Or.inr ⟨by omega, h⟩
    · rintro (⟨k, _⟩ | ⟨_, h | ⟨h1, h2⟩⟩)
      · cases k
      · simp [h]
      · have e1 : ¬ a.ns < b.ns := by omega
        have e2 : ¬ a.ns > b.ns := by omega
        simp [e1, e2, h2]

theorem lessKey_trans (kf : Bool) (ridOf : Key → Nat) (a b c : Key)
    (h1 : lessKey kf ridOf a b = true) (h2 : lessKey kf ridOf b c = true) : lessKey kf ridOf a c = true := by
  rw [lessKey_iff] at *
  rcases h1 with ⟨k1, h1⟩ | ⟨k1, h1⟩ <;> rcases h2 with ⟨k2, h2⟩ | ⟨k2, h2⟩
  · exact Or.inl ⟨k1, by omega⟩
  · rw [k1] at k2; cases k2
  · rw [k1] at k2; cases k2
  · exact Or.inr ⟨k1, by omega⟩

theorem lessKey_asymm (kf : Bool) (ridOf : Key → Nat) (a b : Key)
    (h1 : lessKey kf ridOf a b = true) : lessKey kf ridOf b a = false := by
  cases h : lessKey kf ridOf b a with
  | false => rfl
  | true =>
    rw [lessKey_iff] at h1 h
    rcases h1 with ⟨k1, h1⟩ | ⟨k1, h1⟩ <;> rcases h with ⟨k2, h2⟩ | ⟨k2, h2⟩
    · omega
    · rw [k1] at k2; cases k2
    · rw [k1] at k2; cases k2
    · omega

theorem insertBy_perm (lt : Entry → Entry → Bool) (a : Entry) (l : List Entry) :
    (insertBy lt a l).Perm (a :: l) := by
  induction l with
  | nil => exact List.Perm.refl _
  | cons b t ih =>
    unfold insertBy
    split
    · exact List.Perm.refl _
    · exact (List.Perm.cons b ih).trans (List.Perm.swap a b t)

theorem foldr_insertBy_perm (lt : Entry → Entry → Bool) (l : List Entry) :
    (l.foldr (insertBy lt) []).Perm l := by
  induction l with
  | nil => exact List.Perm.refl _
  | cons a t ih => exact (insertBy_perm lt a _).trans (List.Perm.cons a ih)

/-- inserting into a sorted list keeps it sorted when `lt` is transitive and asymmetric on the
elements involved (`P`) -/
theorem insertBy_sorted (lt : Entry → Entry → Bool) (P : Entry → Prop)
    (htrans : ∀ x y z, P x → P y → P z → lt x y = true → lt y z = true → lt x z = true)
    (hasym : ∀ x y, P x → P y → lt x y = true → lt y x = false)
    (a : Entry) (l : List Entry) (ha : P a) (hl : ∀ x ∈ l, P x)
    (hs : l.Pairwise (fun x y => lt y x = false)) :
    (insertBy lt a l).Pairwise (fun x y => lt y x = false) := by
  induction l with
  | nil => simp [insertBy]
  | cons b t ih =>
    have hb : P b := hl b List.mem_cons_self
    have ht : ∀ x ∈ t, P x := fun x hx => hl x (List.mem_cons_of_mem _ hx)
    rw [List.pairwise_cons] at hs
    unfold insertBy
    by_cases hab : lt a b = true
    · rw [if_pos hab]
      refine List.pairwise_cons.2 ⟨?_, List.pairwise_cons.2 hs⟩
      intro y hy
      rcases List.mem_cons.1 hy with rfl | hy
      · exact hasym a _ ha hb hab
      · cases hya : lt y a with
        | false => rfl
        | true =>
          have := htrans y a b (ht y hy) ha hb hya hab
          rw [hs.1 y hy] at this
          cases this
    · rw [if_neg hab]
      refine List.pairwise_cons.2 ⟨?_, ih ht hs.2⟩
      intro y hy
      have := (insertBy_perm lt a t).subset hy
      rcases List.mem_cons.1 this with rfl | hy'
      · simpa using hab
      · exact hs.1 y hy'

theorem modelSort_contract (ridOf : Key → Nat) : SortContract ridOf (modelSort ridOf) := by
  intro l hu
  refine ⟨foldr_insertBy_perm _ l, ?_⟩
  cases l with
  | nil => simp [modelSort]
  | cons e0 t0 =>
    let kf := e0.obj.isSome
    have hP : ∀ x ∈ e0 :: t0, x.obj.isSome = kf := fun x hx => hu x hx e0 List.mem_cons_self
    generalize e0 :: t0 = l at hP
    unfold modelSort
    have htrans : ∀ x y z : Entry, x.obj.isSome = kf → y.obj.isSome = kf → z.obj.isSome = kf →
        lessGo ridOf x y = true → lessGo ridOf y z = true → lessGo ridOf x z = true := by
      intro x y z hx hy hz h1 h2
      rw [lessGo_eq_lessKey ridOf kf _ _ hx hy] at h1
      rw [lessGo_eq_lessKey ridOf kf _ _ hy hz] at h2
      rw [lessGo_eq_lessKey ridOf kf _ _ hx hz]
      exact lessKey_trans kf ridOf _ _ _ h1 h2
    have hasym : ∀ x y : Entry, x.obj.isSome = kf → y.obj.isSome = kf →
        lessGo ridOf x y = true → lessGo ridOf y x = false := by
      intro x y hx hy h1
      rw [lessGo_eq_lessKey ridOf kf _ _ hx hy] at h1
      rw [lessGo_eq_lessKey ridOf kf _ _ hy hx]
      exact lessKey_asymm kf ridOf _ _ h1
    induction l with
    | nil => simp
    | cons a t ih =>
      have ht : ∀ x ∈ t, x.obj.isSome = kf := fun x hx => hP x (List.mem_cons_of_mem _ hx)
      simp only [List.foldr_cons]
      refine insertBy_sorted _ (fun x => x.obj.isSome = kf) htrans hasym a _ (hP a List.mem_cons_self) ?_ (ih ht)
      intro x hx
      exact ht x ((foldr_insertBy_perm _ t).subset hx)

/-! ### the scopes built by `CreateInformers`, reachable monitors -/

theorem dedupNames_nodup (l : List Nat) : (dedupNames l).Nodup := by
  induction l with
  | nil => simp [dedupNames]
  | cons n t ih =>
    simp only [dedupNames, List.nodup_cons]
    exact ⟨by simp, ih.filter _⟩

theorem mem_dedupNames (l : List Nat) (n : Nat) : n ∈ dedupNames l ↔ n ∈ l := by
  induction l with
  | nil => simp [dedupNames]
  | cons a t ih =>
    simp only [dedupNames, List.mem_cons, List.mem_filter, decide_eq_true_eq, ih]
    by_cases h : n = a <;> simp [h]

/-- The informers `CreateInformersForNamespace` builds for one namespace from a duplicate-free name
list cannot see the same object. -/
theorem createForNs_apart (cfg : Cfg) (names : List Nat) (hn : names.Nodup)
    (list : Option Nat → Option Nat → List Obj) (ns : Option Nat) :
    (createForNs cfg names list ns).Pairwise (fun i j => scopesApart i j = true) := by
  unfold createForNs
  by_cases he : names.isEmpty = true
  · simp [he]
  · simp only [he, Bool.false_eq_true, if_false, List.pairwise_map]
    refine hn.imp ?_
    intro a b hab
    cases ns <;> simp [scopesApart, hab]


theorem mapInformers_informers (m : Monitor) (f : Informer → Informer) :
    (m.mapInformers f).informers = m.informers.map f := by
  unfold Monitor.mapInformers Monitor.informers
  simp only [List.map_append, List.map_map]
  congr 1
  induction m.varying with
  | nil => rfl
  | cons p t ih => simp only [List.map_cons, List.flatten_cons, List.map_append, Function.comp, ih]

/-- an informer whose cache holds, each key once, filtered images of objects of its own scope -/
def GoodInformer (mc : MonCfg) (i : Informer) : Prop :=
  KeysNodup Entry.key i.cache ∧ ∀ e ∈ i.cache, ∃ o, e = mkEntry mc.cfg o ∧ mc.pred i.ns i.name o = true

theorem mem_handleWatch (cfg : Cfg) (c : Cache) (t : EvType) (o : Obj) (e : Entry)
    (h : e ∈ (handleWatch cfg c t o).1) : e ∈ c ∨ (t ≠ .deleted ∧ e = mkEntry cfg o) := by
  cases t with
  | deleted =>
    simp only [handleWatch] at h
    exact Or.inl ((mem_kdel _ _ _ _).1 h).1
  | added =>
    simp only [handleWatch] at h
    rcases (mem_kput _ _ _ _).1 h with h | h
    · exact Or.inl h.1
    · exact Or.inr ⟨by simp, h⟩
  | modified =>
    simp only [handleWatch] at h
    rcases (mem_kput _ _ _ _).1 h with h | h
    · exact Or.inl h.1
    · exact Or.inr ⟨by simp, h⟩

theorem keysNodup_handleWatch (cfg : Cfg) (c : Cache) (t : EvType) (o : Obj) (h : KeysNodup Entry.key c) :
    KeysNodup Entry.key (handleWatch cfg c t o).1 := by
  cases t with
  | deleted => exact keysNodup_kdel _ _ _ h
  | added => exact keysNodup_kput _ _ _ h
  | modified => exact keysNodup_kput _ _ _ h

theorem good_feed (mc : MonCfg) (evsOf : Informer → List WatchEv) (i : Informer)
    (hev : ∀ ev ∈ evsOf i, ev.1 ≠ EvType.deleted → mc.pred i.ns i.name ev.2 = true)
    (h : GoodInformer mc i) : GoodInformer mc (feed mc evsOf i) := by
  unfold feed
  split
  · generalize evsOf i = evs at hev
    suffices H : ∀ (c : Cache), (KeysNodup Entry.key c ∧ ∀ e ∈ c, ∃ o, e = mkEntry mc.cfg o ∧ mc.pred i.ns i.name o = true) →
        (KeysNodup Entry.key (evs.foldl (fun c ev => (handleWatch mc.cfg c ev.1 ev.2).1) c) ∧
          ∀ e ∈ evs.foldl (fun c ev => (handleWatch mc.cfg c ev.1 ev.2).1) c,
            ∃ o, e = mkEntry mc.cfg o ∧ mc.pred i.ns i.name o = true) from H i.cache h
    induction evs with
    | nil => intro c hc; exact hc
    | cons ev t ih =>
      intro c hc
      simp only [List.foldl_cons]
      apply ih (fun ev' h' => hev ev' (List.mem_cons_of_mem _ h'))
      refine ⟨keysNodup_handleWatch _ _ _ _ hc.1, fun e he => ?_⟩
      rcases mem_handleWatch _ _ _ _ _ he with h1 | ⟨h1, h2⟩
      · exact hc.2 e h1
      · exact ⟨ev.2, h2, hev ev List.mem_cons_self h1⟩
  · exact h

theorem feed_ns (mc : MonCfg) (evsOf : Informer → List WatchEv) (i : Informer) :
    (feed mc evsOf i).ns = i.ns ∧ (feed mc evsOf i).name = i.name := by
  unfold feed; split <;> exact ⟨rfl, rfl⟩

theorem watchOf_pred (p : Obj → Bool) (c : Cluster) (op : COp) :
    ∀ ev ∈ watchOf p c op, ev.1 ≠ EvType.deleted → p ev.2 = true := by
  intro ev hev hne
  cases op with
  | set o =>
    simp only [watchOf] at hev
    cases hold : kget Obj.key c o.key with
    | none =>
      rw [hold] at hev
      by_cases hp : p o = true
      · simp [hp] at hev; subst hev; exact hp
      · simp [hp] at hev
    | some old =>
      rw [hold] at hev
      by_cases hp : p o = true <;> by_cases hq : p old = true
      · simp [hp, hq] at hev; subst hev; exact hp
      · simp [hp, hq] at hev; subst hev; exact hp
      · simp [hp, hq] at hev; subst hev; exact absurd rfl hne
      · simp [hp, hq] at hev
  | del k =>
    simp only [watchOf] at hev
    cases hold : kget Obj.key c k with
    | none => rw [hold] at hev; simp at hev
    | some old =>
      rw [hold] at hev
      by_cases hq : p old = true
      · simp [hq] at hev; subst hev; exact absurd rfl hne
      · simp [hq] at hev

theorem good_createForNs (mc : MonCfg) (w : World) (ns : Option Nat) :
    ∀ i ∈ createForNs mc.cfg mc.namesEff (mc.list w) ns, GoodInformer mc i ∧ i.ns = ns := by
  intro i hi
  unfold createForNs at hi
  obtain ⟨nm, _, rfl⟩ := List.mem_map.1 hi
  refine ⟨⟨(tracks_loadExisted mc.cfg _).1, fun e he => ?_⟩, rfl⟩
  have ht := tracks_loadExisted mc.cfg (mc.list w ns nm)
  have := ht.2 e.key
  rw [kget_of_mem _ _ _ ht.1 he] at this
  cases hm : specInit (mc.list w ns nm) e.key with
  | none => simp [hm] at this
  | some o =>
    refine ⟨o, by simpa [hm] using this, ?_⟩
    unfold specInit at hm
    have hmem := List.mem_reverse.1 (List.mem_of_find?_eq_some hm)
    unfold MonCfg.list at hmem
    exact (List.mem_filter.1 hmem).2

/-- preserving namespace and name preserves "cannot see the same object" -/
theorem apart_map (l : List Informer) (f : Informer → Informer)
    (hf : ∀ i, (f i).ns = i.ns ∧ (f i).name = i.name)
    (h : l.Pairwise (fun i j => scopesApart i j = true)) :
    (l.map f).Pairwise (fun i j => scopesApart i j = true) := by
  rw [List.pairwise_map]
  refine h.imp ?_
  intro a b hab
  unfold scopesApart at *
  rw [(hf a).1, (hf a).2, (hf b).1, (hf b).2]
  exact hab

/-- Structural invariant of a reachable monitor (repaired `names()` / `namespaces()`). -/
structure MInv (mc : MonCfg) (m : Monitor) : Prop where
  staticApart : m.static.Pairwise (fun i j => scopesApart i j = true)
  staticOnly : mc.nsSel = true → m.static = []
  varyingOnly : mc.nsSel = false → m.varying = []
  vkeys : (m.varying.map (·.1)).Nodup
  vns : ∀ p ∈ m.varying, (∀ i ∈ p.2, i.ns = some p.1) ∧ p.2.Pairwise (fun i j => scopesApart i j = true)
  good : ∀ i ∈ m.informers, GoodInformer mc i

theorem minv_scopesDisjoint (mc : MonCfg) (m : Monitor) (h : MInv mc m) : ScopesDisjoint m := by
  unfold ScopesDisjoint Monitor.informers
  cases hs : mc.nsSel with
  | false => rw [h.varyingOnly hs]; simpa using h.staticApart
  | true =>
    rw [h.staticOnly hs, List.nil_append, List.pairwise_flatten]
    constructor
    · intro l hl
      obtain ⟨p, hp, rfl⟩ := List.mem_map.1 hl
      exact (h.vns p hp).2
    · rw [List.pairwise_map]
      have hk := h.vkeys
      rw [List.Nodup, List.pairwise_map] at hk
      refine hk.imp_of_mem ?_
      intro a b ha hb hab i hi j hj
      have h1 := (h.vns a ha).1 i hi
      have h2 := (h.vns b hb).1 j hj
      simp [scopesApart, h1, h2, hab]

theorem mem_informers (m : Monitor) (i : Informer) :
    i ∈ m.informers ↔ i ∈ m.static ∨ ∃ p ∈ m.varying, i ∈ p.2 := by
  unfold Monitor.informers
  simp only [List.mem_append, List.mem_flatten, List.mem_map]
  constructor
  · rintro (h | ⟨l, ⟨p, hp, rfl⟩, hi⟩)
    · exact Or.inl h
    · exact Or.inr ⟨p, hp, hi⟩
  · rintro (h | ⟨p, hp, hi⟩)
    · exact Or.inl h
    · exact Or.inr ⟨_, ⟨p, hp, rfl⟩, hi⟩

theorem minv_mapInformers (mc : MonCfg) (m : Monitor) (f : Informer → Informer)
    (hf : ∀ i, (f i).ns = i.ns ∧ (f i).name = i.name)
    (hg : ∀ i, GoodInformer mc i → GoodInformer mc (f i))
    (h : MInv mc m) : MInv mc (m.mapInformers f) :=
  { staticApart := apart_map _ f hf h.staticApart
    staticOnly := fun hs => by simp [Monitor.mapInformers, h.staticOnly hs]
    varyingOnly := fun hs => by simp [Monitor.mapInformers, h.varyingOnly hs]
    vkeys := by
      have : ((m.mapInformers f).varying.map (·.1)) = m.varying.map (·.1) := by
        simp [Monitor.mapInformers, List.map_map, Function.comp]
      rw [this]; exact h.vkeys
    vns := fun p hp => by
      simp only [Monitor.mapInformers, List.mem_map] at hp
      obtain ⟨q, hq, rfl⟩ := hp
      refine ⟨fun i hi => ?_, apart_map _ f hf (h.vns q hq).2⟩
      obtain ⟨j, hj, rfl⟩ := List.mem_map.1 hi
      rw [(hf j).1]; exact (h.vns q hq).1 j hj
    good := fun i hi => by
      rw [mapInformers_informers] at hi
      obtain ⟨j, hj, rfl⟩ := List.mem_map.1 hi
      exact hg j (h.good j hj) }

theorem createForNs_ns (cfg : Cfg) (names : List Nat) (list : Option Nat → Option Nat → List Obj)
    (ns : Option Nat) : ∀ i ∈ createForNs cfg names list ns, i.ns = ns := by
  intro i hi
  unfold createForNs at hi
  obtain ⟨nm, _, rfl⟩ := List.mem_map.1 hi
  rfl

theorem static_apart (cfg : Cfg) (names : List Nat) (hn : names.Nodup) (nsl : List (Option Nat))
    (hnsl : nsl = [none] ∨ ∃ l : List Nat, l.Nodup ∧ nsl = l.map some)
    (list : Option Nat → Option Nat → List Obj) :
    ((nsl.map (fun ns => createForNs cfg names list ns)).flatten).Pairwise
      (fun i j => scopesApart i j = true) := by
  rcases hnsl with rfl | ⟨l, hl, rfl⟩
  · simpa using createForNs_apart cfg names hn list none
  · rw [List.pairwise_flatten]
    constructor
    · intro x hx
      obtain ⟨n, _, rfl⟩ := List.mem_map.1 hx
      exact createForNs_apart cfg names hn list n
    · rw [List.map_map, List.pairwise_map]
      refine hl.imp ?_
      intro a b hab i hi j hj
      have hia := createForNs_ns cfg names list (some a) i hi
      have hjb := createForNs_ns cfg names list (some b) j hj
      simp [scopesApart, hia, hjb, hab]

theorem createInformers_static (mc : MonCfg) (w : World) :
    (createInformers mc w).static =
      (mc.namespaces.map (fun ns => createForNs mc.cfg mc.namesEff (mc.list w) ns)).flatten := rfl

theorem createInformers_varying (mc : MonCfg) (w : World) :
    (createInformers mc w).varying =
      (((if mc.nsSel then dedupNames ((w.nss.filter (fun p => p.2 == 1)).map (·.1)) else []).filter
        (fun n => !(mc.namespaces.filterMap id).contains n)).map
          (fun n => (n, createForNs mc.cfg mc.namesEff (mc.list w) (some n)))) := rfl

theorem minv_create (mc : MonCfg) (w : World) : MInv mc (createInformers mc w) := by
  have hnsl : mc.nsSel = false →
      (mc.namespaces = [none] ∨ ∃ l : List Nat, l.Nodup ∧ mc.namespaces = l.map some) := by
    intro hs
    unfold MonCfg.namespaces
    simp only [hs, Bool.false_eq_true, if_false]
    by_cases he : mc.nss.isEmpty = true
    · left; simp [he]
    · right; exact ⟨dedupNames mc.nss, dedupNames_nodup _, by simp [he]⟩
  have hnil : mc.nsSel = true → mc.namespaces = [] := fun hs => by simp [MonCfg.namespaces, hs]
  have hvar : ∀ p ∈ (createInformers mc w).varying, ∃ n, p = (n, createForNs mc.cfg mc.namesEff (mc.list w) (some n)) := by
    intro p hp
    rw [createInformers_varying] at hp
    obtain ⟨n, _, rfl⟩ := List.mem_map.1 hp
    exact ⟨n, rfl⟩
  exact
  { staticApart := by
      rw [createInformers_static]
      cases hs : mc.nsSel with
      | true => rw [hnil hs]; exact List.Pairwise.nil
      | false => exact static_apart mc.cfg mc.namesEff (dedupNames_nodup _) _ (hnsl hs) _
    staticOnly := fun hs => by rw [createInformers_static, hnil hs]; rfl
    varyingOnly := fun hs => by rw [createInformers_varying, hs]; rfl
    vkeys := by
      rw [createInformers_varying, List.map_map]
      have : ((fun x : Nat × List Informer => x.1) ∘
          fun n => (n, createForNs mc.cfg mc.namesEff (mc.list w) (some n))) = id := rfl
      rw [this, List.map_id]
      cases hs : mc.nsSel with
      | true => exact List.Pairwise.filter _ (dedupNames_nodup _)
      | false => simp
    vns := fun p hp => by
      obtain ⟨n, rfl⟩ := hvar p hp
      exact ⟨createForNs_ns _ _ _ _, createForNs_apart _ _ (dedupNames_nodup _) _ _⟩
    good := fun i hi => by
      rw [mem_informers] at hi
      rcases hi with hi | ⟨p, hp, hi⟩
      · rw [createInformers_static] at hi
        obtain ⟨l, hl, hil⟩ := List.mem_flatten.1 hi
        obtain ⟨ns, _, rfl⟩ := List.mem_map.1 hl
        exact (good_createForNs mc w ns i hil).1
      · obtain ⟨n, rfl⟩ := hvar p hp
        exact (good_createForNs mc w (some n) i hi).1 }

theorem good_started (mc : MonCfg) (i : Informer) (h : GoodInformer mc i) :
    GoodInformer mc { i with started := true } := h

theorem minv_nsAdded (mc : MonCfg) (w : World) (m : Monitor) (n : Nat) (hs : mc.nsSel = true)
    (h : MInv mc m) : MInv mc (nsAdded mc.cfg mc.namesEff (mc.list w) m n) := by
  unfold nsAdded
  split
  · exact h
  · split
    · exact h
    · rename_i hfind
      have hnot : n ∉ m.varying.map (·.1) := by
        intro hc
        obtain ⟨p, hp, hpn⟩ := List.mem_map.1 hc
        apply hfind
        rw [List.find?_isSome]
        exact ⟨p, hp, by simp [hpn]⟩
      have hnew : ∀ i ∈ (createForNs mc.cfg mc.namesEff (mc.list w) (some n)).map ({ · with started := true }),
          GoodInformer mc i ∧ i.ns = some n := by
        intro i hi
        obtain ⟨j, hj, rfl⟩ := List.mem_map.1 hi
        exact good_createForNs mc w (some n) j hj
      exact
      { staticApart := h.staticApart
        staticOnly := h.staticOnly
        varyingOnly := fun hf => by rw [hs] at hf; cases hf
        vkeys := by
          simp only [List.map_append, List.map_cons, List.map_nil]
          rw [List.nodup_append]
          exact ⟨h.vkeys, by simp, by intro a ha b hb; simp at hb; subst hb; exact fun e => hnot (e ▸ ha)⟩
        vns := fun p hp => by
          rcases List.mem_append.1 hp with hp | hp
          · exact h.vns p hp
          · simp only [List.mem_singleton] at hp
            subst hp
            refine ⟨fun i hi => (hnew i hi).2, ?_⟩
            exact apart_map _ _ (fun i => ⟨rfl, rfl⟩) (createForNs_apart _ _ (dedupNames_nodup _) _ _)
        good := fun i hi => by
          rw [mem_informers] at hi
          rcases hi with hi | ⟨p, hp, hi⟩
          · exact h.good i ((mem_informers m i).2 (Or.inl hi))
          · rcases List.mem_append.1 hp with hp | hp
            · exact h.good i ((mem_informers m i).2 (Or.inr ⟨p, hp, hi⟩))
            · simp only [List.mem_singleton] at hp
              subst hp
              exact (hnew i hi).1 }

theorem minv_nsDeleted (mc : MonCfg) (m : Monitor) (n : Nat) (h : MInv mc m) : MInv mc (nsDeleted m n) := by
  unfold nsDeleted
  split
  · exact h
  · exact
    { staticApart := h.staticApart
      staticOnly := h.staticOnly
      varyingOnly := fun hf => by simp [h.varyingOnly hf]
      vkeys := by
        have := h.vkeys
        rw [List.Nodup, List.pairwise_map] at this ⊢
        exact this.filter _
      vns := fun p hp => h.vns p (List.mem_filter.1 hp).1
      good := fun i hi => by
        rw [mem_informers] at hi
        rcases hi with hi | ⟨p, hp, hi⟩
        · exact h.good i ((mem_informers m i).2 (Or.inl hi))
        · exact h.good i ((mem_informers m i).2 (Or.inr ⟨p, (List.mem_filter.1 hp).1, hi⟩)) }

theorem minv_foldl_nsAdded (mc : MonCfg) (w : World) (ns : List Nat) (m : Monitor) (hs : mc.nsSel = true)
    (h : MInv mc m) : MInv mc (ns.foldl (nsAdded mc.cfg mc.namesEff (mc.list w)) m) := by
  induction ns generalizing m with
  | nil => exact h
  | cons n t ih => exact ih _ (minv_nsAdded mc w m n hs h)

theorem minv_start (mc : MonCfg) (w : World) (m : Monitor) (h : MInv mc m) : MInv mc (startMonitor mc w m) := by
  unfold startMonitor
  have h1 : MInv mc (m.mapInformers (fun i =>
      feed mc (fun i => (mc.list w i.ns i.name).map (fun o => (EvType.added, o))) { i with started := true })) := by
    refine minv_mapInformers mc m _ (fun i => feed_ns mc _ _) (fun i hg => ?_) h
    refine good_feed mc _ _ ?_ (good_started mc i hg)
    intro ev hev _
    obtain ⟨o, ho, rfl⟩ := List.mem_map.1 hev
    unfold MonCfg.list at ho
    exact (List.mem_filter.1 ho).2
  cases hs : mc.nsSel with
  | false => simpa [hs] using h1
  | true => simpa [hs] using minv_foldl_nsAdded mc w _ _ hs h1

theorem minv_objStep (mc : MonCfg) (w : World) (m : Monitor) (op : COp) (h : MInv mc m) :
    MInv mc (objStep mc w m op).2 := by
  unfold objStep
  refine minv_mapInformers mc m _ (fun i => feed_ns mc _ _) (fun i hg => ?_) h
  exact good_feed mc _ _ (watchOf_pred _ _ _) hg

theorem minv_ns_choice (mc : MonCfg) (c1 c2 c3 : Bool) (w' : World) (m : Monitor) (n : Nat)
    (hc : c1 = false → mc.nsSel = true) (h : MInv mc m) :
    MInv mc (if c1 = true then m
      else if c2 = true then nsAdded mc.cfg mc.namesEff (mc.list w') m n
      else if c3 = true then nsDeleted m n else m) := by
  cases c1 with
  | true => simpa using h
  | false =>
    cases c2 with
    | true => simpa using minv_nsAdded mc w' m n (hc rfl) h
    | false =>
      cases c3 with
      | true => simpa using minv_nsDeleted mc m n h
      | false => simpa using h

theorem minv_nsStep (mc : MonCfg) (started : Bool) (w : World) (m : Monitor) (n : Nat) (lbl : Option Nat)
    (h : MInv mc m) : MInv mc (nsStep mc started w m n lbl).2 := by
  unfold nsStep
  simp only
  apply minv_ns_choice
  · intro hc
    cases hsel : mc.nsSel with
    | true => rfl
    | false => simp [hsel] at hc
  · exact h

theorem minv_run (mc : MonCfg) (w0 : World) (steps : List MStep) : MInv mc (runMonitor mc w0 steps).m := by
  unfold runMonitor
  suffices H : ∀ (s : MState), MInv mc s.m → MInv mc (steps.foldl (mstep mc) s).m from
    H _ (minv_create mc w0)
  induction steps with
  | nil => intro s h; exact h
  | cons st t ih =>
    intro s h
    apply ih
    cases st with
    | start => exact minv_start mc s.w s.m h
    | obj op => exact minv_objStep mc s.w s.m op h
    | ns n lbl => exact minv_nsStep mc s.started s.w s.m n lbl h

/-! ### a started monitor equals the matching objects (no cluster step between Add and Start) -/

def nsok (ns : Option Nat) (o : Obj) : Bool := match ns with | none => true | some n => o.key.ns == n
def nmok (nm : Option Nat) (o : Obj) : Bool := match nm with | none => true | some n => o.key.name == n
def nameOK (mc : MonCfg) (o : Obj) : Bool := mc.names.isEmpty || mc.names.contains o.key.name

theorem pred_eq (mc : MonCfg) (ns nm : Option Nat) (o : Obj) :
    mc.pred ns nm o = (mc.pred none none o && nsok ns o && nmok nm o) := by
  unfold MonCfg.pred nsok nmok
  cases ns <;> cases nm <;> simp only [Bool.and_true] <;> ac_rfl

theorem dedupNames_isEmpty (l : List Nat) : (dedupNames l).isEmpty = l.isEmpty := by
  cases l <;> simp [dedupNames]

/-- the informers built for one namespace together see exactly the objects of that namespace
that pass the name selector -/
theorem createForNs_covers (mc : MonCfg) (list : Option Nat → Option Nat → List Obj) (ns : Option Nat) (o : Obj) :
    (∃ i ∈ createForNs mc.cfg mc.namesEff list ns, mc.pred i.ns i.name o = true) ↔
      (mc.pred ns none o = true ∧ nameOK mc o = true) := by
  unfold createForNs MonCfg.namesEff nameOK
  rw [dedupNames_isEmpty]
  by_cases he : mc.names.isEmpty = true
  · simp [he]
  · simp only [he, Bool.false_eq_true, if_false, Bool.false_or, List.mem_map]
    constructor
    · rintro ⟨i, ⟨nm, ⟨n, hn, rfl⟩, rfl⟩, hp⟩
      simp only at hp
      rw [pred_eq] at hp ⊢
      simp only [Bool.and_eq_true, nmok, beq_iff_eq] at hp ⊢
      refine ⟨⟨⟨hp.1.1, hp.1.2⟩, trivial⟩, ?_⟩
      rw [List.contains_iff_mem, hp.2]
      exact (mem_dedupNames _ _).1 hn
    · rintro ⟨hp, hn⟩
      rw [List.contains_iff_mem] at hn
      refine ⟨_, ⟨some o.key.name, ⟨o.key.name, (mem_dedupNames _ _).2 hn, rfl⟩, rfl⟩, ?_⟩
      simp only
      rw [pred_eq] at hp ⊢
      simp only [Bool.and_eq_true, nmok, beq_iff_eq] at hp ⊢
      exact ⟨⟨hp.1.1, hp.1.2⟩, trivial⟩

theorem covers_map (mc : MonCfg) (l : List Informer) (f : Informer → Informer)
    (hf : ∀ i, (f i).ns = i.ns ∧ (f i).name = i.name) (o : Obj) :
    (∃ i ∈ l.map f, mc.pred i.ns i.name o = true) ↔ (∃ i ∈ l, mc.pred i.ns i.name o = true) := by
  constructor
  · rintro ⟨i, hi, hp⟩
    obtain ⟨j, hj, rfl⟩ := List.mem_map.1 hi
    rw [(hf j).1, (hf j).2] at hp
    exact ⟨j, hj, hp⟩
  · rintro ⟨i, hi, hp⟩
    exact ⟨f i, List.mem_map.2 ⟨i, hi, rfl⟩, by rw [(hf i).1, (hf i).2]; exact hp⟩

/-- replaying `Added` for the matching objects of the same cluster changes nothing -/
theorem tracks_replay (cfg : Cfg) (p : Obj → Bool) (objs : Cluster) (c : Cache)
    (hn : KeysNodup Obj.key objs) (h : Tracks cfg c (matching p objs)) :
    Tracks cfg (((objs.filter p).map (fun o => (EvType.added, o))).foldl
      (fun c ev => (handleWatch cfg c ev.1 ev.2).1) c) (matching p objs) := by
  refine (tracks_foldl_watch cfg _ _ _ h).congr (fun k => ?_)
  rw [foldl_adds, find?_reverse_of_nodup Obj.key _ (keysNodup_filter _ _ _ hn)]
  have := kget_filter Obj.key p objs k hn
  unfold kget at this
  rw [this]
  show (match matching p objs k with | some o => some o | none => matching p objs k) = _
  cases matching p objs k <;> rfl

theorem tracks_created (mc : MonCfg) (w : World) (hn : KeysNodup Obj.key w.objs) (ns : Option Nat) :
    ∀ i ∈ createForNs mc.cfg mc.namesEff (mc.list w) ns,
      Tracks mc.cfg i.cache (matching (mc.pred i.ns i.name) w.objs) := by
  intro i hi
  unfold createForNs at hi
  obtain ⟨nm, _, rfl⟩ := List.mem_map.1 hi
  exact (tracks_loadExisted mc.cfg _).congr (specInit_filter _ w.objs hn)

/-- A started monitor in step with the cluster: every informer is started and its cache is the
cluster's matching objects for its own scope; the scopes of the informers cover what they should. -/
structure MSync (mc : MonCfg) (w : World) (m : Monitor) : Prop where
  objsNodup : KeysNodup Obj.key w.objs
  synced : ∀ i ∈ m.informers, i.started = true ∧ Tracks mc.cfg i.cache (matching (mc.pred i.ns i.name) w.objs)
  vcover : ∀ p ∈ m.varying, ∀ o, (∃ i ∈ p.2, mc.pred i.ns i.name o = true) ↔
    (mc.pred (some p.1) none o = true ∧ nameOK mc o = true)
  scover : ∀ o, (∃ i ∈ m.static, mc.pred i.ns i.name o = true) ↔
    ((∃ ns ∈ mc.namespaces, mc.pred ns none o = true) ∧ nameOK mc o = true)
  staticNsNil : mc.nsSel = true → m.staticNs = []

def vkeys (m : Monitor) : List Nat := m.varying.map (·.1)

theorem vkeys_nsAdded (mc : MonCfg) (w : World) (m : Monitor) (n n' : Nat) (hs : m.staticNs = []) :
    n' ∈ vkeys (nsAdded mc.cfg mc.namesEff (mc.list w) m n) ↔ n' ∈ vkeys m ∨ n' = n := by
  unfold nsAdded
  simp only [hs, List.contains_nil, Bool.false_eq_true, if_false]
  split
  · rename_i hf
    rw [List.find?_isSome] at hf
    obtain ⟨p, hp, hpn⟩ := hf
    have hn : n ∈ vkeys m := List.mem_map.2 ⟨p, hp, by simpa using hpn⟩
    constructor
    · exact Or.inl
    · rintro (h | rfl)
      · exact h
      · exact hn
  · simp [vkeys]

theorem vkeys_nsDeleted (m : Monitor) (n n' : Nat) (hs : m.staticNs = []) :
    n' ∈ vkeys (nsDeleted m n) ↔ n' ∈ vkeys m ∧ n' ≠ n := by
  unfold nsDeleted vkeys
  simp only [hs, List.contains_nil, Bool.false_eq_true, if_false, List.mem_map, List.mem_filter, bne_iff_ne, ne_eq]
  constructor
  · rintro ⟨p, ⟨hp, hne⟩, rfl⟩; exact ⟨⟨p, hp, rfl⟩, hne⟩
  · rintro ⟨⟨p, hp, rfl⟩, hne⟩; exact ⟨p, ⟨hp, hne⟩, rfl⟩

theorem msync_nsAdded (mc : MonCfg) (w : World) (m : Monitor) (n : Nat) (h : MSync mc w m) :
    MSync mc w (nsAdded mc.cfg mc.namesEff (mc.list w) m n) := by
  unfold nsAdded
  split
  · exact h
  · split
    · exact h
    · have hf : ∀ i : Informer, ({ i with started := true } : Informer).ns = i.ns ∧
          ({ i with started := true } : Informer).name = i.name := fun i => ⟨rfl, rfl⟩
      exact
      { objsNodup := h.objsNodup
        synced := fun i hi => by
          rw [mem_informers] at hi
          rcases hi with hi | ⟨p, hp, hi⟩
          · exact h.synced i ((mem_informers m i).2 (Or.inl hi))
          · rcases List.mem_append.1 hp with hp | hp
            · exact h.synced i ((mem_informers m i).2 (Or.inr ⟨p, hp, hi⟩))
            · simp only [List.mem_singleton] at hp
              subst hp
              obtain ⟨j, hj, rfl⟩ := List.mem_map.1 hi
              exact ⟨rfl, tracks_created mc w h.objsNodup (some n) j hj⟩
        vcover := fun p hp o => by
          rcases List.mem_append.1 hp with hp | hp
          · exact h.vcover p hp o
          · simp only [List.mem_singleton] at hp
            subst hp
            simp only
            rw [covers_map mc _ _ hf o]
            exact createForNs_covers mc _ (some n) o
        scover := h.scover
        staticNsNil := h.staticNsNil }

theorem msync_nsDeleted (mc : MonCfg) (w : World) (m : Monitor) (n : Nat) (h : MSync mc w m) :
    MSync mc w (nsDeleted m n) := by
  unfold nsDeleted
  split
  · exact h
  · exact
    { objsNodup := h.objsNodup
      synced := fun i hi => by
        rw [mem_informers] at hi
        rcases hi with hi | ⟨p, hp, hi⟩
        · exact h.synced i ((mem_informers m i).2 (Or.inl hi))
        · exact h.synced i ((mem_informers m i).2 (Or.inr ⟨p, (List.mem_filter.1 hp).1, hi⟩))
      vcover := fun p hp o => h.vcover p (List.mem_filter.1 hp).1 o
      scover := h.scover
      staticNsNil := h.staticNsNil }

theorem msync_foldl_nsAdded (mc : MonCfg) (w : World) (ns : List Nat) (m : Monitor) (h : MSync mc w m) :
    MSync mc w (ns.foldl (nsAdded mc.cfg mc.namesEff (mc.list w)) m) := by
  induction ns generalizing m with
  | nil => exact h
  | cons n t ih => exact ih _ (msync_nsAdded mc w m n h)

theorem vkeys_foldl_nsAdded (mc : MonCfg) (w : World) (ns : List Nat) (m : Monitor) (n' : Nat)
    (hs : m.staticNs = []) :
    n' ∈ vkeys (ns.foldl (nsAdded mc.cfg mc.namesEff (mc.list w)) m) ↔ n' ∈ vkeys m ∨ n' ∈ ns := by
  induction ns generalizing m with
  | nil => simp
  | cons n t ih =>
    have hs' : (nsAdded mc.cfg mc.namesEff (mc.list w) m n).staticNs = [] := by
      unfold nsAdded; split; exact hs; split; exact hs; exact hs
    simp only [List.foldl_cons]
    rw [ih _ hs', vkeys_nsAdded mc w m n n' hs, List.mem_cons]
    constructor
    · rintro ((h | h) | h)
      · exact Or.inl h
      · exact Or.inr (Or.inl h)
      · exact Or.inr (Or.inr h)
    · rintro (h | h | h)
      · exact Or.inl (Or.inl h)
      · exact Or.inl (Or.inr h)
      · exact Or.inr h

theorem nsMatches_iff (mc : MonCfg) (w : World) (n : Nat) (hs : mc.nsSel = true) :
    nsMatches mc w n = true ↔ (n, 1) ∈ w.nss := by
  unfold nsMatches
  simp only [hs, Bool.true_and, List.any_eq_true, Bool.and_eq_true, beq_iff_eq]
  constructor
  · rintro ⟨p, hp, h1, h2⟩
    have : p = (n, 1) := by cases p; simp_all
    exact this ▸ hp
  · intro h; exact ⟨(n, 1), h, rfl, rfl⟩

theorem createInformers_staticNs (mc : MonCfg) (w : World) :
    (createInformers mc w).staticNs = mc.namespaces.filterMap id := rfl

theorem mem_existing (mc : MonCfg) (w : World) (n : Nat) (hs : mc.nsSel = true) :
    n ∈ dedupNames ((w.nss.filter (fun p => p.2 == 1)).map (·.1)) ↔ nsMatches mc w n = true := by
  rw [mem_dedupNames, nsMatches_iff mc w n hs]
  simp only [List.mem_map, List.mem_filter, beq_iff_eq]
  constructor
  · rintro ⟨p, ⟨hp, h1⟩, rfl⟩
    have : p = (p.1, 1) := by cases p; simp_all
    exact this ▸ hp
  · intro h; exact ⟨(n, 1), ⟨h, rfl⟩, rfl⟩

theorem started_feed (mc : MonCfg) (evsOf : Informer → List WatchEv) (i : Informer) :
    (feed mc evsOf i).started = i.started := by
  unfold feed; split <;> rfl

/-- the function `Start` applies to every informer -/
def startOne (mc : MonCfg) (w : World) (i : Informer) : Informer :=
  feed mc (fun i => (mc.list w i.ns i.name).map (fun o => (EvType.added, o))) { i with started := true }

theorem startOne_scope (mc : MonCfg) (w : World) (i : Informer) :
    (startOne mc w i).ns = i.ns ∧ (startOne mc w i).name = i.name := by
  unfold startOne
  exact ⟨(feed_ns mc _ _).1, (feed_ns mc _ _).2⟩

theorem startOne_synced (mc : MonCfg) (w : World) (hn : KeysNodup Obj.key w.objs) (i : Informer)
    (h : Tracks mc.cfg i.cache (matching (mc.pred i.ns i.name) w.objs)) :
    (startOne mc w i).started = true ∧
      Tracks mc.cfg (startOne mc w i).cache (matching (mc.pred (startOne mc w i).ns (startOne mc w i).name) w.objs) := by
  rw [(startOne_scope mc w i).1, (startOne_scope mc w i).2]
  unfold startOne
  refine ⟨by rw [started_feed], ?_⟩
  unfold feed
  simp only [if_true]
  exact tracks_replay mc.cfg (mc.pred i.ns i.name) w.objs i.cache hn h

theorem msync_start (mc : MonCfg) (w : World) (hn : KeysNodup Obj.key w.objs) :
    MSync mc w (startMonitor mc w (createInformers mc w)) ∧
    (mc.nsSel = true → ∀ n, n ∈ vkeys (startMonitor mc w (createInformers mc w)) ↔ nsMatches mc w n = true) := by
  have hnil : mc.nsSel = true → mc.namespaces = [] := fun hs => by simp [MonCfg.namespaces, hs]
  -- the monitor after every informer has been started
  have hA : MSync mc w ((createInformers mc w).mapInformers (startOne mc w)) :=
    { objsNodup := hn
      synced := fun i hi => by
        rw [mapInformers_informers] at hi
        obtain ⟨j, hj, rfl⟩ := List.mem_map.1 hi
        apply startOne_synced mc w hn j
        rw [mem_informers] at hj
        rcases hj with hj | ⟨p, hp, hj⟩
        · rw [createInformers_static] at hj
          obtain ⟨l, hl, hjl⟩ := List.mem_flatten.1 hj
          obtain ⟨ns, _, rfl⟩ := List.mem_map.1 hl
          exact tracks_created mc w hn ns j hjl
        · rw [createInformers_varying] at hp
          obtain ⟨n, _, rfl⟩ := List.mem_map.1 hp
          exact tracks_created mc w hn (some n) j hj
      vcover := fun p hp o => by
        simp only [Monitor.mapInformers, List.mem_map] at hp
        obtain ⟨q, hq, rfl⟩ := hp
        rw [createInformers_varying] at hq
        obtain ⟨n, _, rfl⟩ := List.mem_map.1 hq
        simp only
        rw [covers_map mc _ _ (startOne_scope mc w) o]
        exact createForNs_covers mc _ (some n) o
      scover := fun o => by
        show (∃ i ∈ (createInformers mc w).static.map (startOne mc w), _) ↔ _
        rw [covers_map mc _ _ (startOne_scope mc w) o, createInformers_static]
        constructor
        · rintro ⟨i, hi, hp⟩
          obtain ⟨l, hl, hil⟩ := List.mem_flatten.1 hi
          obtain ⟨ns, hns, rfl⟩ := List.mem_map.1 hl
          have := (createForNs_covers mc (mc.list w) ns o).1 ⟨i, hil, hp⟩
          exact ⟨⟨ns, hns, this.1⟩, this.2⟩
        · rintro ⟨⟨ns, hns, hp⟩, hok⟩
          obtain ⟨i, hi, hpi⟩ := (createForNs_covers mc (mc.list w) ns o).2 ⟨hp, hok⟩
          exact ⟨i, List.mem_flatten.2 ⟨_, List.mem_map.2 ⟨ns, hns, rfl⟩, hi⟩, hpi⟩
      staticNsNil := fun hs => by
        show (createInformers mc w).staticNs = []
        rw [createInformers_staticNs, hnil hs]; rfl }
  unfold startMonitor
  refine ⟨msync_foldl_nsAdded mc w _ _ hA, fun hs n => ?_⟩
  have hsn : ((createInformers mc w).mapInformers (startOne mc w)).staticNs = [] := hA.staticNsNil hs
  show n ∈ vkeys (List.foldl _ ((createInformers mc w).mapInformers (startOne mc w)) _) ↔ _
  rw [vkeys_foldl_nsAdded mc w _ _ n hsn]
  simp only [hs, if_true]
  have hv : n ∈ vkeys ((createInformers mc w).mapInformers (startOne mc w)) ↔
      n ∈ dedupNames ((w.nss.filter (fun p => p.2 == 1)).map (·.1)) := by
    unfold vkeys
    constructor
    · intro h
      obtain ⟨p, hp, rfl⟩ := List.mem_map.1 h
      simp only [Monitor.mapInformers, List.mem_map] at hp
      obtain ⟨q, hq, rfl⟩ := hp
      rw [createInformers_varying] at hq
      obtain ⟨k, hk, rfl⟩ := List.mem_map.1 hq
      simp only [hs, if_true] at hk
      exact (List.mem_filter.1 hk).1
    · intro h
      refine List.mem_map.2 ⟨(n, (createForNs mc.cfg mc.namesEff (mc.list w) (some n)).map (startOne mc w)), ?_, rfl⟩
      simp only [Monitor.mapInformers, List.mem_map]
      refine ⟨(n, createForNs mc.cfg mc.namesEff (mc.list w) (some n)), ?_, rfl⟩
      rw [createInformers_varying]
      refine List.mem_map.2 ⟨n, ?_, rfl⟩
      simp only [hs, if_true]
      exact List.mem_filter.2 ⟨h, by simp [hnil hs]⟩
  rw [hv, mem_existing mc w n hs]
  simp

theorem msync_mapInformers (mc : MonCfg) (w w' : World) (m : Monitor) (f : Informer → Informer)
    (hf : ∀ i, (f i).ns = i.ns ∧ (f i).name = i.name)
    (hn : KeysNodup Obj.key w'.objs)
    (hsy : ∀ i, (i.started = true ∧ Tracks mc.cfg i.cache (matching (mc.pred i.ns i.name) w.objs)) →
      ((f i).started = true ∧ Tracks mc.cfg (f i).cache (matching (mc.pred (f i).ns (f i).name) w'.objs)))
    (h : MSync mc w m) : MSync mc w' (m.mapInformers f) :=
  { objsNodup := hn
    synced := fun i hi => by
      rw [mapInformers_informers] at hi
      obtain ⟨j, hj, rfl⟩ := List.mem_map.1 hi
      exact hsy j (h.synced j hj)
    vcover := fun p hp o => by
      simp only [Monitor.mapInformers, List.mem_map] at hp
      obtain ⟨q, hq, rfl⟩ := hp
      simp only
      rw [covers_map mc _ _ hf o]
      exact h.vcover q hq o
    scover := fun o => by
      show (∃ i ∈ m.static.map f, _) ↔ _
      rw [covers_map mc _ _ hf o]
      exact h.scover o
    staticNsNil := h.staticNsNil }

theorem vkeys_mapInformers (m : Monitor) (f : Informer → Informer) : vkeys (m.mapInformers f) = vkeys m := by
  simp [vkeys, Monitor.mapInformers, List.map_map, Function.comp]

/-- the state invariant of a started monitor -/
def MS (mc : MonCfg) (s : MState) : Prop :=
  s.started = true ∧ MSync mc s.w s.m ∧
    (mc.nsSel = true → ∀ n, n ∈ vkeys s.m ↔ nsMatches mc s.w n = true)

theorem ms_start_again (mc : MonCfg) (s : MState) (h : MS mc s) : MS mc (mstep mc s .start) := by
  obtain ⟨_, hm, hv⟩ := h
  have hA : MSync mc s.w (s.m.mapInformers (startOne mc s.w)) :=
    msync_mapInformers mc s.w s.w s.m _ (startOne_scope mc s.w) hm.objsNodup
      (fun i hi => startOne_synced mc s.w hm.objsNodup i hi.2) hm
  refine ⟨rfl, ?_, fun hs n => ?_⟩
  · exact msync_foldl_nsAdded mc s.w _ _ hA
  · show n ∈ vkeys (List.foldl _ (s.m.mapInformers (startOne mc s.w)) _) ↔ _
    rw [vkeys_foldl_nsAdded mc s.w _ _ n (hA.staticNsNil hs), vkeys_mapInformers]
    simp only [hs, if_true]
    rw [mem_existing mc s.w n hs, hv hs n]
    show _ ↔ nsMatches mc s.w n = true
    simp

theorem ms_obj (mc : MonCfg) (s : MState) (op : COp) (h : MS mc s) : MS mc (mstep mc s (.obj op)) := by
  obtain ⟨hst, hm, hv⟩ := h
  refine ⟨hst, ?_, fun hs n => ?_⟩
  · show MSync mc { s.w with objs := applyOp s.w.objs op } (s.m.mapInformers _)
    refine msync_mapInformers mc s.w _ s.m _ (fun i => feed_ns mc _ _)
      (keysNodup_applyOp _ op hm.objsNodup) (fun i hi => ?_) hm
    rw [(feed_ns mc _ i).1, (feed_ns mc _ i).2]
    refine ⟨by rw [started_feed]; exact hi.1, ?_⟩
    unfold feed
    simp only [hi.1, if_true]
    have := tracks_foldl_watch mc.cfg (watchOf (mc.pred i.ns i.name) s.w.objs op) _ _ hi.2
    exact this.congr (watchOf_spec _ _ _)
  · show n ∈ vkeys (s.m.mapInformers _) ↔ nsMatches mc { s.w with objs := applyOp s.w.objs op } n = true
    rw [vkeys_mapInformers]
    exact hv hs n

theorem msync_world (mc : MonCfg) (w w' : World) (m : Monitor) (ho : w'.objs = w.objs) (h : MSync mc w m) :
    MSync mc w' m :=
  { objsNodup := ho ▸ h.objsNodup
    synced := fun i hi => by rw [ho]; exact h.synced i hi
    vcover := h.vcover
    scover := h.scover
    staticNsNil := h.staticNsNil }

theorem ms_ns (mc : MonCfg) (s : MState) (n : Nat) (lbl : Option Nat) (h : MS mc s) :
    MS mc (mstep mc s (.ns n lbl)) := by
  obtain ⟨hst, hm, hv⟩ := h
  -- the new world
  let nss' : List (Nat × Nat) := match lbl with
    | some l => (s.w.nss.filter (·.1 != n)) ++ [(n, l)]
    | none => s.w.nss.filter (·.1 != n)
  let w' : World := { s.w with nss := nss' }
  have hw : (nsStep mc s.started s.w s.m n lbl).1 = w' := rfl
  have hm' : MSync mc w' s.m := msync_world mc s.w w' s.m rfl hm
  cases hsel : mc.nsSel with
  | false =>
    have hmm : (nsStep mc s.started s.w s.m n lbl).2 = s.m := by
      unfold nsStep; simp [hsel]
    refine ⟨hst, ?_, fun hs => by rw [hsel] at hs; cases hs⟩
    show MSync mc (nsStep mc s.started s.w s.m n lbl).1 (nsStep mc s.started s.w s.m n lbl).2
    rw [hw, hmm]; exact hm'
  | true =>
    have hsn := hm.staticNsNil hsel
    have hother : ∀ n', n' ≠ n → (nsMatches mc w' n' = true ↔ nsMatches mc s.w n' = true) := by
      intro n' hne
      rw [nsMatches_iff mc w' n' hsel, nsMatches_iff mc s.w n' hsel]
      show (n', 1) ∈ nss' ↔ _
      cases lbl with
      | none => simp [nss', hne]
      | some l => simp [nss', hne]
    have hmm : (nsStep mc s.started s.w s.m n lbl).2 =
        (if (!nsMatches mc s.w n && nsMatches mc w' n) = true then nsAdded mc.cfg mc.namesEff (mc.list w') s.m n
         else if (nsMatches mc s.w n && !nsMatches mc w' n) = true then nsDeleted s.m n else s.m) := by
      have hc : (!s.started || !mc.nsSel) = false := by simp [hsel, hst]
      unfold nsStep
      simp only [hc, Bool.false_eq_true, if_false]
      rfl
    refine ⟨hst, ?_, fun _ n' => ?_⟩
    · show MSync mc (nsStep mc s.started s.w s.m n lbl).1 (nsStep mc s.started s.w s.m n lbl).2
      rw [hw, hmm]
      split
      · exact msync_nsAdded mc w' s.m n hm'
      · split
        · exact msync_nsDeleted mc w' s.m n hm'
        · exact hm'
    · show n' ∈ vkeys (nsStep mc s.started s.w s.m n lbl).2 ↔ nsMatches mc (nsStep mc s.started s.w s.m n lbl).1 n' = true
      rw [hw, hmm]
      by_cases hne : n' = n
      · subst hne
        have hold := hv hsel n'
        cases hwas : nsMatches mc s.w n' <;> cases hnow : nsMatches mc w' n'
        · simp [hwas, hnow] at hold ⊢; exact hold
        · simp [hwas, hnow, vkeys_nsAdded mc w' s.m n' n' hsn]
        · simp [hwas, hnow, vkeys_nsDeleted s.m n' n' hsn]
        · simp [hwas, hnow] at hold ⊢; exact hold
      · rw [hother n' hne, ← hv hsel n']
        split
        · rw [vkeys_nsAdded mc w' s.m n n' hsn]; simp [hne]
        · split
          · rw [vkeys_nsDeleted s.m n n' hsn]; simp [hne]
          · exact Iff.rfl

theorem ms_run (mc : MonCfg) (w0 : World) (hw0 : KeysNodup Obj.key w0.objs) (rest : List MStep) :
    MS mc (runMonitor mc w0 (.start :: rest)) := by
  unfold runMonitor
  simp only [List.foldl_cons]
  have h0 : MS mc (mstep mc { w := w0, m := createInformers mc w0 } .start) :=
    ⟨rfl, (msync_start mc w0 hw0).1, (msync_start mc w0 hw0).2⟩
  generalize mstep mc { w := w0, m := createInformers mc w0 } .start = s at h0
  induction rest generalizing s with
  | nil => exact h0
  | cons st t ih =>
    simp only [List.foldl_cons]
    apply ih
    cases st with
    | start => exact ms_start_again mc s h0
    | obj op => exact ms_obj mc s op h0
    | ns n lbl => exact ms_ns mc s n lbl h0

/-! ### the cluster moves between AddMonitor and StartMonitor without losing anything -/

/-- Nothing that mattered at AddMonitor time (world `w0`) is lost by StartMonitor time (world `w1`):
namespaces that matched the namespace selector still match, objects that matched the binding's
kind / label / field selector still exist under their key and still match. New objects, new
namespaces, in-place modifications are all allowed. The excluded histories are the recorded
finding `ghost-after-gap-delete`. -/
def GapSafe (mc : MonCfg) (w0 w1 : World) : Prop :=
  (∀ n, nsMatches mc w0 n = true → nsMatches mc w1 n = true) ∧
  (∀ k o, kget Obj.key w0.objs k = some o → mc.pred none none o = true →
    ∃ o', kget Obj.key w1.objs k = some o' ∧ mc.pred none none o' = true)

theorem gapSafe_scope (mc : MonCfg) (w0 w1 : World) (h : GapSafe mc w0 w1) (ns nm : Option Nat) (k : Key)
    (hk : (matching (mc.pred ns nm) w0.objs k).isSome = true) :
    (matching (mc.pred ns nm) w1.objs k).isSome = true := by
  unfold matching at hk ⊢
  cases hg : kget Obj.key w0.objs k with
  | none => simp [hg] at hk
  | some o =>
    rw [hg] at hk
    have hp : mc.pred ns nm o = true := by
      by_cases hq : mc.pred ns nm o = true
      · exact hq
      · simp [Option.filter, hq] at hk
    rw [pred_eq] at hp
    simp only [Bool.and_eq_true] at hp
    obtain ⟨o', hg', hp'⟩ := h.2 k o hg hp.1.1
    have hk0 : o.key = k := (mem_of_kget _ _ _ _ hg).2
    have hk1 : o'.key = k := (mem_of_kget _ _ _ _ hg').2
    have hq : mc.pred ns nm o' = true := by
      rw [pred_eq]
      simp only [Bool.and_eq_true]
      refine ⟨⟨hp', ?_⟩, ?_⟩
      · have := hp.1.2; unfold nsok at this ⊢; rw [hk1, ← hk0]; exact this
      · have := hp.2; unfold nmok at this ⊢; rw [hk1, ← hk0]; exact this
    rw [hg']
    simp [Option.filter, hq]

/-- registration replay in a later world: fine when nothing of this scope was lost -/
theorem tracks_replay_gap (cfg : Cfg) (p : Obj → Bool) (objs0 objs1 : Cluster) (c : Cache)
    (hn : KeysNodup Obj.key objs1) (h : Tracks cfg c (matching p objs0))
    (hgap : ∀ k, (matching p objs0 k).isSome = true → (matching p objs1 k).isSome = true) :
    Tracks cfg (((objs1.filter p).map (fun o => (EvType.added, o))).foldl
      (fun c ev => (handleWatch cfg c ev.1 ev.2).1) c) (matching p objs1) := by
  refine (tracks_foldl_watch cfg _ _ _ h).congr (fun k => ?_)
  rw [foldl_adds, find?_reverse_of_nodup Obj.key _ (keysNodup_filter _ _ _ hn)]
  have := kget_filter Obj.key p objs1 k hn
  unfold kget at this
  rw [this]
  show (match matching p objs1 k with | some o => some o | none => matching p objs0 k) = _
  cases h1 : matching p objs1 k with
  | some o => rfl
  | none =>
    cases h0 : matching p objs0 k with
    | none => rfl
    | some o => have := hgap k (by simp [h0]); simp [h1] at this

theorem mapInformers_id (m : Monitor) (f : Informer → Informer) (h : ∀ i ∈ m.informers, f i = i) :
    m.mapInformers f = m := by
  have hs : m.static.map f = m.static := by
    have : ∀ i ∈ m.static, f i = id i := fun i hi => h i ((mem_informers m i).2 (Or.inl hi))
    rw [List.map_congr_left this, List.map_id]
  have hv : m.varying.map (fun p => (p.1, p.2.map f)) = m.varying := by
    have : ∀ p ∈ m.varying, (fun p : Nat × List Informer => (p.1, p.2.map f)) p = id p := by
      intro p hp
      have : ∀ i ∈ p.2, f i = id i := fun i hi => h i ((mem_informers m i).2 (Or.inr ⟨p, hp, hi⟩))
      simp only [id, List.map_congr_left this, List.map_id]
    rw [List.map_congr_left this, List.map_id]
  unfold Monitor.mapInformers
  rw [hs, hv]

theorem createInformers_notStarted (mc : MonCfg) (w : World) :
    ∀ i ∈ (createInformers mc w).informers, i.started = false := by
  intro i hi
  rw [mem_informers] at hi
  have hc : ∀ ns, ∀ j ∈ createForNs mc.cfg mc.namesEff (mc.list w) ns, j.started = false := by
    intro ns j hj
    unfold createForNs at hj
    obtain ⟨nm, _, rfl⟩ := List.mem_map.1 hj
    rfl
  rcases hi with hi | ⟨p, hp, hi⟩
  · rw [createInformers_static] at hi
    obtain ⟨l, hl, hil⟩ := List.mem_flatten.1 hi
    obtain ⟨ns, _, rfl⟩ := List.mem_map.1 hl
    exact hc ns i hil
  · rw [createInformers_varying] at hp
    obtain ⟨n, _, rfl⟩ := List.mem_map.1 hp
    exact hc (some n) i hi

/-- before StartMonitor nothing reaches the monitor: cluster steps change the world only -/
theorem gap_steps (mc : MonCfg) (gap : List MStep) (hg : ∀ st ∈ gap, st ≠ MStep.start) (s : MState)
    (hs : s.started = false) (hi : ∀ i ∈ s.m.informers, i.started = false) :
    (gap.foldl (mstep mc) s).m = s.m ∧ (gap.foldl (mstep mc) s).started = false := by
  induction gap generalizing s with
  | nil => exact ⟨rfl, hs⟩
  | cons st t ih =>
    simp only [List.foldl_cons]
    have hst : (mstep mc s st).m = s.m ∧ (mstep mc s st).started = false := by
      cases st with
      | start => exact absurd rfl (hg _ List.mem_cons_self)
      | obj op =>
        refine ⟨?_, hs⟩
        show s.m.mapInformers _ = s.m
        apply mapInformers_id
        intro i hii
        unfold feed
        simp [hi i hii]
      | ns n lbl =>
        refine ⟨?_, hs⟩
        show (nsStep mc s.started s.w s.m n lbl).2 = s.m
        unfold nsStep
        simp [hs]
    obtain ⟨h1, h2⟩ := ih (fun st' h' => hg st' (List.mem_cons_of_mem _ h')) (mstep mc s st) hst.2
      (by rw [hst.1]; exact hi)
    exact ⟨h1.trans hst.1, h2⟩

theorem keysNodup_gap (mc : MonCfg) (gap : List MStep) (s : MState) (h : KeysNodup Obj.key s.w.objs) :
    KeysNodup Obj.key (gap.foldl (mstep mc) s).w.objs := by
  induction gap generalizing s with
  | nil => exact h
  | cons st t ih =>
    simp only [List.foldl_cons]
    apply ih
    cases st with
    | start => exact h
    | obj op => exact keysNodup_applyOp _ op h
    | ns n lbl => exact h

theorem msync_start_gap (mc : MonCfg) (w0 w1 : World) (hn0 : KeysNodup Obj.key w0.objs)
    (hn : KeysNodup Obj.key w1.objs) (hgap : GapSafe mc w0 w1) :
    MSync mc w1 (startMonitor mc w1 (createInformers mc w0)) ∧
    (mc.nsSel = true → ∀ n, n ∈ vkeys (startMonitor mc w1 (createInformers mc w0)) ↔ nsMatches mc w1 n = true) := by
  have hnil : mc.nsSel = true → mc.namespaces = [] := fun hs => by simp [MonCfg.namespaces, hs]
  have hstart : ∀ j : Informer, Tracks mc.cfg j.cache (matching (mc.pred j.ns j.name) w0.objs) →
      ((startOne mc w1 j).started = true ∧
        Tracks mc.cfg (startOne mc w1 j).cache
          (matching (mc.pred (startOne mc w1 j).ns (startOne mc w1 j).name) w1.objs)) := by
    intro j hj
    rw [(startOne_scope mc w1 j).1, (startOne_scope mc w1 j).2]
    unfold startOne
    refine ⟨by rw [started_feed], ?_⟩
    unfold feed
    simp only [if_true]
    exact tracks_replay_gap mc.cfg (mc.pred j.ns j.name) w0.objs w1.objs j.cache hn hj
      (gapSafe_scope mc w0 w1 hgap j.ns j.name)
  have hA : MSync mc w1 ((createInformers mc w0).mapInformers (startOne mc w1)) :=
    { objsNodup := hn
      synced := fun i hi => by
        rw [mapInformers_informers] at hi
        obtain ⟨j, hj, rfl⟩ := List.mem_map.1 hi
        apply hstart j
        rw [mem_informers] at hj
        rcases hj with hj | ⟨p, hp, hj⟩
        · rw [createInformers_static] at hj
          obtain ⟨l, hl, hjl⟩ := List.mem_flatten.1 hj
          obtain ⟨ns, _, rfl⟩ := List.mem_map.1 hl
          exact tracks_created mc w0 hn0 ns j hjl
        · rw [createInformers_varying] at hp
          obtain ⟨n, _, rfl⟩ := List.mem_map.1 hp
          exact tracks_created mc w0 hn0 (some n) j hj
      vcover := fun p hp o => by
        simp only [Monitor.mapInformers, List.mem_map] at hp
        obtain ⟨q, hq, rfl⟩ := hp
        rw [createInformers_varying] at hq
        obtain ⟨n, _, rfl⟩ := List.mem_map.1 hq
        simp only
        rw [covers_map mc _ _ (startOne_scope mc w1) o]
        exact createForNs_covers mc _ (some n) o
      scover := fun o => by
        show (∃ i ∈ (createInformers mc w0).static.map (startOne mc w1), _) ↔ _
        rw [covers_map mc _ _ (startOne_scope mc w1) o, createInformers_static]
        constructor
        · rintro ⟨i, hi, hp⟩
          obtain ⟨l, hl, hil⟩ := List.mem_flatten.1 hi
          obtain ⟨ns, hns, rfl⟩ := List.mem_map.1 hl
          have := (createForNs_covers mc (mc.list w0) ns o).1 ⟨i, hil, hp⟩
          exact ⟨⟨ns, hns, this.1⟩, this.2⟩
        · rintro ⟨⟨ns, hns, hp⟩, hok⟩
          obtain ⟨i, hi, hpi⟩ := (createForNs_covers mc (mc.list w0) ns o).2 ⟨hp, hok⟩
          exact ⟨i, List.mem_flatten.2 ⟨_, List.mem_map.2 ⟨ns, hns, rfl⟩, hi⟩, hpi⟩
      staticNsNil := fun hs => by
        show (createInformers mc w0).staticNs = []
        rw [createInformers_staticNs, hnil hs]; rfl }
  unfold startMonitor
  refine ⟨msync_foldl_nsAdded mc w1 _ _ hA, fun hs n => ?_⟩
  have hsn : ((createInformers mc w0).mapInformers (startOne mc w1)).staticNs = [] := hA.staticNsNil hs
  show n ∈ vkeys (List.foldl _ ((createInformers mc w0).mapInformers (startOne mc w1)) _) ↔ _
  rw [vkeys_foldl_nsAdded mc w1 _ _ n hsn]
  simp only [hs, if_true]
  have hv : n ∈ vkeys ((createInformers mc w0).mapInformers (startOne mc w1)) ↔
      n ∈ dedupNames ((w0.nss.filter (fun p => p.2 == 1)).map (·.1)) := by
    unfold vkeys
    constructor
    · intro h
      obtain ⟨p, hp, rfl⟩ := List.mem_map.1 h
      simp only [Monitor.mapInformers, List.mem_map] at hp
      obtain ⟨q, hq, rfl⟩ := hp
      rw [createInformers_varying] at hq
      obtain ⟨k, hk, rfl⟩ := List.mem_map.1 hq
      simp only [hs, if_true] at hk
      exact (List.mem_filter.1 hk).1
    · intro h
      refine List.mem_map.2 ⟨(n, (createForNs mc.cfg mc.namesEff (mc.list w0) (some n)).map (startOne mc w1)), ?_, rfl⟩
      simp only [Monitor.mapInformers, List.mem_map]
      refine ⟨(n, createForNs mc.cfg mc.namesEff (mc.list w0) (some n)), ?_, rfl⟩
      rw [createInformers_varying]
      refine List.mem_map.2 ⟨n, ?_, rfl⟩
      simp only [hs, if_true]
      exact List.mem_filter.2 ⟨h, by simp [hnil hs]⟩
  rw [hv, mem_existing mc w0 n hs, mem_existing mc w1 n hs]
  constructor
  · rintro (h | h)
    · exact hgap.1 n h
    · exact h
  · exact Or.inr

theorem ms_run_gap (mc : MonCfg) (w0 : World) (hw0 : KeysNodup Obj.key w0.objs)
    (gap rest : List MStep) (hg : ∀ st ∈ gap, st ≠ MStep.start)
    (hsafe : GapSafe mc w0 (gap.foldl (mstep mc) { w := w0, m := createInformers mc w0 }).w) :
    MS mc (runMonitor mc w0 (gap ++ .start :: rest)) := by
  unfold runMonitor
  rw [List.foldl_append]
  simp only [List.foldl_cons]
  obtain ⟨hm, hst⟩ := gap_steps mc gap hg { w := w0, m := createInformers mc w0 } rfl
    (createInformers_notStarted mc w0)
  have hn1 := keysNodup_gap mc gap { w := w0, m := createInformers mc w0 } hw0
  generalize gap.foldl (mstep mc) { w := w0, m := createInformers mc w0 } = s1 at hm hst hn1 hsafe
  have h0 : MS mc (mstep mc s1 .start) := by
    have := msync_start_gap mc w0 s1.w hw0 hn1 hsafe
    have hm' : s1.m = createInformers mc w0 := hm
    refine ⟨rfl, ?_, ?_⟩
    · show MSync mc s1.w (startMonitor mc s1.w s1.m)
      rw [hm']; exact this.1
    · show mc.nsSel = true → ∀ n, n ∈ vkeys (startMonitor mc s1.w s1.m) ↔ nsMatches mc s1.w n = true
      rw [hm']; exact this.2
  generalize mstep mc s1 .start = s at h0
  induction rest generalizing s with
  | nil => exact h0
  | cons st t ih =>
    simp only [List.foldl_cons]
    apply ih
    cases st with
    | start => exact ms_start_again mc s h0
    | obj op => exact ms_obj mc s op h0
    | ns n lbl => exact ms_ns mc s n lbl h0

end ShellOp.Snapshot
