import ShellOp.Model.Queue
/-! Helper lemmas: every code-shaped primitive of `Model/Queue` computes the list operation. -/
namespace ShellOp.Queue

open Spec

theorem addFirst_map (q : List Id) (t : Id) : addFirst (q.map some) t = (t :: q).map some := rfl

theorem addLast_map (q : List Id) (t : Id) : addLast (q.map some) t = (q ++ [t]).map some := by
  simp [addLast]

theorem removeFirst_map (q : List Id) :
    removeFirst (q.map some) = (q.head?, q.tail.map some) := by
  cases q <;> simp [removeFirst]

theorem removeLast_map (q : List Id) :
    removeLast (q.map some) = (q.getLast?, q.dropLast.map some) := by
  unfold removeLast
  rcases h : q.getLast? with _ | t
  · have : q = [] := by simpa using h
    subst this; simp
  · simp [List.getLast?_map, h, List.dropLast_eq_take]

theorem getFirst_map (q : List Id) : getFirst (q.map some) = q.head? := by
  cases q <;> simp [getFirst]

theorem idFound_map (q : List Id) (id : Id) : idFound (q.map some) id = decide (id ∈ q) := by
  induction q with
  | nil => simp [idFound]
  | cons x xs ih =>
    simp only [idFound, List.map_cons, List.any_cons] at ih ⊢
    rw [ih]
    by_cases h : x = id
    · simp [h]
    · have h' : ¬ id = x := fun e => h e.symm
      simp [h, h']

theorem addAfterLoop_true (q : List Id) (id new : Id) :
    addAfterLoop id new (q.map some) true = q.map some := by
  induction q with
  | nil => simp [addAfterLoop]
  | cons x xs ih => simp [addAfterLoop, ih]

theorem addAfterLoop_false (q : List Id) (id new : Id) (h : id ∈ q) :
    addAfterLoop id new (q.map some) false = (insertAfter q id new).map some := by
  induction q with
  | nil => simp at h
  | cons x xs ih =>
    by_cases hx : x = id
    · subst hx
      simp [addAfterLoop, insertAfter, addAfterLoop_true]
    · have hmem : id ∈ xs := by
        rcases List.mem_cons.mp h with h | h
        · exact absurd h.symm hx
        · exact h
      simp [addAfterLoop, insertAfter, hx, ih hmem]

theorem insertAfter_not_mem (q : List Id) (id new : Id) (h : id ∉ q) : insertAfter q id new = q := by
  induction q with
  | nil => rfl
  | cons x xs ih =>
    have hx : x ≠ id := fun e => h (by simp [e])
    have hxs : id ∉ xs := fun e => h (by simp [e])
    simp [insertAfter, hx, ih hxs]

theorem addAfter_map (q : List Id) (id new : Id) :
    addAfter (q.map some) id new = (insertAfter q id new).map some := by
  unfold addAfter
  rw [idFound_map]
  by_cases h : id ∈ q
  · simp [h, addAfterLoop_false q id new h]
  · simp [h, insertAfter_not_mem q id new h]

theorem addBeforeLoop_true (q : List Id) (id new : Id) :
    addBeforeLoop id new (q.map some) true = q.map some := by
  induction q with
  | nil => simp [addBeforeLoop]
  | cons x xs ih => simp [addBeforeLoop, ih]

theorem addBeforeLoop_false (q : List Id) (id new : Id) (h : id ∈ q) :
    addBeforeLoop id new (q.map some) false = (insertBefore q id new).map some := by
  induction q with
  | nil => simp at h
  | cons x xs ih =>
    by_cases hx : x = id
    · subst hx
      simp [addBeforeLoop, insertBefore, addBeforeLoop_true]
    · have hmem : id ∈ xs := by
        rcases List.mem_cons.mp h with h | h
        · exact absurd h.symm hx
        · exact h
      simp [addBeforeLoop, insertBefore, hx, ih hmem]

theorem insertBefore_not_mem (q : List Id) (id new : Id) (h : id ∉ q) :
    insertBefore q id new = q := by
  induction q with
  | nil => rfl
  | cons x xs ih =>
    have hx : x ≠ id := fun e => h (by simp [e])
    have hxs : id ∉ xs := fun e => h (by simp [e])
    simp [insertBefore, hx, ih hxs]

theorem addBefore_map (q : List Id) (id new : Id) :
    addBefore (q.map some) id new = (insertBefore q id new).map some := by
  unfold addBefore
  rw [idFound_map]
  by_cases h : id ∈ q
  · simp [h, addBeforeLoop_false q id new h]
  · simp [h, insertBefore_not_mem q id new h]

theorem removeGo_map (q : List Id) (id : Id) :
    (removeGo (q.map some) id).2 = (q.erase id).map some := by
  induction q with
  | nil => simp [removeGo]
  | cons x xs ih =>
    by_cases hx : x = id
    · subst hx; simp [removeGo]
    · simp [removeGo, hx, List.erase_cons_tail, ih]

theorem removeGo_fst (q : List Id) (id : Id) :
    (removeGo (q.map some) id).1 = if id ∈ q then some id else none := by
  induction q with
  | nil => simp [removeGo]
  | cons x xs ih =>
    by_cases hx : x = id
    · subst hx; simp [removeGo]
    · have : ¬ id = x := fun e => hx e.symm
      simp [removeGo, hx, ih, this]

theorem filter_map (q : List Id) (keep : Id → Bool) :
    filter (q.map some) keep = (q.filter keep).map some := by
  induction q with
  | nil => simp [filter]
  | cons x xs ih =>
    simp only [filter, List.map_cons, List.filter_cons] at ih ⊢
    by_cases h : keep x <;> simp [h, ih]

/-- Inserting `a₁ … aₙ` one by one in reverse order after `t` puts them, in order, behind the first
occurrence of `t`. -/
theorem foldl_insertAfter (q : List Id) (t : Id) (after : List Id) (h : t ∈ q) :
    after.reverse.foldl (fun q a => insertAfter q t a) q
      = q.takeWhile (· ≠ t) ++ t :: after ++ (q.dropWhile (· ≠ t)).tail := by
  induction q with
  | nil => simp at h
  | cons x xs ih =>
    by_cases hx : x = t
    · subst hx
      clear ih h
      have key : ∀ (l acc : List Id),
          l.foldl (fun q a => insertAfter q x a) (x :: acc) = x :: (l.reverse ++ acc) := by
        intro l
        induction l with
        | nil => intro acc; simp
        | cons a l ihl => intro acc; simp [insertAfter, ihl]
      simp [key]
    · have hmem : t ∈ xs := by
        rcases List.mem_cons.mp h with h | h
        · exact absurd h.symm hx
        · exact h
      have key : ∀ (l q' : List Id),
          l.foldl (fun q a => insertAfter q t a) (x :: q')
            = x :: l.foldl (fun q a => insertAfter q t a) q' := by
        intro l
        induction l with
        | nil => intro q'; rfl
        | cons a l ihl => intro q'; simp [insertAfter, hx, ihl]
      rw [key, ih hmem]
      simp [hx]

theorem foldl_insertAfter_not_mem (q : List Id) (t : Id) (l : List Id) (h : t ∉ q) :
    l.foldl (fun q a => insertAfter q t a) q = q := by
  induction l with
  | nil => rfl
  | cons a l ih => simp [insertAfter_not_mem q t a h, ih]

theorem foldl_addAfter_map (l : List Id) (q : List Id) (t : Id) :
    l.foldl (fun q a => addAfter q t a) (q.map some)
      = (l.foldl (fun q a => insertAfter q t a) q).map some := by
  induction l generalizing q with
  | nil => rfl
  | cons a l ih => simp [addAfter_map, ih]

theorem foldl_addFirst_map (l : List Id) (q : List Id) :
    l.reverse.foldl addFirst (q.map some) = (l ++ q).map some := by
  induction l generalizing q with
  | nil => rfl
  | cons a l ih =>
    simp only [List.reverse_cons, List.foldl_append, List.foldl_cons, List.foldl_nil]
    rw [ih]; rfl

theorem foldl_addLast_map (l : List Id) (q : List Id) :
    l.foldl addLast (q.map some) = (q ++ l).map some := by
  induction l generalizing q with
  | nil => simp
  | cons a l ih =>
    simp only [List.foldl_cons]
    rw [addLast_map, ih]; simp

theorem applyResult_map (q : List Id) (t : Id) (st : Status) (h a tl : List Id) :
    applyResult (q.map some) t st h a tl = (Spec.applyResult q t st h a tl).map some := by
  cases st
  case fail => rfl
  case «repeat» => rfl
  case success =>
    simp only [applyResult, Spec.applyResult, if_true]
    rw [foldl_addAfter_map, remove, removeGo_map, foldl_addFirst_map, foldl_addLast_map]
    by_cases hm : t ∈ q
    · rw [foldl_insertAfter q t a hm]; simp [hm]
    · rw [foldl_insertAfter_not_mem q t _ hm]; simp [hm]
  case keep =>
    simp only [applyResult, Spec.applyResult, reduceCtorEq, if_false]
    rw [foldl_addAfter_map, foldl_addFirst_map, foldl_addLast_map]
    by_cases hm : t ∈ q
    · rw [foldl_insertAfter q t a hm]; simp [hm]
    · rw [foldl_insertAfter_not_mem q t _ hm]; simp [hm]

end ShellOp.Queue
