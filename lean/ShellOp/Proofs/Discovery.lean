import ShellOp.Model.Discovery
/-! Helper lemmas for C20: the tests of file.go say what the property's wording says; the pruned walk
computes the filter over all files; paths of a well-formed tree are distinct. -/
namespace ShellOp.Discovery

theorem hasPrefix_dot (n : Name) : hasPrefix n [dot] = startsWithDot n := by
  cases n with
  | nil => rfl
  | cons c cs => simp [hasPrefix, startsWithDot]

/-- a non-empty result of `ext` starts with a dot -/
theorem ext_head (n : Name) : ext n = [] ∨ ∃ s, ext n = dot :: s := by
  induction n with
  | nil => left; rfl
  | cons c cs ih =>
    unfold ext
    rcases ih with h | ⟨s, h⟩
    · rw [h]; by_cases hc : c = dot
      · right; exact ⟨cs, by simp [hc]⟩
      · left; simp [hc]
    · rw [h]; right; exact ⟨s, rfl⟩

theorem ext_nil_iff (n : Name) : ext n = [] ↔ dot ∉ n := by
  induction n with
  | nil => simp [ext]
  | cons c cs ih =>
    unfold ext
    rcases h : ext cs with _ | ⟨a, r⟩
    · have := ih.mp h
      by_cases hc : c = dot
      · simp [hc]
      · have hc' : ¬ dot = c := fun e => hc e.symm
        simp [hc, hc', this]
    · have hne : ext cs ≠ [] := by simp [h]
      have : dot ∈ cs := by
        apply Classical.byContradiction; intro hn; exact hne (ih.mpr hn)
      simp [this]

/-- `filepath.Ext(n) = "." ++ s` (s without a dot) iff `n` ends in `"." ++ s`. -/
theorem ext_eq_iff (n s : Name) (hs : dot ∉ s) : ext n = dot :: s ↔ (dot :: s) <:+ n := by
  induction n with
  | nil => simp [ext]
  | cons c cs ih =>
    unfold ext
    rcases h : ext cs with _ | ⟨a, r⟩
    · have hcs : dot ∉ cs := (ext_nil_iff cs).mp h
      have hnot : ¬ (dot :: s) <:+ cs := by
        intro hsuf; exact hcs (hsuf.subset (List.mem_cons_self ..))
      rw [List.suffix_cons_iff]
      by_cases hc : c = dot
      · subst hc
        simp only [beq_self_eq_true, if_true]
        constructor
        · intro he; left; exact he.symm
        · rintro (he | hsuf)
          · exact he.symm
          · exact (hnot hsuf).elim
      · simp only [beq_iff_eq, hc, if_false]
        constructor
        · intro he; cases he
        · rintro (he | hsuf)
          · injection he with h1 _; exact (hc h1.symm).elim
          · exact (hnot hsuf).elim
    · simp only
      rw [← h, ih, List.suffix_cons_iff]
      constructor
      · intro hsuf; right; exact hsuf
      · rintro (he | hsuf)
        · -- the whole name is ".s": then cs = s has no dot, but ext cs ≠ []
          injection he with _ h2
          have : ext cs = [] := (ext_nil_iff cs).mpr (h2 ▸ hs)
          rw [this] at h; cases h
        · exact hsuf

theorem and_two_pow_eq_zero (m k : Nat) : m &&& 2 ^ k = 0 ↔ m.testBit k = false := by
  constructor
  · intro h
    have := congrArg (fun x => x.testBit k) h
    simpa [Nat.testBit_and, Nat.testBit_two_pow] using this
  · intro h
    apply Nat.eq_of_testBit_eq
    intro i
    by_cases hi : k = i
    · subst hi; simp [Nat.testBit_and, h]
    · simp [Nat.testBit_and, hi]

/-- `mode & 0o111 == 0` iff none of the three execute bits is set -/
theorem execMask_spec (m : Nat) : (m &&& 73 == 0) = !hasExecBit m := by
  have h73 : (73 : Nat) = 2 ^ 6 ||| (2 ^ 3 ||| 2 ^ 0) := by decide
  have e : (m &&& 73 = 0) ↔ (m.testBit 6 = false ∧ m.testBit 3 = false ∧ m.testBit 0 = false) := by
    rw [h73, Nat.and_or_distrib_left, Nat.and_or_distrib_left, Nat.or_eq_zero_iff, Nat.or_eq_zero_iff,
      and_two_pow_eq_zero, and_two_pow_eq_zero, and_two_pow_eq_zero]
  unfold hasExecBit
  by_cases h : m &&& 73 = 0
  · have := e.mp h; simp [h, this.1, this.2.1, this.2.2]
  · have h' : ¬ (m.testBit 6 = false ∧ m.testBit 3 = false ∧ m.testBit 0 = false) := fun x => h (e.mpr x)
    have hb : (m &&& 73 == 0) = false := by simp [h]
    rw [hb]
    cases h0 : m.testBit 0 <;> cases h3 : m.testBit 3 <;> cases h6 : m.testBit 6 <;> simp_all

/-- the property's file test, documented literals -/
def fileOk (n : Name) (m : Nat) : Bool :=
  hasExecBit m && !startsWithDot n && !docExts.any (endsIn n)
/-- the property's directory test, documented literals -/
def dirOk (d : Name) : Bool := d != docLib && !startsWithDot d

theorem isHookEntry_eq (e : Entry) : isHookEntry e = (fileOk e.name e.mode && e.dirs.all dirOk) := rfl

theorem mem_docExts_shape {x : Name} (hx : x ∈ docExts) : ∃ s, x = dot :: s ∧ dot ∉ s := by
  simp only [docExts, List.map_cons, List.map_nil, List.mem_cons, List.not_mem_nil, or_false] at hx
  rcases hx with h | h | h | h <;> subst h
  · exact ⟨bytesOf "yaml", by decide, by decide⟩
  · exact ⟨bytesOf "json", by decide, by decide⟩
  · exact ⟨bytesOf "md", by decide, by decide⟩
  · exact ⟨bytesOf "txt", by decide, by decide⟩

theorem ext_mem_docExts (n : Name) : docExts.contains (ext n) = docExts.any (endsIn n) := by
  rw [Bool.eq_iff_iff]
  simp only [List.contains_iff_mem, List.any_eq_true, endsIn, List.isSuffixOf_iff_suffix]
  constructor
  · intro h
    obtain ⟨s, hx, hs⟩ := mem_docExts_shape h
    exact ⟨ext n, h, by rw [hx]; exact (ext_eq_iff n s hs).mp hx⟩
  · rintro ⟨x, hx, hsuf⟩
    obtain ⟨s, hxs, hs⟩ := mem_docExts_shape hx
    subst hxs
    rw [(ext_eq_iff n s hs).mpr hsuf]; exact hx

/-- With the tables as documented, `checkExecutableHookFile` accepts exactly the property's files. -/
theorem check_ok_iff (hp : hiddenPrefix = [dot]) (he : excludedExts = docExts) (hm : execMask = 73)
    (n : Name) (m : Nat) : (checkExecutableHookFile n m == .ok) = fileOk n m := by
  unfold checkExecutableHookFile fileOk
  rw [hp, he, hm, hasPrefix_dot, ext_mem_docExts]
  have hx := execMask_spec m
  cases h1 : startsWithDot n <;> cases h2 : docExts.any (endsIn n) <;> cases h3 : hasExecBit m <;>
    simp_all <;> decide

theorem skipDir_eq (hp : hiddenPrefix = [dot]) (hd : excludedDirs = [docLib]) (d : Name) :
    skipDir d = !dirOk d := by
  unfold skipDir dirOk
  rw [hp, hd, hasPrefix_dot]
  cases h1 : startsWithDot d <;> by_cases h2 : d = docLib <;> simp [h2]

/-! ## The pruned walk computes the filter over all files -/

structure Tables : Prop where
  hp : hiddenPrefix = [dot]
  he : excludedExts = docExts
  hd : excludedDirs = [docLib]
  hm : execMask = 73

mutual
theorem walk_eq_filter (T : Tables) (ex : Bool) (path : Path) : (t : Tree) →
    walk ex false path t = ((allFiles path t).filter isHookEntry).map (·.path)
  | .file n m o => by
    simp only [walk, allFiles, check_ok_iff T.hp T.he T.hm]
    by_cases h : fileOk n m <;> simp [List.filter, isHookEntry_eq, h]
  | .dir n cs => by
    simp only [walk, allFiles, Bool.and_false, Bool.not_false, Bool.true_and, skipDir_eq T.hp T.hd]
    by_cases h : dirOk n
    · simp only [h, Bool.not_true, Bool.false_eq_true, if_false]
      rw [walkList_eq_filter T ex path cs, List.filter_map, List.map_map]
      congr 1
      apply List.filter_congr
      intro e _
      simp [isHookEntry_eq, h]
    · simp only [h, Bool.not_false, if_true, List.filter_map]
      symm
      simp [isHookEntry_eq, h]
theorem walkList_eq_filter (T : Tables) (ex : Bool) (dir : Path) : (ts : List Tree) →
    walkList ex dir ts = ((allFilesList dir ts).filter isHookEntry).map (·.path)
  | [] => by simp [walkList, allFilesList]
  | t :: ts => by
    simp only [walkList, allFilesList, List.filter_append, List.map_append]
    rw [walk_eq_filter T ex _ t, walkList_eq_filter T ex dir ts]
end

/-- the walk with the root exempted computes the property's set (as a list, in walk order) -/
theorem discover_eq_spec (T : Tables) (rootPath : Path) (rn : Name) (cs : List Tree) :
    walk true true rootPath (.dir rn cs) = specPaths rootPath (.dir rn cs) := by
  simp [walk, specPaths, entries, walkList_eq_filter T]

/-! ## Distinct paths in a well-formed tree -/

def Tail (r : List Nat) : Prop := r = [] ∨ ∃ r', r = sep :: r'

theorem name_cancel : (n₁ n₂ r₁ r₂ : List Nat) → sep ∉ n₁ → sep ∉ n₂ → Tail r₁ → Tail r₂ →
    n₁ ++ r₁ = n₂ ++ r₂ → n₁ = n₂
  | [], [], _, _, _, _, _, _, _ => rfl
  | [], b :: n₂, r₁, r₂, _, h₂, t₁, _, h => by
    rcases t₁ with rfl | ⟨r', rfl⟩
    · simp at h
    · simp only [List.nil_append, List.cons_append, List.cons.injEq] at h
      exact (h₂ (h.1 ▸ List.mem_cons_self ..)).elim
  | a :: n₁, [], r₁, r₂, h₁, _, _, t₂, h => by
    rcases t₂ with rfl | ⟨r', rfl⟩
    · simp at h
    · simp only [List.nil_append, List.cons_append, List.cons.injEq] at h
      exact (h₁ (h.1 ▸ List.mem_cons_self ..)).elim
  | a :: n₁, b :: n₂, r₁, r₂, h₁, h₂, t₁, t₂, h => by
    simp only [List.cons_append, List.cons.injEq] at h
    have := name_cancel n₁ n₂ r₁ r₂ (fun x => h₁ (List.mem_cons_of_mem _ x))
      (fun x => h₂ (List.mem_cons_of_mem _ x)) t₁ t₂ h.2
    rw [h.1, this]

mutual
theorem walk_shape (ex top : Bool) (path : Path) : (t : Tree) → ∀ p ∈ walk ex top path t,
    ∃ r, p = path ++ r ∧ Tail r
  | .file n m o => by
    intro p hp
    simp only [walk] at hp
    split at hp
    · simp at hp; exact ⟨[], by simp [hp], Or.inl rfl⟩
    · simp at hp
  | .dir n cs => by
    intro p hp
    simp only [walk] at hp
    split at hp
    · simp at hp
    · obtain ⟨t, _, r, hr, _⟩ := walkList_shape ex path cs p hp
      exact ⟨sep :: t.name ++ r, by simp [hr], Or.inr ⟨_, rfl⟩⟩
theorem walkList_shape (ex : Bool) (dir : Path) : (ts : List Tree) → ∀ p ∈ walkList ex dir ts,
    ∃ t ∈ ts, ∃ r, p = dir ++ sep :: t.name ++ r ∧ Tail r
  | [] => by simp [walkList]
  | t :: ts => by
    intro p hp
    simp only [walkList, List.mem_append] at hp
    rcases hp with hp | hp
    · obtain ⟨r, hr, hT⟩ := walk_shape ex false _ t p hp
      exact ⟨t, List.mem_cons_self .., r, by simp [hr, join], hT⟩
    · obtain ⟨t', ht', r, hr, hT⟩ := walkList_shape ex dir ts p hp
      exact ⟨t', List.mem_cons_of_mem _ ht', r, hr, hT⟩
end

theorem wf_name_nosep : (t : Tree) → wf t → sep ∉ t.name
  | .file _ _ _, h => by simpa [wf, Tree.name] using h
  | .dir _ _, h => by simp only [wf] at h; simpa [Tree.name] using h.1

theorem wfList_mem : (ts : List Tree) → wfList ts → ∀ t ∈ ts, wf t
  | [], _, _, h => by simp at h
  | t :: ts, hw, t', h => by
    simp only [wfList] at hw
    rcases List.mem_cons.mp h with rfl | h
    · exact hw.1
    · exact wfList_mem ts hw.2.2 t' h

mutual
theorem walk_nodup (ex top : Bool) (path : Path) : (t : Tree) → (top = true ∨ wf t) →
    (∀ n cs, t = .dir n cs → wfList cs) → (walk ex top path t).Nodup
  | .file n m o, _, _ => by
    simp only [walk]; split <;> simp
  | .dir n cs, _, h => by
    simp only [walk]; split
    · simp
    · exact walkList_nodup ex path cs (h n cs rfl)
theorem walkList_nodup (ex : Bool) (dir : Path) : (ts : List Tree) → wfList ts →
    (walkList ex dir ts).Nodup
  | [], _ => by simp [walkList]
  | t :: ts, hw => by
    simp only [wfList] at hw
    simp only [walkList]
    rw [List.nodup_append]
    refine ⟨walk_nodup ex false _ t (Or.inr hw.1) ?_, walkList_nodup ex dir ts hw.2.2, ?_⟩
    · intro n cs ht; subst ht; have := hw.1; simp only [wf] at this; exact this.2
    · intro a ha b hb hab
      subst hab
      obtain ⟨r₁, hr₁, hT₁⟩ := walk_shape ex false _ t a ha
      obtain ⟨t', ht', r₂, hr₂, hT₂⟩ := walkList_shape ex dir ts a hb
      rw [hr₁] at hr₂
      simp only [join, List.append_assoc, List.cons_append, List.append_cancel_left_eq, List.cons.injEq, true_and] at hr₂
      have := name_cancel t.name t'.name r₁ r₂ (wf_name_nosep t hw.1)
        (wf_name_nosep t' (wfList_mem ts hw.2.2 t' ht')) hT₁ hT₂ hr₂
      exact hw.2.1 t' ht' this.symm
end

theorem discover_nodup (rootPath : Path) (root : Tree) (hw : wfRoot root) :
    (discover rootPath root).Nodup := by
  cases root with
  | file n m o => simp [wfRoot] at hw
  | dir n cs =>
    apply walk_nodup _ true rootPath _ (Or.inl rfl)
    intro n' cs' h; cases h; exact hw

/-! ## Sorting -/

theorem pathLe_trans (a b c : Path) : pathLe a b = true → pathLe b c = true → pathLe a c = true := by
  simp only [pathLe, decide_eq_true_eq]; exact List.le_trans

theorem pathLe_total (a b : Path) : (pathLe a b || pathLe b a) = true := by
  simp only [pathLe, Bool.or_eq_true, decide_eq_true_eq]; exact List.le_total a b

theorem insertPath_perm (a : Path) : (l : List Path) → (insertPath a l).Perm (a :: l)
  | [] => List.Perm.refl _
  | b :: l => by
    simp only [insertPath]; split
    · exact List.Perm.refl _
    · exact ((insertPath_perm a l).cons b).trans (List.Perm.swap a b l)

theorem sortPaths_perm : (l : List Path) → (sortPaths l).Perm l
  | [] => List.Perm.refl _
  | a :: l => (insertPath_perm a (sortPaths l)).trans ((sortPaths_perm l).cons a)

theorem insertPath_sorted (a : Path) : (l : List Path) → l.Pairwise (fun x y => pathLe x y = true) →
    (insertPath a l).Pairwise (fun x y => pathLe x y = true)
  | [], _ => by simp [insertPath]
  | b :: l, h => by
    simp only [insertPath]; split
    · rename_i hab
      refine List.Pairwise.cons ?_ h
      intro c hc
      rcases List.mem_cons.mp hc with rfl | hc
      · exact hab
      · exact pathLe_trans _ _ _ hab (List.rel_of_pairwise_cons h hc)
    · rename_i hab
      have hba : pathLe b a = true := by
        have := pathLe_total a b; simp only [Bool.or_eq_true] at this
        rcases this with h' | h'
        · exact (hab h').elim
        · exact h'
      refine List.Pairwise.cons ?_ (insertPath_sorted a l (List.Pairwise.of_cons h))
      intro c hc
      rcases List.mem_cons.mp ((insertPath_perm a l).mem_iff.mp hc) with rfl | hc
      · exact hba
      · exact List.rel_of_pairwise_cons h hc

theorem sortPaths_sorted : (l : List Path) → (sortPaths l).Pairwise (fun x y => pathLe x y = true)
  | [] => List.Pairwise.nil
  | a :: l => insertPath_sorted a _ (sortPaths_sorted l)

theorem loadOrder_perm (rootPath : Path) (root : Tree) :
    (loadOrder rootPath root).Perm (discover rootPath root) := sortPaths_perm _

theorem loadOrder_strictSorted (rootPath : Path) (root : Tree) (hw : wfRoot root) :
    (loadOrder rootPath root).Pairwise (· < ·) := by
  have hs : (loadOrder rootPath root).Pairwise (fun a b => pathLe a b = true) :=
    sortPaths_sorted _
  have hn : (loadOrder rootPath root).Nodup :=
    (loadOrder_perm rootPath root).nodup_iff.mpr (discover_nodup rootPath root hw)
  have := hs.and hn
  refine this.imp ?_
  intro a b ⟨hle, hne⟩
  simp only [pathLe, decide_eq_true_eq] at hle
  exact Std.lt_of_le_of_ne hle hne

theorem append_lt_append_left (p a b : List Nat) : p ++ a < p ++ b ↔ a < b := by
  induction p with
  | nil => simp
  | cons x xs ih => simp [ih]

/-- every discovered path is the root path, a separator, and a non-empty relative name -/
theorem discover_below_root (rootPath : Path) (root : Tree) (p : Path) (hp : p ∈ discover rootPath root)
    (hr : wfRoot root) : p = rootPath ++ sep :: relName rootPath p := by
  cases root with
  | file n m o => simp [wfRoot] at hr
  | dir n cs =>
    simp only [discover, walk] at hp
    split at hp
    · simp at hp
    · obtain ⟨t, _, r, hr', _⟩ := walkList_shape _ rootPath cs p hp
      rw [hr']; simp [relName]

/-! ## The `--config` loop -/

theorem initLoop_all_ok (rootPath : Path) (outcome : Path → Outcome) : (ps : List Path) → (st : InitState) →
    (∀ p ∈ ps, outcome p = .ok) →
    initLoop rootPath outcome st ps =
      { asked := st.asked ++ ps, loaded := st.loaded ++ ps.map (relName rootPath), err := st.err }
  | [], st, _ => by simp [initLoop]
  | p :: ps, st, h => by
    have hp : outcome p = .ok := h p (List.mem_cons_self ..)
    simp only [initLoop, hp]
    rw [initLoop_all_ok rootPath outcome ps _ (fun q hq => h q (List.mem_cons_of_mem _ hq))]
    simp

theorem initLoop_first_bad (rootPath : Path) (outcome : Path → Outcome) : (pre : List Path) → (st : InitState) →
    (p : Path) → (post : List Path) → (∀ q ∈ pre, outcome q = .ok) → outcome p ≠ .ok →
    initLoop rootPath outcome st (pre ++ p :: post) =
      { asked := st.asked ++ pre ++ [p], loaded := st.loaded ++ pre.map (relName rootPath), err := some p }
  | [], st, p, post, _, hp => by
    simp only [List.nil_append, initLoop]
    cases h : outcome p <;> simp_all
  | q :: pre, st, p, post, h, hp => by
    have hq : outcome q = .ok := h q (List.mem_cons_self ..)
    simp only [List.cons_append, initLoop, hq]
    rw [initLoop_first_bad rootPath outcome pre _ p post (fun x hx => h x (List.mem_cons_of_mem _ hx)) hp]
    simp

end ShellOp.Discovery
