import ShellOp.Model.HookOutText
/-! Proofs about `Model/HookOutText`: the decode loops against the grammar `Stream` / `Whole`
(generic in the decoder step), and progress of the concrete JSON reader (every value consumes at
least one character), which makes the fuel of `streamOk` sufficient. -/
namespace ShellOp.HookRun.Text

/-! ## layer 1 -/

theorem decodeLoop_spec {α β : Type} (next : α → Step α β) (size : α → Nat)
    (hprog : ∀ inp v rest, next inp = .val v rest → size rest < size inp) :
    ∀ (fuel : Nat) (inp : α) (acc r : List β), size inp < fuel →
      (decodeLoop next fuel inp acc = some r ↔ ∃ vs, Stream next inp vs ∧ r = acc ++ vs) := by
  intro fuel
  induction fuel with
  | zero => intro inp acc r h; omega
  | succ f ih =>
    intro inp acc r hsz
    unfold decodeLoop
    cases h : next inp with
    | eof =>
      simp only
      constructor
      · intro e
        cases e
        exact ⟨[], Stream.done h, by simp⟩
      · rintro ⟨vs, hs, rfl⟩
        cases hs with
        | done _ => simp
        | more h' _ => rw [h] at h'; cases h'
    | err =>
      simp only
      constructor
      · intro e; cases e
      · rintro ⟨vs, hs, _⟩
        cases hs with
        | done h' => rw [h] at h'; cases h'
        | more h' _ => rw [h] at h'; cases h'
    | val v rest =>
      simp only
      have hlt : size rest < f := by have := hprog inp v rest h; omega
      rw [ih rest (acc ++ [v]) r hlt]
      constructor
      · rintro ⟨vs, hs, rfl⟩
        exact ⟨v :: vs, Stream.more h hs, by simp⟩
      · rintro ⟨vs, hs, rfl⟩
        cases hs with
        | done h' => rw [h] at h'; cases h'
        | more h' hs' =>
          rw [h] at h'
          cases h'
          exact ⟨_, hs', by simp⟩

/-- The loop returns an error exactly for the inputs that are not a sequence of values. -/
theorem decodeLoop_err_iff {α β : Type} (next : α → Step α β) (size : α → Nat)
    (hprog : ∀ inp v rest, next inp = .val v rest → size rest < size inp)
    (fuel : Nat) (inp : α) (hsz : size inp < fuel) :
    decodeLoop next fuel inp [] = none ↔ ¬ ∃ vs, Stream next inp vs := by
  constructor
  · rintro hn ⟨vs, hs⟩
    have := (decodeLoop_spec next size hprog fuel inp [] vs hsz).mpr ⟨vs, hs, by simp⟩
    rw [hn] at this; cases this
  · intro hno
    cases h : decodeLoop next fuel inp [] with
    | none => rfl
    | some r =>
      obtain ⟨vs, hs, _⟩ := (decodeLoop_spec next size hprog fuel inp [] r hsz).mp h
      exact absurd ⟨vs, hs⟩ hno

theorem decodeWhole_spec {α β : Type} (next : α → Step α β) (atEnd : α → Bool) (inp : α) (v : β) :
    decodeWhole next atEnd inp = some v ↔ Whole next atEnd inp v := by
  unfold decodeWhole Whole
  cases h : next inp with
  | eof => simp
  | err => simp
  | val w rest =>
    by_cases he : atEnd rest = true
    · simp only [he, ↓reduceIte, Option.some.injEq, Step.val.injEq]
      constructor
      · rintro rfl; exact ⟨rest, ⟨rfl, rfl⟩, he⟩
      · rintro ⟨_, ⟨hw, _⟩, _⟩; exact hw
    · simp only [he, Bool.false_eq_true, ↓reduceIte, Step.val.injEq]
      constructor
      · intro e; cases e
      · rintro ⟨r', ⟨_, hr⟩, he'⟩
        subst hr
        exact absurd he' he

end ShellOp.HookRun.Text

/-! ## layer 2: every value consumes input -/
namespace ShellOp.HookRun.Text

theorem skipWs_le (cs : List Char) : (skipWs cs).length ≤ cs.length := by
  induction cs with
  | nil => simp [skipWs]
  | cons c cs ih =>
    unfold skipWs
    split
    · simp; omega
    · simp

theorem dropDigits_le (cs : List Char) : (dropDigits cs).length ≤ cs.length := by
  induction cs with
  | nil => simp [dropDigits]
  | cons c cs ih =>
    unfold dropDigits
    split
    · simp; omega
    · simp

theorem digits1_lt (cs r : List Char) (h : digits1 cs = some r) : r.length < cs.length := by
  cases cs with
  | nil => simp [digits1] at h
  | cons c cs =>
    simp only [digits1] at h
    by_cases hd : c.isDigit = true
    · simp only [hd, ↓reduceIte, Option.some.injEq] at h
      subst h
      have := dropDigits_le cs
      simp; omega
    · simp [hd] at h

theorem numExp_le (cs r : List Char) (h : numExp cs = some r) : r.length ≤ cs.length := by
  unfold numExp at h
  split at h <;> first
    | (have := digits1_lt _ _ h; simp; omega)
    | (cases h; exact Nat.le_refl _)

theorem numFrac_le (cs r : List Char) (h : numFrac cs = some r) : r.length ≤ cs.length := by
  unfold numFrac at h
  split at h
  · rename_i r0
    cases hd : digits1 r0 with
    | none => simp [hd] at h
    | some r1 =>
      simp [hd] at h
      have h1 := digits1_lt _ _ hd
      have h2 := numExp_le _ _ h
      simp; omega
  · exact numExp_le _ _ h

theorem numInt_lt (cs r : List Char) (h : numInt cs = some r) : r.length < cs.length := by
  unfold numInt at h
  split at h
  · have := numFrac_le _ _ h; simp; omega
  · split at h
    · have := numFrac_le _ _ h
      rename_i r0 _ _
      have := dropDigits_le r0
      simp; omega
    · cases h
  · cases h

theorem number_lt (cs r : List Char) (h : number cs = some r) : r.length < cs.length := by
  unfold number at h
  split at h
  · have := numInt_lt _ _ h; simp; omega
  · exact numInt_lt _ _ h

end ShellOp.HookRun.Text

namespace ShellOp.HookRun.Text

theorem strBody_lt : ∀ (f : Nat) (acc cs : List Char) (s : String) (r : List Char),
    strBody f acc cs = some (s, r) → r.length < cs.length := by
  intro f
  induction f with
  | zero => intro acc cs s r h; simp [strBody] at h
  | succ f ih =>
    intro acc cs s r h
    unfold strBody at h
    split at h
    · cases h; simp
    · split at h
      · have := ih _ _ _ _ h; simp; omega
      · cases h
    · split at h <;> first
        | (have := ih _ _ _ _ h; simp; omega)
        | cases h
    · split at h
      · cases h
      · have := ih _ _ _ _ h; simp; omega
    · cases h

end ShellOp.HookRun.Text

namespace ShellOp.HookRun.Text

theorem go_lt : ∀ (f : Nat) (m : Mode) (cs : List Char) (v : V) (r : List Char),
    go f m cs = some (v, r) → r.length < cs.length := by
  intro f
  induction f with
  | zero => intro m cs v r h; simp [go] at h
  | succ f ih =>
    intro m cs v r h
    cases m with
    | val =>
      unfold go at h
      split at h
      · cases h; simp; omega
      · cases h; simp; omega
      · cases h; simp; omega
      · rename_i r0
        cases hs : strBody (r0.length + 1) [] r0 with
        | none => simp [hs] at h
        | some p =>
          simp [hs] at h
          obtain ⟨_, rfl⟩ := h
          have := strBody_lt _ _ _ _ _ (show strBody (r0.length + 1) [] r0 = some (p.1, p.2) from hs)
          simp; omega
      · rename_i r0
        split at h
        · rename_i r1 heq
          cases h
          have := skipWs_le r0
          rw [heq] at this
          simp at this ⊢; omega
        · have h1 := ih _ _ _ _ h
          have := skipWs_le r0
          simp; omega
      · rename_i r0
        split at h
        · rename_i r1 heq
          cases h
          have := skipWs_le r0
          rw [heq] at this
          simp at this ⊢; omega
        · have h1 := ih _ _ _ _ h
          have := skipWs_le r0
          simp; omega
      · cases hn : number cs with
        | none => simp [hn] at h
        | some r1 =>
          simp [hn] at h
          obtain ⟨_, rfl⟩ := h
          exact number_lt _ _ hn
    | items acc =>
      unfold go at h
      split at h
      · cases h
      · rename_i v1 r1 hv
        have h1 := ih _ _ _ _ hv
        have h2 := skipWs_le r1
        split at h
        · rename_i r2 heq
          have h3 := ih _ _ _ _ h
          have h4 := skipWs_le r2
          rw [heq] at h2
          simp at h2; omega
        · rename_i r2 heq
          cases h
          rw [heq] at h2
          simp at h2; omega
        · cases h
    | members acc =>
      unfold go at h
      split at h
      · rename_i r0
        split at h
        · cases h
        · rename_i k r1 hk
          have h1 := strBody_lt _ _ _ _ _ hk
          have h2 := skipWs_le r1
          split at h
          · rename_i r2 heq
            rw [heq] at h2
            split at h
            · cases h
            · rename_i v1 r3 hv
              have h3 := ih _ _ _ _ hv
              have h4 := skipWs_le r2
              have h5 := skipWs_le r3
              split at h
              · rename_i r4 heq2
                have h6 := ih _ _ _ _ h
                have h7 := skipWs_le r4
                rw [heq2] at h5
                simp at h2 h5 ⊢; omega
              · rename_i r4 heq2
                cases h
                rw [heq2] at h5
                simp at h2 h5 ⊢; omega
              · cases h
          · cases h
      · cases h

theorem value_lt (cs : List Char) (v : V) (r : List Char) (h : value cs = some (v, r)) :
    r.length < cs.length := go_lt _ _ _ _ _ h

/-- Every `Decode` that yields a value consumes input. -/
theorem next_progress (ok : V → Bool) (cs : List Char) (v : V) (rest : List Char)
    (h : next ok cs = .val v rest) : rest.length < cs.length := by
  unfold next at h
  split at h
  · cases h
  · split at h
    · cases h
    · rename_i v1 r1 hv
      split at h
      · cases h
        have := value_lt _ _ _ hv
        have := skipWs_le cs
        omega
      · cases h

end ShellOp.HookRun.Text

namespace ShellOp.HookRun.Text

/-- `streamOk` (the loop with fuel = length + 1) answers `some vs` exactly when the text is the
sequence of values `vs`, and `none` exactly when the text is no sequence of values: the fuel never
runs out. -/
theorem streamOk_some_iff (ok : V → Bool) (text : List Char) (vs : List V) :
    streamOk ok text = some vs ↔ Stream (next ok) text vs := by
  unfold streamOk
  rw [decodeLoop_spec (next ok) List.length (next_progress ok) (text.length + 1) text [] vs (by omega)]
  constructor
  · rintro ⟨ws, hs, rfl⟩; simpa using hs
  · intro hs; exact ⟨vs, hs, by simp⟩

theorem streamOk_none_iff (ok : V → Bool) (text : List Char) :
    streamOk ok text = none ↔ ¬ ∃ vs, Stream (next ok) text vs :=
  decodeLoop_err_iff (next ok) List.length (next_progress ok) (text.length + 1) text (by omega)

theorem wholeOk_some_iff (ok : V → Bool) (text : List Char) (v : V) :
    wholeOk ok text = some v ↔ Whole (next ok) atEnd text v :=
  decodeWhole_spec (next ok) atEnd text v

theorem wholeOk_none_iff (ok : V → Bool) (text : List Char) :
    wholeOk ok text = none ↔ ¬ ∃ v, Whole (next ok) atEnd text v := by
  constructor
  · rintro hn ⟨v, hv⟩
    rw [(wholeOk_some_iff ok text v).mpr hv] at hn; cases hn
  · intro hno
    cases h : wholeOk ok text with
    | none => rfl
    | some v => exact absurd ⟨v, (wholeOk_some_iff ok text v).mp h⟩ hno

end ShellOp.HookRun.Text
