import ShellOp.Model.Payload
/-! Lemmas about `Model/Payload` (what the hook's context file carries; the retry shows it again). -/
set_option linter.unusedSimpArgs false
namespace ShellOp.Payload

open ShellOp.Combine

theorem covers_refl (c : Ctx) : covers c c = true := by simp [covers]

theorem refresh_ctx (mon : Nat → List Nat) (bc : BC) : (refresh mon bc).ctx = bc.ctx := rfl

theorem flatMap_mono (mon mon' : Nat → List Nat) (hm : ∀ k x, x ∈ mon k → x ∈ mon' k) (l l' : List Nat)
    (hl : ∀ k, k ∈ l → k ∈ l') : ∀ x, x ∈ l.flatMap mon → x ∈ l'.flatMap mon' := by
  intro x hx
  simp only [List.mem_flatMap] at hx ⊢
  obtain ⟨k, hk, hxk⟩ := hx
  exact ⟨k, hl k hk, hm k x hxk⟩

/-- One context, two runs: later monitors hold at least what the earlier ones held ⇒ the later
file entry carries the earlier one. -/
theorem keptBy_refresh (mon mon' : Nat → List Nat) (hm : ∀ k x, x ∈ mon k → x ∈ mon' k) (bc : BC) :
    (shown (refresh mon bc)).keptBy (shown (refresh mon' bc)) = true := by
  have hs : ∀ k, k ∈ bc.incl → ∀ a, a ∈ mon k → ∃ k', k' ∈ bc.incl ∧ a ∈ mon' k' :=
    fun k hk a ha => ⟨k, hk, hm k a ha⟩
  by_cases h4 : bc.ctx.typ = 4 <;> by_cases hg : bc.ctx.group = 0 <;> by_cases h3 : bc.ctx.typ = 3 <;>
    by_cases h0 : bc.ctx.typ = 0 <;>
    simp [Pay.keptBy, shown, refresh, h4, hg, h3, h0] <;>
    first
      | exact hs
      | exact ⟨fun a ha => hm _ a ha, hs⟩

/-- A grouped context of the failed run is carried by ANY later context of its group whose binding
includes at least the same snapshots (the bindings of a group share the group's list). -/
theorem keptBy_group (mon mon' : Nat → List Nat) (hm : ∀ k x, x ∈ mon k → x ∈ mon' k) (x y : BC)
    (hx : x.ctx.group ≠ 0) (hy : y.ctx.group ≠ 0) (hxt : x.ctx.typ ≠ 4) (hyt : y.ctx.typ ≠ 4)
    (hi : ∀ k, k ∈ x.incl → k ∈ y.incl) :
    (shown (refresh mon x)).keptBy (shown (refresh mon' y)) = true := by
  simp [Pay.keptBy, shown, refresh, hx, hy, hxt, hyt]
  intro k hk a ha
  exact ⟨k, hi k hk, hm k a ha⟩

/-- The key of a stored context that the file shows with Event members (ungrouped kubernetes
Event): independent of the monitors. -/
def evKey (bc : BC) : Option (Ctx × List Nat) :=
  if bc.ctx.group == 0 && bc.ctx.typ != 4 && bc.ctx.typ != 3 && bc.ctx.typ != 0
  then some (bc.ctx, bc.watchEvent :: bc.objects.take 1) else none

theorem eventKeys_contextFile (mon : Nat → List Nat) (l : List BC) :
    eventKeys (contextFile mon l) = l.filterMap evKey := by
  induction l with
  | nil => rfl
  | cons x xs ih =>
    have ih' : eventKeys (List.map (fun bc => (bc.ctx, shown bc)) (List.map (refresh mon) xs)) = xs.filterMap evKey := ih
    by_cases h4 : x.ctx.typ = 4 <;> by_cases hg : x.ctx.group = 0 <;> by_cases h3 : x.ctx.typ = 3 <;>
      by_cases h0 : x.ctx.typ = 0 <;>
      simp [eventKeys, contextFile, updateSnapshots, List.filter_cons, List.filterMap_cons, evKey, shown, refresh,
        h4, hg, h3, h0] at ih' ⊢ <;> first | exact ih' | omega

theorem evKey_grouped (bc : BC) (h : (bc.ctx.group == 0) = false) : evKey bc = none := by
  simp [evKey, h]

theorem filterMap_evKey_ungrouped (l : List BC) :
    l.filterMap evKey = (l.filter (·.ctx.group == 0)).filterMap evKey := by
  induction l with
  | nil => rfl
  | cons x xs ih =>
    by_cases hg : (x.ctx.group == 0) = true
    · simp [List.filter_cons, List.filterMap_cons, hg, ih]
    · have hg' : (x.ctx.group == 0) = false := by simpa using hg
      simp [List.filter_cons, List.filterMap_cons, hg', evKey_grouped x hg', ih]

theorem eventsKept_of_sublist (mon mon' : Nat → List Nat) (l l' : List BC)
    (h : (l.filter (·.ctx.group == 0)).Sublist (l'.filter (·.ctx.group == 0))) :
    eventsKept (contextFile mon l) (contextFile mon' l') = true := by
  simp only [eventsKept, eventKeys_contextFile, List.all_eq_true, decide_eq_true_eq]
  intro k _
  rw [filterMap_evKey_ungrouped l, filterMap_evKey_ungrouped l']
  exact (h.filterMap evKey).count_le k

theorem shownAgain_of_covered (mon mon' : Nat → List Nat) (hm : ∀ k x, x ∈ mon k → x ∈ mon' k)
    (l l' : List BC)
    (hcov : ∀ x, x ∈ l → x ∈ l' ∨ (x.ctx.group ≠ 0 ∧ x.ctx.typ ≠ 4 ∧
      ∃ y, y ∈ l' ∧ y.ctx.group = x.ctx.group ∧ y.ctx.typ ≠ 4 ∧ ∀ k, k ∈ x.incl → k ∈ y.incl)) :
    shownAgain (contextFile mon l) (contextFile mon' l') = true := by
  simp only [shownAgain, contextFile, updateSnapshots, List.all_eq_true, List.any_eq_true, List.mem_map,
    Bool.and_eq_true]
  rintro ⟨c, p⟩ ⟨_, ⟨x, hx, rfl⟩, hcp⟩
  simp only [Prod.mk.injEq] at hcp
  obtain ⟨rfl, rfl⟩ := hcp
  rcases hcov x hx with hin | ⟨hg, ht, y, hy, hyg, hyt, hi⟩
  · exact ⟨_, ⟨_, ⟨x, hin, rfl⟩, rfl⟩, covers_refl _, keptBy_refresh mon mon' hm x⟩
  · refine ⟨_, ⟨_, ⟨y, hy, rfl⟩, rfl⟩, ?_, keptBy_group mon mon' hm x y hg (by rw [hyg]; exact hg) ht hyt hi⟩
    simp [covers, refresh_ctx, hg, hyg]
/-- `Hook.Run` (as coded) leaves the array the task's metadata points to as it was, and the file is
the refreshed copy of it. -/
theorem hookRunH_spec (mon : Nat → List Nat) (h : Heap) (a : Nat) (ha : a < h.length) :
    (hookRunH mon h a).1.arr a = h.arr a ∧ (hookRunH mon h a).2 = contextFile mon (h.arr a) := by
  simp [hookRunH, updateSnapshotsH, Heap.arr, contextFile, List.getD_eq_getElem?_getD, List.getElem?_append_left ha]

end ShellOp.Payload
