import ShellOp.Model.SetContext
/-!
Lemmas about `Model/SetContext`: the invariant of the code (`WithContext` derives the cancellable context at
once) over every operation sequence, and the equality of the lazy variant with the code from the first queue on.
-/
namespace ShellOp.SetCtx

/-- invariant of the code: the cancel function exists, a request has always cancelled, every queue is derived
from the cancellable context -/
def Good (s : S) : Prop :=
  s.hasCancel = true ∧ (s.requested = true → s.cancelled = true) ∧ ∀ q ∈ s.qs, q.onSet = true

theorem init_good : Good (init false) := by
  refine ⟨rfl, ?_, ?_⟩ <;> simp [init]

theorem step_good (s : S) (op : Op) (h : Good s) : Good (step false s op) := by
  obtain ⟨h1, h2, h3⟩ := h
  cases op with
  | stop => exact ⟨h1, fun _ => by simp [step, h1], h3⟩
  | new n =>
    refine ⟨by simp [step, h1], by simpa [step] using h2, ?_⟩
    intro q hq
    simp only [step, put, Bool.false_and, Bool.false_eq_true, if_false] at hq
    rcases List.mem_cons.mp hq with rfl | hq
    · exact h1
    · exact h3 q (List.mem_filter.mp hq).1
  | start n =>
    refine ⟨h1, h2, ?_⟩
    intro q hq
    simp only [step] at hq
    rw [List.mem_map] at hq
    obtain ⟨q0, hq0, rfl⟩ := hq
    split <;> exact h3 q0 hq0

theorem run_good (ops : List Op) (s : S) (h : Good s) : Good (run false s ops) := by
  induction ops generalizing s with
  | nil => exact h
  | cons op ops ih => exact ih _ (step_good s op h)

theorem step_requested (lazy : Bool) (s : S) (op : Op) (h : s.requested = true) :
    (step lazy s op).requested = true := by
  cases op <;> simp [step, h]
  split <;> simp [h]

theorem run_requested_of (lazy : Bool) (ops : List Op) (s : S) (h : s.requested = true) :
    (run lazy s ops).requested = true := by
  induction ops generalizing s with
  | nil => exact h
  | cons op ops ih => exact ih _ (step_requested lazy s op h)

theorem run_requested (lazy : Bool) (ops : List Op) (s : S) (h : Op.stop ∈ ops) :
    (run lazy s ops).requested = true := by
  induction ops generalizing s with
  | nil => cases h
  | cons op ops ih =>
    rcases List.mem_cons.mp h with rfl | h
    · exact run_requested_of lazy ops _ (by simp [step])
    · exact ih _ h

/-- once the cancel function exists the lazy variant is the code -/
theorem step_lazy_eq (s : S) (op : Op) (h : s.hasCancel = true) : step true s op = step false s op := by
  cases op <;> simp [step, h]

theorem step_hasCancel (lazy : Bool) (s : S) (op : Op) (h : s.hasCancel = true) :
    (step lazy s op).hasCancel = true := by
  cases op <;> simp [step, h]

theorem run_lazy_eq (ops : List Op) (s : S) (h : s.hasCancel = true) : run true s ops = run false s ops := by
  induction ops generalizing s with
  | nil => rfl
  | cons op ops ih =>
    show run true (step true s op) ops = run false (step false s op) ops
    rw [step_lazy_eq s op h]
    exact ih _ (step_hasCancel false s op h)

end ShellOp.SetCtx
