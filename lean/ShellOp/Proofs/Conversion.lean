import ShellOp.Model.Conversion
/-! Helper lemmas for C15: version spellings, the cache as a map, `SearchPathForRule`, one pass of the
search loop. -/
namespace ShellOp.Conversion

/-! ### "the same version" -/

/-- the code's relation (`VersionsMatched`) -/
def Matched (x y : Ver) : Prop := versionsMatched x y = true

/-- equal after dropping the group: an equivalence relation -/
def SameShort (x y : Ver) : Prop := trimGroup x = trimGroup y

theorem versionsMatched_refl (v : Ver) : versionsMatched v v = true := by simp [versionsMatched]

theorem versionsMatched_symm (x y : Ver) : versionsMatched x y = versionsMatched y x := by
  unfold versionsMatched
  by_cases h : x = y
  · subst h; rfl
  · have h' : ¬ y = x := fun e => h e.symm
    simp only [h, h', if_false]
    cases hx : afterSlash x <;> cases hy : afterSlash y <;> simp [BEq.comm]

theorem matched_sameShort {x y : Ver} (h : versionsMatched x y = true) : SameShort x y := by
  unfold versionsMatched at h
  unfold SameShort trimGroup
  by_cases hxy : x = y
  · subst hxy; rfl
  · simp only [hxy, if_false] at h
    cases hx : afterSlash x <;> cases hy : afterSlash y <;> simp_all

theorem SameShort.rfl' {x : Ver} : SameShort x x := Eq.refl _
theorem SameShort.symm' {x y : Ver} (h : SameShort x y) : SameShort y x := Eq.symm h
theorem SameShort.trans' {x y z : Ver} (h : SameShort x y) (h' : SameShort y z) : SameShort x z :=
  Eq.trans h h'

/-- On a set of spellings in which one short version is never qualified by two different groups
(one CRD = one group), `VersionsMatched` is exactly "same short version". -/
def Coherent (U : List Ver) : Prop :=
  ∀ x ∈ U, ∀ y ∈ U, trimGroup x = trimGroup y → versionsMatched x y = true

theorem Coherent.matched {U : List Ver} (hU : Coherent U) {x y : Ver} (hx : x ∈ U) (hy : y ∈ U)
    (h : SameShort x y) : versionsMatched x y = true := hU x hx y hy h

/-! ### chains -/

/-- every step starts at the version where the previous one ended (`x` = where we are) -/
def Linked (S : Ver → Ver → Prop) : Ver → Path → Prop
  | _, [] => True
  | x, r :: rs => S x r.src ∧ Linked S r.dst rs

/-- `p` is a non-empty sequence of declared rules that starts at `a`, ends at `b`, and in which
every step starts where the previous one ended; `S` says when two spellings are one version. -/
structure IsChain (S : Ver → Ver → Prop) (rules : List Rule) (a b : Ver) (p : Path) : Prop where
  nonempty : p ≠ []
  declared : ∀ r ∈ p, r ∈ rules
  linked : Linked S a p
  ends : S (endOf a p) b

theorem linkedB_iff (a : Ver) (p : Path) :
    linkedB versionsMatched a p = true ↔ Linked Matched a p := by
  induction p generalizing a with
  | nil => simp [linkedB, Linked]
  | cons r rs ih => simp [linkedB, Linked, ih, Matched]

/-- the oracle of the driver is the specification -/
theorem isChainB_iff (rules : List Rule) (a b : Ver) (p : Path) :
    isChainB versionsMatched rules a b p = true ↔ IsChain Matched rules a b p := by
  constructor
  · intro h
    simp only [isChainB, Bool.and_eq_true, Bool.not_eq_true', List.isEmpty_eq_false_iff,
      List.all_eq_true, List.contains_iff_mem] at h
    obtain ⟨⟨⟨h1, h2⟩, h3⟩, h4⟩ := h
    exact ⟨h1, h2, (linkedB_iff a p).1 h3, h4⟩
  · intro ⟨h1, h2, h3, h4⟩
    simp only [isChainB, Bool.and_eq_true, Bool.not_eq_true', List.isEmpty_eq_false_iff,
      List.all_eq_true, List.contains_iff_mem]
    exact ⟨⟨⟨h1, h2⟩, (linkedB_iff a p).2 h3⟩, h4⟩

theorem Linked.mono {S T : Ver → Ver → Prop} (h : ∀ x y, S x y → T x y) :
    ∀ (a : Ver) (p : Path), Linked S a p → Linked T a p
  | _, [], _ => trivial
  | _, _ :: rs, ⟨h1, h2⟩ => ⟨h _ _ h1, Linked.mono h _ rs h2⟩

theorem linked_append (S : Ver → Ver → Prop) (a : Ver) (p : Path) (r : Rule) :
    Linked S a (p ++ [r]) ↔ Linked S a p ∧ S (endOf a p) r.src := by
  induction p generalizing a with
  | nil => simp [Linked, endOf]
  | cons q qs ih => simp [Linked, endOf, ih, and_assoc]

theorem endOf_append (a : Ver) (p : Path) (r : Rule) : endOf a (p ++ [r]) = r.dst := by
  induction p generalizing a with
  | nil => rfl
  | cons q qs ih => simp [endOf, ih]

theorem endOf_start (a a' : Ver) (p : Path) (h : p ≠ []) : endOf a p = endOf a' p := by
  cases p with
  | nil => exact absurd rfl h
  | cons q qs => rfl

theorem linked_start (a a' : Ver) (p : Path) (h : SameShort a' a) (hl : Linked SameShort a p) :
    Linked SameShort a' p := by
  cases p with
  | nil => trivial
  | cons q qs => exact ⟨h.trans' hl.1, hl.2⟩

/-- a chain between two spellings is a chain between any other spellings of the same versions -/
theorem IsChain.respell {rules : List Rule} {a b a' b' : Ver} {p : Path}
    (h : IsChain SameShort rules a b p) (ha : SameShort a' a) (hb : SameShort b b') :
    IsChain SameShort rules a' b' p :=
  ⟨h.nonempty, h.declared, linked_start a a' p ha h.linked,
    by rw [endOf_start a' a p h.nonempty]; exact h.ends.trans' hb⟩

/-- extending a chain by a declared rule that starts where it ended -/
theorem IsChain.extend {rules : List Rule} {a b : Ver} {p : Path} {r : Rule}
    (h : IsChain SameShort rules a b p) (hr : r ∈ rules) (hs : SameShort b r.src) :
    IsChain SameShort rules a r.dst (p ++ [r]) := by
  refine ⟨by simp, ?_, ?_, ?_⟩
  · intro x hx
    rcases List.mem_append.1 hx with hx | hx
    · exact h.declared x hx
    · simp at hx; exact hx ▸ hr
  · exact (linked_append _ _ _ _).2 ⟨h.linked, h.ends.trans' hs⟩
  · rw [endOf_append]; exact SameShort.rfl'

/-- with coherent spellings a chain "up to the group" is a chain for `VersionsMatched` -/
theorem IsChain.matched {rules : List Rule} {U : List Ver} {a b : Ver} {p : Path}
    (hU : Coherent U) (hr : ∀ r ∈ rules, r.src ∈ U ∧ r.dst ∈ U) (ha : a ∈ U) (hb : b ∈ U)
    (h : IsChain SameShort rules a b p) : IsChain Matched rules a b p := by
  obtain ⟨h1, h2, h3, h4⟩ := h
  have key : ∀ (p : Path) (x : Ver), x ∈ U → (∀ r ∈ p, r ∈ rules) → Linked SameShort x p →
      Linked Matched x p ∧ endOf x p ∈ U := by
    intro p
    induction p with
    | nil => intro x hx _ _; exact ⟨trivial, hx⟩
    | cons q qs ih =>
      intro x hx hd hl
      have hq := hr q (hd q (by simp))
      have := ih q.dst hq.2 (fun r hr' => hd r (by simp [hr'])) hl.2
      exact ⟨⟨hU.matched hx hq.1 hl.1, this.1⟩, this.2⟩
  have k := key p a ha h2 h3
  exact ⟨h1, h2, k.1, hU.matched k.2 hb h4⟩

/-! ### the cache as a map -/

def HasKey (cache : List Entry) (k : Rule) : Prop := ∃ e ∈ cache, e.1 = k

theorem hasKey_iff (cache : List Entry) (k : Rule) : hasKey cache k = true ↔ HasKey cache k := by
  simp [hasKey, HasKey]

theorem mem_cacheSet {cache : List Entry} {k : Rule} {p : Path} {x : Entry}
    (h : x ∈ cacheSet cache k p) : x = (k, p) ∨ x ∈ cache := by
  unfold cacheSet at h
  split at h
  · obtain ⟨e, he, rfl⟩ := List.mem_map.1 h
    by_cases hk : e.1 = k
    · simp [hk]
    · simp [hk, he]
  · rcases List.mem_append.1 h with h | h
    · exact Or.inr h
    · simp at h; exact Or.inl h

theorem self_mem_cacheSet (cache : List Entry) (k : Rule) (p : Path) : (k, p) ∈ cacheSet cache k p := by
  unfold cacheSet
  split
  · rename_i h
    obtain ⟨e, he, hk⟩ := (hasKey_iff _ _).1 h
    exact List.mem_map.2 ⟨e, he, by simp [hk]⟩
  · simp

theorem hasKey_cacheSet_old {cache : List Entry} {k k' : Rule} {p : Path} (h : HasKey cache k') :
    HasKey (cacheSet cache k p) k' := by
  obtain ⟨e, he, hk⟩ := h
  unfold cacheSet
  split
  · by_cases hek : e.1 = k
    · exact ⟨(k, p), List.mem_map.2 ⟨e, he, by simp [hek]⟩, by simp [← hk, hek]⟩
    · exact ⟨e, List.mem_map.2 ⟨e, he, by simp [hek]⟩, hk⟩
  · exact ⟨e, by simp [he], hk⟩

theorem mem_mergeAll {np cache : List Entry} {x : Entry} (h : x ∈ mergeAll cache np) :
    x ∈ cache ∨ x ∈ np := by
  induction np generalizing cache with
  | nil => exact Or.inl h
  | cons e es ih =>
    simp only [mergeAll, List.foldl_cons] at h
    rcases ih h with h | h
    · rcases mem_cacheSet h with h | h
      · right; simp [h]
      · exact Or.inl h
    · right; simp [h]

theorem hasKey_mergeAll_old {np cache : List Entry} {k : Rule} (h : HasKey cache k) :
    HasKey (mergeAll cache np) k := by
  induction np generalizing cache with
  | nil => exact h
  | cons e es ih => exact ih (hasKey_cacheSet_old h)

theorem hasKey_mergeAll_new {np cache : List Entry} {x : Entry} (h : x ∈ np) :
    HasKey (mergeAll cache np) x.1 := by
  induction np generalizing cache with
  | nil => cases h
  | cons e es ih =>
    simp only [mergeAll, List.foldl_cons]
    rcases List.mem_cons.1 h with h | h
    · subst h
      exact hasKey_mergeAll_old ⟨(x.1, x.2), self_mem_cacheSet _ _ _, rfl⟩
    · exact ih h

theorem mergeAll_eq_nil {np : List Entry} (h : mergeAll [] np = []) : np = [] := by
  cases np with
  | nil => rfl
  | cons e es =>
    obtain ⟨x, hx, _⟩ := hasKey_mergeAll_new (cache := []) (List.mem_cons_self (a := e) (l := es))
    rw [h] at hx; cases hx

/-! ### `SearchPathForRule` -/

theorem pickPath_mem (rule : Rule) (ks : List Entry) (h : ks ≠ []) :
    ∃ e ∈ ks, pickPath rule ks = e.2 := by
  match ks, h with
  | [e], _ => exact ⟨e, by simp, rfl⟩
  | e0 :: e1 :: rest, _ =>
    simp only [pickPath]
    split
    · rename_i e he
      exact ⟨e, List.mem_of_find?_eq_some he, rfl⟩
    · split
      · rename_i e es he
        have : e ∈ e :: es := by simp
        rw [← he] at this
        exact ⟨e, (List.mem_filter.1 this).1, rfl⟩
      · split
        · rename_i e es he
          have : e ∈ e :: es := by simp
          rw [← he] at this
          exact ⟨e, (List.mem_filter.1 this).1, rfl⟩
        · exact ⟨e0, by simp, rfl⟩

theorem searchPath_sound {entries : List Entry} {rule : Rule} (h : searchPath entries rule ≠ []) :
    ∃ e ∈ entries, keyMatches rule e = true ∧ searchPath entries rule = e.2 := by
  unfold searchPath at h ⊢
  split
  · rename_i e he
    have hp := List.find?_some he
    simp only [Bool.and_eq_true, beq_iff_eq] at hp
    refine ⟨e, List.mem_of_find?_eq_some he, ?_, rfl⟩
    simp [keyMatches, hp.1, hp.2, versionsMatched_refl]
  · rename_i hnone
    simp only [hnone] at h
    by_cases hk : entries.filter (keyMatches rule) = []
    · simp [hk, pickPath] at h
    · obtain ⟨e, he, hpe⟩ := pickPath_mem rule _ hk
      have := List.mem_filter.1 he
      exact ⟨e, this.1, this.2, hpe⟩

theorem searchPath_complete {entries : List Entry} {rule : Rule} (hne : ∀ e ∈ entries, e.2 ≠ [])
    {e : Entry} (he : e ∈ entries) (hm : keyMatches rule e = true) : searchPath entries rule ≠ [] := by
  unfold searchPath
  split
  · rename_i e' he'
    exact hne e' (List.mem_of_find?_eq_some he')
  · have hk : entries.filter (keyMatches rule) ≠ [] := by
      intro h0
      have : e ∈ entries.filter (keyMatches rule) := List.mem_filter.2 ⟨he, hm⟩
      rw [h0] at this; cases this
    obtain ⟨e', he', hpe⟩ := pickPath_mem rule _ hk
    rw [hpe]
    exact hne e' (List.mem_filter.1 he').1

/-! ### one pass of the loop body -/

theorem mem_candidates {ord : Order} {n : Nat} {c : Chain} {rule : Rule} {x : Entry}
    (h : x ∈ candidates ord n c rule) :
    ∃ e ∈ c.cache, ∃ nx ∈ c.base,
      versionsMatched e.1.src rule.src = true ∧
      (nx.src = e.1.dst ∨ versionsMatched nx.src e.1.dst = true) ∧
      searchPath (ord.perm (4 * n + 3) c.cache) ⟨rule.src, nx.dst⟩ = [] ∧
      x = (⟨rule.src, nx.dst⟩, e.2 ++ [nx]) := by
  unfold candidates at h
  obtain ⟨e, he, hx⟩ := List.mem_flatMap.1 h
  obtain ⟨he1, he2⟩ := List.mem_filter.1 he
  have hec : e ∈ c.cache := ((ord.isPerm _ _).mem_iff).1 he1
  split at hx
  · cases hx
  · obtain ⟨nx, hnx, hx⟩ := List.mem_filterMap.1 hx
    unfold nextRules at hnx
    obtain ⟨hnx1, hnx2⟩ := List.mem_filter.1 hnx
    have hnb : nx ∈ c.base := ((ord.isPerm _ _).mem_iff).1 hnx1
    split at hx
    · cases hx
    · split at hx
      · cases hx
      · rename_i _ hsp
        simp only [ne_eq, Decidable.not_not] at hsp
        refine ⟨e, hec, nx, hnb, he2, ?_, hsp, ?_⟩
        · simpa using hnx2
        · simpa using hx.symm

theorem candidates_mem {ord : Order} {n : Nat} {c : Chain} {rule : Rule} {e : Entry} {nx : Rule}
    (he : e ∈ c.cache) (hnx : nx ∈ c.base)
    (h1 : versionsMatched e.1.src rule.src = true)
    (h2 : trimGroup e.1.dst ≠ trimGroup rule.src)
    (h3 : nx.src = e.1.dst ∨ versionsMatched nx.src e.1.dst = true)
    (h4 : trimGroup nx.dst ≠ trimGroup rule.src)
    (h5 : searchPath (ord.perm (4 * n + 3) c.cache) ⟨rule.src, nx.dst⟩ = []) :
    (⟨rule.src, nx.dst⟩, e.2 ++ [nx]) ∈ candidates ord n c rule := by
  unfold candidates
  refine List.mem_flatMap.2 ⟨e, List.mem_filter.2 ⟨((ord.isPerm _ _).mem_iff).2 he, h1⟩, ?_⟩
  simp only [h2, if_false]
  refine List.mem_filterMap.2 ⟨nx, ?_, ?_⟩
  · unfold nextRules
    exact List.mem_filter.2 ⟨((ord.isPerm _ _).mem_iff).2 hnx, by simpa using h3⟩
  · simp [h4, h5]

/-! ### counting the keys that are still missing (termination) -/

theorem filter_length_le {α : Type} (p q : α → Bool) (l : List α)
    (hpq : ∀ x ∈ l, q x = true → p x = true) : (l.filter q).length ≤ (l.filter p).length := by
  induction l with
  | nil => simp
  | cons a as ih =>
    have ih' := ih (fun x hx => hpq x (by simp [hx]))
    have ha := hpq a (by simp)
    by_cases hq : q a = true
    · simp [hq, ha hq]; exact ih'
    · by_cases hp : p a = true
      · simp [hq, hp]; omega
      · simp [hq, hp]; exact ih'

theorem filter_length_lt {α : Type} (p q : α → Bool) (l : List α)
    (hpq : ∀ x ∈ l, q x = true → p x = true) {a : α} (ha : a ∈ l) (hpa : p a = true)
    (hqa : q a = false) : (l.filter q).length < (l.filter p).length := by
  induction l with
  | nil => cases ha
  | cons b bs ih =>
    have hle := filter_length_le p q bs (fun x hx => hpq x (by simp [hx]))
    rcases List.mem_cons.1 ha with hab | hab
    · subst hab
      simp [hpa, hqa]; omega
    · have ih' := ih (fun x hx => hpq x (by simp [hx])) hab
      have hb := hpq b (by simp)
      by_cases hq : q b = true
      · simp [hq, hb hq]; exact ih'
      · by_cases hp : p b = true
        · simp [hq, hp]; omega
        · simp [hq, hp]; exact ih'

/-! ### the loops as written compute the forms used in the proofs -/

theorem searchScan_eq (rule : Rule) : ∀ (es acc : List Entry),
    searchScan rule es acc =
      match es.find? (fun e => e.1.dst == rule.dst && e.1.src == rule.src) with
      | some e => .inl e.2
      | none => .inr (acc ++ es.filter (keyMatches rule))
  | [], acc => by simp [searchScan]
  | e :: es, acc => by
    simp only [searchScan, List.find?_cons]
    by_cases hx : (e.1.dst == rule.dst && e.1.src == rule.src) = true
    · simp [hx]
    · simp only [hx, Bool.false_eq_true, if_false]
      by_cases hk : keyMatches rule e = true
      · simp [hk, searchScan_eq rule es]
      · simp [hk, searchScan_eq rule es]

theorem pickScan_eq (rule : Rule) : ∀ (ks fromM toM : List Entry),
    pickScan rule ks fromM toM =
      match ks.find? (fun e => ((afterSlash rule.src).isSome && e.1.src == rule.src) &&
          ((afterSlash rule.dst).isSome && e.1.dst == rule.dst)) with
      | some e => .inl e.2
      | none => .inr (fromM ++ ks.filter (fun e => (afterSlash rule.src).isSome && e.1.src == rule.src),
                      toM ++ ks.filter (fun e => (afterSlash rule.dst).isSome && e.1.dst == rule.dst))
  | [], fromM, toM => by simp [pickScan]
  | k :: ks, fromM, toM => by
    simp only [pickScan, List.find?_cons]
    by_cases hf : ((afterSlash rule.src).isSome && k.1.src == rule.src) = true <;>
    by_cases ht : ((afterSlash rule.dst).isSome && k.1.dst == rule.dst) = true <;>
    simp [hf, ht, pickScan_eq rule ks]

theorem searchPathLoop_eq (entries : List Entry) (rule : Rule) :
    searchPathLoop entries rule = searchPath entries rule := by
  unfold searchPathLoop searchPath
  rw [searchScan_eq]
  cases hfind : entries.find? (fun e => e.1.dst == rule.dst && e.1.src == rule.src) with
  | some e => rfl
  | none =>
    simp only [List.nil_append]
    match hks : entries.filter (keyMatches rule) with
    | [] => simp [pickPath]
    | [k] => simp [pickPath]
    | k0 :: k1 :: rest =>
      simp only [pickPath]
      rw [pickScan_eq]
      cases (k0 :: k1 :: rest).find? (fun e => ((afterSlash rule.src).isSome && e.1.src == rule.src) &&
          ((afterSlash rule.dst).isSome && e.1.dst == rule.dst)) with
      | some e => rfl
      | none => simp only [List.nil_append]

theorem mergeAll_append (acc l1 l2 : List Entry) :
    mergeAll acc (l1 ++ l2) = mergeAll (mergeAll acc l1) l2 := by
  simp [mergeAll, List.foldl_append]

theorem mergeAll_flatMap {α : Type} (f : α → List Entry) : ∀ (l : List α) (acc : List Entry),
    mergeAll acc (l.flatMap f) = l.foldl (fun acc x => mergeAll acc (f x)) acc
  | [], _ => rfl
  | x :: xs, acc => by
    simp only [List.flatMap_cons, mergeAll_append, List.foldl_cons]
    exact mergeAll_flatMap f xs _

theorem mergeAll_filterMap {α : Type} (g : α → Option Entry) : ∀ (l : List α) (acc : List Entry),
    mergeAll acc (l.filterMap g) =
      l.foldl (fun acc x => match g x with
        | some y => cacheSet acc y.1 y.2
        | none => acc) acc
  | [], _ => rfl
  | x :: xs, acc => by
    simp only [List.filterMap_cons, List.foldl_cons]
    cases hg : g x with
    | none => simp only; exact mergeAll_filterMap g xs acc
    | some y =>
      simp only
      rw [show mergeAll acc (y :: xs.filterMap g) = mergeAll (cacheSet acc y.1 y.2) (xs.filterMap g) from rfl]
      exact mergeAll_filterMap g xs _

/-- the `newPaths` map filled by the nested ranges = the assignments of the pass, merged -/
theorem passLoop_eq (ord : Order) (n : Nat) (c : Chain) (rule : Rule) :
    passLoop ord n c rule = mergeAll [] (candidates ord n c rule) := by
  unfold passLoop candidates
  rw [mergeAll_flatMap]
  congr 1
  funext newPaths e
  split
  · rfl
  · rw [mergeAll_filterMap]
    congr 1
    funext np nx
    split
    · rfl
    · simp only [searchPathLoop_eq]
      split <;> rfl

theorem findLoopCode_eq (ord : Order) (rule : Rule) : ∀ (n : Nat) (c : Chain),
    findLoopCode ord rule n c = findLoop ord rule n c
  | 0, _ => rfl
  | n + 1, c => by
    simp only [findLoopCode, findLoop, searchPathLoop_eq, passLoop_eq]
    split
    · rfl
    · split
      · rfl
      · exact findLoopCode_eq ord rule n _

/-- `FindConversionChain` as written = the form the theorems are about -/
theorem findCode_eq (ord : Order) (c : Chain) (rule : Rule) : findCode ord c rule = find ord c rule := by
  unfold findCode find
  split
  · rfl
  · exact findLoopCode_eq ord rule _ c

end ShellOp.Conversion
