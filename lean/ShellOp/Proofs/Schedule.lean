import ShellOp.Model.Schedule
/-! Helper lemmas for C11: the invariant tying `scheduleManager` (code-shaped) to the set of registered
pairs, and the controller loops. -/
namespace ShellOp.Schedule

/-! ### Spec membership -/

theorem Spec.mem_step_add (r : Spec.Reg) (c : Crontab) (id : Id) (p : Crontab × Id) :
    p ∈ Spec.step r (.add c id) ↔ p ∈ r ∨ p = (c, id) := by
  unfold Spec.step
  by_cases h : (c, id) ∈ r
  · simp only [h, if_true]; constructor
    · exact Or.inl
    · rintro (h' | rfl) <;> assumption
  · simp [h]

theorem Spec.mem_step_remove (r : Spec.Reg) (c : Crontab) (id : Id) (p : Crontab × Id) :
    p ∈ Spec.step r (.remove c id) ↔ p ∈ r ∧ p ≠ (c, id) := by
  simp [Spec.step]

theorem Spec.hasBinding_iff (r : Spec.Reg) (c : Crontab) :
    Spec.hasBinding r c = true ↔ ∃ id, (c, id) ∈ r := by
  simp only [Spec.hasBinding, List.any_eq_true, beq_iff_eq]
  constructor
  · rintro ⟨⟨c', id⟩, hm, rfl⟩; exact ⟨id, hm⟩
  · rintro ⟨id, hm⟩; exact ⟨(c, id), hm, rfl⟩

theorem nodup_of_nodup_map {α β : Type} (f : α → β) (l : List α) (h : (l.map f).Nodup) : l.Nodup := by
  induction l with
  | nil => simp
  | cons a t ih =>
    simp only [List.map_cons, List.nodup_cons, List.mem_map, not_exists, not_and] at h ⊢
    exact ⟨fun hm => h.1 a hm rfl, ih h.2⟩

theorem eq_of_nodup_map {α β : Type} (f : α → β) (l : List α) (h : (l.map f).Nodup) (a b : α)
    (ha : a ∈ l) (hb : b ∈ l) (hf : f a = f b) : a = b := by
  induction l with
  | nil => simp at ha
  | cons x t ih =>
    simp only [List.map_cons, List.nodup_cons, List.mem_map, not_exists, not_and] at h
    simp only [List.mem_cons] at ha hb
    rcases ha with rfl | ha <;> rcases hb with rfl | hb
    · rfl
    · exact absurd hf.symm (h.1 b hb)
    · exact absurd hf (h.1 a ha)
    · exact ih h.2 ha hb

/-! ### The invariant -/

/-- What ties the manager's state to the set `r` of registered pairs. -/
structure Good (valid : Crontab → Bool) (s : State) (r : Spec.Reg) : Prop where
  some_ids : ∀ c e, s.entries c = some e → e.ids ≠ [] ∧ ∀ id, id ∈ e.ids ↔ (c, id) ∈ r
  none_reg : ∀ c, s.entries c = none → ∀ id, (c, id) ∉ r
  eid_valid : ∀ c e, s.entries c = some e → valid c = true → (e.entryId, c) ∈ s.cron.live
  eid_invalid : ∀ c e, s.entries c = some e → valid c = false → e.entryId = 0
  live_entry : ∀ i c, (i, c) ∈ s.cron.live →
    1 ≤ i ∧ i ≤ s.cron.nextId ∧ ∃ e, s.entries c = some e ∧ e.entryId = i
  live_nodup : (s.cron.live.map (·.1)).Nodup

theorem good_init (valid : Crontab → Bool) : Good valid {} [] := by
  constructor <;> simp

theorem setInsert_self (id : Id) : setInsert [id] id = [id] := by simp [setInsert]

theorem mem_setInsert (ids : List Id) (id x : Id) : x ∈ setInsert ids id ↔ x ∈ ids ∨ x = id := by
  unfold setInsert
  by_cases h : id ∈ ids
  · simp only [h, if_true]; constructor
    · exact Or.inl
    · rintro (h' | rfl) <;> assumption
  · simp [h]

theorem good_add (valid : Crontab → Bool) (s : State) (r : Spec.Reg) (c : Crontab) (id : Id)
    (g : Good valid s r) : Good valid (add valid s c id) (Spec.step r (.add c id)) := by
  unfold add
  cases hc : s.entries c with
  | none =>
    have hnr := g.none_reg c hc
    by_cases hv : valid c = true
    · -- a fresh cron registration with id nextId+1
      simp only [Cron.addFunc, hv, if_true, setInsert_self]
      constructor
      · intro c' e he
        by_cases hcc : c' = c
        · subst hcc
          simp only [upd, if_true] at he
          cases he
          refine ⟨by simp, fun id' => ?_⟩
          rw [Spec.mem_step_add]
          constructor
          · intro h; right; simp at h; simp [h]
          · rintro (h | h)
            · exact absurd h (hnr id')
            · simp at h; simp [h]
        · simp only [upd, hcc, if_false] at he
          have := g.some_ids c' e he
          refine ⟨this.1, fun id' => ?_⟩
          rw [Spec.mem_step_add, this.2 id']
          constructor
          · exact Or.inl
          · rintro (h | h)
            · exact h
            · simp at h; exact absurd h.1 hcc
      · intro c' he id'
        by_cases hcc : c' = c
        · subst hcc; simp [upd] at he
        · simp only [upd, hcc, if_false] at he
          rw [Spec.mem_step_add]
          rintro (h | h)
          · exact g.none_reg c' he id' h
          · simp at h; exact hcc h.1
      · intro c' e he hv'
        by_cases hcc : c' = c
        · subst hcc
          simp only [upd, if_true] at he
          cases he; simp
        · simp only [upd, hcc, if_false] at he
          have := g.eid_valid c' e he hv'
          simp [this]
      · intro c' e he hv'
        by_cases hcc : c' = c
        · subst hcc; simp [hv] at hv'
        · simp only [upd, hcc, if_false] at he
          exact g.eid_invalid c' e he hv'
      · intro i c' hm
        simp only [List.mem_append, List.mem_singleton, Prod.mk.injEq] at hm
        rcases hm with hm | ⟨rfl, rfl⟩
        · have ⟨h1, h2, e, he, hi⟩ := g.live_entry i c' hm
          have hcc : c' ≠ c := by intro h; subst h; simp [hc] at he
          exact ⟨h1, by simp; omega, e, by simp [upd, hcc, he], hi⟩
        · exact ⟨by omega, by simp, ⟨s.cron.nextId + 1, [id]⟩, by simp [upd], rfl⟩
      · simp only [List.map_append, List.map_cons, List.map_nil]
        rw [List.nodup_append]
        refine ⟨g.live_nodup, by simp, ?_⟩
        intro a ha b hb
        simp at hb; subst hb
        simp only [List.mem_map] at ha
        obtain ⟨⟨i, c'⟩, hm, rfl⟩ := ha
        have := (g.live_entry i c' hm).2.1
        simp; omega
    · -- the spec does not parse: id 0, nothing registered
      have hv' : valid c = false := by simpa using hv
      simp only [Cron.addFunc, hv', setInsert_self]
      constructor
      · intro c' e he
        by_cases hcc : c' = c
        · subst hcc
          simp only [upd, if_true] at he
          cases he
          refine ⟨by simp, fun id' => ?_⟩
          rw [Spec.mem_step_add]
          constructor
          · intro h; right; simp at h; simp [h]
          · rintro (h | h)
            · exact absurd h (hnr id')
            · simp at h; simp [h]
        · simp only [upd, hcc, if_false] at he
          have := g.some_ids c' e he
          refine ⟨this.1, fun id' => ?_⟩
          rw [Spec.mem_step_add, this.2 id']
          constructor
          · exact Or.inl
          · rintro (h | h)
            · exact h
            · simp at h; exact absurd h.1 hcc
      · intro c' he id'
        by_cases hcc : c' = c
        · subst hcc; simp [upd] at he
        · simp only [upd, hcc, if_false] at he
          rw [Spec.mem_step_add]
          rintro (h | h)
          · exact g.none_reg c' he id' h
          · simp at h; exact hcc h.1
      · intro c' e he hv''
        by_cases hcc : c' = c
        · subst hcc; simp [hv'] at hv''
        · simp only [upd, hcc, if_false] at he
          exact g.eid_valid c' e he hv''
      · intro c' e he _
        by_cases hcc : c' = c
        · subst hcc
          simp only [upd, if_true] at he
          cases he; simp
        · simp only [upd, hcc, if_false] at he
          exact g.eid_invalid c' e he ‹_›
      · intro i c' hm
        have ⟨h1, h2, e, he, hi⟩ := g.live_entry i c' hm
        have hcc : c' ≠ c := by intro h; subst h; simp [hc] at he
        exact ⟨h1, h2, e, by simp [upd, hcc, he], hi⟩
      · exact g.live_nodup
  | some e =>
    have hs := g.some_ids c e hc
    by_cases hid : id ∈ e.ids
    · -- already registered: nothing changes on either side
      simp only [hid, if_true]
      have hin : (c, id) ∈ r := (hs.2 id).1 hid
      have : Spec.step r (.add c id) = r := by simp [Spec.step, hin]
      rw [this]; exact g
    · simp only [hid, if_false]
      constructor
      · intro c' e' he
        by_cases hcc : c' = c
        · subst hcc
          simp only [upd, if_true] at he
          cases he
          refine ⟨?_, fun id' => ?_⟩
          · simp [setInsert, hid]
          · rw [Spec.mem_step_add, mem_setInsert, hs.2 id']
            simp
        · simp only [upd, hcc, if_false] at he
          have := g.some_ids c' e' he
          refine ⟨this.1, fun id' => ?_⟩
          rw [Spec.mem_step_add, this.2 id']
          constructor
          · exact Or.inl
          · rintro (h | h)
            · exact h
            · simp at h; exact absurd h.1 hcc
      · intro c' he id'
        by_cases hcc : c' = c
        · subst hcc; simp [upd] at he
        · simp only [upd, hcc, if_false] at he
          rw [Spec.mem_step_add]
          rintro (h | h)
          · exact g.none_reg c' he id' h
          · simp at h; exact hcc h.1
      · intro c' e' he hv
        by_cases hcc : c' = c
        · subst hcc
          simp only [upd, if_true] at he
          cases he; exact g.eid_valid c' e hc hv
        · simp only [upd, hcc, if_false] at he
          exact g.eid_valid c' e' he hv
      · intro c' e' he hv
        by_cases hcc : c' = c
        · subst hcc
          simp only [upd, if_true] at he
          cases he; exact g.eid_invalid c' e hc hv
        · simp only [upd, hcc, if_false] at he
          exact g.eid_invalid c' e' he hv
      · intro i c' hm
        have ⟨h1, h2, e', he, hi⟩ := g.live_entry i c' hm
        by_cases hcc : c' = c
        · subst hcc
          rw [hc] at he; cases he
          exact ⟨h1, h2, { e with ids := setInsert e.ids id }, by simp [upd], hi⟩
        · exact ⟨h1, h2, e', by simp [upd, hcc, he], hi⟩
      · exact g.live_nodup

theorem good_remove (valid : Crontab → Bool) (s : State) (r : Spec.Reg) (c : Crontab) (id : Id)
    (g : Good valid s r) : Good valid (remove s c id) (Spec.step r (.remove c id)) := by
  unfold remove
  cases hc : s.entries c with
  | none =>
    -- unknown crontab: nothing to remove on either side
    have : Spec.step r (.remove c id) = r := by
      simp only [Spec.step]
      apply List.filter_eq_self.2
      intro p hp
      simp only [bne_iff_ne, ne_eq]
      rintro rfl
      exact g.none_reg c hc id hp
    rw [this]; exact g
  | some e =>
    have hs := g.some_ids c e hc
    by_cases hid : id ∈ e.ids
    · simp only [hid, if_true]
      by_cases hlast : (e.ids.filter (fun x => x != id)).length = 0
      · -- the last id: stop the cron entry, forget the crontab
        have hall : ∀ x, x ∈ e.ids → x = id := by
          intro x hx
          have h0 : e.ids.filter (fun x => x != id) = [] := List.eq_nil_of_length_eq_zero hlast
          rw [List.filter_eq_nil_iff] at h0
          simpa using h0 x hx
        simp only [hlast, beq_self_eq_true, if_true]
        constructor
        · intro c' e' he
          by_cases hcc : c' = c
          · subst hcc; simp [upd] at he
          · simp only [upd, hcc, if_false] at he
            have := g.some_ids c' e' he
            refine ⟨this.1, fun id' => ?_⟩
            rw [Spec.mem_step_remove, this.2 id']
            constructor
            · intro h; exact ⟨h, by simp [hcc]⟩
            · exact fun h => h.1
        · intro c' he id'
          rw [Spec.mem_step_remove]
          by_cases hcc : c' = c
          · subst hcc
            rintro ⟨h1, h2⟩
            have := hall id' ((hs.2 id').2 h1)
            subst this; exact h2 rfl
          · simp only [upd, hcc, if_false] at he
            exact fun h => g.none_reg c' he id' h.1
        · intro c' e' he hv
          by_cases hcc : c' = c
          · subst hcc; simp [upd] at he
          · simp only [upd, hcc, if_false] at he
            have hm := g.eid_valid c' e' he hv
            simp only [Cron.remove, List.mem_filter, hm, true_and, bne_iff_ne, ne_eq]
            intro heq
            -- two crontabs with the same live entry id: impossible
            obtain ⟨_, _, e'', he'', hi''⟩ := g.live_entry _ _ hm
            by_cases hvc : valid c = true
            · have hm2 := g.eid_valid c e hc hvc
              have hnd := g.live_nodup
              rw [← heq] at hm2
              have := eq_of_nodup_map _ _ hnd _ _ hm hm2 rfl
              simp at this; exact hcc this
            · have hvc' : valid c = false := by simpa using hvc
              have h0 := g.eid_invalid c e hc hvc'
              have h1 := (g.live_entry _ _ hm).1
              omega
        · intro c' e' he hv
          by_cases hcc : c' = c
          · subst hcc; simp [upd] at he
          · simp only [upd, hcc, if_false] at he
            exact g.eid_invalid c' e' he hv
        · intro i c' hm
          simp only [Cron.remove, List.mem_filter, bne_iff_ne, ne_eq] at hm
          have ⟨h1, h2, e', he, hi⟩ := g.live_entry i c' hm.1
          have hcc : c' ≠ c := by
            intro h; subst h
            rw [hc] at he; cases he
            exact hm.2 hi.symm
          exact ⟨h1, h2, e', by simp [upd, hcc, he], hi⟩
        · simp only [Cron.remove]
          exact (List.filter_sublist.map _).nodup g.live_nodup
      · -- other ids remain
        have hlast' : ((e.ids.filter (fun x => x != id)).length == 0) = false := by simpa using hlast
        simp only [hlast', Bool.false_eq_true, if_false]
        constructor
        · intro c' e' he
          by_cases hcc : c' = c
          · subst hcc
            simp only [upd, if_true] at he
            cases he
            refine ⟨?_, fun id' => ?_⟩
            · intro h; simp only at h; simp [h] at hlast
            · rw [Spec.mem_step_remove]
              simp only [List.mem_filter, bne_iff_ne, ne_eq, hs.2 id']
              simp
          · simp only [upd, hcc, if_false] at he
            have := g.some_ids c' e' he
            refine ⟨this.1, fun id' => ?_⟩
            rw [Spec.mem_step_remove, this.2 id']
            constructor
            · intro h; exact ⟨h, by simp [hcc]⟩
            · exact fun h => h.1
        · intro c' he id'
          by_cases hcc : c' = c
          · subst hcc; simp [upd] at he
          · simp only [upd, hcc, if_false] at he
            rw [Spec.mem_step_remove]
            exact fun h => g.none_reg c' he id' h.1
        · intro c' e' he hv
          by_cases hcc : c' = c
          · subst hcc
            simp only [upd, if_true] at he
            cases he; exact g.eid_valid c' e hc hv
          · simp only [upd, hcc, if_false] at he
            exact g.eid_valid c' e' he hv
        · intro c' e' he hv
          by_cases hcc : c' = c
          · subst hcc
            simp only [upd, if_true] at he
            cases he; exact g.eid_invalid c' e hc hv
          · simp only [upd, hcc, if_false] at he
            exact g.eid_invalid c' e' he hv
        · intro i c' hm
          have ⟨h1, h2, e', he, hi⟩ := g.live_entry i c' hm
          by_cases hcc : c' = c
          · subst hcc
            rw [hc] at he; cases he
            exact ⟨h1, h2, { e with ids := e.ids.filter (fun x => x != id) }, by simp [upd], hi⟩
          · exact ⟨h1, h2, e', by simp [upd, hcc, he], hi⟩
        · exact g.live_nodup
    · -- unknown id for a known crontab
      simp only [hid, if_false]
      have : Spec.step r (.remove c id) = r := by
        simp only [Spec.step]
        apply List.filter_eq_self.2
        intro p hp
        simp only [bne_iff_ne, ne_eq]
        rintro rfl
        exact hid ((hs.2 id).2 hp)
      rw [this]; exact g

theorem good_step (valid : Crontab → Bool) (s : State) (r : Spec.Reg) (op : Op) (g : Good valid s r) :
    Good valid (step valid s op) (Spec.step r op) := by
  cases op with
  | add c id => exact good_add valid s r c id g
  | remove c id => exact good_remove valid s r c id g

theorem good_foldl (valid : Crontab → Bool) (ops : List Op) (s : State) (r : Spec.Reg)
    (g : Good valid s r) : Good valid (ops.foldl (step valid) s) (ops.foldl Spec.step r) := by
  induction ops generalizing s r with
  | nil => exact g
  | cons op ops ih => exact ih _ _ (good_step valid s r op g)

theorem good_run (valid : Crontab → Bool) (ops : List Op) :
    Good valid (run valid ops) (Spec.registered ops) :=
  good_foldl valid ops {} [] (good_init valid)

/-- A duplicate-free list all of whose elements equal `x` and which contains `x` has length 1. -/
theorem length_one_of_nodup_all_eq {α : Type} (l : List α) (x : α) (hn : l.Nodup)
    (hall : ∀ y ∈ l, y = x) (hx : x ∈ l) : l.length = 1 := by
  match l with
  | [] => simp at hx
  | [a] => rfl
  | a :: b :: t =>
    have ha := hall a (by simp)
    have hb := hall b (by simp)
    subst ha; subst hb
    simp at hn

/-- The invariant decides the number of live registrations of every crontab. -/
theorem liveCount_of_good (valid : Crontab → Bool) (s : State) (r : Spec.Reg) (g : Good valid s r)
    (c : Crontab) : liveCount s c = Spec.wantLive valid r c := by
  unfold liveCount Spec.wantLive
  cases hc : s.entries c with
  | none =>
    have h1 : Spec.hasBinding r c = false := by
      cases h : Spec.hasBinding r c with
      | false => rfl
      | true =>
        obtain ⟨id, hm⟩ := (Spec.hasBinding_iff r c).1 h
        exact absurd hm (g.none_reg c hc id)
    have h2 : s.cron.live.filter (fun e => e.2 == c) = [] := by
      rw [List.filter_eq_nil_iff]
      rintro ⟨i, c'⟩ hm
      simp only [beq_iff_eq]
      rintro rfl
      obtain ⟨_, _, e, he, _⟩ := g.live_entry i c' hm
      simp [hc] at he
    simp [h1, h2]
  | some e =>
    have hs := g.some_ids c e hc
    have h1 : Spec.hasBinding r c = true := by
      rw [Spec.hasBinding_iff]
      cases hids : e.ids with
      | nil => exact absurd hids hs.1
      | cons x xs => exact ⟨x, (hs.2 x).1 (by simp [hids])⟩
    have hallid : ∀ p ∈ s.cron.live.filter (fun e => e.2 == c), p = (e.entryId, c) := by
      rintro ⟨i, c'⟩ hm
      simp only [List.mem_filter, beq_iff_eq] at hm
      obtain ⟨hm, rfl⟩ := hm
      obtain ⟨_, _, e', he', hi⟩ := g.live_entry i c' hm
      rw [hc] at he'; cases he'
      simp [hi]
    cases hv : valid c with
    | true =>
      have hm := g.eid_valid c e hc hv
      have hn : (s.cron.live.filter (fun e => e.2 == c)).Nodup :=
        (List.filter_sublist).nodup (nodup_of_nodup_map _ _ g.live_nodup)
      have := length_one_of_nodup_all_eq _ _ hn hallid (by simp [hm])
      simp [h1, this]
    | false =>
      have h0 := g.eid_invalid c e hc hv
      have h2 : s.cron.live.filter (fun e => e.2 == c) = [] := by
        rw [List.eq_nil_iff_forall_not_mem]
        intro p hp
        have hp' := hallid p hp
        subst hp'
        simp only [List.mem_filter] at hp
        have := (g.live_entry _ _ hp.1).1
        omega
      simp [h2]

/-! ### The bindings controller -/

def pair (b : Binding) : Id × Link := (b.id, b.link)

def addOps (bs : List Binding) : List Op := bs.map (fun b => .add b.crontab b.id)
def removeOps (bs : List Binding) : List Op := bs.map (fun b => .remove b.crontab b.id)

theorem enableLoop_fst (valid : Crontab → Bool) (sm : State) (l : Links) (bs : List Binding) :
    (enableLoop valid sm l bs).1 = (addOps bs).foldl (step valid) sm := by
  induction bs generalizing sm l with
  | nil => rfl
  | cons b bs ih => simp [enableLoop, addOps, step, ih]

theorem enableLoop_snd (valid : Crontab → Bool) (sm : State) (l : Links) (bs : List Binding) :
    (enableLoop valid sm l bs).2 = bs.foldl (fun l b => linkPut l b.id b.link) l := by
  induction bs generalizing sm l with
  | nil => rfl
  | cons b bs ih => simp [enableLoop, ih]

theorem disableLoop_fst (sm : State) (l : Links) (bs : List Binding) (valid : Crontab → Bool) :
    (disableLoop sm l bs).1 = (removeOps bs).foldl (step valid) sm := by
  induction bs generalizing sm l with
  | nil => rfl
  | cons b bs ih => simp [disableLoop, removeOps, step, ih]

theorem disableLoop_snd (sm : State) (l : Links) (bs : List Binding) :
    (disableLoop sm l bs).2 = bs.foldl (fun l b => linkDel l b.id) l := by
  induction bs generalizing sm l with
  | nil => rfl
  | cons b bs ih => simp [disableLoop, ih]

/-- Filling an empty (prefix-filled) link map binding by binding appends the links in order. -/
theorem set_loop_fresh (pre bs : List Binding) (hnd : ((pre ++ bs).map (·.id)).Nodup) :
    bs.foldl (fun l b => linkPut l b.id b.link) (pre.map pair) = (pre ++ bs).map pair := by
  induction bs generalizing pre with
  | nil => simp
  | cons b bs ih =>
    have hfresh : (pre.map pair).any (fun p => p.1 == b.id) = false := by
      rw [List.any_eq_false]
      intro p hp
      simp only [List.mem_map] at hp
      obtain ⟨b', hb', rfl⟩ := hp
      simp only [pair, beq_iff_eq]
      intro heq
      simp only [List.map_append, List.map_cons] at hnd
      rw [List.nodup_append] at hnd
      exact hnd.2.2 b'.id (List.mem_map.2 ⟨b', hb', rfl⟩) b.id (by simp) heq
    have hstep : linkPut (pre.map pair) b.id b.link = (pre ++ [b]).map pair := by
      simp [linkPut, hfresh, pair]
    simp only [List.foldl_cons, hstep]
    have := ih (pre ++ [b]) (by simpa using hnd)
    simpa using this

/-- Storing a link that is already there (same key, same value) changes nothing. -/
theorem set_present (cfg : List Binding) (hnd : (cfg.map (·.id)).Nodup) (b : Binding) (hb : b ∈ cfg) :
    linkPut (cfg.map pair) b.id b.link = cfg.map pair := by
  have hany : (cfg.map pair).any (fun p => p.1 == b.id) = true := by
    rw [List.any_eq_true]; exact ⟨pair b, List.mem_map.2 ⟨b, hb, rfl⟩, by simp [pair]⟩
  simp only [linkPut, hany, if_true, List.map_map]
  apply List.map_congr_left
  intro b' hb'
  simp only [Function.comp, pair, beq_iff_eq]
  by_cases h : b'.id = b.id
  · have := eq_of_nodup_map _ _ hnd b' b hb' hb h
    subst this; simp
  · simp [h]

theorem set_loop_present (cfg : List Binding) (hnd : (cfg.map (·.id)).Nodup) (bs : List Binding)
    (hsub : ∀ b ∈ bs, b ∈ cfg) :
    bs.foldl (fun l b => linkPut l b.id b.link) (cfg.map pair) = cfg.map pair := by
  induction bs with
  | nil => rfl
  | cons b bs ih =>
    simp only [List.foldl_cons, set_present cfg hnd b (hsub b (by simp))]
    exact ih (fun b' hb' => hsub b' (by simp [hb']))

theorem del_loop (l : Links) (bs : List Binding) :
    bs.foldl (fun l b => linkDel l b.id) l = l.filter (fun p => !(bs.any (fun b => b.id == p.1))) := by
  induction bs generalizing l with
  | nil =>
    simp only [List.foldl_nil, List.any_nil, Bool.not_false]
    exact (List.filter_eq_self.2 (fun _ _ => rfl)).symm
  | cons b bs ih =>
    rw [List.foldl_cons, ih]
    simp only [linkDel, List.filter_filter, List.any_cons]
    apply List.filter_congr
    intro p _
    by_cases h : b.id = p.1
    · simp [h]
    · have e1 : (p.1 != b.id) = true := by
        rw [bne_iff_ne]; exact fun e => h e.symm
      have e2 : (b.id == p.1) = false := by
        rw [beq_eq_false_iff_ne]; exact h
      rw [e1, e2]; simp

theorem del_loop_full (cfg : List Binding) :
    cfg.foldl (fun l b => linkDel l b.id) (cfg.map pair) = [] := by
  rw [del_loop, List.filter_eq_nil_iff]
  intro p hp
  simp only [List.mem_map] at hp
  obtain ⟨b, hb, rfl⟩ := hp
  have : cfg.any (fun b' => b'.id == (pair b).1) = true := by
    rw [List.any_eq_true]; exact ⟨b, hb, by simp [pair]⟩
  simp [this]

theorem del_loop_empty (cfg : List Binding) : cfg.foldl (fun l b => linkDel l b.id) ([] : Links) = [] := by
  rw [del_loop]; rfl

/-! ### Registered pairs after whole-hook enable / disable -/

theorem mem_foldl_addOps (bs : List Binding) (r : Spec.Reg) (p : Crontab × Id) :
    p ∈ (addOps bs).foldl Spec.step r ↔ p ∈ r ∨ ∃ b ∈ bs, (b.crontab, b.id) = p := by
  induction bs generalizing r with
  | nil => simp [addOps]
  | cons b bs ih =>
    simp only [addOps, List.map_cons, List.foldl_cons] at ih ⊢
    rw [ih, Spec.mem_step_add]
    constructor
    · rintro ((h | h) | ⟨b', hb', h⟩)
      · exact Or.inl h
      · exact Or.inr ⟨b, by simp, h.symm⟩
      · exact Or.inr ⟨b', by simp [hb'], h⟩
    · rintro (h | ⟨b', hb', h⟩)
      · exact Or.inl (Or.inl h)
      · simp only [List.mem_cons] at hb'
        rcases hb' with rfl | hb'
        · exact Or.inl (Or.inr h.symm)
        · exact Or.inr ⟨b', hb', h⟩

theorem mem_foldl_removeOps (bs : List Binding) (r : Spec.Reg) (p : Crontab × Id) :
    p ∈ (removeOps bs).foldl Spec.step r ↔ p ∈ r ∧ ∀ b ∈ bs, (b.crontab, b.id) ≠ p := by
  induction bs generalizing r with
  | nil => simp [removeOps]
  | cons b bs ih =>
    simp only [removeOps, List.map_cons, List.foldl_cons] at ih ⊢
    rw [ih, Spec.mem_step_remove]
    constructor
    · rintro ⟨⟨h1, h2⟩, h3⟩
      refine ⟨h1, fun b' hb' => ?_⟩
      simp only [List.mem_cons] at hb'
      rcases hb' with rfl | hb'
      · exact fun e => h2 e.symm
      · exact h3 b' hb'
    · rintro ⟨h1, h2⟩
      exact ⟨⟨h1, fun e => h2 b (by simp) e.symm⟩, fun b' hb' => h2 b' (by simp [hb'])⟩

/-! ### The system invariant -/

structure SysGood (valid : Crontab → Bool) (cfg : Nat → List Binding) (s : Sys) (en : Nat → Bool) : Prop where
  reg : ∃ r, Good valid s.sm r ∧
    ∀ p, p ∈ r ↔ ∃ h, en h = true ∧ ∃ b ∈ cfg h, (b.crontab, b.id) = p
  links : ∀ h, s.links h = if en h then (cfg h).map pair else []

theorem sysGood_step (valid : Crontab → Bool) (cfg : Nat → List Binding)
    (hnd : ∀ h, ((cfg h).map (·.id)).Nodup)
    (huniq : ∀ h h' b b', b ∈ cfg h → b' ∈ cfg h' → b.id = b'.id → h = h')
    (s : Sys) (en : Nat → Bool) (op : SysOp) (g : SysGood valid cfg s en) :
    SysGood valid cfg (sysStep valid cfg s op) (Spec.enStep en op) := by
  obtain ⟨⟨r, gr, hr⟩, hl⟩ := g
  cases op with
  | enable h =>
    constructor
    · refine ⟨(addOps (cfg h)).foldl Spec.step r, ?_, ?_⟩
      · simp only [sysStep, enableLoop_fst]
        exact good_foldl valid _ _ _ gr
      · intro p
        rw [mem_foldl_addOps, hr]
        simp only [Spec.enStep]
        constructor
        · rintro (⟨h', he, hb⟩ | hb)
          · refine ⟨h', ?_, hb⟩
            by_cases hh : h' = h <;> simp [hh, he]
          · exact ⟨h, by simp, hb⟩
        · rintro ⟨h', he, hb⟩
          by_cases hh : h' = h
          · subst hh; exact Or.inr hb
          · simp only [hh, if_false] at he
            exact Or.inl ⟨h', he, hb⟩
    · intro h'
      simp only [sysStep, Spec.enStep, enableLoop_snd]
      by_cases hh : h' = h
      · subst hh
        simp only [if_true]
        rw [hl h']
        by_cases he : en h' = true
        · simp only [he, if_true]
          exact set_loop_present _ (hnd h') _ (fun _ hb => hb)
        · have he' : en h' = false := by simpa using he
          simp only [he']
          have := set_loop_fresh [] (cfg h') (by simpa using hnd h')
          simpa using this
      · simp [hh, hl h']
  | disable h =>
    constructor
    · refine ⟨(removeOps (cfg h)).foldl Spec.step r, ?_, ?_⟩
      · simp only [sysStep, disableLoop_fst _ _ _ valid]
        exact good_foldl valid _ _ _ gr
      · intro p
        rw [mem_foldl_removeOps, hr]
        simp only [Spec.enStep]
        constructor
        · rintro ⟨⟨h', he, b', hb', hp⟩, hno⟩
          have hh : h' ≠ h := by
            rintro rfl
            exact hno b' hb' hp
          exact ⟨h', by simp [hh, he], b', hb', hp⟩
        · rintro ⟨h', he, b', hb', hp⟩
          have hh : h' ≠ h := by
            rintro rfl
            simp at he
          simp only [hh, if_false] at he
          refine ⟨⟨h', he, b', hb', hp⟩, fun b hb heq => ?_⟩
          subst hp
          simp only [Prod.mk.injEq] at heq
          exact hh (huniq h h' b b' hb hb' heq.2).symm
    · intro h'
      simp only [sysStep, Spec.enStep, disableLoop_snd]
      by_cases hh : h' = h
      · subst hh
        simp only [if_true]
        rw [hl h']
        by_cases he : en h' = true
        · simp only [he, if_true]
          simpa using del_loop_full (cfg h')
        · have he' : en h' = false := by simpa using he
          simp only [he']
          simpa using del_loop_empty (cfg h')
      · simp [hh, hl h']

theorem sysGood_foldl (valid : Crontab → Bool) (cfg : Nat → List Binding)
    (hnd : ∀ h, ((cfg h).map (·.id)).Nodup)
    (huniq : ∀ h h' b b', b ∈ cfg h → b' ∈ cfg h' → b.id = b'.id → h = h')
    (ops : List SysOp) (s : Sys) (en : Nat → Bool) (g : SysGood valid cfg s en) :
    SysGood valid cfg (ops.foldl (sysStep valid cfg) s) (ops.foldl Spec.enStep en) := by
  induction ops generalizing s en with
  | nil => exact g
  | cons op ops ih => exact ih _ _ (sysGood_step valid cfg hnd huniq s en op g)

theorem sysGood_run (valid : Crontab → Bool) (cfg : Nat → List Binding)
    (hnd : ∀ h, ((cfg h).map (·.id)).Nodup)
    (huniq : ∀ h h' b b', b ∈ cfg h → b' ∈ cfg h' → b.id = b'.id → h = h')
    (ops : List SysOp) : SysGood valid cfg (sysRun valid cfg ops) (Spec.enabledAfter ops) := by
  apply sysGood_foldl valid cfg hnd huniq
  exact ⟨⟨[], good_init valid, by simp⟩, by simp⟩

/-! ### HandleEvent / HandleScheduleEvent -/

theorem perm_flatMap_left {α β : Type} (l : List α) (f g : α → List β) (h : ∀ a ∈ l, (f a).Perm (g a)) :
    (l.flatMap f).Perm (l.flatMap g) := by
  induction l with
  | nil => simp
  | cons a t ih =>
    simp only [List.flatMap_cons]
    exact (h a (by simp)).append (ih (fun a' ha' => h a' (by simp [ha'])))

theorem handleEvent_perm (ord : Links → Links) (hord : ∀ l, (ord l).Perm l) (l : Links) (c : Crontab) :
    (handleEvent ord l c).Perm ((l.filter (fun p => p.2.crontab == c)).map (fun p => p.2.info)) :=
  ((hord l).filter _).map _

theorem canHandle_false (ord : Links → Links) (hord : ∀ l, (ord l).Perm l) (l : Links) (c : Crontab)
    (h : canHandle l c = false) : handleEvent ord l c = [] := by
  have := handleEvent_perm ord hord l c
  have hnil : l.filter (fun p => p.2.crontab == c) = [] := by
    rw [List.filter_eq_nil_iff]
    intro p hp
    rw [canHandle, List.any_eq_false] at h
    exact h p hp
  rw [hnil] at this
  simpa using this

theorem scheduleTasks_perm (ord : Links → Links) (hord : ∀ l, (ord l).Perm l) (hooks : List Nat)
    (links : Nat → Links) (c : Crontab) :
    (scheduleTasks ord hooks links c).Perm
      (hooks.flatMap (fun h =>
        ((links h).filter (fun p => p.2.crontab == c)).map (fun p => Info.task h p.2.info))) := by
  unfold scheduleTasks
  apply perm_flatMap_left
  intro h _
  cases hc : canHandle (links h) c with
  | true =>
    simp only [if_true]
    have := (handleEvent_perm ord hord (links h) c).map (Info.task h)
    simpa [List.map_map, Function.comp_def] using this
  | false =>
    have hnil : (links h).filter (fun p => p.2.crontab == c) = [] := by
      rw [List.filter_eq_nil_iff]
      intro p hp
      rw [canHandle, List.any_eq_false] at hc
      exact hc p hp
    simp [hnil]

theorem place_eq (queues : List (Nat × List Task)) (ts : List Task) :
    place queues ts = queues.map (fun q => (q.1, q.2 ++ ts.filter (fun t => q.1 == t.queue))) := by
  unfold place
  induction ts generalizing queues with
  | nil => simp
  | cons t ts ih =>
    simp only [List.foldl_cons, ih, List.map_map]
    apply List.map_congr_left
    intro q _
    by_cases h : q.1 = t.queue
    · simp [h]
    · simp [h]

/-! ### loading of the declared schedule entries -/

theorem mem_mergeTail (u as : List Nat) (x : Nat) : x ∈ mergeTail u as ↔ x ∈ u ∧ x ∈ as := by
  induction as generalizing u with
  | nil => simp [mergeTail]
  | cons a as ih =>
    unfold mergeTail
    by_cases h : a ∈ u
    · simp only [h, if_true, List.mem_cons, ih, List.mem_filter, bne_iff_ne, ne_eq]
      constructor
      · rintro (rfl | ⟨⟨hu, _⟩, ha⟩)
        · exact ⟨h, Or.inl rfl⟩
        · exact ⟨hu, Or.inr ha⟩
      · rintro ⟨hu, rfl | ha⟩
        · exact Or.inl rfl
        · by_cases hx : x = a
          · exact Or.inl hx
          · exact Or.inr ⟨⟨hu, hx⟩, ha⟩
    · simp only [h, if_false, ih, List.mem_cons]
      constructor
      · rintro ⟨hu, ha⟩; exact ⟨hu, Or.inr ha⟩
      · rintro ⟨hu, rfl | ha⟩
        · exact absurd hu h
        · exact ⟨hu, ha⟩

theorem nodupB_mergeTail (u as : List Nat) : Spec.nodupB (mergeTail u as) = true := by
  induction as generalizing u with
  | nil => simp [mergeTail, Spec.nodupB]
  | cons a as ih =>
    unfold mergeTail
    by_cases h : a ∈ u
    · simp only [h, if_true, Spec.nodupB, Bool.and_eq_true, Bool.not_eq_true', ih, and_true]
      have : a ∉ mergeTail (u.filter (· != a)) as := by
        rw [mem_mergeTail]; simp
      simpa using this
    · simp only [h, if_false, ih]

/-- One declared entry, loaded (`load` is this, entry by entry). -/
def loadOne (df : Defaults) (v0 : Bool) (kubes : List KubeDecl) (id : Id) (d : Decl) : Binding :=
  if v0 then convertV0 df id d else mergeGroup df kubes (convertV1 df id d)

theorem load_eq_map (df : Defaults) (v0 : Bool) (kubes : List KubeDecl) (ds : List (Id × Decl)) :
    load df v0 kubes ds = ds.map (fun p => loadOne df v0 kubes p.1 p.2) := by
  cases v0 <;> simp [load, loadV0, loadV1, loadOne, List.map_map, Function.comp_def]

theorem loadOne_id (df : Defaults) (v0 : Bool) (kubes : List KubeDecl) (id : Id) (d : Decl) :
    (loadOne df v0 kubes id d).id = id := by
  cases v0
  · simp only [loadOne, mergeGroup, Bool.false_eq_true, if_false]
    cases groupSnaps df kubes (convertV1 df id d).group <;> rfl
  · rfl

theorem loadOne_crontab (df : Defaults) (v0 : Bool) (kubes : List KubeDecl) (id : Id) (d : Decl) :
    (loadOne df v0 kubes id d).crontab = d.crontab := by
  cases v0
  · simp only [loadOne, mergeGroup, Bool.false_eq_true, if_false]
    cases groupSnaps df kubes (convertV1 df id d).group <;> rfl
  · rfl

theorem snapshotsOk_self_nil (a : List Nat) : Spec.snapshotsOk a [] a = true := by
  simp [Spec.snapshotsOk, Spec.nodupB]

theorem snapshotsOk_merge (a names : List Nat) : Spec.snapshotsOk a names (mergeArrays a names) = true := by
  unfold Spec.snapshotsOk mergeArrays
  simp only [List.take_left', List.drop_left', beq_self_eq_true, Bool.true_and, Bool.and_eq_true,
    List.all_eq_true, nodupB_mergeTail, and_true]
  constructor
  · intro x hx
    rw [mem_mergeTail] at hx
    obtain ⟨hu, hn⟩ := hx
    simp only [List.mem_filter] at hu
    have hna : x ∉ a := by simpa using hu.2
    simp [hn, hna]
  · intro x hx
    by_cases ha : x ∈ a
    · simp [ha]
    · have : x ∈ mergeTail (names.filter (fun y => !(a.contains y))) names := by
        rw [mem_mergeTail]; exact ⟨by simp [List.mem_filter, hx, ha], hx⟩
      simp only [List.contains_eq_mem] at this
      simp [this]

/-- The loader hands the controller the binding the hook declared. -/
theorem loadOne_declaredAs (df : Defaults) (v0 : Bool) (kubes : List KubeDecl) (id : Id) (d : Decl) :
    Spec.declaredAs df v0 kubes id d (loadOne df v0 kubes id d) = true := by
  cases v0
  · -- v1
    simp only [loadOne, Bool.false_eq_true, if_false, Spec.declaredAs, mergeGroup]
    have hnames : ∀ sn, groupSnaps df kubes d.group = some sn → Spec.groupNames df kubes d.group = sn := by
      intro sn h
      unfold groupSnaps at h
      simp only at h
      split at h
      · cases h
      · rename_i hne
        injection h with h
        subst h
        unfold Spec.groupNames
        by_cases hg : d.group = df.noGroup
        · exfalso; apply hne
          simp [hg]
        · have : (d.group == df.noGroup) = false := by simpa using hg
          simp only [this, Bool.false_eq_true, if_false]
          congr 1
          apply List.filter_congr
          intro k _
          by_cases hk : k.group = d.group
          · simp [hk, hg]
          · simp [hk]
    have hnone : groupSnaps df kubes d.group = none → Spec.groupNames df kubes d.group = [] := by
      intro h
      unfold groupSnaps at h
      simp only at h
      split at h
      · rename_i he
        unfold Spec.groupNames
        by_cases hg : d.group = df.noGroup
        · simp [hg]
        · have : (d.group == df.noGroup) = false := by simpa using hg
          simp only [this, Bool.false_eq_true, if_false]
          have he' := List.isEmpty_iff.mp he
          rw [← he']
          congr 1
          apply List.filter_congr
          intro k _
          by_cases hk : k.group = d.group
          · simp [hk, hg]
          · simp [hk]
      · cases h
    have hgrp : (convertV1 df id d).group = d.group := rfl
    rw [hgrp]
    cases hs : groupSnaps df kubes d.group with
    | none =>
      simp only [convertV1, hnone hs, snapshotsOk_self_nil]
      cases d.name <;> cases d.queue <;> simp
    | some sn =>
      simp only [convertV1, hnames sn hs, snapshotsOk_merge]
      cases d.name <;> cases d.queue <;> simp
  · -- v0
    simp only [loadOne, if_true, Spec.declaredAs, convertV0]
    cases d.name <;> simp

end ShellOp.Schedule
