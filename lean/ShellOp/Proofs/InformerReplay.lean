import ShellOp.Proofs.Informer
/-! Replaying the delivered events on top of the Synchronization view reproduces the final cache. -/
namespace ShellOp.Informer

theorem get_erase (c : Cache) (id id' : Nat) :
    (Cache.erase c id).get id' = if id' = id then none else c.get id' := by
  induction c with
  | nil => simp [Cache.erase, Cache.get]
  | cons p rest ih =>
    obtain ⟨k, v⟩ := p
    by_cases hk : k = id
    · subst hk
      by_cases hi : id' = k
      · subst hi; simp [Cache.erase, Cache.get, ih]
      · have : ¬ k = id' := fun e => hi e.symm
        simp [Cache.erase, Cache.get, ih, hi, this]
    · by_cases hq : k = id'
      · subst hq; simp [Cache.erase, Cache.get, hk]
      · simp [Cache.erase, Cache.get, hk, hq, ih]

theorem get_append_singleton (c : Cache) (id cs id' : Nat) :
    Cache.get (c ++ [(id, cs)]) id' =
      match c.get id' with
      | some v => some v
      | none => if id' = id then some cs else none := by
  induction c with
  | nil =>
    by_cases h : id = id'
    · subst h; simp [Cache.get]
    · have : ¬ id' = id := fun e => h e.symm
      simp [Cache.get, h, this]
  | cons p rest ih =>
    obtain ⟨k, v⟩ := p
    by_cases hq : k = id'
    · simp [Cache.get, hq]
    · simp [Cache.get, hq, ih]

theorem get_put (c : Cache) (id cs id' : Nat) :
    (Cache.put c id cs).get id' = if id' = id then some cs else c.get id' := by
  unfold Cache.put
  rw [get_append_singleton, get_erase]
  by_cases h : id' = id
  · simp [h]
  · simp [h]; cases c.get id' <;> rfl

def effect (e : Ev) : Option Nat := if e.kind == .deleted then none else some e.cs

theorem get_applyEv (c : Cache) (e : Ev) (id : Nat) :
    (applyEv c e).get id = if id = e.id then effect e else c.get id := by
  unfold applyEv effect
  by_cases hk : e.kind = .deleted
  · simp [hk, get_erase]
  · simp [hk, get_put]

/-- The map computed by replaying a list of events: per object the last event wins. -/
theorem get_foldl_applyEv (l : List Ev) (c : Cache) (id : Nat) :
    (l.foldl applyEv c).get id =
      match l.reverse.find? (fun e => e.id == id) with
      | some e => effect e
      | none => c.get id := by
  induction l generalizing c with
  | nil => simp
  | cons e rest ih =>
    simp only [List.foldl_cons, List.reverse_cons, List.find?_append]
    rw [ih]
    cases hfind : rest.reverse.find? (fun e => e.id == id) with
    | some e' => simp
    | none =>
      simp only [Option.none_or, List.find?_cons, List.find?_nil]
      rw [get_applyEv]
      by_cases h : e.id = id
      · simp [h]
      · have h1 : ¬ id = e.id := fun x => h x.symm
        have h2 : (e.id == id) = false := by simpa using h
        simp [h1, h2]

theorem same_foldl (l : List Ev) (a b : Cache) (h : Cache.Same a b) :
    Cache.Same (l.foldl applyEv a) (l.foldl applyEv b) := by
  intro id; rw [get_foldl_applyEv, get_foldl_applyEv, h id]

/-- Re-applying a suffix of the history to the state it produced changes nothing. -/
theorem replay_suffix_same (c : Cache) (a p : List Ev) :
    Cache.Same (p.foldl applyEv ((a ++ p).foldl applyEv c)) ((a ++ p).foldl applyEv c) := by
  intro id
  rw [get_foldl_applyEv]
  cases hfind : p.reverse.find? (fun e => e.id == id) with
  | none => rfl
  | some e =>
    simp only
    rw [get_foldl_applyEv, List.reverse_append, List.find?_append, hfind]
    simp

/-- Second invariant: the cache and the Synchronization view are what replaying the fired events
from the initial cache gives (needs every event type to fire: a suppressed event is then exactly
one that does not change the map). -/
structure Tracks (c0 : Cache) (s : St) : Prop where
  cache : Cache.Same s.cache (s.fired.foldl applyEv c0)
  view : Cache.Same s.syncView ((s.fired.take s.syncMark).foldl applyEv c0)
  mark_le : s.syncMark ≤ s.fired.length
  allTypes : ∀ k, s.types.contains k = true

theorem tracks_w1 (c0 : Cache) (s s' : St) (t : Tracks c0 s) (h : stepW1 s = some s') : Tracks c0 s' := by
  unfold stepW1 at h
  split at h
  · rename_i ev rest hw hp
    simp only [Option.some.injEq] at h
    subst h
    have hall := t.allTypes ev.kind
    have hcache' : Cache.Same (if (ev.kind == Kind.deleted) = true then s.cache.erase ev.id else s.cache.put ev.id ev.cs)
        (applyEv (s.fired.foldl applyEv c0) ev) := by
      intro id
      have := get_applyEv s.cache ev id
      unfold applyEv at this
      rw [this, get_applyEv, t.cache id]
    by_cases hskip : (ev.kind != Kind.deleted && s.cache.get ev.id == some ev.cs) = true
    · -- suppressed: the map does not change
      simp only [hskip, Bool.not_true, Bool.false_and, Bool.false_eq_true, if_false]
      refine ⟨?_, t.view, t.mark_le, t.allTypes⟩
      intro id
      rw [hcache' id, get_applyEv]
      simp only [Bool.and_eq_true, bne_iff_ne, ne_eq, beq_iff_eq] at hskip
      by_cases hid : id = ev.id
      · subst hid
        simp only [if_true, effect]
        have hk : (ev.kind == Kind.deleted) = false := by simpa using hskip.1
        rw [hk]; simp only [Bool.false_eq_true, if_false]
        rw [← t.cache ev.id]; exact hskip.2.symm
      · simp [hid]
    · have hskip' : (ev.kind != Kind.deleted && s.cache.get ev.id == some ev.cs) = false := by
        simpa using hskip
      simp only [hskip', hall, Bool.not_false, Bool.and_self, if_true]
      refine ⟨?_, ?_, ?_, t.allTypes⟩
      · intro id; rw [List.foldl_append]; exact hcache' id
      · have : (s.fired ++ [ev]).take s.syncMark = s.fired.take s.syncMark := by
          rw [List.take_append_of_le_length t.mark_le]
        simp only [this]; exact t.view
      · simp; exact Nat.le_succ_of_le t.mark_le
  · simp at h

theorem tracks_step (c0 : Cache) (s s' : St) (a : Action) (t : Tracks c0 s)
    (h : step true s a = some s') : Tracks c0 s' := by
  cases a with
  | w1 => exact tracks_w1 c0 s s' t h
  | w2 =>
    simp only [step] at h
    repeat' split at h
    all_goals first
      | (simp at h; done)
      | (simp only [Option.some.injEq] at h; subst h; exact ⟨t.cache, t.view, t.mark_le, t.allTypes⟩)
  | w3 =>
    simp only [step] at h
    repeat' split at h
    all_goals first
      | (simp at h; done)
      | (simp only [Option.some.injEq] at h; subst h; exact ⟨t.cache, t.view, t.mark_le, t.allTypes⟩)
  | s1 tg =>
    simp only [step] at h
    repeat' split at h
    all_goals first
      | (simp at h; done)
      | (simp only [Option.some.injEq] at h; subst h; exact ⟨t.cache, t.view, t.mark_le, t.allTypes⟩)
      | (simp only [Option.some.injEq] at h; subst h
         refine ⟨t.cache, ?_, Nat.le_refl _, t.allTypes⟩
         simp only [List.take_length]; exact t.cache)
  | s2 tg =>
    simp only [step] at h
    repeat' split at h
    all_goals first
      | (simp at h; done)
      | (simp only [Option.some.injEq] at h; subst h; exact ⟨t.cache, t.view, t.mark_le, t.allTypes⟩)
  | e =>
    simp only [step] at h
    repeat' split at h
    all_goals first
      | (simp at h; done)
      | (simp only [Option.some.injEq] at h; subst h; exact ⟨t.cache, t.view, t.mark_le, t.allTypes⟩)

theorem tracks_run (c0 : Cache) (s : St) (sched : List Action) (t : Tracks c0 s) :
    Tracks c0 (run true s sched) := by
  unfold run
  induction sched generalizing s with
  | nil => exact t
  | cons a rest ih =>
    simp only [List.foldl_cons]
    apply ih
    cases h : step true s a with
    | none => simpa using t
    | some s' => simpa using tracks_step c0 s s' a t h

end ShellOp.Informer
