import ShellOp.Proofs.WorkerSys
/-!
The `Status` string of a queue says "stop" exactly when its worker goroutine has returned
(`WaitStopWithTimeout` reads it): invariant `SInv`, preserved by every step of the system.
-/
namespace ShellOp.Worker

open ShellOp.Queue (Id Items)

/-- the status saved at the entry of the wait loop (`origStatus`) -/
def origOf : Pc → Option QStatus
  | .waitLoop _ o | .tickRecv _ o | .ticked _ o | .waitGet o => some o
  | _ => none

def StatusOk (qs : QState) : Prop :=
  match qs.workers with
  | [] => qs.status ≠ .stop
  | [pc] => (qs.status = .stop ↔ pc = .stopped) ∧ origOf pc ≠ some .stop
  | _ => True

structure SInv (s : State) : Prop where
  status : ∀ q qs, s.qs q = some qs → StatusOk qs
  noHandler : ∀ q qs, s.qs q = some qs → qs.hasHandler = false → qs.workers = []
  saw : ∀ c q, s.callers c = .sawNotStarted q → ∃ qs, s.qs q = some qs ∧ qs.hasHandler = true

theorem sleepOf_ne_stop (cfg : Cfg) (r : Result) : (sleepOf cfg r).2 ≠ .stop := by
  unfold sleepOf
  cases r.status <;> simp <;> split <;> simp

theorem wstep_status (cfg : Cfg) (done : Bool) (q : QName) (qs qs' : QState) (pc pc' : Pc) (a : WAct)
    (evs : List Ev) (h : wstep cfg done q qs pc a = some (qs', pc', evs))
    (h1 : qs.status = .stop ↔ pc = .stopped) (h2 : origOf pc ≠ some .stop) :
    ((qs'.status = .stop ↔ pc' = .stopped) ∧ origOf pc' ≠ some .stop) ∧ qs'.hasHandler = qs.hasHandler := by
  have hs := sleepOf_ne_stop cfg
  cases pc <;> cases a <;> simp [wstep] at h
  all_goals (repeat' split at h) <;> (try simp at h) <;>
    (try (obtain ⟨rfl, rfl, rfl⟩ := h)) <;> (try (obtain ⟨_, rfl, rfl, rfl⟩ := h)) <;>
    simp_all [origOf, leaveWait]
  all_goals (try (split <;> simp))
  all_goals (try (rename_i t; cases t <;> simp_all))

theorem deliver1_sinv (s : State) (x : QName × Id) (inv : SInv s) : SInv (deliver1 s x) := by
  obtain ⟨h1, h2, h3⟩ := inv
  unfold deliver1
  split
  · exact ⟨h1, h2, h3⟩
  · rename_i qs0 hq
    refine ⟨?_, ?_, ?_⟩
    · intro q qs hqs
      simp only [upd] at hqs
      split at hqs
      · rename_i heq; subst heq; simp at hqs; subst hqs
        have := h1 _ qs0 hq
        unfold StatusOk at *; exact this
      · exact h1 q qs hqs
    · intro q qs hqs
      simp only [upd] at hqs
      split at hqs
      · rename_i heq; subst heq; simp at hqs; subst hqs; exact h2 _ qs0 hq
      · exact h2 q qs hqs
    · intro c q hc
      obtain ⟨qs, hqs, hh⟩ := h3 c q hc
      simp only [upd]
      split
      · rename_i heq; subst heq
        rw [hq] at hqs; simp at hqs; subst hqs
        exact ⟨_, rfl, hh⟩
      · exact ⟨qs, hqs, hh⟩

theorem deliverAll_sinv (s : State) (ts : List (QName × Id)) (inv : SInv s) : SInv (deliverAll s ts) := by
  unfold deliverAll
  induction ts generalizing s with
  | nil => exact inv
  | cons x rest ih => exact ih _ (deliver1_sinv s x inv)

/-- replace the state of one queue -/
theorem SInv_upd (s : State) (q : QName) (qs0 qs1 : QState) (inv : SInv s) (hq : s.qs q = some qs0)
    (hok : StatusOk qs1) (hh : qs1.hasHandler = qs0.hasHandler)
    (hw : qs0.workers = [] → qs0.hasHandler = false → qs1.workers = []) (log : List Ev) :
    SInv { s with qs := upd s.qs q qs1, log := log } := by
  obtain ⟨h1, h2, h3⟩ := inv
  refine ⟨?_, ?_, ?_⟩
  · intro q' qs hqs
    simp only [upd] at hqs
    split at hqs
    · simp at hqs; subst hqs; exact hok
    · exact h1 q' qs hqs
  · intro q' qs hqs hnh
    simp only [upd] at hqs
    split at hqs
    · rename_i heq; subst heq; simp at hqs; subst hqs
      rw [hh] at hnh
      exact hw (h2 _ qs0 hq hnh) hnh
    · exact h2 q' qs hqs hnh
  · intro c q' hc
    obtain ⟨qs, hqs, hhq⟩ := h3 c q' hc
    simp only [upd]
    split
    · rename_i heq; subst heq
      rw [hq] at hqs; simp at hqs; subst hqs
      exact ⟨_, rfl, by rw [hh]; exact hhq⟩
    · exact ⟨qs, hqs, hhq⟩

theorem wstep_hasHandler (cfg : Cfg) (done : Bool) (q : QName) (qs qs' : QState) (pc pc' : Pc) (a : WAct)
    (evs : List Ev) (h : wstep cfg done q qs pc a = some (qs', pc', evs)) : qs'.hasHandler = qs.hasHandler := by
  cases pc <;> cases a <;> simp [wstep] at h
  all_goals (repeat' split at h) <;> (try simp at h) <;>
    (try (obtain ⟨rfl, rfl, rfl⟩ := h)) <;> (try (obtain ⟨_, rfl, rfl, rfl⟩ := h)) <;> simp_all [leaveWait]

theorem StatusOk_set (qs : QState) (i : Nat) (pc pc' : Pc) (qs' : QState)
    (hpc : qs.workers[i]? = some pc) (hw : qs'.workers = qs.workers)
    (h : StatusOk qs)
    (hstep : (qs.status = .stop ↔ pc = .stopped) → origOf pc ≠ some .stop →
      (qs'.status = .stop ↔ pc' = .stopped) ∧ origOf pc' ≠ some .stop) :
    StatusOk (setWorker qs' i pc') := by
  unfold StatusOk setWorker at *
  match hws : qs.workers, hpc with
  | [], hpc => simp at hpc
  | [p0], hpc =>
    cases i with
    | zero =>
      simp at hpc; subst hpc
      rw [hws] at h
      simp [hw, hws]
      exact hstep h.1 h.2
    | succ n => simp at hpc
  | p0 :: p1 :: rest, _ =>
    simp only [hw, hws]
    cases i with
    | zero => simp
    | succ n => cases n <;> simp

/-- every step preserves the status invariant (no hypothesis on the callers of Start()) -/
theorem step_sinv (cfg : Cfg) (s s' : State) (l : Label) (inv : SInv s) (h : step cfg s l = some s') :
    SInv s' := by
  have inv0 := inv
  obtain ⟨h1, h2, h3⟩ := inv
  cases l with
  | deliver ts => simp [step] at h; subst h; exact deliverAll_sinv s ts inv0
  | cronFire ts => simp [step] at h; obtain ⟨_, rfl⟩ := h; exact deliverAll_sinv s ts inv0
  | kubeEvent ts => simp [step] at h; obtain ⟨_, rfl⟩ := h; exact deliverAll_sinv s ts inv0
  | schedStop => simp [step] at h; subst h; exact ⟨h1, h2, h3⟩
  | schedStopper => simp [step] at h; obtain ⟨_, rfl⟩ := h; exact ⟨h1, h2, h3⟩
  | kubePause => simp [step] at h; subst h; exact ⟨h1, h2, h3⟩
  | stop =>
    simp only [step] at h
    split at h <;> simp at h <;> subst h <;> exact ⟨h1, h2, h3⟩
  | cancelDelay q =>
    simp only [step] at h
    split at h
    · simp at h
    · rename_i qs0 hq
      simp at h; subst h
      have := SInv_upd s q qs0 { qs0 with cancelDelay := qs0.waitInProgress || qs0.cancelDelay } inv0 hq
        (by have := h1 q qs0 hq; unfold StatusOk at *; exact this) rfl (fun h _ => h) s.log
      simpa using this
  | handlerFilter q i keep =>
    simp only [step] at h
    split at h
    · simp at h
    · rename_i qs0 hq
      split at h
      · rename_i t hpc
        simp only [Option.some.injEq] at h; subst h
        have := SInv_upd s q qs0 { qs0 with items := Queue.filter qs0.items (fun x => x == t || keep.contains x) }
          inv0 hq (by have := h1 q qs0 hq; unfold StatusOk at *; exact this) rfl (fun h _ => h) s.log
        simpa using this
      · simp at h
  | handlerReturn q i r =>
    simp only [step] at h
    split at h
    · simp at h
    · rename_i qs0 hq
      split at h
      · rename_i t hpc
        simp only [Option.some.injEq] at h; subst h
        refine SInv_upd s q qs0 (setWorker qs0 i (.handled t r)) inv0 hq ?_ rfl ?_ _
        · refine StatusOk_set qs0 i (.running t) (.handled t r) qs0 hpc rfl (h1 q qs0 hq) ?_
          intro a b
          simp [origOf] at a ⊢
          exact a
        · intro hw; rw [hw] at hpc; simp at hpc
      · simp at h
  | w q i a =>
    simp only [step] at h
    split at h
    · simp at h
    · rename_i qs0 hq
      split at h
      · simp at h
      · rename_i pc hpc
        split at h
        · simp at h
        · rename_i qs1 pc1 evs hws
          simp only [Option.some.injEq] at h; subst h
          obtain ⟨hfw, hfs, _⟩ := wstep_frame _ _ _ _ _ _ _ _ _ hws
          refine SInv_upd s q qs0 (setWorker qs1 i pc1) inv0 hq ?_ ?_ ?_ _
          · refine StatusOk_set qs0 i pc pc1 qs1 hpc hfw (h1 q qs0 hq) ?_
            intro a b
            exact (wstep_status _ _ _ _ _ _ _ _ _ hws a b).1
          · simp only [setWorker]
            exact wstep_hasHandler _ _ _ _ _ _ _ _ _ hws
          · intro hw; rw [hw] at hpc; simp at hpc
  | newQueue q hh =>
    simp only [step] at h
    split at h
    · simp at h
    · rename_i hq
      simp at h; subst h
      refine ⟨?_, ?_, ?_⟩
      · intro q' qs hqs
        simp only [upd] at hqs
        split at hqs
        · simp at hqs; subst hqs; simp [StatusOk]
        · exact h1 q' qs hqs
      · intro q' qs hqs hnh
        simp only [upd] at hqs
        split at hqs
        · simp at hqs; subst hqs; rfl
        · exact h2 q' qs hqs hnh
      · intro c q' hc
        obtain ⟨qs, hqs, hhq⟩ := h3 c q' hc
        simp only [upd]
        split
        · rename_i heq; subst heq; rw [hq] at hqs; simp at hqs
        · exact ⟨qs, hqs, hhq⟩
  | startRead c q =>
    simp only [step] at h
    split at h
    · rename_i qs0 hidle hq
      split at h
      · simp at h; subst h; exact inv0
      · split at h
        · rename_i hst hnh
          simp at h; subst h
          have hw0 : qs0.workers = [] := h2 q qs0 hq (by simpa using hnh)
          have := SInv_upd s q qs0 { qs0 with status := .noHandler } inv0 hq
            (by unfold StatusOk; simp [hw0]) rfl (fun h _ => h) s.log
          simpa using this
        · rename_i hst hnh
          simp at h; subst h
          refine ⟨h1, h2, ?_⟩
          intro c' q' hc'
          simp only [updC] at hc'
          split at hc'
          · simp at hc'; subst hc'
            exact ⟨qs0, hq, by simpa using hnh⟩
          · exact h3 c' q' hc'
    · simp at h
  | startSpawn c q0 =>
    simp only [step] at h
    split at h
    · rename_i q hsaw
      split at h
      · simp at h
      split at h
      · rename_i qs0 hq
        simp at h; subst h
        obtain ⟨qsx, hqx, hhx⟩ := h3 c q hsaw
        rw [hq] at hqx; simp at hqx; subst hqx
        refine ⟨?_, ?_, ?_⟩
        · intro q' qs hqs
          simp only [upd] at hqs
          split at hqs
          · simp at hqs; subst hqs
            have := h1 q qs0 hq
            unfold StatusOk at *
            match hw : qs0.workers with
            | [] => simp [origOf]
            | [p] => simp
            | p :: p2 :: rest => simp
          · exact h1 q' qs hqs
        · intro q' qs hqs hnh
          simp only [upd] at hqs
          split at hqs
          · simp at hqs; subst hqs; simp at hnh; rw [hhx] at hnh; simp at hnh
          · exact h2 q' qs hqs hnh
        · intro c' q' hc'
          simp only [updC] at hc'
          split at hc'
          · simp at hc'
          · obtain ⟨qs, hqs, hhq⟩ := h3 c' q' hc'
            simp only [upd]
            split
            · rename_i heq; subst heq; rw [hq] at hqs; simp at hqs; subst hqs; exact ⟨_, rfl, hhq⟩
            · exact ⟨qs, hqs, hhq⟩
      · simp at h
    all_goals simp at h
  | startWrite c q0 =>
    simp only [step] at h
    split at h
    · rename_i q hsp
      split at h
      · simp at h
      split at h
      · rename_i qs0 hq
        simp at h; subst h
        refine ⟨?_, ?_, ?_⟩
        · intro q' qs hqs
          simp only [upd] at hqs
          split at hqs
          · simp at hqs; subst hqs
            have := h1 q qs0 hq
            unfold StatusOk at *; exact this
          · exact h1 q' qs hqs
        · intro q' qs hqs hnh
          simp only [upd] at hqs
          split at hqs
          · simp at hqs; subst hqs; exact h2 q qs0 hq hnh
          · exact h2 q' qs hqs hnh
        · intro c' q' hc'
          simp only [updC] at hc'
          split at hc'
          · simp at hc'
          · obtain ⟨qs, hqs, hhq⟩ := h3 c' q' hc'
            simp only [upd]
            split
            · rename_i heq; subst heq; rw [hq] at hqs; simp at hqs; subst hqs; exact ⟨_, rfl, hhq⟩
            · exact ⟨qs, hqs, hhq⟩
      · simp at h
    all_goals simp at h

end ShellOp.Worker
