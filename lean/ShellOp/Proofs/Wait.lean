import ShellOp.Model.Wait
/-! Lemmas about `Model/Wait` (the flags of `CancelTaskDelay` / `waitForTask`). -/
namespace ShellOp.Wait

theorem cancel_noop_outside_wait (f : Flags) (h : f.inProgress = false) : cancelTaskDelay f = f := by
  simp [cancelTaskDelay, h]

theorem cancels_noop_outside_wait (n : Nat) (f : Flags) (h : f.inProgress = false) : cancels n f = f := by
  induction n generalizing f with
  | zero => rfl
  | succ n ih => simp [cancels, cancel_noop_outside_wait f h, ih f h]

/-- Without a cancel during the loop and with no cancel pending when it starts, the loop returns
the head task only on a tick whose `elapsed` has reached `waitUntil`. -/
theorem loop_full (emptyDelay : Nat) (evs : List WEv) :
    ∀ (waitUntil : Nat) (f : Flags) (e : Nat), f.cancel = false → (∀ ev ∈ evs, ev ≠ WEv.cancel) →
      (loop emptyDelay waitUntil f evs).1 = some e → waitUntil ≤ e := by
  induction evs with
  | nil => intro wu f e _ _ h; simp [loop] at h
  | cons ev r ih =>
    intro wu f e hc hno h
    have hr : ∀ ev ∈ r, ev ≠ WEv.cancel := fun x hx => hno x (List.mem_cons_of_mem _ hx)
    cases ev with
    | cancel => exact absurd rfl (hno WEv.cancel (List.mem_cons_self ..))
    | tick el empty =>
      simp only [loop, hc, Bool.false_eq_true, if_false] at h
      by_cases hge : el ≥ wu
      · simp only [hge, if_true] at h
        cases empty with
        | true =>
          simp only [if_true] at h
          have := ih (wu + emptyDelay) f e hc hr h
          omega
        | false =>
          simp only [Bool.false_eq_true, if_false, Option.some.injEq] at h
          omega
      · simp only [hge, if_false] at h
        exact ih wu f e hc hr h

end ShellOp.Wait
