/-
Tie T4 for the combine step (C07): the group-compaction index loop of `combineBindingContextForHook`
and of its exported twin `CombineBindingContextForHook`, translated on every run from the Go source
(`ShellOp/Generated/Trans.lean`), equals the model `compactGo` the C07 theorems are about.
-/
import ShellOp.Generated.Trans
import ShellOp.Model.Combine
namespace ShellOp.Proofs.TransCombine
open ShellOp ShellOp.Combine

/-- the loop of the translated compaction over the index range `[s, s+n)` -/
theorem compact_loop (l : List Ctx) : ∀ (n s : Nat) (acc : List Ctx), s + n = l.length →
    (forIn (m := Id) (List.range' s n) acc fun (k__ : Nat) (__s : List Ctx) =>
        if
            (¬(l[k__]?.getD default).group = 0 ∧ (↑k__ + 1 : Int) ≤ ↑l.length - 1) ∧
              (l[k__ + 1]?.getD default).group = (l[k__]?.getD default).group then
          pure (ForInStep.yield __s)
        else pure (ForInStep.yield (__s ++ [l[k__]?.getD default]))).run
      = compactLoop l n s acc := by
  intro n
  induction n with
  | zero => intro s acc _; simp [compactLoop]
  | succ n ih =>
    intro s acc h
    have hs : s < l.length := by omega
    simp only [List.range'_succ, List.forIn_cons, compactLoop]
    have hget : l[s]? = some l[s] := List.getElem?_eq_getElem hs
    simp only [hget, Option.getD_some]
    by_cases h1 : s + 1 < l.length
    · have hget1 : l[s+1]? = some l[s+1] := List.getElem?_eq_getElem h1
      have hle : ((s : Int) + 1 ≤ (l.length : Int) - 1) := by omega
      have hle' : (s + 1 ≤ l.length - 1) := by omega
      simp only [hget1, Option.getD_some, hle, hle', and_true, decide_true, Bool.and_true]
      by_cases hg : (l[s].group = 0)
      · simp [hg]
        have := ih (s+1) (acc ++ [l[s]]) (by omega)
        simpa using this
      · by_cases hg2 : l[s+1].group = l[s].group
        · simp [hg, hg2]
          have := ih (s+1) acc (by omega)
          simpa using this
        · simp [hg, hg2]
          have := ih (s+1) (acc ++ [l[s]]) (by omega)
          simpa using this
    · have hnone : l[s+1]? = none := by
        apply List.getElem?_eq_none; omega
      have hle : ¬ ((s : Int) + 1 ≤ (l.length : Int) - 1) := by omega
      have hle' : ¬ (s + 1 ≤ l.length - 1) := by omega
      simp [hnone, hle, hle']
      have := ih (s+1) (acc ++ [l[s]]) (by omega)
      simpa using this

theorem compactInt_eq (l : List Ctx) : Trans.compactInt l = compactGo l := by
  unfold Trans.compactInt compactGo
  simp
  have := compact_loop l l.length 0 [] (by omega)
  rw [← this, List.range_eq_range']

theorem compactTwin_eq (l : List Ctx) : Trans.compactTwin l = compactGo l := by
  unfold Trans.compactTwin compactGo
  simp
  have := compact_loop l l.length 0 [] (by omega)
  rw [← this, List.range_eq_range']
end ShellOp.Proofs.TransCombine
