import ShellOp.Model.Backoff
/-! Bounds of the integer model of `CalculateDelayWithMax`. -/
namespace ShellOp.Backoff

theorem truncate_le (d m : Nat) : truncate d m ≤ d := by
  unfold truncate; split <;> omega

/-- Truncation loses less than one unit. -/
theorem lt_truncate_add (d m : Nat) (hm : 0 < m) : d < truncate d m + m := by
  unfold truncate
  have := Nat.mod_lt d hm
  have := Nat.mod_le d m
  split <;> omega

theorem truncate_ge_of_slack (base extra m : Nat) (h : m ≤ extra) : base ≤ truncate (base + extra) m := by
  by_cases hm : m = 0
  · simp [truncate, hm]
  · have := lt_truncate_add (base + extra) m (by omega)
    omega

theorem delta_ge_second (p : Params) (k : Nat) (hf : 1 ≤ p.factor) : p.secondNs ≤ p.secondNs * p.factor ^ (k - 1) := by
  have : 1 ≤ p.factor ^ (k - 1) := Nat.one_le_pow _ _ hf
  calc p.secondNs = p.secondNs * 1 := by simp
    _ ≤ p.secondNs * p.factor ^ (k - 1) := Nat.mul_le_mul_left _ this

/-- For every retry count and every random part the delay lies between the initial and the maximal
delay (given `initial ≤ max`, an integer factor ≥ 1 and a truncation unit not larger than a second
and than the maximal delay). -/
theorem calc_bounds (p : Params) (initial maxDelay k rnd : Nat) (h : initial ≤ maxDelay)
    (hf : 1 ≤ p.factor) (hs : p.truncNs ≤ p.secondNs) (hm : p.truncNs ≤ maxDelay) :
    initial ≤ calcDelayWithMax p initial maxDelay k rnd ∧ calcDelayWithMax p initial maxDelay k rnd ≤ maxDelay := by
  unfold calcDelayWithMax
  by_cases hk : k = 0
  · simp [hk, h]
  · simp only [hk, if_false]
    have hd : p.truncNs ≤ (if k ≤ p.expCount then p.secondNs * p.factor ^ (k - 1) else maxDelay) := by
      split
      · exact Nat.le_trans hs (delta_ge_second p k hf)
      · exact hm
    generalize (if k ≤ p.expCount then p.secondNs * p.factor ^ (k - 1) else maxDelay) = delayNs at hd
    have hlow : initial ≤ truncate (initial + delayNs + rnd * p.msNs) p.truncNs := by
      have := truncate_ge_of_slack initial (delayNs + rnd * p.msNs) p.truncNs (by omega)
      simpa [Nat.add_assoc] using this
    split
    · exact ⟨h, Nat.le_refl _⟩
    · exact ⟨hlow, by omega⟩

theorem calc_zero (p : Params) (initial maxDelay rnd : Nat) : calcDelayWithMax p initial maxDelay 0 rnd = initial := by
  simp [calcDelayWithMax]

end ShellOp.Backoff
