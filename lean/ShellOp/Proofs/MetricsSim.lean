import ShellOp.Proofs.MetricsRepl
/-! C16: the grouped half of the reference registry (`Spec.applyBatch`, what the oracle evaluates)
seen through per-group lookups. -/
namespace ShellOp.Metrics
open Spec

/-- what the reference registry holds for group `g`, as a lookup (name, labels) ↦ value. -/
def rview (ref : List RSeries) (g : Nat) (k : Nat × Labels) : Option Int :=
  ((ref.filter (·.group == g)).map fun s => ((s.name, s.labels), s.val)).lookup k

theorem rview_append (a b : List RSeries) (g : Nat) (k : Nat × Labels) :
    rview (a ++ b) g k = (rview a g k).or (rview b g k) := by
  simp [rview, List.filter_append, List.map_append, List.lookup_append]

theorem rview_nil (g : Nat) (k : Nat × Labels) : rview [] g k = none := rfl

theorem rview_kept (ref : List RSeries) (gs : List Nat) (g : Nat) (k : Nat × Labels) :
    rview (ref.filter (fun s => !gs.contains s.group)) g k = if g ∈ gs then none else rview ref g k := by
  unfold rview
  rw [List.filter_filter]
  by_cases hg : g ∈ gs
  · have : ref.filter (fun s => (s.group == g) && !gs.contains s.group) = [] := by
      simp only [List.filter_eq_nil_iff]
      intro s _
      by_cases hs : s.group = g
      · subst hs; simp [hg]
      · simp [hs]
    rw [this]; simp [hg]
  · have : ref.filter (fun s => (s.group == g) && !gs.contains s.group) = ref.filter (·.group == g) := by
      apply List.filter_congr
      intro s _
      by_cases hs : s.group = g
      · subst hs; simp [hg]
      · simp [hs]
    rw [this]; simp [hg]

/-- the fresh series of one group, as the reference registry stores them. -/
def freshOf (common : Labels) (ops : List Op) (g : Nat) : List RSeries :=
  (written common (ops.filter (·.group == g))).map fun (k, v) =>
    ({ name := k.1, labels := k.2, group := g, val := v } : RSeries)

theorem rview_freshOf (common : Labels) (ops : List Op) (g' g : Nat) (k : Nat × Labels) :
    rview (freshOf common ops g') g k =
      if g' = g then (written common (ops.filter (·.group == g))).lookup k else none := by
  unfold rview freshOf
  by_cases hg : g' = g
  · subst hg
    simp only [if_true]
    generalize written common (ops.filter (·.group == g')) = w
    induction w with
    | nil => rfl
    | cons x rest ih =>
      obtain ⟨kk, v⟩ := x
      simp only [List.map_cons, List.filter_cons, beq_self_eq_true, if_true, List.lookup_cons] at ih ⊢
      cases hk : k == kk
      · simpa [hk] using ih
      · have : k = kk := by simpa using hk
        subst this; simp
  · have : ((written common (ops.filter (·.group == g'))).map fun (k, v) =>
        ({ name := k.1, labels := k.2, group := g', val := v } : RSeries)).filter (·.group == g) = [] := by
      simp only [List.filter_eq_nil_iff, List.mem_map]
      rintro s ⟨⟨kk, v⟩, _, rfl⟩
      simpa using hg
    simp [hg, this]

theorem rview_fresh (common : Labels) (ops : List Op) (gs : List Nat) (g : Nat) (k : Nat × Labels) :
    rview (gs.flatMap (freshOf common ops)) g k =
      if g ∈ gs then (written common (ops.filter (·.group == g))).lookup k else none := by
  induction gs with
  | nil => simp [rview_nil]
  | cons g' rest ih =>
    rw [List.flatMap_cons, rview_append, rview_freshOf, ih]
    by_cases h1 : g' = g
    · subst h1
      by_cases h2 : g' ∈ rest <;> simp [h2]
    · have h1' : ¬ g = g' := fun e => h1 e.symm
      by_cases h2 : g ∈ rest <;> simp [h1, h1', h2]

theorem rUpsert_filter_group (f : RSeries → Int) (h : RSeries → Nat)
    (n : Nat) (kk : Labels) (ref : List RSeries) (g : Nat) (hg : g ≠ 0) :
    (rUpsert (fun e => { e with val := f e, cnt := h e }) n kk ref).filter (·.group == g) =
      ref.filter (·.group == g) := by
  have hg0 : ((0 : Nat) == g) = false := by simpa using fun h : 0 = g => hg h.symm
  induction ref with
  | nil => simp [rUpsert, List.filter_cons, hg0]
  | cons e rest ih =>
    unfold rUpsert
    by_cases hhit : e.name = n ∧ e.labels = kk ∧ e.group = 0
    · have he : (e.group == g) = false := by rw [hhit.2.2]; exact hg0
      simp [hhit, List.filter_cons, he, hg0]
    · simp only [hhit, if_false, List.filter_cons, ih]

theorem uStep_rview (common : Labels) (ref : List RSeries) (op : Op) (g : Nat) (hg : g ≠ 0) (k : Nat × Labels) :
    rview (uStep common ref op) g k = rview ref g k := by
  unfold uStep rview
  dsimp only
  split
  · rfl
  · split
    · rw [rUpsert_filter_group _ _ _ _ _ _ hg]
    · split
      · rw [rUpsert_filter_group _ _ _ _ _ _ hg]
      · split
        · rw [rUpsert_filter_group _ _ _ _ _ _ hg]
        · rfl

theorem foldl_uStep_rview (common : Labels) (ops : List Op) (ref : List RSeries) (g : Nat) (hg : g ≠ 0)
    (k : Nat × Labels) : rview (ops.foldl (uStep common) ref) g k = rview ref g k := by
  induction ops generalizing ref with
  | nil => rfl
  | cons op rest ih => simp only [List.foldl_cons]; rw [ih, uStep_rview _ _ _ _ hg]

/-- **The grouped half of the reference registry after a valid batch**: a mentioned group holds
exactly `written` of its operations, every other group what it held. -/
theorem rview_applyBatch (ref : List RSeries) (common : Labels) (ops : List Op) (hv : validBatch ops = true)
    (g : Nat) (hg : g ≠ 0) (k : Nat × Labels) :
    rview (applyBatch ref common ops).1 g k =
      if g ∈ groupsOf ops then (written common (ops.filter (·.group == g))).lookup k else rview ref g k := by
  have hfresh : (groupsOf ops).flatMap (fun g => (written common (ops.filter (·.group == g))).map fun (k, v) =>
      ({ name := k.1, labels := k.2, group := g, val := v } : RSeries)) = (groupsOf ops).flatMap (freshOf common ops) := rfl
  simp only [applyBatch, hv, Bool.not_true, Bool.false_eq_true, if_false]
  rw [foldl_uStep_rview _ _ _ _ hg, rview_append, rview_kept, hfresh, rview_fresh]
  by_cases hm : g ∈ groupsOf ops <;> simp [hm]

theorem mem_groupsOf (ops : List Op) (g : Nat) : g ∈ groupsOf ops ↔ g ≠ 0 ∧ ∃ op ∈ ops, op.group = g := by
  induction ops with
  | nil => simp [groupsOf]
  | cons op rest ih =>
    simp only [groupsOf]
    by_cases h0 : op.group = 0
    · simp only [h0, if_true, ih, List.mem_cons, exists_eq_or_imp]
      constructor
      · rintro ⟨hg, h⟩; exact ⟨hg, Or.inr h⟩
      · rintro ⟨hg, h | h⟩
        · exact absurd h.symm hg
        · exact ⟨hg, h⟩
    · simp only [h0, if_false, List.mem_cons, List.mem_filter, ih, exists_eq_or_imp]
      constructor
      · rintro (h | ⟨⟨hg, h⟩, _⟩)
        · subst h; exact ⟨h0, Or.inl rfl⟩
        · exact ⟨hg, Or.inr h⟩
      · rintro ⟨hg, h | h⟩
        · exact Or.inl h.symm
        · by_cases hgo : g = op.group
          · exact Or.inl hgo
          · exact Or.inr ⟨⟨hg, h⟩, by simpa using hgo⟩

end ShellOp.Metrics
