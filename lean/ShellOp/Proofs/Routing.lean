import ShellOp.Model.Routing
/-! Lemmas about `Model/Routing` (C03: from a hook configuration to the queue a task is made for). -/
namespace ShellOp.Routing

theorem mapSet_fresh (m : List (String × Link)) (k : String) (v : Link) (h : k ∉ m.map Prod.fst) :
    mapSet m k v = m ++ [(k, v)] := by
  induction m with
  | nil => rfl
  | cons x rest ih =>
    obtain ⟨k', v'⟩ := x
    have hne : k' ≠ k := by
      intro e; apply h; simp [e]
    have hrest : k ∉ rest.map Prod.fst := by
      intro hin; apply h; simp only [List.map_cons, List.mem_cons]; exact Or.inr hin
    simp [mapSet, hne, ih hrest]

theorem foldl_mapSet (key : SchedBinding → String) (v0 : Bool) (bs : List SchedBinding) :
    ∀ acc : List (String × Link), (bs.map key).Nodup → (∀ b ∈ bs, key b ∉ acc.map Prod.fst) →
      bs.foldl (fun m b => mapSet m (key b) (linkOf v0 b)) acc = acc ++ bs.map (fun b => (key b, linkOf v0 b)) := by
  induction bs with
  | nil => intro acc _ _; simp
  | cons b rest ih =>
    intro acc hnd hdis
    simp only [List.map_cons, List.nodup_cons] at hnd
    simp only [List.foldl_cons]
    rw [mapSet_fresh acc (key b) (linkOf v0 b) (hdis b (by simp))]
    rw [ih (acc ++ [(key b, linkOf v0 b)]) hnd.2]
    · simp
    · intro b' hb'
      simp only [List.map_append, List.map_cons, List.map_nil, List.mem_append, List.mem_singleton, not_or]
      refine ⟨hdis b' (by simp [hb']), ?_⟩
      intro e
      apply hnd.1
      rw [← e]
      exact List.mem_map_of_mem hb'

/-- with pairwise distinct keys the map holds one link per binding -/
theorem enableBy_eq (key : SchedBinding → String) (v0 : Bool) (bs : List SchedBinding)
    (h : (bs.map key).Nodup) : enableBy key v0 bs = bs.map (fun b => (key b, linkOf v0 b)) := by
  unfold enableBy
  rw [foldl_mapSet key v0 bs [] h (by simp)]
  simp

theorem handleEvent_map (key : SchedBinding → String) (v0 : Bool) (bs : List SchedBinding) (c : String) :
    handleEvent (bs.map (fun b => (key b, linkOf v0 b))) c =
      (bs.filter (fun b => b.crontab = c)).map (fun b => (b.name, convQueue v0 b.queue)) := by
  induction bs with
  | nil => rfl
  | cons b rest ih =>
    unfold handleEvent at ih ⊢
    by_cases hc : b.crontab = c
    · simp [linkOf, hc] at ih ⊢
      exact ih
    · simp [linkOf, hc] at ih ⊢
      exact ih

/-- the order in which Go walks the map does not change which infos come out -/
theorem handleEvent_perm (m m' : List (String × Link)) (h : m'.Perm m) (c : String) :
    (handleEvent m' c).Perm (handleEvent m c) := by
  unfold handleEvent
  exact (h.filter _).map _

theorem zip_filter_fst_length (l : List Nat) (q : Nat) :
    ∀ ids : List Nat, l.length ≤ ids.length →
      ((l.zip ids).filter (fun x => x.1 == q)).length = (l.filter (· == q)).length := by
  induction l with
  | nil => intro ids _; simp
  | cons a rest ih =>
    intro ids h
    cases ids with
    | nil => simp at h
    | cons i is =>
      have h' : rest.length ≤ is.length := by simpa using h
      by_cases e : (a == q) = true
      · simp [e, ih is h']
      · simp [e, ih is h']

end ShellOp.Routing
