/-!
# From a cluster change to a hook run — the glue outside the informer (core only)

Two small code-shaped models of the path a change takes AFTER the hand-over protocol of one
`resourceInformer` (`Model/Informer`) and BEFORE it (`FactoryStore`):

* `ShellOp.EventFlow.Tail` — `ManagerEventsHandler.Start` (the single consumer of `KubeEventCh`) and
  the queue worker: every event is turned into tail tasks which are appended with `AddLast`
  (skeleton `ManagerEventsHandler.Start`: `DoWithLock{ range{ … else{ AddLast } } }`, no other
  condition); the worker handles the head task — the hook run reads its snapshots when it STARTS
  (`Hook.Run → UpdateSnapshots`), may merge following tasks of the hook into itself
  (`combineBindingContextForHook`), and the task stays in the queue until the run has succeeded.
* `ShellOp.EventFlow.Shared` — `FactoryStore.Start/Stop` for the resource informers that share ONE
  factory index, with the context the shared informer's `Run` is bound to
  (`go informer.Run(factory.ctx.Done())`; the factory context is cancelled in exactly one place,
  together with the removal of the entry, when the last registration has gone).
-/
namespace ShellOp.EventFlow

namespace Tail

/-- one queue and the bindings of one group that feed it -/
structure St where
  /-- events emitted by the informers (cache already updated), not yet consumed: `KubeEventCh` and the
  goroutines blocked on it, in order; an event is the key (hook + group) of the task it becomes -/
  pending : List Nat := []
  /-- the tasks of the queue, head first -/
  q : List Nat := []
  /-- the head task is being handled: its run has read its snapshots -/
  running : Bool := false
  /-- number of changes that passed the filters so far (the informer caches show all of them) -/
  ver : Nat := 0
  /-- `ver` at the moment the most recently started run read its snapshots -/
  seen : Nat := 0
deriving DecidableEq, Repr

inductive Act where
  /-- informer callback: cache updated, event emitted -/
  | change (key : Nat)
  /-- the events handler takes one event and adds its task -/
  | consume
  /-- the worker starts handling the head; the run merges the next `merge` tasks into itself -/
  | begin (merge : Nat)
  /-- the run succeeded: the head is removed -/
  | finish
  /-- the run failed: the head stays and is retried -/
  | fail
deriving DecidableEq, Repr

/-- how the consumer adds a task: the code calls `q.AddLast(task)` -/
def addLast (q : List Nat) (k : Nat) : List Nat := q ++ [k]

/-- NOT the code: "the queue already ends with a task of this hook and group — its binding
contexts would be compacted with the new one anyway" -/
def addUnlessLastHasKey (q : List Nat) (k : Nat) : List Nat :=
  if q.getLast? = some k then q else q ++ [k]

def step (add : List Nat → Nat → List Nat) (s : St) : Act → St
  | .change k => { s with ver := s.ver + 1, pending := s.pending ++ [k] }
  | .consume =>
    match s.pending with
    | [] => s
    | k :: rest => { s with pending := rest, q := add s.q k }
  | .begin m =>
    match s.running, s.q with
    | false, h :: t => { s with running := true, seen := s.ver, q := h :: t.drop m }
    | _, _ => s
  | .finish => if s.running then { s with running := false, q := s.q.tail } else s
  | .fail => if s.running then { s with running := false } else s

def run (add : List Nat → Nat → List Nat) (s : St) (sched : List Act) : St := sched.foldl (step add) s

/-- nothing is on its way, nothing is queued -/
def AtRest (s : St) : Prop := s.pending = [] ∧ s.q = []

instance (s : St) : Decidable (AtRest s) := by unfold AtRest; infer_instance

/-- tasks whose run has not started -/
def waiting (s : St) : List Nat := if s.running then s.q.tail else s.q

/-- every change so far has been read by the last started run, or something that will start a
run is still on its way -/
structure Covered (s : St) : Prop where
  head : s.running = true → s.q ≠ []
  cov : s.seen = s.ver ∨ s.pending ≠ [] ∨ waiting s ≠ []

end Tail

namespace Shared

/-- the context whose `Done()` channel was handed to `informer.Run` -/
inductive StopCtx where
  | factory
  | user (inf : Nat)
deriving DecidableEq, Repr

/-- the factory stored under the one index considered here -/
structure Fac where
  regs : List Nat
  runStop : StopCtx
deriving DecidableEq, Repr

structure St where
  fac : Option Fac := none
  /-- resource informers whose own context (`ei.ctx`) has been cancelled -/
  cancelled : List Nat := []
deriving DecidableEq, Repr

inductive Op where
  | start (inf : Nat)
  /-- the informer's context ends (StopMonitor, namespace deleted, shutdown) → `FactoryStore.Stop` -/
  | stop (inf : Nat)
deriving DecidableEq, Repr

/-- the code: `go informer.Run(factory.ctx.Done())` -/
def bindFactory (_ : Nat) : StopCtx := .factory
/-- NOT the code: `go informer.Run(ctx.Done())` with the `ctx` parameter of `Start` -/
def bindCaller (inf : Nat) : StopCtx := .user inf

def step (bind : Nat → StopCtx) (s : St) : Op → St
  | .start i =>
    match s.fac with
    | none => { s with fac := some { regs := [i], runStop := bind i } }   -- `!HasSynced()` → `go Run`
    | some f => { s with fac := some { f with regs := f.regs.filter (· != i) ++ [i] } }
  | .stop i =>
    let s := { s with cancelled := i :: s.cancelled }
    match s.fac with
    | none => s
    | some f =>
      if f.regs.contains i then
        let r := f.regs.filter (· != i)
        if r.isEmpty then { s with fac := none }   -- `f.cancel(); delete(c.data, index)`
        else { s with fac := some { f with regs := r } }
      else s

def run (bind : Nat → StopCtx) (s : St) (ops : List Op) : St := ops.foldl (step bind) s

/-- the informer's handler is registered with the stored factory -/
def served (s : St) (i : Nat) : Bool :=
  match s.fac with
  | some f => f.regs.contains i
  | none => false

/-- the shared informer of the stored factory is running: the context its `Run` is bound to is
not cancelled (the factory's own context is cancelled only together with the removal of the entry) -/
def running (s : St) : Bool :=
  match s.fac with
  | some f => match f.runStop with
    | .factory => true
    | .user i => !s.cancelled.contains i
  | none => false

end Shared

end ShellOp.EventFlow
