import ShellOp.Model.Queue
/-!
C03, "in the order the events were received … the task executed next is always the one at the head":
the handler of a queue compacts its own queue (`combineBindingContextForHook`: `Filter` dropping the
tasks it has combined into the running one) while the events consumer appends (`AddLast`). Core-only.

`TaskQueue.Filter` builds the new slice from `q.items` inside `q.withLock`; `AddLast` takes the same lock.
So each of the consumer's appends lands entirely before or entirely after the compaction: of the tasks
`new` (receive order, one consumer goroutine) the first `k` get the lock before `Filter`, the others after
it — `k` is the schedule. The callback is the one the handler passes: a task is dropped iff its id is in
`drop`; tasks the handler has never seen are kept.
-/
namespace ShellOp.Compact
open ShellOp.Queue

def keepFn (drop : List Id) (i : Id) : Bool := !(drop.contains i)

/-- the queue after `Filter` and the appends of `new`, `k` of them before the `Filter` got the lock -/
def compact (drop : List Id) (items : Items) (new : List Id) (k : Nat) : Items :=
  (new.drop k).foldl addLast (filter ((new.take k).foldl addLast items) (keepFn drop))

/-- a `Filter` that runs its callback on a snapshot taken before the lock and, under the lock, puts the
tasks appended meanwhile IN FRONT of the kept ones (the variant the witness is about) -/
def snapshotPrepend (drop : List Id) (items : Items) (new : List Id) : Items :=
  new.map some ++ filter items (keepFn drop)

end ShellOp.Compact
