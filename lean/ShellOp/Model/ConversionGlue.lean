import ShellOp.Model.Conversion
/-!
# C15 — the glue around the chain search and the handler loop. Core Lean only.

Three small pieces of code that sit between the functions modelled in `Model/Conversion.lean` and
decide what "declared rules (of a CRD)", "the step succeeded" and "receives the previous output" mean
for the real operator:

* `updateChains` — `Manager.UpdateConversionChains` (pkg/hook/hook_manager.go): for every hook, for every
  conversion binding of it, `conversionChains.Get(binding.crdName)` and `Put` of every rule of the
  binding. One hook may have bindings for several CRDs.
* `stepOut` — what `conversionEventHandler` sees of one step: `handleRunHook` (operator.go: hook process,
  then object patches, then metrics, and only then the `conversionResponse` prop), `taskHandleHookRun`
  (`Status: "Fail"` unless the run went through or the binding allows failure) and
  `ConversionBindingsController.HandleEvent` (the `BindingExecutionInfo` of a conversion step never
  allows failure).
* `reviewCheck` — the clause "each hook receives …" at its weakest: every run found a review in its
  binding context at all.
-/
namespace ShellOp.Conversion.Glue
open ShellOp.Conversion

/-! ## rules are filed per CRD -/

/-- one `kubernetesCustomResourceConversion` binding: its `crdName` and its `conversions` -/
structure Binding where
  crd : String
  rules : List Rule
  deriving DecidableEq, Repr

/-- `ChainStorage.Chains` as far as the declared rules go: crd ↦ rules put so far -/
abbrev Storage := String → List Rule

/-- `cs.Get(crd).Put(rule)`: a set insert into the chain of that CRD, every other chain untouched -/
def Storage.put (s : Storage) (crd : String) (r : Rule) : Storage :=
  fun c => if c = crd then (if r ∈ s c then s c else s c ++ [r]) else s c

/-- the inner loop: `chain := Get(cfg.Webhook.CrdName); for rule … chain.Put(rule)` -/
def fileBinding (s : Storage) (b : Binding) : Storage := b.rules.foldl (fun s r => s.put b.crd r) s

/-- `for _, cfg := range h.Config.KubernetesConversion` -/
def fileHook (s : Storage) (h : List Binding) : Storage := h.foldl fileBinding s

/-- `UpdateConversionChains`: every hook, every binding, every rule -/
def updateChains (hooks : List (List Binding)) : Storage := hooks.foldl fileHook (fun _ => [])

/-- NOT the code: the chain is fetched once per hook, for the CRD of the hook's first binding
(witness only: what "once per binding" is needed for). -/
def fileHookFirstCrd (s : Storage) (h : List Binding) : Storage :=
  match h with
  | [] => s
  | b0 :: _ => h.foldl (fun s b => fileBinding s { b with crd := b0.crd }) s

def updateChainsFirstCrd (hooks : List (List Binding)) : Storage :=
  hooks.foldl fileHookFirstCrd (fun _ => [])

/-! ## when a step has succeeded -/

/-- what one hook run leaves behind, channel by channel -/
structure RawRun where
  exitOk : Bool                          -- the process ended with status 0, its output files were readable
  patchOk : Bool                         -- $KUBERNETES_PATCH_PATH: the operations parsed and were applied
  metricsOk : Bool                       -- $METRICS_PATH: the operations are valid
  resp : Option (String × List Obj)      -- $CONVERSION_RESPONSE_PATH: `none` = left empty
  deriving DecidableEq, Repr

/-- `handleRunHook`, in the order of the code: (no error?, the `conversionResponse` prop). The prop is
stored last, after every channel of the run has been accepted. -/
def handleRunHook (r : RawRun) : Bool × Option (String × List Obj) :=
  if !r.exitOk then (false, none)
  else if !r.patchOk then (false, none)
  else if !r.metricsOk then (false, none)
  else (true, r.resp)

/-- NOT the code: the prop is stored right after the hook process ended (witness only). -/
def handleRunHookPropFirst (r : RawRun) : Bool × Option (String × List Obj) :=
  if !r.exitOk then (false, none)
  else if !r.patchOk then (false, r.resp)
  else if !r.metricsOk then (false, r.resp)
  else (true, r.resp)

/-- `taskHandleHookRun` + the body of the handler loop after `taskHandler`: `Status == "Fail"` →
"Hook failed to convert"; no prop → "hook task prop error"; else the response. -/
def stepOutWith (run : RawRun → Bool × Option (String × List Obj)) (allowFailure : Bool) (r : RawRun) : HookOut :=
  if !((run r).1 || allowFailure) then .exitFail
  else match (run r).2 with
    | none => .noResponse
    | some (m, o) => .resp m o

/-- the code: `HandleEvent` builds the `BindingExecutionInfo` of a conversion step without `AllowFailure` -/
def stepOut (r : RawRun) : HookOut := stepOutWith handleRunHook false r

/-! ## every run finds a review -/

/-- `handed` = per hook run made for a request, the uid of the review in its binding context
(`none` = the context carried no review: no `fromVersion`, no `toVersion`, no objects). `none` = holds. -/
def reviewCheck (handed : List String) : Option String :=
  if handed.any (· == "none") then some "a-hook-run-found-no-review-in-its-binding-context" else none

end ShellOp.Conversion.Glue
