/-
Model of the event hand-over protocol of one `resourceInformer`
(`pkg/kube_events_manager/resource_informer.go`: `handleWatchEvent`, `getCachedObjects`,
`enableKubeEventCb`) at lock granularity: one `Action` per critical section.

Threads:
* `W`  — the informer's (sequential) callback thread, consuming the watch list;
* readers — any number of `Snapshot()` calls, each tagged `sync` (the Synchronization run of this
  binding) or `foreign` (another binding's includeSnapshotsFrom, admission/conversion hook, debug
  endpoint);
* `E`  — `enableKubeEventCb` (the unlock after a successful Synchronization).

`fx = true` is the repaired locking discipline (the code as it is now):
  W1 cache section · W2 = flag read + deliver/append in ONE `eventBufLock` section ·
  S1 copy and S2 reset inside ONE `eventBufLock` section.
`fx = false` is the discipline before the repair (kept for the regression witnesses):
  W2 flag read · W3 deliver/append in a second section · S1 copy without `eventBufLock`.
-/
namespace ShellOp.Informer

inductive Kind | added | modified | deleted
  deriving DecidableEq, Repr

structure Ev where
  id : Nat
  kind : Kind
  cs : Nat          -- checksum of the binding's projection of the object
  deriving DecidableEq, Repr

inductive Tag | sync | foreign
  deriving DecidableEq, Repr

/-- program counter of the watch thread -/
inductive WPc
  | idle
  | haveEvent (e : Ev)            -- cache updated, event must be handed over
  | haveFlag (e : Ev) (f : Bool)  -- (fx = false only) flag read, lock released
  deriving DecidableEq, Repr

abbrev Cache := List (Nat × Nat)   -- object id ↦ checksum; keys unique

def Cache.get : Cache → Nat → Option Nat
  | [], _ => none
  | (k, v) :: rest, id => if k = id then some v else Cache.get rest id
def Cache.erase : Cache → Nat → Cache
  | [], _ => []
  | (k, v) :: rest, id => if k = id then Cache.erase rest id else (k, v) :: Cache.erase rest id
def Cache.put (c : Cache) (id cs : Nat) : Cache := (Cache.erase c id) ++ [(id, cs)]

structure St where
  types : List Kind := [.added, .modified, .deleted]   -- executeHookOnEvent of the binding
  cache : Cache := []
  buf : List Ev := []
  enabled : Bool := false
  delivered : List Ev := []
  pending : List Ev := []          -- watch events not yet seen by the callback thread
  wpc : WPc := .idle
  /-- readers between S1 and S2 (their tags); with `fx` at most one, and it holds `eventBufLock` -/
  readers : List Tag := []
  -- history (ghost) variables, never read by the protocol itself
  fired : List Ev := []            -- every event that passed the type and change filters, in order
  anyMark : Nat := 0               -- `fired.length` at the last copy (S1) taken while locked
  syncMark : Nat := 0              -- the same, for the last copy by the Synchronization run
  syncView : Cache := []           -- what that copy returned
  base : Nat := 0                  -- ghost: where the hand-over list starts in `fired`
  deriving Repr

inductive Action
  | w1 | w2 | w3
  | s1 (t : Tag) | s2 (t : Tag)
  | e
  deriving DecidableEq, Repr

def inflight (s : St) : List Ev :=
  match s.wpc with
  | .idle => []
  | .haveEvent e => [e]
  | .haveFlag e _ => [e]

/-- `eventBufLock` is held by a reader parked between copy and reset (repaired discipline only). -/
def lockHeld (fx : Bool) (s : St) : Bool := fx && !s.readers.isEmpty

/-- W1: the cache section of `handleWatchEvent` and the `shouldFireEvent` test. -/
def stepW1 (s : St) : Option St :=
  match s.wpc, s.pending with
  | .idle, ev :: rest =>
    let skip := ev.kind != .deleted && s.cache.get ev.id == some ev.cs
    let cache' := if ev.kind == .deleted then s.cache.erase ev.id else s.cache.put ev.id ev.cs
    let fires := !skip && s.types.contains ev.kind
    some { s with cache := cache', pending := rest,
                  wpc := if fires then .haveEvent ev else .idle,
                  fired := if fires then s.fired ++ [ev] else s.fired }
  | _, _ => none

def step (fx : Bool) (s : St) : Action → Option St
  | .w1 => stepW1 s
  | .w2 =>
    match s.wpc with
    | .haveEvent ev =>
      if fx then
        -- one critical section: read the flag, then deliver (flag is monotone) or append
        if lockHeld fx s then none
        else if s.enabled then some { s with delivered := s.delivered ++ [ev], wpc := .idle }
        else some { s with buf := s.buf ++ [ev], wpc := .idle }
      else some { s with wpc := .haveFlag ev s.enabled }
    | _ => none
  | .w3 =>
    match s.wpc with
    | .haveFlag ev f =>
      if f then some { s with delivered := s.delivered ++ [ev], wpc := .idle }
      else some { s with buf := s.buf ++ [ev], wpc := .idle }
    | _ => none
  | .s1 t =>
    if lockHeld fx s then none
    else if s.readers.contains t then none    -- one in-flight read per tag is enough
    else
      let s' := { s with readers := t :: s.readers }
      if s.enabled then some s'
      else
        let s' := { s' with anyMark := s.fired.length }
        some (if t = .sync then { s' with syncMark := s.fired.length, syncView := s.cache } else s')
  | .s2 t =>
    if s.readers.contains t then
      let rs := s.readers.erase t
      if s.enabled then some { s with readers := rs }
      else some { s with readers := rs, buf := [], base := s.fired.length - (inflight s).length }
    else none
  | .e =>
    if lockHeld fx s then none
    else if s.enabled then some s
    else some { s with enabled := true, delivered := s.delivered ++ s.buf, buf := [] }

/-- Run a schedule; steps that are not enabled are skipped (a blocked thread simply waits). -/
def run (fx : Bool) (s : St) (sched : List Action) : St :=
  sched.foldl (fun s a => (step fx s a).getD s) s

def init (types : List Kind) (initial : Cache) (watch : List Ev) : St :=
  { types := types, cache := initial, pending := watch, syncView := initial }

/-- What a hook does with a delivered event on top of its view of the cluster. -/
def applyEv (c : Cache) (e : Ev) : Cache :=
  if e.kind == .deleted then c.erase e.id else c.put e.id e.cs

/-- Two caches are the same map. -/
def Cache.Same (a b : Cache) : Prop := ∀ id, a.get id = b.get id

/-- Quiescent: the watch list is consumed, nobody is in flight, the binding is unlocked. -/
def Quiescent (s : St) : Prop :=
  s.pending = [] ∧ s.wpc = .idle ∧ s.readers = [] ∧ s.enabled = true

instance (s : St) : Decidable (Quiescent s) := by unfold Quiescent; exact inferInstance

/-- The property oracle: everything that fired after the hook's Synchronization view was taken
has been handed to the hook, in order (as a suffix of what was delivered). -/
def NoLoss (s : St) : Prop := s.fired.drop s.syncMark <:+ s.delivered

instance (s : St) : Decidable (NoLoss s) := by unfold NoLoss; exact inferInstance

/-- Events are handed over in the order they fired (hence per object in the order of the changes). -/
def InOrder (s : St) : Prop := s.delivered <:+: s.fired

instance (s : St) : Decidable (InOrder s) := by unfold InOrder; exact inferInstance

end ShellOp.Informer
