/-!
# The cancellable context of the queue set over its whole life (C17)

`Model/Worker` has a `stop` label that sets the one `cancelled` flag whatever the state of the set is, and
`Model/HookQueues` derives every queue from `tqs.ctx`. Both assume that `TaskQueueSet.Stop()` *takes effect
whenever it is called* — also when the set has no queue yet — and that a queue created later is derived from
the very context the request cancelled (it is "born stopped"). This module models the code responsible for
that: `TaskQueueSet.WithContext` (`tqs.ctx, tqs.cancel = context.WithCancel(ctx)` — eagerly), `Stop()`
(`if tqs.cancel != nil { tqs.cancel() }`), `NewNamedQueue` (`q.WithContext(tqs.ctx)`), `Start` of a queue,
as a machine over operation sequences with the stop request at ANY position, the first one included.
`lazy = true` is the variant that derives the cancellable context only when the first queue needs it.
Core Lean only (linked into `drv_c17`).
-/
namespace ShellOp.SetCtx

inductive Op where
  | stop                 -- TaskQueueSet.Stop()
  | new (n : Nat)        -- NewNamedQueue(n, …)
  | start (n : Nat)      -- GetByName(n).Start()
  deriving DecidableEq, Repr

structure Q where
  name : Nat
  started : Bool := false
  /-- the queue's context is derived from the set's *cancellable* context (the one `tqs.cancel` cancels) -/
  onSet : Bool
  deriving DecidableEq, Repr

/-- The set after `NewTaskQueueSet()` + `WithContext(parent)`. -/
structure S where
  /-- `tqs.cancel != nil` -/
  hasCancel : Bool
  /-- the cancel function has been called -/
  cancelled : Bool := false
  /-- `Stop()` has been called (the request; what the property dates everything from) -/
  requested : Bool := false
  qs : List Q := []
  deriving DecidableEq, Repr

/-- After `WithContext`: the code derives at once, the lazy variant only remembers the parent. -/
def init (lazy : Bool) : S := { hasCancel := !lazy }

def put (qs : List Q) (q : Q) : List Q := q :: qs.filter (·.name != q.name)

def step (lazy : Bool) (s : S) : Op → S
  | .stop => { s with requested := true, cancelled := s.cancelled || s.hasCancel }
  | .new n =>
    -- `q.WithContext(tqs.ctx)`: in the code `tqs.ctx` is the cancellable context since WithContext; the lazy
    -- variant derives it here when nobody has yet (`queuesContext()`) and sets `tqs.cancel`
    let s := if lazy && !s.hasCancel then { s with hasCancel := true } else s
    { s with qs := put s.qs { name := n, onSet := s.hasCancel } }
  | .start n => { s with qs := s.qs.map fun q => if q.name == n then { q with started := true } else q }

def run (lazy : Bool) (s : S) (ops : List Op) : S := ops.foldl (step lazy) s

/-- The queue's worker sees the stop request: its context is cancelled. -/
def hears (s : S) (q : Q) : Bool := q.onSet && s.cancelled

/-- Names of the queues that have heard the request (for the line protocol). -/
def heardNames (s : S) : List Nat := (s.qs.filter (hears s)).map (·.name)

end ShellOp.SetCtx
