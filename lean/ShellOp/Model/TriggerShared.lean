import ShellOp.Model.Trigger
import ShellOp.Model.FactoryStore
/-!
# C08 — what the bindings of one process share (core only)

Two pieces of code sit between "a change of an object" and `handleWatchEvent` of a binding and are
shared by several bindings:

* the operator's `FactoryStore` (`factory.go`; model: `Snapshot.fsStart` / `fsStop` / `fsServed` in
  `Model/FactoryStore.lean`): bindings with the same kind, namespace and selectors hang on ONE
  client-go shared informer. A change reaches the handler of a binding iff the store serves it
  (`handleVia`).
* `jq.run` (`pkg/filter/jq/apply.go`): the text of the binding's jqFilter is turned into a program
  by `gojq.Parse` on every application (`parseEach`). `memoParse` is the shape of a table of parsed
  programs shared by the whole process, keyed by `key text` — NOT in the code; transparent iff `key`
  is injective on the filters in use (`Props/C08`).
-/
namespace ShellOp.Trigger
open ShellOp.Json ShellOp.Snapshot

/-- One change of the cluster as it reaches binding `inf` (factory index `idx`): handled by
`handleWatchEvent` when the store serves the binding's informer; otherwise nothing happens at all —
no event, the cache (what snapshots show) stays as it is. -/
def handleVia {C : Type} [DecidableEq C] (fs : FStore) (inf : Nat) (idx : Key) (cfg : Cfg) (cks : J → C)
    (cache : Cache C) (ev : WatchEvent) (id : Nat) (obj : J) : Cache C × Option (Event C) :=
  if fsServed fs inf idx then handle cfg cks cache ev id obj else (cache, none)

/-- A variant that is NOT the code (kept for the witness in `Props/C08`): the "handlers left" number
is computed after the `delete` but still with a `- 1`, and tested with `<= 0`: the stop of one of
exactly two handlers cancels and deletes the factory. -/
def fsStopOffByOne (s : FStore) (inf : Nat) (idx : Key) : FStore :=
  match kget FEntry.idx s idx with
  | none => s
  | some f =>
    if f.regs.contains inf then
      let regs := f.regs.filter (· != inf)
      if regs.length ≤ 1 then kdel FEntry.idx s idx
      else kput FEntry.idx s { idx := idx, regs := regs }
    else s

/-- `jq.run`: `query, err := gojq.Parse(jqFilter)` on every call — the program applied is the
parse of the text handed in, whatever was parsed before. -/
def parseEach {T P : Type} (parse : T → P) (_earlier : List T) (t : T) : P := parse t

/-- NOT the code: a process-wide table of parsed programs keyed by `key text` (`Load`, else
`Parse` + `Store`). Result: the table afterwards and the program that is applied. -/
def memoParse {T P K : Type} [DecidableEq K] (key : T → K) (parse : T → P) (tab : List (K × P)) (t : T) :
    List (K × P) × P :=
  match tab.find? (fun e => e.1 = key t) with
  | some e => (tab, e.2)
  | none => (tab ++ [(key t, parse t)], parse t)

/-- the table after the filters `ts` were applied one after the other (any bindings, any order) -/
def memoRun {T P K : Type} [DecidableEq K] (key : T → K) (parse : T → P) (tab : List (K × P)) :
    List T → List (K × P)
  | [] => tab
  | t :: rest => memoRun key parse (memoParse key parse tab t).1 rest

/-- one change handed to every binding of a process (configuration, checksum cache), in order -/
def deliverAll {C : Type} [DecidableEq C] (cks : J → C) (bs : List (Cfg × Cache C))
    (ev : WatchEvent) (id : Nat) (obj : J) : List (Cache C × Option (Event C)) :=
  bs.map (fun b => handle b.1 cks b.2 ev id obj)

/-- runs of blanks squeezed to one blank (what `strings.Join(strings.Fields(s), " ")` does to the
blanks inside a text) -/
def squeeze : List Char → List Char
  | ' ' :: ' ' :: rest => squeeze (' ' :: rest)
  | c :: rest => c :: squeeze rest
  | [] => []

end ShellOp.Trigger
