import ShellOp.Model.Metrics
import ShellOp.Model.HookOutput
/-!
The *text path* of the hook-metrics property (C16): what `Hook.Run` + `handleRunHook` make of the
metrics FILE a hook left behind.

    result.Metrics, err = operation.MetricOperationsFromFile(metricsPath)   -- hook.go
    if err != nil { return result, "got bad metrics" }                      -- the execution fails, SendBatch is not reached
    …
    err = op.HookMetricStorage.SendBatch(result.Metrics, {"hook": name})    -- operator.go, handleRunHook

The bytes of the file are read by the byte-level model of `MetricOperationsFromReader`
(`HookOutput.fromReader`, shared with C04); the registry side is `Metrics.sendBatch`. The two models
describe one operation at two levels of detail: `HookOutput.MetricOp` keeps what validation looks at
(which fields are present, the action string, whether name / group are empty), `Metrics.Op` keeps the
interned identifiers and the values. `abstracts` says that a typed operation is a reading of a
decoded one. Core Lean only.
-/
namespace ShellOp.MetricsText
open ShellOp ShellOp.Metrics

/-- The typed operation `op` (after the shortcut transform) is a reading of the decoded document `m`
(after the shortcut transform): same presence of every field validation looks at, same action. -/
def abstracts (m : HookOutput.MetricOp) (op : Op) : Bool :=
  (m.name.isEmpty == (op.name == 0))
  && (m.group.isEmpty == (op.group == 0))
  && (m.action == op.action.toList)
  && (m.add == op.add.isSome)
  && (m.set == op.set.isSome)
  && (m.value == op.value.isSome)
  && (m.buckets == op.buckets)

def abstractsAll : List HookOutput.MetricOp → List Op → Bool
  | [], [] => true
  | m :: ms, op :: ops => abstracts m op && abstractsAll ms ops
  | _, _ => false

/-- `ops` are the operations the file spells: whenever the reader gets through the file, what it
decoded is abstracted by `ops`, one by one. (Says nothing about a file the reader rejects.) -/
def spells (file : List Char) (ops : List Op) : Bool :=
  match HookOutput.fromReader file with
  | none => true
  | some ms => abstractsAll ms ops

/-- `MetricOperationsFromFile` as far as the outcome goes: `none` = it returned an error;
an empty file is "no metrics" (nil, nil) without the reader being asked. -/
def fromFile (file : List Char) : Option (List HookOutput.MetricOp) :=
  if file.isEmpty then some [] else HookOutput.fromReader file

/-- `Hook.Run` + `handleRunHook`, the metrics part: a file the reader rejects fails the execution
before `SendBatch` is reached; otherwise the decoded operations (`ops`, see `spells`) go through
`SendBatch` with the common labels of the hook. Returns the store and whether the execution went on
without an error. -/
def runFile (st : State) (common : Labels) (file : List Char) (ops : List Op) (order : List Nat) :
    State × Bool :=
  match fromFile file with
  | none => (st, false)
  | some _ => sendBatch st common ops order

end ShellOp.MetricsText
