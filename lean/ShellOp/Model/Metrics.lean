import ShellOp.Generated.Facts
/-!
Model of the hook-metrics path: `operation.ValidateOperations`, `MetricStorage.SendBatch`,
`sendBatchV0`, `applyGroupOperations` (pkg/metric_storage/metric_storage.go), the grouped vault
(`vault.go`) with its const collectors (`pkg/metric/collector.go`), and the part of the prometheus
registry the code leans on (one collector per metric name; a vec has a fixed list of label names;
a counter cannot decrease).

Stored the way the code stores it:
* ungrouped: per metric name a *vec* (family gauge / counter / histogram, label names fixed by the
  first use), and per vec the series keyed by label values;
* grouped: per metric name a *collector* (family gauge / counter) and a collection keyed by the
  LABEL VALUES ONLY, each entry holding (value, group) — the group is not part of the key, an
  existing entry keeps the group that created it.

Flattening used here (and only this): the two-level maps `name ↦ (labelvalues ↦ entry)` are flat
lists keyed by `(name, labels)`; the collector's growing list of label names (`UpdateLabels`, absent
label = "") is represented by using the label *set* with empty values dropped as the key.
Identifiers (metric names, label names and values, groups, hooks) are `Nat`s; group `0` is "" (no
group). Values are `Int`s counting halves (the harness only sends integers and exact halves), so
`1.5` is `3`.
-/
namespace ShellOp.Metrics

abbrev Labels := List (Nat × Nat)

inductive Fam | gauge | counter | histogram
  deriving DecidableEq, Repr

/-- `operation.MetricOperation` after JSON decoding (before the shortcut transform). `action` is
the interned action string (`actionId`), `0` = "". -/
structure Op where
  name : Nat := 0
  group : Nat := 0
  action : String := ""
  value : Option Int := none
  add : Option Int := none
  set : Option Int := none
  buckets : Bool := false
  labels : Labels := []
  deriving DecidableEq, Repr

/-- `MetricOperationsFromReader`: the shortcut transforms. -/
def normalize (op : Op) : Op :=
  let op := if op.set.isSome && op.add.isNone then { op with action := "set", value := op.set } else op
  if op.add.isSome && op.set.isNone then { op with action := "add", value := op.add } else op

/-- `ValidateMetricOperation` (every check of the function, in its order; the result is only
"some error or none"). The two action lists are regenerated from the source. -/
def validOp (op : Op) : Bool :=
  !(op.action == "")
  && (if op.group == 0 then Facts.c16UngroupedActions.contains op.action
      else Facts.c16GroupedActions.contains op.action)
  && !(op.name == 0 && op.group == 0)
  && !(op.name == 0 && op.group != 0 && op.action != "expire")
  && !(op.action == "set" && op.value.isNone)
  && !(op.action == "add" && op.value.isNone)
  && !(op.action == "observe" && op.value.isNone)
  && !(op.action == "observe" && !op.buckets)
  && !(op.set.isSome && op.add.isSome)

/-- `ValidateOperations`. -/
def validBatch (ops : List Op) : Bool := ops.all validOp

/-! ## Storage -/

structure UEntry where
  name : Nat
  key : Labels
  val : Int          -- gauge / counter value, histogram sum (halves)
  cnt : Nat := 0     -- histogram sample count
  deriving DecidableEq, Repr

structure GEntry where
  name : Nat
  key : Labels
  val : Int
  group : Nat
  deriving DecidableEq, Repr

structure Vec where
  name : Nat
  fam : Fam
  labelNames : List Nat
  deriving DecidableEq, Repr

structure State where
  vecs : List Vec := []                 -- m.Gauges / m.Counters / m.Histograms
  uentries : List UEntry := []
  colls : List (Nat × Fam) := []        -- groupedVault.collectors
  gentries : List GEntry := []
  deriving DecidableEq, Repr

/-- insertion into a label list sorted by label name; an existing name is overridden. -/
def insertLabel (k v : Nat) : Labels → Labels
  | [] => [(k, v)]
  | (k', v') :: rest =>
    if k < k' then (k, v) :: (k', v') :: rest
    else if k = k' then (k, v) :: rest
    else (k', v') :: insertLabel k v rest

/-- `MergeLabels(op.Labels, commonLabels)`: later maps win; the result as a list sorted by name. -/
def mergeLabels (opLabels common : Labels) : Labels :=
  (opLabels ++ common).foldl (fun acc kv => insertLabel kv.1 kv.2 acc) []

/-- the grouped key: label values under the collector's label names, absent = "" — i.e. the label
set without empty values. -/
def gkey (l : Labels) : Labels := l.filter (·.2 != 0)

/-- A metric name is taken in the registry when a vec or a collector of that name exists. -/
def State.registered (st : State) (n : Nat) : Bool :=
  st.vecs.any (·.name == n) || st.colls.any (·.1 == n)

/-! ### grouped vault -/

/-- `ExpireGroupMetrics(group)` over every collector. -/
def expireGroup (st : State) (g : Nat) : State :=
  { st with gentries := st.gentries.filter (·.group != g) }

/-- `GetOrCreate{Counter,Gauge}Collector`: the collector of that name if its type fits; a new one
if the name is free in the registry; otherwise an error (the operation is dropped with a log line). -/
def getOrCreateColl (st : State) (n : Nat) (f : Fam) : Option State :=
  match st.colls.lookup n with
  | some f' => if f' = f then some st else none
  | none => if st.registered n then none else some { st with colls := st.colls ++ [(n, f)] }

/-- `GetOrCreate*Collector` cut in two, the way it would run if the vault lock were NOT held from the
lookup to the store: first the lookup in `collectors` … -/
def lookupColl (st : State) (n : Nat) : Option Fam := st.colls.lookup n

/-- … and, after a lookup that found nothing, `Register` + store: `Register` fails when the name has
been taken in the registry in the meantime (the operation is then dropped with a log line). -/
def registerColl (st : State) (n : Nat) (f : Fam) : Option State :=
  if st.registered n then none else some { st with colls := st.colls ++ [(n, f)] }

/-- `LabelValues(labels, c.labelNames)`: the value of every label name of the collector, "" (0) for a
name the series does not carry. -/
def labelValues (names : List Nat) (l : Labels) : List Nat :=
  names.map fun k => (l.lookup k).getD 0

/-- What `HashLabelValues` writes to the fnv hasher: every label value (its bytes) followed by the
separator byte 255 — empty values included. -/
def hashInput (vals : List (List Nat)) : List Nat := vals.flatMap (· ++ [255])

/-- the same with empty values skipped (NOT the code: kept for the witness that this would let two
series that differ only in which label is empty share one entry). -/
def hashInputSkipEmpty (vals : List (List Nat)) : List Nat :=
  (vals.filter (· ≠ [])).flatMap (· ++ [255])

/-- `ConstGaugeCollector.Set` / `ConstCounterCollector.Add` on the flat collection: an entry with
these label values is updated *whatever group owns it* and keeps its group; otherwise a new entry
owned by `g` is stored. `upd old v` is the new value. -/
def gUpsert (upd : Int → Int → Int) (n : Nat) (k : Labels) (v : Int) (g : Nat) : List GEntry → List GEntry
  | [] => [{ name := n, key := k, val := upd 0 v, group := g }]
  | e :: rest =>
    if e.name = n ∧ e.key = k then { e with val := upd e.val v } :: rest
    else e :: gUpsert upd n k v g rest

def gaugeUpd (_old v : Int) : Int := v
def counterUpd (old v : Int) : Int := old + v
/-- The unrepaired counter: `uint64(value)` truncates the halves (non-negative values). -/
def counterUpdTrunc (old v : Int) : Int := old + 2 * (v / 2)

def groupedGaugeSet (st : State) (g n : Nat) (v : Int) (labels : Labels) : State :=
  match getOrCreateColl st n .gauge with
  | none => st
  | some st => { st with gentries := gUpsert gaugeUpd n (gkey labels) v g st.gentries }

def groupedCounterAdd (st : State) (g n : Nat) (v : Int) (labels : Labels) : State :=
  match getOrCreateColl st n .counter with
  | none => st
  | some st => { st with gentries := gUpsert counterUpd n (gkey labels) v g st.gentries }

/-- One iteration of the loop of `applyGroupOperations` (repaired code: one branch per operation). -/
def applyGroupOp (common : Labels) (g : Nat) (st : State) (op : Op) : State :=
  if op.action == "expire" then expireGroup st g
  else
    let labels := mergeLabels op.labels common
    match op.action == "add", op.value, op.add, op.action == "set", op.set with
    | true, some v, _, _, _ => groupedCounterAdd st g op.name v labels
    | _, _, some a, _, _ => groupedCounterAdd st g op.name a labels
    | _, some v, _, true, _ => groupedGaugeSet st g op.name v labels
    | _, _, _, _, some s => groupedGaugeSet st g op.name s labels
    | _, _, _, _, _ => st

/-- The unrepaired loop body: four independent `if`s, so the `add` shortcut (Action = "add",
Value = Add after the transform) is applied twice; counters truncate. -/
def applyGroupOpUnrepaired (common : Labels) (g : Nat) (st : State) (op : Op) : State :=
  if op.action == "expire" then expireGroup st g
  else
    let labels := mergeLabels op.labels common
    let add (st : State) (v : Int) : State :=
      match getOrCreateColl st op.name .counter with
      | none => st
      | some st => { st with gentries := gUpsert counterUpdTrunc op.name (gkey labels) v g st.gentries }
    let st := match op.action == "add", op.value with
      | true, some v => add st v
      | _, _ => st
    let st := match op.add with
      | some a => add st a
      | none => st
    let st := match op.action == "set", op.value with
      | true, some v => groupedGaugeSet st g op.name v labels
      | _, _ => st
    match op.set with
    | some s => groupedGaugeSet st g op.name s labels
    | none => st

/-- `applyGroupOperations`: implicit expire, then the operations one by one. -/
def applyGroupOperations (common : Labels) (st : State) (g : Nat) (ops : List Op) : State :=
  ops.foldl (applyGroupOp common g) (expireGroup st g)

/-! ### ungrouped vecs -/

def uUpsert (upd : UEntry → UEntry) (n : Nat) (k : Labels) : List UEntry → List UEntry
  | [] => [upd { name := n, key := k, val := 0 }]
  | e :: rest =>
    if e.name = n ∧ e.key = k then upd e :: rest else e :: uUpsert upd n k rest

/-- `m.Gauge(name, labels).With(labels).Set(v)` and its siblings: the vec of that family and name
(created on first use if the name is free in the registry), `With` panics unless the label names
are the vec's; a counter panics on a negative value; every panic is recovered and the operation is
dropped. -/
def ungroupedApply (st : State) (f : Fam) (n : Nat) (labels : Labels) (neg : Bool)
    (upd : UEntry → UEntry) : State :=
  let names := labels.map (·.1)
  match st.vecs.find? (fun v => v.name == n && v.fam == f) with
  | some vec =>
    if vec.labelNames = names ∧ ¬ neg then { st with uentries := uUpsert upd n labels st.uentries } else st
  | none =>
    if st.registered n then st
    else
      let st := { st with vecs := st.vecs ++ [{ name := n, fam := f, labelNames := names }] }
      if neg then st else { st with uentries := uUpsert upd n labels st.uentries }

/-- One iteration of `sendBatchV0`; `none` = "no operation in metric", the loop returns the error. -/
def sendOneV0 (common : Labels) (st : State) (op : Op) : Option State :=
  let labels := mergeLabels op.labels common
  match op.action == "add", op.action == "set", op.action == "observe", op.value with
  | true, _, _, some v =>
    some (ungroupedApply st .counter op.name labels (v < 0) (fun e => { e with val := e.val + v }))
  | _, true, _, some v =>
    some (ungroupedApply st .gauge op.name labels false (fun e => { e with val := v }))
  | _, _, true, some v =>
    if op.buckets then
      some (ungroupedApply st .histogram op.name labels false (fun e => { e with val := e.val + v, cnt := e.cnt + 1 }))
    else none
  | _, _, _, _ => none

def sendBatchV0 (common : Labels) : State → List Op → State × Bool
  | st, [] => (st, true)
  | st, op :: rest =>
    match sendOneV0 common st op with
    | none => (st, false)
    | some st => sendBatchV0 common st rest

/-! ### SendBatch -/

/-- the groups of a batch in order of first appearance. -/
def groupsOf : List Op → List Nat
  | [] => []
  | op :: rest =>
    let gs := groupsOf rest
    if op.group = 0 then gs else op.group :: gs.filter (· != op.group)

/-- `SendBatch(ops, labels)`. `order` is the iteration order of the Go map `groupedOps` (a
permutation of the groups of the batch; groups it does not list are not visited). Returns the new
state and whether the call returned nil. An invalid batch changes nothing. -/
def sendBatch (st : State) (common : Labels) (ops : List Op) (order : List Nat) : State × Bool :=
  if !validBatch ops then (st, false)
  else
    let st := order.foldl (fun st g => applyGroupOperations common st g (ops.filter (·.group == g))) st
    sendBatchV0 common st (ops.filter (·.group == 0))

/-! ## Specification side: what a scrape shows and who owns what -/
namespace Spec

/-- One scraped series: name, labels, value (halves), histogram count. -/
structure Sample where
  name : Nat
  labels : Labels
  val : Int
  cnt : Nat := 0
  deriving DecidableEq, Repr

/-- the grouped series owned by `g`. -/
def ownedBy (st : State) (g : Nat) : List GEntry := st.gentries.filter (·.group == g)

/-- The series a group's part of a batch describes (`written`), as an association from
(name, labels) to the value: a fold over the group's operations in batch order starting from
nothing — `expire` forgets everything, `set` stores the value, `add` adds to what the batch has
stored so far. -/
def writtenStep (common : Labels) (acc : List ((Nat × Labels) × Int)) (op : Op) : List ((Nat × Labels) × Int) :=
  if op.action == "expire" then []
  else
    let k := (op.name, gkey (mergeLabels op.labels common))
    match op.action == "add", op.action == "set", op.value with
    | true, _, some v => ((k, (acc.lookup k).getD 0 + v)) :: acc.filter (·.1 != k)
    | _, true, some v => (k, v) :: acc.filter (·.1 != k)
    | _, _, _ => acc

def written (common : Labels) (ops : List Op) : List ((Nat × Labels) × Int) :=
  ops.foldl (writtenStep common) []

/-- One series of the reference registry: what a hook reported, under which group (0 = none). -/
structure RSeries where
  name : Nat
  labels : Labels
  group : Nat
  val : Int
  cnt : Nat := 0
  deriving DecidableEq, Repr

def rUpsert (upd : RSeries → RSeries) (n : Nat) (k : Labels) : List RSeries → List RSeries
  | [] => [upd { name := n, labels := k, group := 0, val := 0 }]
  | e :: rest =>
    if e.name = n ∧ e.labels = k ∧ e.group = 0 then upd e :: rest else e :: rUpsert upd n k rest

/-- ungrouped add / set / observe update the named series (with the `hook` label merged in). -/
def uStep (common : Labels) (ref : List RSeries) (op : Op) : List RSeries :=
  let k := mergeLabels op.labels common
  match op.value with
  | none => ref
  | some v =>
    if op.action == "add" then rUpsert (fun e => { e with val := e.val + v }) op.name k ref
    else if op.action == "set" then rUpsert (fun e => { e with val := v }) op.name k ref
    else if op.action == "observe" then rUpsert (fun e => { e with val := e.val + v, cnt := e.cnt + 1 }) op.name k ref
    else ref

/-- **The property as a reference registry.** An invalid batch changes nothing and fails.
Otherwise: every series reported under a group mentioned in the batch disappears, exactly the
series the batch describes for that group remain with the values given; ungrouped operations
update their series; everything else is untouched. -/
def applyBatch (ref : List RSeries) (common : Labels) (ops : List Op) : List RSeries × Bool :=
  if !validBatch ops then (ref, false)
  else
    let gs := groupsOf ops
    let kept := ref.filter (fun s => !gs.contains s.group)
    let fresh := gs.flatMap fun g =>
      (written common (ops.filter (·.group == g))).map fun (k, v) =>
        ({ name := k.1, labels := k.2, group := g, val := v } : RSeries)
    ((ops.filter (·.group == 0)).foldl (uStep common) (kept ++ fresh), true)

end Spec

end ShellOp.Metrics
