import ShellOp.Model.Json
/-!
# C02, "each with the binding's filter applied": jq programs with any number of outputs,
# and the slices a `Snapshot()` call hands out (aliasing).   Core Lean only.

Part 1 — code-shaped model of `pkg/filter/jq/apply.go`:
* `run` collects ALL outputs of the program (`runProg`; an error anywhere discards everything);
* `ApplyFilterValue` (`applyFilterValue`): `if len(outputs) == 1 { return outputs[0] }` else
  `mergeObjects(outputs)` (= `Json.mergeObjects`: the object-valued outputs are copied into one map
  in output order, `maps.Copy`, outputs of other types are skipped).
The programs are the jq fragment of `Model/Json` (one output per expression) extended by the terms
that have another number of outputs: `empty` (none) and `.path[]` (one per member), joined by `,`.

The documented result (`frDocumented`, the predicate the driver evaluates on `oracle filt` lines) does
not mention the code: exactly one output → that output; any other number → an object in which every
key carries the value of the LAST member with that key among the object-valued outputs, in output
order, and no other key.

Part 2 — `getCachedObjects` / `monitor.Snapshot()` as allocation steps on a heap of backing arrays
(`Heap`): both allocate a fresh array per call, so a slice that was handed out is never written again.
-/
namespace ShellOp.SnapFilter
open ShellOp.Json

/-! ## 1. programs with several outputs -/

/-- One top-level term of a jqFilter (terms are joined by `,`). -/
inductive Term where
  | one (f : Filter)          -- an expression of the fragment: exactly one output (or an error)
  | empty                     -- `empty`: no output
  | iter (ks : List String)   -- `.a.b[]`: one output per member (objects: in key order) / item
  deriving Repr, Inhabited

/-- jq `.[]`: the values of an object in key order (gojq sorts the keys; `J` objects are kept
sorted), the items of an array; anything else cannot be iterated over. -/
def iterValues : J → Option (List J)
  | .obj kvs => some (kvs.map (·.2))
  | .arr xs => some xs
  | _ => none

def Term.outputs : Term → J → Option (List J)
  | .one f, j => (f.eval j).map (fun v => [v])
  | .empty, _ => some []
  | .iter ks, j => (getPath j ks).bind iterValues

/-- `run` (apply.go): all outputs in order; an error anywhere → the error. -/
def runProg : List Term → J → Option (List J)
  | [], _ => some []
  | t :: ts, j =>
    match t.outputs j, runProg ts j with
    | some a, some b => some (a ++ b)
    | _, _ => none

/-- `ApplyFilterValue` as written: `len(outputs) == 1` → `outputs[0]`, else `mergeObjects(outputs)`. -/
def applyFilterValue (outs : List J) : J :=
  if outs.length == 1 then outs.headD .null else mergeObjects outs

/-- The variant that is NOT the code (witness only): `len(outputs) >= 1` → `outputs[0]`. -/
def applyFilterValueFirst (outs : List J) : J :=
  if outs.length ≥ 1 then outs.headD .null else mergeObjects outs

/-! ### the documented result -/

/-- members of an object-valued output; other outputs contribute nothing -/
def members : J → List (String × J)
  | .obj kvs => kvs
  | _ => []

/-- The last assignment to a key in a list of members. -/
def lastAssign (k : String) (init : Option J) (l : List (String × J)) : Option J :=
  l.foldl (fun r kv => if k = kv.1 then some kv.2 else r) init

/-- The value the documented merge gives key `k`: the last member with this key among all members of
the object-valued outputs, in output order. -/
def lastField (k : String) (outs : List J) : Option J :=
  lastAssign k none (outs.flatMap members)

/-- The clause "with the binding's filter applied", for one object: `r` is the documented result of
a program whose outputs on this object are `outs`. -/
def frDocumented (outs : List J) (r : J) : Bool :=
  match outs with
  | [v] => decide (r = v)
  | _ =>
    match r with
    | .obj kvs =>
      ((outs.flatMap members).map (·.1) ++ kvs.map (·.1)).all
        (fun k => decide (lookupKey k kvs = lastField k outs))
    | _ => false

/-! ### text ↔ Nat (the protocol carries a filter result as the number whose base-256 digits are
`1` followed by the bytes of its JSON text) -/

def encStr (s : String) : Nat := s.toList.foldl (fun n c => n * 256 + c.toNat) 1

/-! ## 2. the slices handed out by `getCachedObjects` / `Snapshot()` -/

/-- Backing arrays of Go slices, by allocation index. -/
structure Heap (α : Type) where
  bufs : List (List α) := []

/-- A slice value: backing array and length (offset 0 — none of the code re-slices from the middle). -/
structure Slice where
  buf : Nat
  len : Nat
  deriving Repr, DecidableEq

def Heap.read {α : Type} (h : Heap α) (s : Slice) : List α := ((h.bufs[s.buf]?).getD []).take s.len

/-- `make([]T, 0)` + appends of `xs`: a new backing array holding `xs`. -/
def Heap.alloc {α : Type} (h : Heap α) (xs : List α) : Heap α × Slice :=
  ({ bufs := h.bufs ++ [xs] }, ⟨h.bufs.length, xs.length⟩)

/-- in-place write of a whole array (what re-filling a reused buffer, or `sort.Sort` on an aliased
slice, does) — used by the witness variant only -/
def Heap.write {α : Type} (h : Heap α) (i : Nat) (xs : List α) : Heap α :=
  { bufs := h.bufs.set i xs }

/-- State of one monitor as far as the reads are concerned: the informers' caches (Go maps; their
values in some iteration order) and the heap. -/
structure RState (α : Type) where
  caches : List (List α) := []
  heap : Heap α := {}

/-- `getCachedObjects()` as written: `res := make(...)`, one append per cached object. -/
def getCached {α : Type} (h : Heap α) (cache : List α) : Heap α × Slice := h.alloc cache

/-- `monitor.Snapshot()` as written: `objects := make(...)`; per informer
`objects = append(objects, informer.getCachedObjects()...)` (the chunk is copied); `sort.Sort(objects)`
(in place, on the array nobody else has). Result: the slice returned to the caller. -/
def snapshotCall {α : Type} (srt : List α → List α) (s : RState α) : RState α × Slice :=
  let h1 := s.caches.foldl (fun h c => (getCached h c).1) s.heap
  let (h2, sl) := h1.alloc (srt s.caches.flatten)
  ({ s with heap := h2 }, sl)

/-- What may happen while an execution holds a snapshot: a watch event changes an informer's cache
(the Go map — no slice involved), or any reader calls `Snapshot()` again. -/
inductive ROp (α : Type) where
  | watch (i : Nat) (cache : List α)
  | snapshot

def rstep {α : Type} (srt : List α → List α) (s : RState α) : ROp α → RState α
  | .watch i c => { s with caches := s.caches.set i c }
  | .snapshot => (snapshotCall srt s).1

def rrun {α : Type} (srt : List α → List α) (s : RState α) (ops : List (ROp α)) : RState α :=
  ops.foldl (rstep srt) s

/-! ### the variant that is NOT the code (witness only): one informer whose `getCachedObjects`
refills buffer 0 and whose `Snapshot()` returns that buffer, sorted in place -/

def snapshotCallReuse {α : Type} (srt : List α → List α) (s : RState α) : RState α × Slice :=
  let c := s.caches.flatten
  let old := (s.heap.bufs[0]?).getD []
  -- refill from index 0 (the tail beyond the new length keeps what it held), then sort in place
  let h' := s.heap.write 0 (srt c ++ old.drop c.length)
  ({ s with heap := h' }, ⟨0, c.length⟩)

end ShellOp.SnapFilter
