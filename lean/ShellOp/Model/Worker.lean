import ShellOp.Model.Queue
/-!
Model of the queue worker of `pkg/task/queue/task_queue.go` (`Start`, `waitForTask`), of the queue set
(`queue_set.go`), of the events consumer (`manager_events_handler.go`) and of the shutdown sequence
(`operator.go: Shutdown`), as a step machine at the granularity of the critical sections the code has
(tie T3: the lock/step skeletons in `expect/skeleton`). Shared by C03 and C17.

Program counter of one worker goroutine (the positions marked `point` are the `verifsched.Point`
yield points of the code; the events `Ev.pt` are logged on arrival there):

  loopTop        `for {` of Start()                                   point queue.loop
  afterCheck1    waitForTask: first `select { case <-ctx.Done() … }` passed   point queue.wait.afterCtxCheck
  shortcut       `!q.IsEmpty() && sleepDelay == 0` was true; next: `q.GetFirst()`
  waitLoop       wait loop, before the `select`                        point queue.wait.beforeSelect
  tickRecv       the select took `case <-checkTicker.C`; next: the context re-check (repaired code)
  ticked         ticker branch, re-check passed                       point queue.wait.tick
                 next: `elapsed >= waitUntil` (input `expired` of the step), cancelDelay, IsEmpty
  waitGet        `checkTask && !q.IsEmpty()`; next: `return q.GetFirst()`
  returned t     waitForTask returned t (nil = stop)
  running t      inside `q.Handler(t)` (no lock held)
  handled t r    handler returned r                                    point queue.afterHandler
  apply t r      second context check passed; next: result switch (one `withLock`) and sleep computation
  stopped        goroutine returned, Status = "stop"

Time is abstract: whether `elapsed >= waitUntil` holds at a tick is an input of the `tickStep` action
(an over-approximation of the real timer, so safety theorems transfer); Go's `select` with several
ready cases picks any of them: at `waitLoop` both `selDone` (needs the context cancelled) and
`selTick` are offered.
-/
namespace ShellOp.Worker

open ShellOp.Queue (Id Items Status)

abbrev QName := Nat

/-- What the handler returned (`TaskResult`), plus the value `q.ExponentialBackoffFn(failureCount)`
would give for this task (the failure count itself is C04's business). -/
structure Result where
  status : Status := .success
  head : List Id := []
  after : List Id := []
  tail : List Id := []
  delay : Nat := 0
  backoff : Nat := 0
  deriving DecidableEq, Repr

/-- Classes of the `Status` string. -/
inductive QStatus
  | idle | noHandler | run | sleepFail | repeatHead | sleepFor | waiting | delayLeft | stop
  deriving DecidableEq, Repr

inductive Pc
  | loopTop (sleep : Nat)
  | afterCheck1 (sleep : Nat)
  | shortcut
  | waitLoop (sleep : Nat) (orig : QStatus)
  | tickRecv (sleep : Nat) (orig : QStatus)
  | ticked (sleep : Nat) (orig : QStatus)
  | waitGet (orig : QStatus)
  | returned (t : Option Id)
  | running (t : Id)
  | handled (t : Id) (r : Result)
  | apply (t : Id) (r : Result)
  | stopped
  deriving DecidableEq, Repr

inductive Point | loop | afterCheck | beforeSelect | tick | afterHandler
  deriving DecidableEq, Repr

/-- Observable events (the log is kept newest first). -/
inductive Ev
  | recv (q : QName) (t : Id)                    -- the events consumer appended t to queue q
  | drop (q : QName) (t : Id)                    -- task for a queue that does not exist ("Possible bug!!!")
  | pt (q : QName) (p : Point)                   -- a worker of q arrived at a yield point
  | start (q : QName) (t : Id) (hd : Option Id)  -- Handler(t) entered; hd = head of the queue then
  | fin (q : QName) (t : Id)                     -- Handler returned
  | exit (q : QName)                             -- worker goroutine returned
  | stop                                         -- shutdown requested (context cancelled)
  deriving DecidableEq, Repr

structure QState where
  items : Items := []
  hasHandler : Bool := true
  started : Bool := false          -- `q.started`: unsynchronised, written after `go func()`
  status : QStatus := .idle
  waitInProgress : Bool := false
  cancelDelay : Bool := false
  workers : List Pc := []          -- one entry per goroutine spawned by Start()
  deriving Repr

structure Cfg where
  fix : Bool := true               -- the context re-check in the ticker branch of the wait loop
  delayOnRepeat : Nat := 25
  deriving Repr

/-- The worker's own actions: `step` is the unique next step everywhere except at the `select`. -/
inductive WAct | step | selDone | selTick | tickStep (expired : Bool)
  deriving DecidableEq, Repr

def isEmpty (q : Items) : Bool := q.isEmpty

/-- exit from the wait loop: the deferred function of waitForTask. -/
def leaveWait (qs : QState) (orig : QStatus) : QState :=
  { qs with waitInProgress := false, cancelDelay := false, status := orig }

/-- `nextSleepDelay` and the status written by the result switch. -/
def sleepOf (cfg : Cfg) (r : Result) : Nat × QStatus :=
  let (d, st) := match r.status with
    | .fail => (r.backoff, QStatus.sleepFail)
    | .repeat => (cfg.delayOnRepeat, QStatus.repeatHead)
    | _ => (0, QStatus.idle)
  if r.delay != 0 then (r.delay, .sleepFor) else (d, st)

/-- One step of one worker goroutine of queue `q`. `done` = `q.ctx.Done()` is closed. -/
def wstep (cfg : Cfg) (done : Bool) (q : QName) (qs : QState) : Pc → WAct → Option (QState × Pc × List Ev)
  | .loopTop sleep, .step =>
    if done then some (qs, .returned none, [])
    else some (qs, .afterCheck1 sleep, [.pt q .afterCheck])
  | .afterCheck1 sleep, .step =>
    if !isEmpty qs.items && sleep == 0 then some (qs, .shortcut, [])
    else some ({ qs with waitInProgress := true, cancelDelay := false }, .waitLoop sleep qs.status,
               [.pt q .beforeSelect])
  | .shortcut, .step => some (qs, .returned (Queue.getFirst qs.items), [])
  | .waitLoop _ orig, .selDone =>
    if done then some (leaveWait qs orig, .returned none, []) else none
  | .waitLoop sleep orig, .selTick => some (qs, .tickRecv sleep orig, [])
  | .tickRecv sleep orig, .step =>
    if cfg.fix && done then some (leaveWait qs orig, .returned none, [])
    else some (qs, .ticked sleep orig, [.pt q .tick])
  | .ticked sleep orig, .tickStep e =>
    let again : QState := { qs with status := if sleep == 0 then .waiting else .delayLeft }
    if e || qs.cancelDelay then
      if isEmpty qs.items then some (again, .waitLoop sleep orig, [.pt q .beforeSelect])
      else some (qs, .waitGet orig, [])
    else some (again, .waitLoop sleep orig, [.pt q .beforeSelect])
  | .waitGet orig, .step => some (leaveWait qs orig, .returned (Queue.getFirst qs.items), [])
  | .returned none, .step => some ({ qs with status := .stop }, .stopped, [.exit q])
  | .returned (some t), .step =>
    some ({ qs with status := .run }, .running t, [.start q t (Queue.getFirst qs.items)])
  | .handled t r, .step =>
    if done then some ({ qs with status := .stop }, .stopped, [.exit q])
    else some (qs, .apply t r, [])
  | .apply t r, .step =>
    let items := Queue.applyResult qs.items t r.status r.head r.after r.tail
    let (d, st) := sleepOf cfg r
    some ({ qs with items := items, status := st }, .loopTop d, [.pt q .loop])
  | _, _ => none

/-- Thread of a caller of `Start()`: read `started`; spawn; write `started`. -/
inductive CPc | idle | sawNotStarted (q : QName) | spawned (q : QName)
  deriving DecidableEq, Repr

inductive Label
  | newQueue (q : QName) (hasHandler : Bool)          -- NewNamedQueue (only for an absent name)
  | startRead (c : Nat) (q : QName)                    -- Start(): `if q.started { return }`, handler check
  | startSpawn (c : Nat) (q : QName)                   -- `go func() {…}()`
  | startWrite (c : Nat) (q : QName)                   -- `q.started = true`
  | deliver (ts : List (QName × Id))                   -- events consumer: DoWithLock{ for … AddLast }
  | cronFire (ts : List (QName × Id))                  -- a schedule tick reaches the consumer
  | kubeEvent (ts : List (QName × Id))                 -- a cluster event reaches the consumer
  | schedStop | schedStopper | kubePause               -- ScheduleManager.Stop (+ its goroutine), PauseHandleEvents
  | stop                                               -- TaskQueueSet.Stop(): cancel the context
  | w (q : QName) (i : Nat) (a : WAct)                 -- worker i of queue q
  | handlerReturn (q : QName) (i : Nat) (r : Result)   -- the handler running in worker i returns r
  | handlerFilter (q : QName) (i : Nat) (keep : List Id) -- the handler compacts its own queue (Filter), keeping its task
  | cancelDelay (q : QName)                            -- CancelTaskDelay
  deriving Repr

structure State where
  qs : QName → Option QState := fun _ => none
  names : List QName := []
  cancelled : Bool := false
  callers : Nat → CPc := fun _ => .idle
  cronRunning : Bool := true
  schedCancelled : Bool := false
  kubePaused : Bool := false
  log : List Ev := []              -- newest first

def upd (f : QName → Option QState) (q : QName) (v : QState) : QName → Option QState :=
  fun x => if x = q then some v else f x

def updC (f : Nat → CPc) (c : Nat) (v : CPc) : Nat → CPc := fun x => if x = c then v else f x

/-- The loop body of the consumer: `if q := tqs.Queues[name]; q == nil { log } else { q.AddLast(t) }`. -/
def deliver1 (s : State) (x : QName × Id) : State :=
  match s.qs x.1 with
  | none => { s with log := .drop x.1 x.2 :: s.log }
  | some qs => { s with qs := upd s.qs x.1 { qs with items := Queue.addLast qs.items x.2 },
                        log := .recv x.1 x.2 :: s.log }

def deliverAll (s : State) (ts : List (QName × Id)) : State := ts.foldl deliver1 s

def setWorker (qs : QState) (i : Nat) (pc : Pc) : QState := { qs with workers := qs.workers.set i pc }

def step (cfg : Cfg) (s : State) : Label → Option State
  | .newQueue q h =>
    match s.qs q with
    | some _ => none
    | none => some { s with qs := upd s.qs q { hasHandler := h }, names := s.names ++ [q] }
  | .startRead c q =>
    match s.callers c, s.qs q with
    | .idle, some qs =>
      if qs.started then some s
      else if !qs.hasHandler then some { s with qs := upd s.qs q { qs with status := .noHandler } }
      else some { s with callers := updC s.callers c (.sawNotStarted q) }
    | _, _ => none
  | .startSpawn c q0 =>
    match s.callers c with
    | .sawNotStarted q =>
      if q ≠ q0 then none else
      match s.qs q with
      | some qs => some { s with qs := upd s.qs q { qs with workers := qs.workers ++ [.loopTop 0], status := .idle },
                                 callers := updC s.callers c (.spawned q),
                                 log := .pt q .loop :: s.log }
      | none => none
    | _ => none
  | .startWrite c q0 =>
    match s.callers c with
    | .spawned q =>
      if q ≠ q0 then none else
      match s.qs q with
      | some qs => some { s with qs := upd s.qs q { qs with started := true },
                                 callers := updC s.callers c .idle }
      | none => none
    | _ => none
  | .deliver ts => some (deliverAll s ts)
  | .cronFire ts => if s.cronRunning then some (deliverAll s ts) else none
  | .kubeEvent ts => if s.kubePaused then none else some (deliverAll s ts)
  | .schedStop => some { s with schedCancelled := true }
  | .schedStopper => if s.schedCancelled then some { s with cronRunning := false } else none
  | .kubePause => some { s with kubePaused := true }
  | .stop => if s.cancelled then some s else some { s with cancelled := true, log := .stop :: s.log }
  | .w q i a =>
    match s.qs q with
    | none => none
    | some qs =>
      match qs.workers[i]? with
      | none => none
      | some pc =>
        match wstep cfg s.cancelled q qs pc a with
        | none => none
        | some (qs', pc', evs) =>
          some { s with qs := upd s.qs q (setWorker qs' i pc'), log := evs.reverse ++ s.log }
  | .handlerReturn q i r =>
    match s.qs q with
    | none => none
    | some qs =>
      match qs.workers[i]? with
      | some (.running t) =>
        some { s with qs := upd s.qs q (setWorker qs i (.handled t r)),
                      log := .pt q .afterHandler :: .fin q t :: s.log }
      | _ => none
  | .handlerFilter q i keep =>
    match s.qs q with
    | none => none
    | some qs =>
      match qs.workers[i]? with
      | some (.running t) =>
        some { s with qs := upd s.qs q { qs with items := Queue.filter qs.items (fun x => x == t || keep.contains x) } }
      | _ => none
  | .cancelDelay q =>
    match s.qs q with
    | none => none
    | some qs => some { s with qs := upd s.qs q { qs with cancelDelay := qs.waitInProgress || qs.cancelDelay } }

/-- Run a schedule (a list of labels); `none` when some step is not enabled. -/
def run (cfg : Cfg) (s : State) : List Label → Option State
  | [] => some s
  | l :: ls => match step cfg s l with
    | none => none
    | some s' => run cfg s' ls

def init : State := {}

/-- `WaitStopWithTimeout`'s test: every queue of the set has Status "stop". -/
def allStopped (s : State) : Bool :=
  s.names.all fun q => match s.qs q with | some qs => qs.status == .stop | none => true

/-! ## The specification: predicates on the event log (newest first). The same predicates are
evaluated by the driver on the events the real code showed (`oracle` lines). -/

/-- Is the event one of queue `q`'s worker? -/
def Ev.ofWorker (q : QName) : Ev → Bool
  | .pt q' _ | .start q' _ _ | .fin q' _ | .exit q' => q' == q
  | _ => false

/-- A handler of `q` is open (entered, not returned) at the end of the log. -/
def busy (q : QName) : List Ev → Bool
  | [] => false
  | .start q' _ _ :: rest => if q' = q then true else busy q rest
  | .fin q' _ :: rest => if q' = q then false else busy q rest
  | _ :: rest => busy q rest

/-- C03, first clause: executions of one queue never overlap: a handler of `q` is entered only when
no handler of `q` is open, and returns only when one is. -/
def noOverlap (q : QName) : List Ev → Bool
  | [] => true
  | .start q' _ _ :: rest => (q' != q || !busy q rest) && noOverlap q rest
  | .fin q' _ :: rest => (q' != q || busy q rest) && noOverlap q rest
  | _ :: rest => noOverlap q rest

/-- C03, second clause: the task handed to the handler is the head of its queue. -/
def headFirst : List Ev → Bool
  | [] => true
  | .start _ t hd :: rest => hd == some t && headFirst rest
  | _ :: rest => headFirst rest

/-- Tasks the consumer placed in `q`, oldest first. -/
def arrivals (q : QName) : List Ev → List Id
  | [] => []
  | .recv q' t :: rest => if q' = q then arrivals q rest ++ [t] else arrivals q rest
  | _ :: rest => arrivals q rest

/-- Tasks whose handler was entered in `q`, oldest first. -/
def starts (q : QName) : List Ev → List Id
  | [] => []
  | .start q' t _ :: rest => if q' = q then starts q rest ++ [t] else starts q rest
  | _ :: rest => starts q rest

def stopRequested : List Ev → Bool
  | [] => false
  | .stop :: _ => true
  | _ :: rest => stopRequested rest

/-- Number of handler entries of `q` after the stop request. -/
def startsAfterStop (q : QName) : List Ev → Nat
  | [] => 0
  | .stop :: _ => 0
  | .start q' _ _ :: rest => (if q' = q then 1 else 0) + startsAfterStop q rest
  | _ :: rest => startsAfterStop q rest

/-- Newest event of `q`'s worker. -/
def lastOf (q : QName) : List Ev → Option Ev
  | [] => none
  | e :: rest => if e.ofWorker q then some e else lastOf q rest

/-- Where `q`'s worker was when the stop was requested (its newest event before the stop). -/
def posAtStop (q : QName) : List Ev → Option Ev
  | [] => none
  | .stop :: rest => lastOf q rest
  | _ :: rest => posAtStop q rest

/-- The positions at which the worker "has already picked" its next task: it has passed its last
context check (top of waitForTask heading for the head task, or the re-check in the ticker branch). -/
def committedPos : Option Ev → Bool
  | some (.pt _ .afterCheck) | some (.pt _ .tick) => true
  | _ => false

/-- C17, first clause: after the stop request a queue starts at most one more task, and only if its
worker had already picked it. -/
def cleanStop (q : QName) (log : List Ev) : Bool :=
  !stopRequested log ||
    (startsAfterStop q log ≤ 1 && (startsAfterStop q log == 0 || committedPos (posAtStop q log)))

/-- C17, second clause on the log: after the stop request, once a handler of `q` has returned the
worker passes `afterHandler` and exits — it never comes back to the top of its loop. `seenFin` scans
from the newest event: the predicate is `true` when no "loop/afterCheck/beforeSelect/tick/start" event
of `q` is newer than a `fin q` that is itself newer than the stop. -/
def promptExitAux (q : QName) : List Ev → Bool → Bool
  | [], _ => true
  | .stop :: _, _ => true
  | .fin q' _ :: rest, later => if q' = q then !later && promptExitAux q rest later else promptExitAux q rest later
  | .pt q' p :: rest, later =>
    if q' = q && p != .afterHandler then promptExitAux q rest true else promptExitAux q rest later
  | .start q' _ _ :: rest, later => if q' = q then promptExitAux q rest true else promptExitAux q rest later
  | _ :: rest, later => promptExitAux q rest later

def promptExit (q : QName) (log : List Ev) : Bool := !stopRequested log || promptExitAux q log false

/-- the worker goroutine of `q` has returned -/
def exited (q : QName) : List Ev → Bool
  | [] => false
  | .exit q' :: rest => q' == q || exited q rest
  | _ :: rest => exited q rest

/-- After `exit q` the worker does nothing more. -/
def exitFinal (q : QName) : List Ev → Bool
  | [] => true
  | e :: rest => (!(e.ofWorker q) || !(exited q rest)) && exitFinal q rest

end ShellOp.Worker
