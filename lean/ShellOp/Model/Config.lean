import ShellOp.Generated.Facts
/-!
# Model of hook-config conversion (C10). Core Lean only.

`convertV1 : DocV1 → Except Err Effective` mirrors `HookConfigV1.ConvertAndCheck` (config_v1.go) over the
*typed* document (what `yaml.Unmarshal` into `HookConfigV1` yields): same order of steps, same case splits.
`convertV0` mirrors `HookConfigV0.ConvertAndCheck`. Third-party parsers (cron, label/field selector
formatting, group/version parsing, duration/int parsing, webhook name/rule validation) enter as oracle
fields of the document (`…OK : Bool`, parsed values). Decoding bytes into the typed document and the OpenAPI
schema are outside the model (tested, see the harness).

Names, queues and groups are strings here: the property is about the documented default *strings*.
Constants come from `ShellOp.Facts` (regenerated from the sources on every run).
-/
namespace ShellOp.Config
open ShellOp

inductive Err where
  | settings | onStartup | kubeCheck (i : Nat) | kubeIncludes (i : Nat) | schedule (i : Nat)
  | validating (i : Nat) | validatingWebhooks | mutating (i : Nat) | conversion (i : Nat)
  | event (i : Nat) | version | groupAmbiguous (i : Nat)
deriving Repr, DecidableEq

/-! ## The typed v1 document -/

structure SettingsV1 where
  interval : Option Int   -- `time.ParseDuration` (ns), `none` = parse error
  burst : Option Int      -- `strconv.ParseInt(_, 10, 32)`, `none` = parse error
deriving Repr, DecidableEq

/-- `OnStartup interface{}`: nil, a float64, or anything else. -/
inductive OnStartupRaw where
  | absent | num (v : Int) | other
deriving Repr, DecidableEq

structure KubeV1 where
  name : String := ""
  apiVersionOK : Bool := true       -- apiVersion == "" or `schema.ParseGroupVersion` accepts it
  labelSelOK : Bool := true         -- labelSelector == nil or `FormatLabelSelector` accepts it
  fieldSelOK : Bool := true         -- fieldSelector == nil or `FormatFieldSelector` accepts it
  nameSelNonEmpty : Bool := false   -- nameSelector != nil && len(matchNames) > 0
  fieldSelOnName : Bool := false    -- some fieldSelector expression has field "metadata.name"
  execEvents : Option (List String) := none    -- executeHookOnEvent (nil / list, `[]` is a list)
  watchEvents : Option (List String) := none   -- watchEvent
  execOnSync : String := ""         -- decoded into a string field: "", "true", "false"
  waitForSync : String := ""
  keepFull : String := ""
  allowFailure : Bool := false
  includes : List String := []
  queue : String := ""
  group : String := ""
  passthru : String := ""           -- kind, apiVersion, selectors, jqFilter: copied field by field
deriving Repr, DecidableEq

structure SchedV1 where
  name : String := ""
  crontab : String := ""
  parseOK : Bool := true            -- `cron.Parse` accepts it (consulted only when no step is zero)
  allowFailure : Bool := false
  includes : List String := []
  queue : String := ""
  group : String := ""
deriving Repr, DecidableEq

/-- kubernetesValidating / kubernetesMutating item. -/
structure AdmV1 where
  name : String := ""
  includes : List String := []
  group : String := ""
  labelSelOK : Bool := true         -- labelSelector == nil or formats
  nsSelOK : Bool := true            -- namespace.labelSelector == nil or formats
  failurePolicy : Option String := none
  sideEffects : Option String := none
  timeout : Option Int := none
  webhookOK : Bool := true          -- name is fully qualified, rules and selectors validate (k8s validation)
  passthru : String := ""           -- rules, selectors, matchConditions
deriving Repr, DecidableEq

structure ConvV1 where
  name : String := ""
  includes : List String := []
  group : String := ""
  passthru : String := ""           -- crdName, conversions
deriving Repr, DecidableEq

structure DocV1 where
  settings : Option SettingsV1 := none
  onStartup : OnStartupRaw := .absent
  kubes : List KubeV1 := []
  scheds : List SchedV1 := []
  validating : List AdmV1 := []
  mutating : List AdmV1 := []
  conversions : List ConvV1 := []
deriving Repr, DecidableEq

/-! ## The effective configuration -/

structure KubeEff where
  name : String
  events : List String
  execOnSync : Bool
  waitForSync : Bool
  keepFull : Bool
  allowFailure : Bool
  includes : List String
  queue : String
  group : String
  passthru : String
deriving Repr, DecidableEq

structure SchedEff where
  name : String
  crontab : String
  allowFailure : Bool
  includes : List String
  queue : String
  group : String
deriving Repr, DecidableEq

structure AdmEff where
  name : String
  includes : List String
  group : String
  failurePolicy : String
  sideEffects : String
  timeout : Int
  passthru : String
deriving Repr, DecidableEq

structure ConvEff where
  name : String
  includes : List String
  group : String
  passthru : String
deriving Repr, DecidableEq

structure Effective where
  settings : Option (Int × Int) := none
  onStartup : Option Int := none
  kubes : List KubeEff := []
  scheds : List SchedEff := []
  validating : List AdmEff := []
  mutating : List AdmEff := []
  conversions : List ConvEff := []
deriving Repr, DecidableEq

/-! ## util.go -/

/-- `unicode.IsSpace`. -/
def isSpaceGo (c : Char) : Bool :=
  c == ' ' || c == '\t' || c == '\n' || c == '\r' || c.val == 0x0b || c.val == 0x0c || c.val == 0x85 || c.val == 0xA0 ||
  c.val == 0x1680 || (0x2000 ≤ c.val && c.val ≤ 0x200A) || c.val == 0x2028 || c.val == 0x2029 || c.val == 0x202F ||
  c.val == 0x205F || c.val == 0x3000

/-- Split a character list at every character satisfying `p` (`strings.Split` for one-character
separators: empty pieces are kept). -/
def splitAt (p : Char → Bool) : List Char → List (List Char)
  | [] => [[]]
  | c :: cs =>
    match splitAt p cs with
    | [] => [[]]                      -- unreachable: the result is never empty
    | x :: xs => if p c then [] :: x :: xs else (c :: x) :: xs

/-- `strings.Fields`. -/
def fieldsGo (s : List Char) : List (List Char) := (splitAt isSpaceGo s).filter (fun f => !f.isEmpty)

/-- `strconv.Atoi(s)` succeeds with value 0: an optional sign followed by one or more `0`. -/
def atoiIsZero (s : List Char) : Bool :=
  let body := match s with
    | '+' :: r => r
    | '-' :: r => r
    | r => r
  !body.isEmpty && body.all (· == '0')

/-- The loop of `ParseCrontab` before it calls the cron library: some field has an expression
`range/step` (exactly one slash) whose step is the number zero. -/
def zeroStep (crontab : String) : Bool :=
  (fieldsGo crontab.toList).any (fun f =>
    (splitAt (· == ',') f).any (fun e =>
      match splitAt (· == '/') e with
      | [_, st] => atoiIsZero st
      | _ => false))

/-- `ParseCrontab`: reject a zero step, then ask the cron library. -/
def parseCrontabOK (crontab : String) (parseOK : Bool) : Bool := !zeroStep crontab && parseOK

/-- `MergeArrays` as written: a map `union` marks the elements of `a2`; every element of `a1` is
appended and unmarked; then the still-marked elements of `a2` are appended and unmarked. The map is the
list of currently marked strings. -/
def mergeLoop2 : List String → List String → List String → List String
  | [], _, res => res
  | a :: a2, marked, res =>
    if a ∈ marked then mergeLoop2 a2 (marked.filter (· != a)) (res ++ [a]) else mergeLoop2 a2 marked res

def mergeArrays (a1 a2 : List String) : List String :=
  -- first loop: union[a] = true for a in a2; second: res = a1, union[a] = false for a in a1
  let marked := a2.filter (fun a => !(a1.contains a))
  mergeLoop2 a2 marked a1

/-- `CheckIncludeSnapshots`: every include names exactly one kubernetes binding. -/
def countName (kubes : List KubeEff) (n : String) : Nat := (kubes.filter (fun k => k.name == n)).length

def checkIncludes (kubes : List KubeEff) (incl : List String) : Bool :=
  incl.all (fun n => countName kubes n == 1)

/-! ## config_v1.go -/

def convertSettings : Option SettingsV1 → Except Err (Option (Int × Int))
  | none => .ok none
  | some s =>
    match s.interval, s.burst with
    | some i, some b => .ok (some (i, b))
    | _, _ => .error .settings

def convertOnStartup : OnStartupRaw → Except Err (Option Int)
  | .absent => .ok none
  | .num v => .ok (some v)
  | .other => .error .onStartup

/-- `CheckOnKubernetesEvent`. -/
def checkKube (k : KubeV1) : Bool :=
  k.apiVersionOK && k.labelSelOK && k.fieldSelOK && !(k.nameSelNonEmpty && k.fieldSelOnName)

/-- The body of the kubernetes loop of `ConvertAndCheck`. -/
def convertKube (k : KubeV1) : KubeEff :=
  { name := if k.name == "" then Facts.c10DefaultKubeName else k.name
    events := match k.execEvents with
      | some l => l                              -- executeHookOnEvent is a priority
      | none => match k.watchEvents with
        | some l => l
        | none => Facts.c10DefaultEvents         -- WithEventTypes(nil)
    execOnSync := if k.execOnSync == "false" then false else Facts.c10DefaultExecOnSync
    waitForSync := if k.waitForSync == "false" && k.queue != "" then false else Facts.c10DefaultWaitForSync
    keepFull := if k.keepFull == "false" then false else Facts.c10DefaultKeepFull
    allowFailure := k.allowFailure
    includes := k.includes
    queue := if k.queue == "" then Facts.c10DefaultQueueKube else k.queue
    group := k.group
    passthru := k.passthru }

def kubeLoop : Nat → List KubeV1 → Except Err (List KubeEff)
  | _, [] => .ok []
  | i, k :: ks =>
    if checkKube k then (kubeLoop (i + 1) ks).map (convertKube k :: ·) else .error (.kubeCheck i)

def kubeInclLoop (all : List KubeEff) : Nat → List KubeEff → Except Err Unit
  | _, [] => .ok ()
  | i, k :: ks =>
    if k.includes.length > 0 && !checkIncludes all k.includes then .error (.kubeIncludes i)
    else kubeInclLoop all (i + 1) ks

def convertSched (s : SchedV1) : SchedEff :=
  { name := if s.name != "" then s.name else Facts.c10DefaultSchedName
    crontab := s.crontab
    allowFailure := s.allowFailure
    includes := s.includes
    queue := if s.queue == "" then Facts.c10DefaultQueueSched else s.queue
    group := s.group }

/-- `CheckSchedule`. -/
def checkSched (kubes : List KubeEff) (s : SchedV1) : Bool :=
  parseCrontabOK s.crontab s.parseOK && (s.includes.length == 0 || checkIncludes kubes s.includes)

def schedLoop (kubes : List KubeEff) : Nat → List SchedV1 → Except Err (List SchedEff)
  | _, [] => .ok []
  | i, s :: ss =>
    if checkSched kubes s then (schedLoop kubes (i + 1) ss).map (convertSched s :: ·) else .error (.schedule i)

/-- `CheckAdmission`. -/
def checkAdm (kubes : List KubeEff) (a : AdmV1) : Bool :=
  (a.includes.length == 0 || checkIncludes kubes a.includes) && a.labelSelOK && a.nsSelOK

def convertAdm (defaultPolicy : String) (a : AdmV1) : AdmEff :=
  { name := a.name, includes := a.includes, group := a.group
    failurePolicy := a.failurePolicy.getD defaultPolicy
    sideEffects := a.sideEffects.getD Facts.c10DefaultSideEffects
    timeout := a.timeout.getD Facts.c10DefaultTimeout
    passthru := a.passthru }

def admLoop (kubes : List KubeEff) (defaultPolicy : String) (mkErr : Nat → Err) :
    Nat → List AdmV1 → Except Err (List AdmEff)
  | _, [] => .ok []
  | i, a :: as =>
    if checkAdm kubes a then (admLoop kubes defaultPolicy mkErr (i + 1) as).map (convertAdm defaultPolicy a :: ·)
    else .error (mkErr i)

/-- `ValidateValidatingWebhooks` on the converted list: each webhook validates (oracle), the timeout is
within 1..30, non-empty names are not repeated. -/
def hasDup : List String → Bool
  | [] => false
  | x :: xs => (x != "" && xs.contains x) || hasDup xs

def validatingWebhooksOK (raw : List AdmV1) (eff : List AdmEff) : Bool :=
  raw.all (·.webhookOK) && eff.all (fun e => 1 ≤ e.timeout && e.timeout ≤ 30) && !hasDup (eff.map (·.name))

/-- `CheckConversion`. -/
def checkConv (kubes : List KubeEff) (c : ConvV1) : Bool :=
  c.includes.length == 0 || checkIncludes kubes c.includes

/-- `ConvertConversion`. -/
def convertConv (c : ConvV1) : ConvEff :=
  { name := c.name, includes := c.includes, group := c.group, passthru := c.passthru }

def convLoop (kubes : List KubeEff) : Nat → List ConvV1 → Except Err (List ConvEff)
  | _, [] => .ok []
  | i, c :: cs =>
    if checkConv kubes c then (convLoop kubes (i + 1) cs).map (convertConv c :: ·) else .error (.conversion i)

/-- `groupSnapshots`: for a non-empty group, the names of its kubernetes bindings in order; the Go map
has no entry for a group without kubernetes bindings (and none for ""). -/
def groupSnapshots (kubes : List KubeEff) (g : String) : Option (List String) :=
  if g == "" then none
  else
    let l := (kubes.filter (fun k => k.group == g)).map (·.name)
    if l.isEmpty then none else some l

def mergeGroup (kubes : List KubeEff) (g : String) (incl : List String) : List String :=
  match groupSnapshots kubes g with
  | some snaps => mergeArrays incl snaps
  | none => incl

def KubeEff.merged (kubes : List KubeEff) (k : KubeEff) : KubeEff :=
  { k with includes := mergeGroup kubes k.group k.includes }
def SchedEff.merged (kubes : List KubeEff) (s : SchedEff) : SchedEff :=
  { s with includes := mergeGroup kubes s.group s.includes }
def AdmEff.merged (kubes : List KubeEff) (a : AdmEff) : AdmEff :=
  { a with includes := mergeGroup kubes a.group a.includes }
def ConvEff.merged (kubes : List KubeEff) (c : ConvEff) : ConvEff :=
  { c with includes := mergeGroup kubes c.group c.includes }

/-- The check added by the repair: the names a group contributes must each name exactly one kubernetes
binding (for every kubernetes binding that has a group, in order). -/
def groupCheckLoop (all : List KubeEff) : Nat → List KubeEff → Except Err Unit
  | _, [] => .ok ()
  | i, k :: ks =>
    match groupSnapshots all k.group with
    | some snaps => if checkIncludes all snaps then groupCheckLoop all (i + 1) ks else .error (.groupAmbiguous i)
    | none => groupCheckLoop all (i + 1) ks

/-- `HookConfigV1.ConvertAndCheck`. `defaultPolicy` = `app.ValidatingWebhookSettings.DefaultFailurePolicy`.
`groupCheck = false` is the code before the repair (no ambiguity check on the names a group adds). -/
def convertV1Core (groupCheck : Bool) (defaultPolicy : String) (d : DocV1) : Except Err Effective := do
  let settings ← convertSettings d.settings
  let onStartup ← convertOnStartup d.onStartup
  let kubes ← kubeLoop 0 d.kubes
  kubeInclLoop kubes 0 kubes
  let scheds ← schedLoop kubes 0 d.scheds
  let validating ← admLoop kubes defaultPolicy .validating 0 d.validating
  if !validatingWebhooksOK d.validating validating then throw .validatingWebhooks
  let mutating ← admLoop kubes Facts.c10DefaultMutatingPolicy .mutating 0 d.mutating
  let conversions ← convLoop kubes 0 d.conversions
  if groupCheck then groupCheckLoop kubes 0 kubes
  -- group merge, every kind
  pure
    { settings := settings
      onStartup := onStartup
      kubes := kubes.map (KubeEff.merged kubes)
      scheds := scheds.map (SchedEff.merged kubes)
      validating := validating.map (AdmEff.merged kubes)
      mutating := mutating.map (AdmEff.merged kubes)
      conversions := conversions.map (ConvEff.merged kubes) }

def convertV1 (defaultPolicy : String) (d : DocV1) : Except Err Effective := convertV1Core true defaultPolicy d

/-- The conversion as it was before the repair. -/
def convertV1Unrepaired (defaultPolicy : String) (d : DocV1) : Except Err Effective :=
  convertV1Core false defaultPolicy d

/-! ## config_v0.go -/

structure SchedV0 where
  name : String := ""
  crontab : String := ""
  parseOK : Bool := true
  allowFailure : Bool := false
deriving Repr, DecidableEq

structure KubeV0 where
  name : String := ""
  events : List String := []        -- "add" | "update" | "delete" | anything else
  allowFailure : Bool := false
  passthru : String := ""
deriving Repr, DecidableEq

structure DocV0 where
  onStartup : OnStartupRaw := .absent
  scheds : List SchedV0 := []
  kubes : List KubeV0 := []
deriving Repr, DecidableEq

def convertEventV0 (e : String) : Option String :=
  if e == "add" then some "Added" else if e == "update" then some "Modified"
  else if e == "delete" then some "Deleted" else none

/-- The event loop of the v0 conversion: stops at the first unsupported name. -/
def convertEventsV0 : List String → Option (List String)
  | [] => some []
  | e :: es =>
    match convertEventV0 e with
    | none => none
    | some x => (convertEventsV0 es).map (x :: ·)

def convertSchedV0 (s : SchedV0) : SchedEff :=
  { name := if s.name != "" then s.name else Facts.c10DefaultSchedName, crontab := s.crontab,
    allowFailure := s.allowFailure, includes := [], queue := Facts.c10DefaultQueueV0Sched, group := "" }

def convertKubeV0 (k : KubeV0) (evs : List String) : KubeEff :=
  { name := if k.name == "" then Facts.c10DefaultKubeNameV0 else k.name, events := evs,
    execOnSync := false, waitForSync := false, keepFull := false,   -- zero values: never set for v0
    allowFailure := k.allowFailure, includes := [], queue := Facts.c10DefaultQueueV0Kube, group := "",
    passthru := k.passthru }

def schedLoopV0 : Nat → List SchedV0 → Except Err (List SchedEff)
  | _, [] => .ok []
  | i, s :: ss =>
    if parseCrontabOK s.crontab s.parseOK then (schedLoopV0 (i + 1) ss).map (convertSchedV0 s :: ·)
    else .error (.schedule i)

def kubeLoopV0 : Nat → List KubeV0 → Except Err (List KubeEff)
  | _, [] => .ok []
  | i, k :: ks =>
    match convertEventsV0 k.events with
    | none => .error (.event i)
    | some evs => (kubeLoopV0 (i + 1) ks).map (convertKubeV0 k evs :: ·)

/-- `HookConfigV0.ConvertAndCheck`. -/
def convertV0 (d : DocV0) : Except Err Effective := do
  let onStartup ← convertOnStartup d.onStartup
  let scheds ← schedLoopV0 0 d.scheds
  let kubes ← kubeLoopV0 0 d.kubes
  pure { onStartup := onStartup, scheds := scheds, kubes := kubes }

/-- `VersionedUntyped.LoadConfigVersion` with the default validator: no key → v0; a key whose value has
a schema → that version; anything else is unsupported. -/
def detectVersion (v : Option String) : Except Err String :=
  let nv := v.getD "v0"
  if Facts.c10SchemaVersions.contains nv then .ok nv else .error .version

/-! ## Spec (readable): the documented defaults and the order-preserving union -/
namespace Spec

/-- The elements of `l` that are neither in `seen` nor earlier in `l`, in order of first occurrence. -/
def dedupFrom (seen : List String) : List String → List String
  | [] => []
  | x :: xs => if x ∈ seen then dedupFrom seen xs else x :: dedupFrom (x :: seen) xs

/-- Order-preserving union: `a`, then what `b` adds. -/
def union (a b : List String) : List String := a ++ dedupFrom a b

/-- Names of the kubernetes bindings of group `g`, in declared order. -/
def groupNames (kubes : List KubeEff) (g : String) : List String :=
  (kubes.filter (fun k => k.group == g)).map (·.name)

/-- What a binding with group `g` must include: its declared list united with the names of the
kubernetes bindings of the group; a binding without a group keeps its list. -/
def groupIncludes (kubes : List KubeEff) (g : String) (declared : List String) : List String :=
  if g == "" then declared else union declared (groupNames kubes g)

/-- Every effective include names exactly one kubernetes binding. -/
def includesOK (kubes : List KubeEff) (incl : List String) : Bool :=
  incl.all (fun n => countName kubes n == 1)

def effIncludesOK (e : Effective) : Bool :=
  e.kubes.all (fun b => includesOK e.kubes b.includes) && e.scheds.all (fun b => includesOK e.kubes b.includes) &&
  e.validating.all (fun b => includesOK e.kubes b.includes) && e.mutating.all (fun b => includesOK e.kubes b.includes) &&
  e.conversions.all (fun b => includesOK e.kubes b.includes)

/-- The documented defaults of a kubernetes binding, written out with their literal values. -/
def kubeDefaults (k : KubeV1) : KubeEff :=
  { name := if k.name == "" then "kubernetes" else k.name
    events := match k.execEvents, k.watchEvents with
      | some l, _ => l
      | none, some l => l
      | none, none => ["Added", "Modified", "Deleted"]
    execOnSync := !(k.execOnSync == "false")
    waitForSync := !(k.waitForSync == "false" && k.queue != "")
    keepFull := !(k.keepFull == "false")
    allowFailure := k.allowFailure
    includes := k.includes
    queue := if k.queue == "" then "main" else k.queue
    group := k.group
    passthru := k.passthru }

def schedDefaults (s : SchedV1) : SchedEff :=
  { name := if s.name == "" then "schedule" else s.name, crontab := s.crontab, allowFailure := s.allowFailure,
    includes := s.includes, queue := if s.queue == "" then "main" else s.queue, group := s.group }

def admDefaults (policy : String) (a : AdmV1) : AdmEff :=
  { name := a.name, includes := a.includes, group := a.group, failurePolicy := a.failurePolicy.getD policy,
    sideEffects := a.sideEffects.getD "None", timeout := a.timeout.getD 10, passthru := a.passthru }

/-! ### the "rejected" clause of the property as a predicate of the typed document

The statement lists, among what must be rejected, *bad crontabs, unknown or ambiguous includeSnapshotsFrom
names, invalid selectors*. With the parsers as oracle bits of the typed document these are decidable on the
declared document, independently of the conversion. (Unknown fields and unsupported versions are schema-level
and are judged by the fault stream; settings / onStartup / webhook validation are not listed by the statement
and stay out.) -/

def badCrontab (d : DocV1) : Bool := d.scheds.any (fun s => !s.parseOK || zeroStep s.crontab)

/-- a crontab text the scheduler can use: no field has a zero step and the cron library parses it — the
very text, white space included (the library recognises `@descriptor` and `TZ=` only at the first character) -/
def goodCrontab (crontab : String) (parseOK : Bool) : Bool := !zeroStep crontab && parseOK

/-- a kubernetes binding with an invalid label / field selector, or `metadata.name` in both selectors -/
def badKubeSelector (d : DocV1) : Bool :=
  d.kubes.any (fun k => !k.labelSelOK || !k.fieldSelOK || (k.nameSelNonEmpty && k.fieldSelOnName))

/-- an admission binding (validating or mutating) with an invalid object labelSelector -/
def badAdmObjectSelector (d : DocV1) : Bool :=
  d.validating.any (fun a => !a.labelSelOK) || d.mutating.any (fun a => !a.labelSelOK)

/-- an admission binding (validating or mutating) with an invalid namespace.labelSelector -/
def badAdmNamespaceSelector (d : DocV1) : Bool :=
  d.validating.any (fun a => !a.nsSelOK) || d.mutating.any (fun a => !a.nsSelOK)

/-- a declared include — in a binding of any kind — that names no kubernetes binding or more than one -/
def badInclude (d : DocV1) : Bool :=
  let ks := d.kubes.map kubeDefaults
  d.kubes.any (fun b => !includesOK ks b.includes) || d.scheds.any (fun b => !includesOK ks b.includes) ||
  d.validating.any (fun b => !includesOK ks b.includes) || d.mutating.any (fun b => !includesOK ks b.includes) ||
  d.conversions.any (fun b => !includesOK ks b.includes)

def mustReject (d : DocV1) : Bool :=
  badCrontab d || badKubeSelector d || badAdmObjectSelector d || badAdmNamespaceSelector d || badInclude d

/-- the first listed reason a document must be rejected for (for the driver's answer) -/
def rejectReason (d : DocV1) : Option String :=
  if badCrontab d then some "bad-crontab"
  else if badKubeSelector d then some "invalid-kubernetes-selector"
  else if badAdmObjectSelector d then some "invalid-admission-labelSelector"
  else if badAdmNamespaceSelector d then some "invalid-admission-namespace-labelSelector"
  else if badInclude d then some "unknown-or-ambiguous-includeSnapshotsFrom"
  else none

end Spec

end ShellOp.Config
