/-
Model of `pkg/utils/exponential_backoff/delay.go` (`CalculateDelayWithMax`) in integer nanoseconds.
No floats: `float64(time.Second) * math.Pow(factor, float64(retryCount-1))` is exact in float64 for
the integer factor and the retry counts that reach it (`retryCount <= ExponentialCalculationsCount`),
so the conversion `int64(…)` truncates nothing; the model computes `secondNs * factor ^ (k-1)`.
Durations and retry counts are naturals (the queue passes `FailureCount >= 0`; durations are far
below 2^63, no overflow is modelled).
-/
namespace ShellOp.Backoff

/-- `time.Duration.Truncate(m)` for a non-negative duration: round towards zero to a multiple of
`m`; `m <= 0` returns `d` unchanged. -/
def truncate (d m : Nat) : Nat := if m = 0 then d else d - d % m

structure Params where
  maxDelayNs : Nat          -- MaxExponentialBackoffDelay
  factor : Nat              -- ExponentialDelayFactor (an integer-valued float)
  randomMs : Nat            -- ExponentialDelayRandomMs: rand.Int64N(randomMs)
  expCount : Nat            -- ExponentialCalculationsCount = int(log(max seconds)/log(factor))
  truncNs : Nat             -- the Truncate argument
  secondNs : Nat := 1000000000
  msNs : Nat := 1000000
  deriving Repr, DecidableEq

/-- `CalculateDelayWithMax(initialDelay, maxDelay, retryCount)` with the random draw `rnd`
(`rand.Int64N(ExponentialDelayRandomMs)`, so `rnd < randomMs`) made explicit. -/
def calcDelayWithMax (p : Params) (initial maxDelay : Nat) (k : Nat) (rnd : Nat) : Nat :=
  if k = 0 then initial                                           -- case retryCount == 0
  else
    let delayNs :=
      if k ≤ p.expCount then p.secondNs * p.factor ^ (k - 1)      -- exponential delta
      else maxDelay                                               -- default: maxDelay
    let rndDelayNs := rnd * p.msNs
    let delay := truncate (initial + delayNs + rndDelayNs) p.truncNs
    if delay > maxDelay then maxDelay else delay

/-- `CalculateDelay(initialDelay, retryCount)`. -/
def calcDelay (p : Params) (initial : Nat) (k : Nat) (rnd : Nat) : Nat :=
  calcDelayWithMax p initial p.maxDelayNs k rnd

/-- Is `d` a possible value of `CalculateDelay(initial, k)`? (the random part cannot be seeded) -/
def possible (p : Params) (initial k d : Nat) : Bool :=
  (List.range p.randomMs).any (fun r => calcDelay p initial k r == d)

end ShellOp.Backoff
