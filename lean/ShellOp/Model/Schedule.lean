/-!
# Model of the schedule path (C11). Core Lean only.

Code-shaped model of
* `pkg/schedule_manager/schedule_manager.go` — `Add` / `Remove` (the `Entries` map crontab ↦ cron entry id +
  set of binding ids) on top of `robfig/cron` (assumed contract: `AddFunc` registers exactly one firing
  source per successful call, entry ids are allotted from a counter starting at 1, `Remove(id)` drops the
  entries with that id and nothing else, `AddFunc` with an unparsable spec returns id 0 and registers nothing);
* `pkg/hook/controller/schedule_bindings_controller.go` — `EnableScheduleBindings`, `DisableScheduleBindings`,
  `CanHandleEvent`, `HandleEvent` (the `ScheduleLinks` map id ↦ link; Go map iteration order is the
  parameter `ord`);
* `pkg/hook/hook_manager.go` `HandleScheduleEvent`, `pkg/hook/controller/hook_controller.go`
  `HandleScheduleEvent`, the schedule callback of `pkg/shell-operator/operator.go` (one task per info) and the
  placement loop of `manager_events_handler.go` (append to the queue named by the task, if it exists).

The readable specification (`Spec`) is apart: the set of registered (crontab, id) pairs.
-/
namespace ShellOp.Schedule

abbrev Crontab := Nat
abbrev Id := Nat

/-! ## robfig/cron (assumed contract) -/

/-- The cron library as far as the schedule manager uses it: live registrations `(EntryID, spec)` and
the id counter (`nextID`, pre-incremented, so the first id is 1). -/
structure Cron where
  live : List (Nat × Crontab) := []
  nextId : Nat := 0
deriving Repr, DecidableEq

/-- `cron.AddFunc(spec, f)`: `(0, err)` and no registration when the spec does not parse. -/
def Cron.addFunc (valid : Crontab → Bool) (cr : Cron) (c : Crontab) : Nat × Cron :=
  if valid c then (cr.nextId + 1, { live := cr.live ++ [(cr.nextId + 1, c)], nextId := cr.nextId + 1 })
  else (0, cr)

/-- `cron.Remove(id)`: keeps the entries whose id differs. -/
def Cron.remove (cr : Cron) (eid : Nat) : Cron :=
  { cr with live := cr.live.filter (fun e => e.1 != eid) }

/-! ## scheduleManager -/

/-- `CronEntry{EntryID, Ids map[string]bool}`; the set of ids is kept as a list (only `len` and key
membership are used by the code). -/
structure CronEntry where
  entryId : Nat
  ids : List Id
deriving Repr, DecidableEq

inductive CronCall where
  | addFunc (c : Crontab) (eid : Nat)
  | remove (eid : Nat)
deriving Repr, DecidableEq

/-- `scheduleManager`: `Entries` is a Go map (a finite partial function; neither `Add` nor `Remove`
iterates over it), `cron` the library state, `log` the calls made to the library. -/
structure State where
  entries : Crontab → Option CronEntry := fun _ => none
  cron : Cron := {}
  log : List CronCall := []

def upd (m : Crontab → Option CronEntry) (c : Crontab) (v : Option CronEntry) : Crontab → Option CronEntry :=
  fun c' => if c' = c then v else m c'

/-- `m[k] = true` on a `map[string]bool` used as a set. -/
def setInsert (ids : List Id) (id : Id) : List Id := if id ∈ ids then ids else ids ++ [id]

/-- `scheduleManager.Add` as written: look the crontab up; if absent, `AddFunc` (error ignored) and store
a fresh `CronEntry` holding the id; then — on the *stale* copy `cronEntry` read before the store — test
`hasId` and store the id (again) when it is not there. -/
def add (valid : Crontab → Bool) (s : State) (c : Crontab) (id : Id) : State :=
  match s.entries c with
  | none =>
    let r := s.cron.addFunc valid c
    -- cronEntry is the zero value: `cronEntry.Ids[id]` on a nil map gives hasId = false, the second
    -- store writes the id into the entry that already holds it
    { entries := upd s.entries c (some { entryId := r.1, ids := setInsert [id] id })
      cron := r.2
      log := s.log ++ [.addFunc c r.1] }
  | some e =>
    if id ∈ e.ids then s
    else { s with entries := upd s.entries c (some { e with ids := setInsert e.ids id }) }

/-- `scheduleManager.Remove` as written. -/
def remove (s : State) (c : Crontab) (id : Id) : State :=
  match s.entries c with
  | none => s
  | some e =>
    if id ∈ e.ids then
      let ids' := e.ids.filter (fun x => x != id)
      if ids'.length == 0 then
        { entries := upd s.entries c none
          cron := s.cron.remove e.entryId
          log := s.log ++ [.remove e.entryId] }
      else { s with entries := upd s.entries c (some { e with ids := ids' }) }
    else s

inductive Op where
  | add (c : Crontab) (id : Id)
  | remove (c : Crontab) (id : Id)
deriving Repr, DecidableEq

def step (valid : Crontab → Bool) (s : State) : Op → State
  | .add c id => add valid s c id
  | .remove c id => remove s c id

def run (valid : Crontab → Bool) (ops : List Op) : State := ops.foldl (step valid) {}

/-- The crontabs the live cron registrations fire (each job sends its own spec to `ScheduleCh`). -/
def firing (s : State) : List Crontab := s.cron.live.map (·.2)

/-- Number of live cron registrations for `c` = number of events one wall-clock tick of `c` produces. -/
def liveCount (s : State) (c : Crontab) : Nat := (s.cron.live.filter (fun e => e.2 == c)).length

/-! ## Spec: the set of registered pairs -/
namespace Spec

abbrev Reg := List (Crontab × Id)

def step (r : Reg) : Op → Reg
  | .add c id => if (c, id) ∈ r then r else r ++ [(c, id)]
  | .remove c id => r.filter (fun p => p != (c, id))

def registered (ops : List Op) : Reg := ops.foldl step []

/-- Some binding is registered for the crontab. -/
def hasBinding (r : Reg) (c : Crontab) : Bool := r.any (fun p => p.1 == c)

/-- What the property demands of the cron library's registrations. -/
def wantLive (valid : Crontab → Bool) (r : Reg) (c : Crontab) : Nat :=
  if valid c && hasBinding r c then 1 else 0

end Spec

/-! ## scheduleBindingsController -/

/-- `htypes.ScheduleConfig` (the effective schedule binding of a hook). -/
structure Binding where
  id : Id
  name : Nat
  crontab : Crontab
  includes : List Nat
  allowFailure : Bool
  queue : Nat
  group : Nat
deriving Repr, DecidableEq

/-- `ScheduleBindingToCrontabLink`. -/
structure Link where
  name : Nat
  crontab : Crontab
  includes : List Nat
  allowFailure : Bool
  queue : Nat
  group : Nat
deriving Repr, DecidableEq

def Binding.link (b : Binding) : Link :=
  { name := b.name, crontab := b.crontab, includes := b.includes, allowFailure := b.allowFailure,
    queue := b.queue, group := b.group }

/-- `BindingExecutionInfo` for a schedule event: the context (binding, includeSnapshots, group) and the
fields copied next to it. -/
structure Info where
  ctxBinding : Nat
  ctxIncludes : List Nat
  ctxGroup : Nat
  includes : List Nat
  allowFailure : Bool
  queue : Nat
  binding : Nat
  group : Nat
deriving Repr, DecidableEq

def Link.info (l : Link) : Info :=
  { ctxBinding := l.name, ctxIncludes := l.includes, ctxGroup := l.group, includes := l.includes,
    allowFailure := l.allowFailure, queue := l.queue, binding := l.name, group := l.group }

/-- `ScheduleLinks map[string]*Link` as an association list with unique keys. -/
abbrev Links := List (Id × Link)

/-- `m[k] = v`. -/
def linkPut (l : Links) (id : Id) (v : Link) : Links :=
  if l.any (fun p => p.1 == id) then l.map (fun p => if p.1 == id then (id, v) else p) else l ++ [(id, v)]

/-- `delete(m, k)`. -/
def linkDel (l : Links) (id : Id) : Links := l.filter (fun p => p.1 != id)

/-- One hook's controller together with the manager it talks to. -/
structure Sys where
  sm : State := {}
  links : Nat → Links := fun _ => []

/-- `EnableScheduleBindings`: for every binding, store the link, then `Add` the entry. -/
def enableLoop (valid : Crontab → Bool) (sm : State) (l : Links) : List Binding → State × Links
  | [] => (sm, l)
  | b :: bs => enableLoop valid (add valid sm b.crontab b.id) (linkPut l b.id b.link) bs

/-- `DisableScheduleBindings`: for every binding, `Remove` the entry, then delete the link. -/
def disableLoop (sm : State) (l : Links) : List Binding → State × Links
  | [] => (sm, l)
  | b :: bs => disableLoop (remove sm b.crontab b.id) (linkDel l b.id) bs

/-- `CanHandleEvent`. -/
def canHandle (l : Links) (c : Crontab) : Bool := l.any (fun p => p.2.crontab == c)

/-- `HandleEvent`: range over the map (order `ord l`, a permutation of `l`), one info per link with that
crontab. -/
def handleEvent (ord : Links → Links) (l : Links) (c : Crontab) : List Info :=
  ((ord l).filter (fun p => p.2.crontab == c)).map (fun p => p.2.info)

/-! ## hook manager + operator callback -/

/-- A hook-run task as created by the schedule callback of `operator.go`. -/
structure Task where
  hook : Nat
  binding : Nat
  group : Nat
  allowFailure : Bool
  ctxBinding : Nat
  ctxIncludes : List Nat
  ctxGroup : Nat
  queue : Nat
deriving Repr, DecidableEq

def Info.task (h : Nat) (i : Info) : Task :=
  { hook := h, binding := i.binding, group := i.group, allowFailure := i.allowFailure,
    ctxBinding := i.ctxBinding, ctxIncludes := i.ctxIncludes, ctxGroup := i.ctxGroup, queue := i.queue }

/-- `HookManager.HandleScheduleEvent` + the operator's callback: hooks that have schedule bindings, in
order; `CanHandleScheduleEvent` then `HandleScheduleEvent`; one task per info. `hooks` lists the hook
numbers in `hooksInOrder[Schedule]`. -/
def scheduleTasks (ord : Links → Links) (hooks : List Nat) (links : Nat → Links) (c : Crontab) : List Task :=
  hooks.flatMap (fun h =>
    if canHandle (links h) c then (handleEvent ord (links h) c).map (Info.task h) else [])

/-- The placement loop of `ManagerEventsHandler.Start`: every task goes to the end of the queue its
`QueueName` names; a task whose queue does not exist is dropped (logged as a possible bug). -/
def place (queues : List (Nat × List Task)) (ts : List Task) : List (Nat × List Task) :=
  ts.foldl (fun qs t => qs.map (fun q => if q.1 == t.queue then (q.1, q.2 ++ [t]) else q)) queues

/-- System operations: whole-hook enable / disable (the `EnableScheduleBindings` task, `Disable…`). -/
inductive SysOp where
  | enable (h : Nat)
  | disable (h : Nat)
deriving Repr, DecidableEq

def sysStep (valid : Crontab → Bool) (cfg : Nat → List Binding) (s : Sys) : SysOp → Sys
  | .enable h =>
    let r := enableLoop valid s.sm (s.links h) (cfg h)
    { sm := r.1, links := fun h' => if h' = h then r.2 else s.links h' }
  | .disable h =>
    let r := disableLoop s.sm (s.links h) (cfg h)
    { sm := r.1, links := fun h' => if h' = h then r.2 else s.links h' }

def sysRun (valid : Crontab → Bool) (cfg : Nat → List Binding) (ops : List SysOp) : Sys :=
  ops.foldl (sysStep valid cfg) {}

/-- All tasks one wall-clock tick of crontab `c` produces: every live cron registration for `c` sends
`c` once, every event is turned into tasks by `scheduleTasks`. -/
def tickTasks (ord : Links → Links) (hooks : List Nat) (s : Sys) (c : Crontab) : List Task :=
  ((firing s.sm).filter (fun c' => c' == c)).flatMap (fun c' => scheduleTasks ord hooks s.links c')

/-- All tasks of one wall-clock instant at which the schedule `σ` is due, `sched` being the cron parser's
reading of a crontab string (many strings spell one schedule): every live cron registration whose spec
parses to `σ` fires and sends its own string. -/
def wallTickTasks (sched : Crontab → Nat) (ord : Links → Links) (hooks : List Nat) (s : Sys) (σ : Nat) :
    List Task :=
  ((firing s.sm).filter (fun c' => sched c' == σ)).flatMap (fun c' => scheduleTasks ord hooks s.links c')

/-! ## Spec of the tick: one task per enabled binding with that crontab -/
namespace Spec

/-- Which hooks are enabled after the history (the last enable/disable of a hook decides). -/
def enStep (en : Nat → Bool) : SysOp → Nat → Bool
  | .enable h => fun h' => if h' = h then true else en h'
  | .disable h => fun h' => if h' = h then false else en h'

def enabledAfter (ops : List SysOp) : Nat → Bool := ops.foldl enStep (fun _ => false)

def bindingTask (h : Nat) (b : Binding) : Task :=
  { hook := h, binding := b.name, group := b.group, allowFailure := b.allowFailure,
    ctxBinding := b.name, ctxIncludes := b.includes, ctxGroup := b.group, queue := b.queue }

/-- Exactly one task for every enabled schedule binding with that crontab. -/
def wantTasks (cfg : Nat → List Binding) (hooks : List Nat) (en : Nat → Bool) (c : Crontab) : List Task :=
  hooks.flatMap (fun h =>
    if en h then ((cfg h).filter (fun b => b.crontab == c)).map (bindingTask h) else [])

end Spec

/-! ## loading of the `schedule:` section (`config_v0.go`, `config_v1.go`)

What a hook *declares* (its `--config` output) and what the controller is given (`htypes.ScheduleConfig`).
"That binding's name / group / allowFailure / snapshot list / queue" in the property is what the hook
declared: an absent name is `schedule`, an absent queue is `main`, a group adds the names of the
kubernetes bindings of that group to the snapshot list; the legacy v0 format has name, crontab and
allowFailure only (queue `main`, no group, no snapshots). -/

/-- One entry of the declared `schedule:` list. `none` = key absent or empty string. -/
structure Decl where
  name : Option Nat
  crontab : Crontab
  includes : List Nat
  allowFailure : Bool
  queue : Option Nat
  group : Nat
deriving Repr, DecidableEq

/-- A declared `kubernetes:` binding, as far as schedules are concerned: its name and its group. -/
structure KubeDecl where
  name : Nat
  group : Nat
deriving Repr, DecidableEq

/-- The interned strings the loader uses: `"schedule"`, `"main"`, `""` (no group). -/
structure Defaults where
  schedName : Nat
  mainQueue : Nat
  noGroup : Nat
deriving Repr, DecidableEq

/-- `HookConfigV1.ConvertSchedule`. -/
def convertV1 (df : Defaults) (id : Id) (d : Decl) : Binding :=
  { id := id,
    name := match d.name with | some n => n | none => df.schedName,
    crontab := d.crontab, includes := d.includes, allowFailure := d.allowFailure,
    queue := match d.queue with | none => df.mainQueue | some q => q,
    group := d.group }

/-- `HookConfigV0.ConvertSchedule`: name, crontab, allowFailure; `res.Queue = "main"`. -/
def convertV0 (df : Defaults) (id : Id) (d : Decl) : Binding :=
  { id := id,
    name := match d.name with | some n => n | none => df.schedName,
    crontab := d.crontab, includes := [], allowFailure := d.allowFailure,
    queue := df.mainQueue, group := df.noGroup }

/-- `groupSnapshots[g]` of `ConvertAndCheck`: the names of the kubernetes bindings with group `g`, in
order; bindings without a group are skipped, a group nobody has is not a key (`none`). -/
def groupSnaps (df : Defaults) (kubes : List KubeDecl) (g : Nat) : Option (List Nat) :=
  let l := (kubes.filter (fun k => k.group != df.noGroup && k.group == g)).map (·.name)
  if l.isEmpty then none else some l

/-- Second loop of `MergeArrays`: `union` = the keys whose map value is still `true`. -/
def mergeTail (union : List Nat) : List Nat → List Nat
  | [] => []
  | a :: as => if a ∈ union then a :: mergeTail (union.filter (· != a)) as else mergeTail union as

/-- `MergeArrays(a1, a2)`: `a1`, then the elements of `a2` that are not in `a1`, each once. -/
def mergeArrays (a1 a2 : List Nat) : List Nat := a1 ++ mergeTail (a2.filter (fun a => !(a1.contains a))) a2

/-- The final pass of `HookConfigV1.ConvertAndCheck` over `c.Schedules`. -/
def mergeGroup (df : Defaults) (kubes : List KubeDecl) (b : Binding) : Binding :=
  match groupSnaps df kubes b.group with
  | some sn => { b with includes := mergeArrays b.includes sn }
  | none => b

/-- `HookConfigV1.ConvertAndCheck`, schedule part: convert every entry, then merge the group's snapshots. -/
def loadV1 (df : Defaults) (kubes : List KubeDecl) (ds : List (Id × Decl)) : List Binding :=
  (ds.map (fun p => convertV1 df p.1 p.2)).map (mergeGroup df kubes)

/-- `HookConfigV0.ConvertAndCheck`, schedule part. -/
def loadV0 (df : Defaults) (ds : List (Id × Decl)) : List Binding :=
  ds.map (fun p => convertV0 df p.1 p.2)

def load (df : Defaults) (v0 : Bool) (kubes : List KubeDecl) (ds : List (Id × Decl)) : List Binding :=
  if v0 then loadV0 df ds else loadV1 df kubes ds

namespace Spec

/-- The names a group contributes to the snapshot list of a binding of that group. -/
def groupNames (df : Defaults) (kubes : List KubeDecl) (g : Nat) : List Nat :=
  if g == df.noGroup then [] else (kubes.filter (fun k => k.group == g)).map (·.name)

/-- No element occurs twice. -/
def nodupB : List Nat → Bool
  | [] => true
  | a :: as => !(as.contains a) && nodupB as

/-- "That binding's snapshot list": the declared `includeSnapshotsFrom`, followed — in some order,
each once — by the names of the kubernetes bindings of the binding's group that are not listed yet. -/
def snapshotsOk (declared names got : List Nat) : Bool :=
  got.take declared.length == declared &&
  (let tail := got.drop declared.length
   tail.all (fun x => names.contains x && !(declared.contains x)) &&
   names.all (fun x => declared.contains x || tail.contains x) &&
   nodupB tail)

/-- **The binding a declaration stands for** (what the property calls "that binding's …"), as a
predicate on the binding `b` the controller is given. -/
def declaredAs (df : Defaults) (v0 : Bool) (kubes : List KubeDecl) (id : Id) (d : Decl) (b : Binding) : Bool :=
  b.id == id && b.crontab == d.crontab && b.allowFailure == d.allowFailure &&
  b.name == d.name.getD df.schedName &&
  (if v0 then b.queue == df.mainQueue && b.group == df.noGroup && b.includes.isEmpty
   else b.queue == d.queue.getD df.mainQueue && b.group == d.group &&
        snapshotsOk d.includes (groupNames df kubes d.group) b.includes)

end Spec

end ShellOp.Schedule
