import ShellOp.Generated.Facts
/-!
Model of the bash framework `frameworks/shell/hook.sh` (`hook::run`,
`hook::_get_possible_handler_names`, `hook::_run_first_available_handler`), written the way the
script computes: the `if binding == onStartup / elif .type / case` cascade with its nested
`case .watchEvent`, candidate names produced by instantiating the `echo` patterns of the table that
the extractor regenerates from `hook.sh` (`Facts.c19*`), the fallback appended by `hook::run`, the
`for handler in …; if type $handler` scan, `($handler); return $?` under `set -e`.

Names are strings here: the property is about the documented *names*.
What is not modelled (observed by the harness only): bash itself (`set -e`, `type`, word splitting
of names that contain blanks or glob characters), `jq`.
-/
namespace ShellOp.ShellFw

/-- One binding context, reduced to the fields the framework reads. `none` = the JSON field is
absent (or `null`). -/
structure Ctx where
  binding : Option String := none
  type : Option String := none
  watchEvent : Option String := none
  groupName : Option String := none
  fromVersion : String := ""
  toVersion : String := ""
  deriving Repr, DecidableEq

/-- `jq -r '.binding // "unknown"'`. -/
def Ctx.bindingName (c : Ctx) : String := c.binding.getD Facts.c19DefaultBinding

/-- jq `sub("/"; ".")`: the first `/` becomes `.`. -/
def subFirstSlashL : List Char → List Char
  | [] => []
  | ch :: rest => if ch == '/' then '.' :: rest else ch :: subFirstSlashL rest

def subFirstSlash (s : String) : String := String.ofList (subFirstSlashL s.toList)

/-- `[.fromVersion,.toVersion] | map(sub("/";".")) | join("::")`. -/
def Ctx.versions (c : Ctx) : String := subFirstSlash c.fromVersion ++ "::" ++ subFirstSlash c.toVersion

/-- One segment of an `echo` pattern: `$B`, `$G`, `$V` are the three substitutions of the script. -/
def instSeg (c : Ctx) (seg : String) : String :=
  if seg == "$B" then c.bindingName
  else if seg == "$G" then c.groupName.getD ""
  else if seg == "$V" then c.versions
  else seg

def instPat (c : Ctx) (p : List String) : String := String.join (p.map (instSeg c))

/-- `hook::_get_possible_handler_names`. `none` = the function fails (the `jq -e` assignment of the
group name under `set -e`), which aborts the whole script. -/
def possibleHandlerNames (c : Ctx) : Option (List String) :=
  if c.bindingName == Facts.c19StartupBinding then
    some (Facts.c19StartupHandlers.map (instPat c))
  else
    match c.type with
    | none => some []                      -- `elif TYPE=$(context::jq -er '.type')` fails: no branch
    | some t =>
      match Facts.c19TypeTable.lookup t with
      | none => some []                    -- no label of the outer `case` matches
      | some pats =>
        if t == Facts.c19EventLabel then   -- nested `case .watchEvent` (`-r` prints null as "null")
          some (((Facts.c19EventTable.lookup (c.watchEvent.getD "null")).getD []).map (instPat c))
        else if Facts.c19GroupNameLabels.contains t && c.groupName.isNone then
          none
        else
          some (pats.map (instPat c))

/-- `HANDLERS="${HANDLERS} __main__"`. -/
def handlers (c : Ctx) : Option (List String) :=
  (possibleHandlerNames c).map (· ++ [Facts.c19Fallback])

/-- What a handler does with its standard input: nothing, `read` one line, or read everything
(`cat`, `jq .`, `kubectl apply -f -` …). -/
inductive StdinUse where
  | none | line | all
  deriving Repr, DecidableEq

/-- The hook script: which functions it defines, and how the invocation of handler `h` for context
number `i` ends (`true` = non-zero status). -/
structure Env where
  defined : String → Bool
  fails : Nat → String → Bool
  /-- what the handler does with the standard input it inherits (see `runFromIO`) -/
  reads : String → StdinUse := fun _ => .none

/-- What a run shows: the handlers invoked (context index, name) in order, whether the
configuration was printed, and whether the exit status is zero. -/
structure Result where
  log : List (Nat × String) := []
  config : Bool := false
  ok : Bool := true
  deriving Repr, DecidableEq

/-- The `for i in seq …` loop of `hook::run` from index `i` on. `_run_first_available_handler`:
the first name for which `type` succeeds is run in a subshell and its status returned; `set -e`
turns a non-zero return of any step into the end of the script. -/
def runFrom (env : Env) (i : Nat) : List Ctx → Result
  | [] => {}
  | c :: cs =>
    match handlers c with
    | none => { ok := false }
    | some hs =>
      match hs.find? env.defined with
      | none => { ok := false }          -- "Can't find any handler", return 1
      | some h =>
        if env.fails i h then { log := [(i, h)], ok := false }
        else
          let r := runFrom env (i + 1) cs
          { r with log := (i, h) :: r.log }

/-- `hook::run "$@"`: `--config` as first argument calls `__config__` and exits 0. -/
def hookRun (env : Env) (args : List String) (ctxs : List Ctx) : Result :=
  if args.head? == some Facts.c19ConfigFlag then { config := true }
  else runFrom env 0 ctxs

/-! ## The standard input

`hook::run` takes its indices from the *words* of a command substitution (``for i in `seq …` ``:
`seq` has finished and its output is a word list before the first iteration), every `jq` of the
dispatch reads the binding-context file (`context::global::jq … ${BINDING_CONTEXT_PATH}`) or a pipe
fed from it, and the handler sub-shell `("$handler")` has no redirection. So file descriptor 0 of
every handler is the hook's own standard input, positioned where the previous handlers left it, and
the framework never moves it. `runFromIO` is `runFrom` with that stream threaded through; the second
component lists what each invoked handler found. -/

/-- What a handler that uses its standard input as `u` finds on `stdin`, and what it leaves. -/
def consume : StdinUse → List String → Option (List String) × List String
  | .none, s => (none, s)
  | .line, [] => (some [], [])
  | .line, l :: s => (some [l], s)
  | .all, s => (some s, [])

def runFromIO (env : Env) (i : Nat) (stdin : List String) : List Ctx → Result × List (Option (List String))
  | [] => ({}, [])
  | c :: cs =>
    match handlers c with
    | none => ({ ok := false }, [])
    | some hs =>
      match hs.find? env.defined with
      | none => ({ ok := false }, [])
      | some h =>
        let (seen, rest) := consume (env.reads h) stdin
        if env.fails i h then ({ log := [(i, h)], ok := false }, [seen])
        else
          let r := runFromIO env (i + 1) rest cs
          ({ r.1 with log := (i, h) :: r.1.log }, seen :: r.2)

def hookRunIO (env : Env) (args : List String) (stdin : List String) (ctxs : List Ctx) :
    Result × List (Option (List String)) :=
  if args.head? == some Facts.c19ConfigFlag then ({ config := true }, [])
  else runFromIO env 0 stdin ctxs

/-! ## The selection, seen from where the handler looks

`hook::run` selects the current context by assigning `BINDING_CONTEXT_CURRENT_INDEX` (and
`BINDING_CONTEXT_CURRENT_BINDING`); `context::jq` slices the binding-context file at that index on
every call. A shell variable reaches the forks of the shell (`$(…)`, `( … )`, pipeline elements,
background jobs) whether it is exported or not, but a NEW PROGRAM started by the handler — a helper
script that sources the library again, `bash -c`, `env`, anything that is not bash — gets only the
environment: the variable must be exported (a variable the hook process found in its own environment
keeps the export attribute when it is assigned). -/

/-- Where the code that looks at the current context runs. -/
inductive Look where
  /-- in the handler's shell or a fork of it -/
  | shell
  /-- in a new program started (execve) by the handler, directly or several programs deep -/
  | exec
  deriving Repr, DecidableEq

def indexVar : String := "BINDING_CONTEXT_CURRENT_INDEX"

/-- The value of the index variable found at `l` during the iteration for context number `i`;
`inherited` = the value the hook process itself was started with (`none` under the operator).
`none` = the variable is unset there. The facts: `select-index` is the statement
`export BINDING_CONTEXT_CURRENT_INDEX="${i}"` of the loop, `c19RunExports` the variables `hook::run`
exports. -/
def indexSeen (inherited : Option Nat) (i : Nat) : Look → Option Nat
  | .shell => if Facts.c19RunSteps.contains "select-index" then some i else inherited
  | .exec =>
    if Facts.c19RunSteps.contains "select-index" then
      (if Facts.c19RunExports.contains indexVar || inherited.isSome then some i else none)
    else inherited

/-- The position of the context `context::jq` returns at `l`: the file sliced at the index variable;
when the variable is unset the expansion in `context::jq` decides (`c19CtxIndexDefault`: `none` = a
plain `${…}`, the call dies under `set -u`; `some d` = a `${…:-d}` default). -/
def currentSeen (inherited : Option Nat) (i : Nat) (l : Look) : Option Nat :=
  match indexSeen inherited i l with
  | some n => some n
  | none => Facts.c19CtxIndexDefault

/-- Per invocation of a run: its index, the index variable and the context position seen from where
that handler looks. -/
def viewsOf (inherited : Option Nat) (looks : String → Look) (log : List (Nat × String)) :
    List (Nat × Option Nat × Option Nat) :=
  log.map fun (j, h) => (j, indexSeen inherited j (looks h), currentSeen inherited j (looks h))

/-! ## Loading the library and the hook's own definitions

Up to its `hook::run "$@"` a hook script is a sequence of two kinds of steps: it defines functions of
its own (`__config__`, handlers, helpers), and it loads the bundled library (`source /shell_lib.sh`,
directly or through a shared include, possibly more than once). The property speaks of "a hook that
loads the bundled shell library and framework" and of "the handler functions defined by the hook
script"; it does not say in which order the script does the two. In bash the last definition of a name
wins, whoever made it. `Facts.c19LibFunctions` = every function the library files define when loaded. -/

/-- One step of the script before `hook::run`. -/
inductive Seg where
  /-- the hook defines these functions -/
  | defs (names : List String)
  /-- `shell_lib.sh` (which sources `frameworks/shell/*.sh`) is loaded -/
  | lib
  deriving Repr, DecidableEq

/-- Whose definition a function name is bound to. -/
inductive Owner where
  | hook | lib
  deriving Repr, DecidableEq

/-- The owner of the function bound to `n` after the steps have run, starting from `o`
(`none` = no such function: `type n` fails). -/
def bound (n : String) : List Seg → Option Owner → Option Owner
  | [], o => o
  | .defs ns :: rest, o => bound n rest (if ns.contains n then some .hook else o)
  | .lib :: rest, o => bound n rest (if Facts.c19LibFunctions.contains n then some .lib else o)

def boundAfter (segs : List Seg) (n : String) : Option Owner := bound n segs none

/-- The hook script defines `n` in one of its steps. -/
def definesIn (segs : List Seg) (n : String) : Bool :=
  segs.any fun
    | .defs ns => ns.contains n
    | .lib => false

/-- The names of the hook's side of the interface start with two underscores (`__config__`,
`__main__`, `__on_…`). -/
def hookName (n : String) : Bool := n.toList.take 2 == ['_', '_']

/-- The script layouts the harness generates, as step lists (`names` = `__config__`, the helper, the
defined handlers, in the order the script defines them). -/
def layoutSegs (layout : String) (names : List String) : Option (List Seg) :=
  if layout == "first" || layout == "include" then some [.lib, .defs names]
  else if layout == "last" then some [.defs names, .lib]
  else if layout == "twice" then some [.lib, .defs names, .lib]
  else if layout == "between" then
    let h := (names.length + 1) / 2
    some [.defs (names.take h), .lib, .defs (names.drop h)]
  else none

/-- `hook::run "$@"` of a script with the steps `segs`: the functions `type` finds and the
`__config__` that runs are the ones bound when `hook::run` is called. A name bound to a definition of
the library is not one of the hook's functions (the hook's handler does not run; the configuration
is not printed). -/
def hookRunL (segs : List Seg) (env : Env) (args : List String) (stdin : List String) (ctxs : List Ctx) :
    Result × List (Option (List String)) :=
  let envL : Env := { env with defined := fun n => boundAfter segs n == some .hook }
  if args.head? == some Facts.c19ConfigFlag then
    (if boundAfter segs Facts.c19ConfigFn == some .hook then ({ config := true }, []) else ({ ok := false }, []))
  else runFromIO envL 0 stdin ctxs

/-! ## The specification: the documented names and the property as a predicate on one observation -/
namespace Spec

/-- "… is invoked with that context selected as current", on what the handlers saw from wherever
they looked: invocation number `n` (counted from the first context) finds the context at position
`n` when it reads the current context, and no other index than `n` in the index variable. An entry is
(index logged by the handler, index variable seen — `none` = unset there, context seen — `none` =
reading the current context failed or returned nothing). -/
def currentOk : Nat → List (Nat × Option Nat × Option Nat) → Bool
  | _, [] => true
  | n, (j, idx, ctx) :: rest =>
    j == n && ctx == some n && (idx.isNone || idx == some n) && currentOk (n + 1) rest

/-- The documented handler names for a context, most specific first, then `__main__`
(literal names; nothing here comes from the generated table). -/
def documented (c : Ctx) : List String :=
  let b := c.binding.getD "unknown"
  if b = "onStartup" then ["__on_startup", "__main__"]
  else if c.type = some "Synchronization" then
    ["__on_kubernetes::" ++ b ++ "::synchronization", "__on_kubernetes::" ++ b, "__main__"]
  else if c.type = some "Event" then
    if c.watchEvent = some "Added" then
      ["__on_kubernetes::" ++ b ++ "::added", "__on_kubernetes::" ++ b ++ "::added_or_modified",
       "__on_kubernetes::" ++ b, "__main__"]
    else if c.watchEvent = some "Modified" then
      ["__on_kubernetes::" ++ b ++ "::modified", "__on_kubernetes::" ++ b ++ "::added_or_modified",
       "__on_kubernetes::" ++ b, "__main__"]
    else if c.watchEvent = some "Deleted" then
      ["__on_kubernetes::" ++ b ++ "::deleted", "__on_kubernetes::" ++ b, "__main__"]
    else ["__main__"]
  else if c.type = some "Group" then ["__on_group::" ++ c.groupName.getD "", "__main__"]
  else if c.type = some "Schedule" then ["__on_schedule::" ++ b, "__main__"]
  else if c.type = some "Validating" then ["__on_validating::" ++ b, "__main__"]
  else if c.type = some "Mutating" then ["__on_mutating::" ++ b, "__main__"]
  else if c.type = some "Conversion" then
    ["__on_conversion::" ++ b ++ "::" ++ (subFirstSlash c.fromVersion ++ "::" ++ subFirstSlash c.toVersion),
     "__on_conversion::" ++ b, "__main__"]
  else ["__main__"]

/-- Contexts as shell-operator renders them: a `Group` context carries its `groupName`. -/
def wellFormed (c : Ctx) : Prop := c.type = some "Group" → c.groupName ≠ none

instance (c : Ctx) : Decidable (wellFormed c) := by unfold wellFormed; exact inferInstance

/-- The handler the property demands for a context: the first defined documented name. -/
def chosen (env : Env) (c : Ctx) : Option String := (documented c).find? env.defined

/-- The property on one observed run (`log` = handlers invoked with the index of the context that
was current, `ok` = zero exit status), for contexts numbered from `i`: for every context in order
exactly one handler is invoked, the chosen one, with that context current; the run stops with a
non-zero status at the first context whose handler fails or that has no defined candidate, and
succeeds otherwise. -/
def check (env : Env) : Nat → List Ctx → List (Nat × String) → Bool → Bool
  | _, [], log, ok => log.isEmpty && ok
  | i, c :: cs, log, ok =>
    match chosen env c with
    | none => log.isEmpty && !ok
    | some h =>
      match log with
      | [] => false
      | (j, g) :: rest =>
        j == i && g == h &&
          (if env.fails i h then rest.isEmpty && !ok else check env (i + 1) cs rest ok)

/-- The whole property on one observed result of `hook::run args`. -/
def holds (env : Env) (args : List String) (ctxs : List Ctx) (r : Result) : Bool :=
  if args.head? = some "--config" then r.config && r.log.isEmpty && r.ok
  else !r.config && check env 0 ctxs r.log r.ok

end Spec

end ShellOp.ShellFw
