import ShellOp.Model.Worker
/-!
# Shutdown(): the wait for the queues and the lock it needs on its way (C17)

Two pieces of `operator.go: Shutdown()` that `Model/Worker` only has as atomic labels:

* `TaskQueueSet.WaitStopWithTimeout` — every 100 ms it ranges over the map of queues (Go gives an
  arbitrary order, a fresh one each time) and leaves the loop at the first queue whose Status is not
  "stop"; it returns early when the loop ran to its end. `waitCheck` is that loop on the statuses *in
  visiting order*; the order is a parameter of every theorem about it.
* `KubeEventsManager.PauseHandleEvents`, the second call of `Shutdown()`, takes the read lock of the
  manager's monitor index. `StartMonitor` — called from inside a queue handler
  (EnableKubernetesBindings, UpdateMonitor) — takes the same lock to look the monitor up, releases it
  and only then calls `monitor.Start`, which waits for the API server (informer cache sync) for as
  long as that takes. `Lk` is the step machine of the two threads and the RW lock; `holdDuringStart`
  is the variant that keeps the (write) lock over `monitor.Start`.
-/
namespace ShellOp.Worker

/-- The check of `WaitStopWithTimeout`: `stopped := true; for q in range { if q.Status != "stop" {
stopped = false; break } }` on the statuses in visiting order. -/
def waitCheck : List QStatus → Bool
  | [] => true
  | st :: rest => if st != .stop then false else waitCheck rest

/-- "the last one wins": `stopped = q.Status == "stop"` in the loop body (no accumulation). -/
def waitCheckLast (l : List QStatus) : Bool := l.foldl (fun _ st => st == .stop) true

/-- The statuses of the set's queues as a visit in order `order` sees them. -/
def statusesIn (s : State) (order : List QName) : List QStatus :=
  order.filterMap fun q => (s.qs q).map (·.status)

namespace Lk

/-- Where the handler thread is inside `kubeEventsManager.StartMonitor`. -/
inductive SmPc
  | before        -- not called yet
  | locked        -- holds the manager lock (read lock in the code, write lock in the variant), looked the monitor up
  | starting      -- inside monitor.Start: waits for the API server
  | done
  deriving DecidableEq, Repr

/-- Where the thread that runs `Shutdown()` is. -/
inductive SdPc
  | idle          -- not requested
  | requested     -- Shutdown() called: ScheduleManager.Stop() next
  | schedStopped  -- PauseHandleEvents() next: needs the read lock
  | pausing       -- holds the read lock, flags the informers
  | paused        -- TaskQueues.Stop() next
  | cancelled     -- the queues' context is cancelled: the stop request has reached the queues
  deriving DecidableEq, Repr

structure St where
  sm : SmPc := .before
  sd : SdPc := .idle
  readers : Nat := 0
  writer : Bool := false
  smHolds : Bool := false     -- the StartMonitor thread holds the lock
  apiAnswered : Bool := false
  deriving DecidableEq, Repr

inductive Label
  | smLock | smUnlock | smStart | apiAnswer | smFinish
  | sdRequest | sdSchedStop | sdPauseLock | sdPauseUnlock | sdCancel
  deriving DecidableEq, Repr

/-- One step. `hold = false`: the code (RLock, look-up, RUnlock, then monitor.Start).
`hold = true`: Lock + defer Unlock around the look-up and monitor.Start. -/
def step (hold : Bool) (s : St) : Label → Option St
  | .smLock =>
    if s.sm == .before then
      if hold then (if s.readers == 0 && !s.writer then some { s with sm := .locked, writer := true, smHolds := true } else none)
      else (if !s.writer then some { s with sm := .locked, readers := s.readers + 1, smHolds := true } else none)
    else none
  | .smUnlock =>   -- the code's RUnlock before monitor.Start
    if s.sm == .locked && !hold && s.smHolds then some { s with readers := s.readers - 1, smHolds := false } else none
  | .smStart =>
    if s.sm == .locked && (hold || !s.smHolds) then some { s with sm := .starting } else none
  | .apiAnswer => some { s with apiAnswered := true }
  | .smFinish =>   -- monitor.Start returns (the cache is synced); the variant's deferred Unlock
    if s.sm == .starting && s.apiAnswered then
      some { s with sm := .done, writer := if hold then false else s.writer, smHolds := false }
    else none
  | .sdRequest => if s.sd == .idle then some { s with sd := .requested } else none
  | .sdSchedStop => if s.sd == .requested then some { s with sd := .schedStopped } else none
  | .sdPauseLock =>
    if s.sd == .schedStopped && !s.writer then some { s with sd := .pausing, readers := s.readers + 1 } else none
  | .sdPauseUnlock => if s.sd == .pausing then some { s with sd := .paused, readers := s.readers - 1 } else none
  | .sdCancel => if s.sd == .paused then some { s with sd := .cancelled } else none

def run (hold : Bool) (s : St) : List Label → Option St
  | [] => some s
  | l :: ls => match step hold s l with
    | some s' => run hold s' ls
    | none => none

/-- The next step of the Shutdown() thread at its position. -/
def sdNext : SdPc → Option Label
  | .idle => none
  | .requested => some .sdSchedStop
  | .schedStopped => some .sdPauseLock
  | .pausing => some .sdPauseUnlock
  | .paused => some .sdCancel
  | .cancelled => none

/-- Number of own steps Shutdown() still needs before the queues' context is cancelled. -/
def sdDist : SdPc → Nat
  | .idle => 5 | .requested => 4 | .schedStopped => 3 | .pausing => 2 | .paused => 1 | .cancelled => 0

end Lk
end ShellOp.Worker
