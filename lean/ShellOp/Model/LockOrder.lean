/-!
C03, "queues do not block each other", the part that is about locks: the worker of a queue (wait loop:
`waitMu`; head check, status: the queue's lock), the events consumer (the set's lock, then the queue's
lock for every task), `CancelTaskDelay` (`waitMu`), handlers (`GetByName`: the set's lock) are goroutines
that take mutexes. Core-only.

A goroutine, at one moment, is described by the locks it holds and the lock it is about to take (if its
next step is an acquisition). `Blocked`: the lock it wants is held by some goroutine. The code's locks
carry a rank (`rank`), and the extractor lists on every run which lock is taken while which other lock is
held (`Facts.c03_lockNesting`, pairs (outer, inner), collected over the worker, the consumer, the queue
methods they call, `CancelTaskDelay`): `Ordered` says every goroutine takes locks in increasing rank.
-/
namespace ShellOp.LockOrder

structure Thread where
  held : List Nat := []        -- ranks of the locks the goroutine holds
  next : Option Nat := none    -- the lock it is about to take (none: its next step takes no lock)
deriving DecidableEq, Repr

/-- the goroutine waits for a lock somebody holds -/
def Blocked (ts : List Thread) (t : Thread) : Prop :=
  ∃ l, t.next = some l ∧ ∃ u ∈ ts, l ∈ u.held

/-- the lock it is about to take ranks above everything it holds -/
def Ordered (t : Thread) : Prop := ∀ l, t.next = some l → ∀ h ∈ t.held, h < l

/-- the locks of the queue package, ranked in the order the code nests them -/
def rank (name : String) : Option Nat :=
  if name = "TaskQueueSet.m" then some 0
  else if name = "TaskQueue.m" then some 1
  else if name = "TaskQueue.waitMu" then some 2
  else none

/-- an entry (outer, inner) of the extracted nesting table: is `inner` ranked above `outer`? -/
def nestingRanked (p : String × String) : Bool :=
  match rank p.1, rank p.2 with
  | some a, some b => a < b
  | _, _ => false

/-- a goroutine of the queue package that holds the locks `held` (names) and is about to take `want` -/
def threadOf (held : List String) (want : Option String) : Thread :=
  { held := held.filterMap rank, next := want.bind rank }

end ShellOp.LockOrder
