/-!
# The queues the operator creates and the contexts they listen to (C17)

`Model/Worker` has ONE cancellation flag for all queues: it assumes that the stop request
(`TaskQueueSet.Stop()`, which cancels `tqs.ctx`) reaches the context of every queue. This module models
the code that is responsible for that assumption — `bootstrapMainQueue`/`StartMain`,
`initAndStartHookQueues` (operator.go), `TaskQueueSet.NewNamedQueue` / `Add` / `GetByName`
(queue_set.go), `TaskQueue.WithContext` (task_queue.go) — with the tree of contexts of operator.go:
`Background ← op.ctx ← tqs.ctx`, and a queue context derived (`context.WithCancel(parent)`) from
whatever its creator passed. Core Lean only (linked into `drv_c17`).
-/
namespace ShellOp.HookQueues

/-- Contexts: the three long-lived ones of operator.go and contexts derived by `WithContext(parent)`. -/
inductive Ctx where
  | background
  | op                      -- NewShellOperator: context.WithCancel(ctx)
  | set                     -- TaskQueueSet.WithContext(op.ctx)
  | derived (parent : Ctx)  -- TaskQueue.WithContext(parent): context.WithCancel(parent)
  deriving DecidableEq, Repr

/-- Is `c` cancelled when `root`'s cancel function is called? Cancellation goes from a context to the
contexts derived from it, never upwards. -/
def Ctx.cancelledBy (root : Ctx) : Ctx → Bool
  | .background => root == .background
  | .op => root == .op || root == .background
  | .set => root == .set || root == .op || root == .background
  | .derived p => root == .derived p || cancelledBy root p

abbrev QName := Nat   -- 0 = main

structure Q where
  name : QName
  ctx : Option Ctx := none   -- none: NewTasksQueue() without WithContext
  started : Bool := false
  deriving DecidableEq, Repr

/-- `TaskQueueSet.Queues` (a Go map: one entry per name; assignment replaces). -/
abbrev QSet := List Q

def getByName (s : QSet) (n : QName) : Option Q := s.find? (·.name == n)

def put (s : QSet) (q : Q) : QSet := q :: s.filter (·.name != q.name)

/-- `NewNamedQueue`: `q.WithContext(tqs.ctx)`, then `tqs.Queues[name] = q`. -/
def newNamedQueue (s : QSet) (n : QName) : QSet := put s { name := n, ctx := some (.derived .set) }

/-- `Add`: the queue comes with whatever context its creator gave it. -/
def add (s : QSet) (q : Q) : QSet := put s q

/-- `GetByName(n).Start()`. -/
def start (s : QSet) (n : QName) : QSet :=
  s.map fun q => if q.name == n then { q with started := true } else q

/-- The body of both loops of `initAndStartHookQueues`:
`if GetByName(name) == nil { NewNamedQueue(name, handler); GetByName(name).Start() }`. -/
def ensure (s : QSet) (n : QName) : QSet :=
  if (getByName s n).isNone then start (newNamedQueue s n) n else s

/-- `initAndStartHookQueues`: the hooks with schedule bindings first, then the hooks with kubernetes
bindings; per hook the queue names of its bindings in order. -/
def initAndStartHookQueues (s : QSet) (sched kube : List (List QName)) : QSet :=
  let s := sched.foldl (fun s h => h.foldl ensure s) s
  kube.foldl (fun s h => h.foldl ensure s) s

/-- `bootstrapMainQueue` (NewNamedQueue("main")) and `StartMain`. -/
def bootstrap : QSet := start (newNamedQueue [] 0) 0

/-- What `ShellOperator.Start` does for the queues. -/
def operatorQueues (sched kube : List (List QName)) : QSet :=
  initAndStartHookQueues bootstrap sched kube

/-- The stop request of `Shutdown()` is `TaskQueueSet.Stop()`: it cancels `tqs.ctx`. A queue hears it
iff its own context is cancelled by that. -/
def hearsStop (q : Q) : Bool :=
  match q.ctx with
  | some c => Ctx.cancelledBy .set c
  | none => false

/-- The variant of the loop body that builds the queue "in place" on another context and registers it
with `Add` (what a refactoring of `initAndStartHookQueues` is tempted to do). -/
def ensureOn (parent : Ctx) (s : QSet) (n : QName) : QSet :=
  if (getByName s n).isNone then start (add s { name := n, ctx := some (.derived parent) }) n else s

/-- insertion sort, duplicates removed (names for the line protocol) -/
def insertSorted (x : Nat) : List Nat → List Nat
  | [] => [x]
  | y :: ys => if x < y then x :: y :: ys else if x == y then y :: ys else y :: insertSorted x ys

def sortedNames (l : List Nat) : List Nat := l.foldr insertSorted []

end ShellOp.HookQueues
