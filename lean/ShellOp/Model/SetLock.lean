/-!
The read-write lock of the queue set (`TaskQueueSet.m`, a Go `sync.RWMutex`) at the granularity that
matters for C03: a reader program (`Iterate`: the live-metrics goroutine, the debug endpoints) and a
writer program (`DoWithLock`: the consumer placing the tasks of an event; `Add`, `NewNamedQueue`).

Go's RWMutex: a `Lock()` call first announces itself (from then on new `RLock()` calls wait), then waits
until the active readers are gone; `RLock()` is granted iff no writer holds or waits for the lock.
-/
namespace ShellOp.SetLock

inductive Op | rlock | runlock | lock | unlock
  deriving DecidableEq, Repr

structure St where
  readers : Nat := 0
  writer : Bool := false          -- a writer holds the lock
  waiting : Bool := false         -- a writer has announced itself and waits for the readers to leave
  rprog : List Op := []           -- what the reader thread still has to do
  wprog : List Op := []           -- what the writer thread still has to do
  deriving DecidableEq, Repr

/-- `Iterate` as it was: RLock; GetMain() → GetByName: RLock, RUnlock; …; RUnlock. -/
def iterateNested : List Op := [.rlock, .rlock, .runlock, .runlock]
/-- `Iterate` as repaired: one RLock, the main queue is read from the map directly. -/
def iterateFlat : List Op := [.rlock, .runlock]
/-- `DoWithLock`. -/
def doWithLock : List Op := [.lock, .unlock]

inductive Who | reader | writerAnnounce | writerAcquire | writer
  deriving DecidableEq, Repr

/-- One step of one thread; `none` when the thread has to wait (or has nothing to do). -/
def step (s : St) : Who → Option St
  | .reader => match s.rprog with
    | .rlock :: rest => if s.writer || s.waiting then none else some { s with readers := s.readers + 1, rprog := rest }
    | .runlock :: rest => some { s with readers := s.readers - 1, rprog := rest }
    | _ => none
  | .writerAnnounce => match s.wprog with
    | .lock :: _ => if s.waiting || s.writer then none else some { s with waiting := true }
    | _ => none
  | .writerAcquire => match s.wprog with
    | .lock :: rest => if s.waiting && s.readers == 0 then some { s with waiting := false, writer := true, wprog := rest } else none
    | _ => none
  | .writer => match s.wprog with
    | .unlock :: rest => some { s with writer := false, wprog := rest }
    | _ => none

def allWho : List Who := [.reader, .writerAnnounce, .writerAcquire, .writer]

def finished (s : St) : Bool := s.rprog.isEmpty && s.wprog.isEmpty

/-- no thread can move although work is left -/
def stuck (s : St) : Bool := !finished s && allWho.all (fun w => (step s w).isNone)

/-- every state reachable within `n` steps (as a list, with repetitions) -/
def reach : Nat → St → List St
  | 0, s => [s]
  | n + 1, s => s :: (allWho.filterMap (step s)).flatMap (reach n)

end ShellOp.SetLock
