import ShellOp.Model.Metrics
/-!
# C16 — the names of a grouped metric

A hook writes a metric NAME; the storage resolves it (`resolveMetricName`: the first `{PREFIX}` is
replaced by the storage's prefix) and the grouped vault uses a name in three places of
`GetOrCreate{Counter,Gauge}Collector`:

* the key it LOOKS UP in `collectors`,
* the name it gives to the new collector = the name REGISTERED in the prometheus registry,
* the key it STORES the new collector under.

`Model/Metrics` identifies a metric with its resolved name (the `op` lines of the harness carry resolved
names, `getOrCreateColl` has ONE name). This file keeps the three uses apart (`getOrCreate look regn
store`), with the registry as a list of its own, so that "the three are one function of the written
name" becomes a statement (`Props/C16`: `vault_names_agree`, `every_spelling_obtains`) instead of an
assumption; the source side is `Facts.c16VaultNames`. Core Lean only.
-/
namespace ShellOp.Metrics.Names
open ShellOp ShellOp.Metrics

/-- The grouped vault as far as names go: `collectors` (key → type of the collector) and the names taken
in the registry. -/
structure Vault where
  colls : List (Nat × Fam) := []
  reg : List Nat := []
  deriving DecidableEq, Repr

/-- `GetOrCreate*Collector(name, …)` for the written name `n`: `look n` is looked up; if nothing is
found a collector named `regn n` is registered (fails when the registry has that name: "duplicate metrics
collector registration attempted", the operation is dropped with a log line) and stored under `store n`.
`none` = the error return. -/
def getOrCreate (look regn store : Nat → Nat) (v : Vault) (n : Nat) (f : Fam) : Option Vault :=
  match v.colls.lookup (look n) with
  | some f' => if f' = f then some v else none
  | none =>
    if v.reg.any (· == regn n) then none
    else some { colls := v.colls ++ [(store n, f)], reg := v.reg ++ [regn n] }

/-- The code: all three are the resolved name. -/
def getOrCreateResolved (resolve : Nat → Nat) : Vault → Nat → Fam → Option Vault :=
  getOrCreate resolve resolve resolve

/-- The sequence of uses of (written name, type) by one or several batches; `none` as soon as one use
is dropped. -/
def useAll (look regn store : Nat → Nat) (v : Vault) : List (Nat × Fam) → Option Vault
  | [] => some v
  | (n, f) :: rest => (getOrCreate look regn store v n f).bind fun v' => useAll look regn store v' rest

/-- every key of `collectors` is a registered name (what ties the two lists in the code). -/
def Vault.Tied (v : Vault) : Prop := ∀ k f, (k, f) ∈ v.colls → k ∈ v.reg

end ShellOp.Metrics.Names
