import ShellOp.Model.Combine
import ShellOp.Model.Backoff
import ShellOp.Generated.Facts
/-
Model of the retry path: the worker loop of `TaskQueue.Start()` (task_queue.go) together with
`ShellOperator.taskHandleHookRun` (operator.go), written as the code computes:

* the worker sleeps `sleepDelay`, takes the head task, calls the handler and applies the result:
  `Fail` keeps the task where it is, sets `sleepDelay = ExponentialBackoffFn(FailureCount)` and
  increments the counter; `Success` removes the task by id and resets the delay;
* the handler decides `shouldRunHook`, combines (`Combine.prepareRun`, the verified C07 model) and
  writes the combined contexts back into the task (`t.UpdateMetadata`), runs the hook (outcome is
  an input), and turns an error into `Success` when `hookMeta.AllowFailure` — the flag of the
  *executed (head)* task — is set;
* other goroutines append tasks to the queue between worker steps.

Core Lean only.
-/
namespace ShellOp.Retry

open ShellOp.Combine

/-- One hook execution as seen in the hook's log. -/
structure Exec where
  task : Nat
  hook : Nat
  ctxs : List Ctx
  ok : Bool
  startAt : Nat          -- model clock (ns) when the handler was entered
  deriving DecidableEq, Repr

structure Cfg where
  /-- the stop-combine predicate `taskHandleHookRun` passes to `combineBindingContextForHook` -/
  stopOf : Task → Option (Task → Bool)
  /-- hook name → config version (0 = "v0", 1 = "v1") -/
  version : Nat → Nat
  /-- `q.ExponentialBackoffFn(failureCount)`, the random draw made explicit -/
  backoff : Nat → Nat → Nat

structure State where
  items : List Task := []
  fc : Nat → Nat := fun _ => 0        -- `FailureCount` by task id
  sleep : Nat := 0                    -- `sleepDelay` of the next `waitForTask`
  clock : Nat := 0
  log : List Exec := []
  /-- contexts of tasks that are not hook runs by configuration (Synchronization of a v0 hook or
  with `executeHookOnSynchronization: false`; tasks of other types) -/
  skipped : List Ctx := []

inductive Status | success | fail
  deriving DecidableEq, Repr

structure Handled where
  status : Status
  items : List Task            -- the queue when the handler returns
  ran : Option (List Ctx)      -- the contexts the hook was executed with (`none`: hook not run)
  unlocked : List Nat          -- `UnlockKubernetesEventsFor(monitorID)` calls
  deriving Repr

/-- `t.UpdateMetadata(hookMeta)`: the queue holds a pointer to the task. -/
def setTask (t' : Task) (items : List Task) : List Task :=
  items.map (fun x => if x.id == t'.id then t' else x)

/-- `taskHandleHookRun(t)` for the task `t` of the queue `items`; `hookOk` = `handleRunHook`
returned nil. -/
def taskHandleHookRun (cfg : Cfg) (items : List Task) (t : Task) (hookOk : Bool) : Handled :=
  let version := cfg.version t.hook
  let isSync := t.isSync
  let run := shouldRunHook version t
  let (t', items') :=
    match prepareRun cfg.stopOf version [(t.queue, items)] t id with
    | (some t', qs') => (t', setTask t' ((qs'.get t.queue).getD items))
    | (none, _) => (t, items)
  if run then
    if hookOk then ⟨.success, items', some t'.ctxs, if isSync then t'.mons else []⟩
    else if t'.allowFailure then ⟨.success, items', some t'.ctxs, if isSync then t'.mons else []⟩
    else ⟨.fail, items', some t'.ctxs, []⟩
  else ⟨.success, items', none, if isSync then t'.mons else []⟩

/-- `q.remove(id)`: the first task with this id. -/
def removeById (id : Nat) : List Task → List Task
  | [] => []
  | x :: xs => if x.id == id then xs else x :: removeById id xs

inductive Ev
  | append (t : Task)                 -- `AddLast` by an event handler
  | run (hookOk : Bool) (rnd : Nat)   -- one iteration of the worker loop; hook outcome, random draw
  deriving Repr

def bump (fc : Nat → Nat) (id : Nat) : Nat → Nat := fun i => if i == id then fc i + 1 else fc i

def step (cfg : Cfg) (s : State) : Ev → State
  | .append t => { s with items := s.items ++ [t] }
  | .run hookOk rnd =>
    match s.items with
    | [] => s
    | t :: _ =>
      let clock := s.clock + s.sleep            -- `waitForTask(sleepDelay)` returns after the delay
      if t.typ != 0 || !t.hasMeta then
        -- a task of another type: its own handler (abstracted: Success, no hook run)
        { s with items := removeById t.id s.items, sleep := 0, clock := clock,
                 skipped := s.skipped ++ t.ctxs }
      else
        let h := taskHandleHookRun cfg s.items t hookOk
        let log := match h.ran with
          | some cs => s.log ++ [⟨t.id, t.hook, cs, hookOk, clock⟩]
          | none => s.log
        let skipped := match h.ran with
          | some _ => s.skipped
          | none => s.skipped ++ t.ctxs
        match h.status with
        | .fail =>
          { items := h.items, fc := bump s.fc t.id, sleep := cfg.backoff (s.fc t.id) rnd,
            clock := clock, log := log, skipped := skipped }
        | .success =>
          { items := removeById t.id h.items, fc := s.fc, sleep := 0,
            clock := clock, log := log, skipped := skipped }

def run (cfg : Cfg) (s : State) (evs : List Ev) : State := evs.foldl (step cfg) s

/-! ## Conservation bookkeeping (for `no_discard`) -/

/-- Contexts waiting in the queue that belong to tasks which do not allow failure. -/
def pendingNF (items : List Task) : List Ctx :=
  (items.filter (fun t => !t.allowFailure)).flatMap (·.ctxs)

/-- Contexts that were part of a successful execution. -/
def succeeded (log : List Exec) : List Ctx := (log.filter (·.ok)).flatMap (·.ctxs)

/-- `c` is in `l`, or it is grouped and a context of its group is in `l` (group compaction keeps
the last context of a group run: the hook still sees the group's snapshot). -/
def covered (c : Ctx) (l : List Ctx) : Bool :=
  l.contains c || (c.group != 0 && l.any (·.group == c.group))

/-- The context is not lost: still queued (in a task that does not allow failure), or executed
successfully, or not to be run by configuration. -/
def safe (s : State) (c : Ctx) : Bool :=
  covered c (pendingNF s.items ++ succeeded s.log ++ s.skipped)

/-- The repaired `taskHandleHookRun`: combining stops at a task whose `AllowFailure` differs, and
at a Synchronization that is not to be executed (the second condition is C06's repair; both are in
the one `stopCombineFn` closure of the code). -/
def repaired (version : Nat → Nat) (backoff : Nat → Nat → Nat) : Cfg :=
  { stopOf := stopOnAllowFailureChangeOrSkippedSync, version, backoff }

/-- The code before the repair: `combineBindingContextForHook(…, t, nil)`. -/
def unrepaired (version : Nat → Nat) (backoff : Nat → Nat → Nat) : Cfg :=
  { stopOf := fun _ => none, version, backoff }

/-- The constants of `delay.go` as extracted from the source on this run. -/
def realParams : Backoff.Params :=
  { maxDelayNs := Facts.c04MaxDelayNs, factor := Facts.c04Factor, randomMs := Facts.c04RandomMs,
    expCount := Facts.c04ExpCount, truncNs := Facts.c04TruncNs }

/-- The `ExponentialBackoffFn` every queue is created with:
`CalculateDelay(DefaultInitialDelayOnFailedTask, failureCount)`; `rand.Int64N(n)` is `< n`. -/
def queueBackoff (k rnd : Nat) : Nat :=
  Backoff.calcDelay realParams Facts.c04InitialDelayNs k (rnd % Facts.c04RandomMs)

end ShellOp.Retry
