import ShellOp.Model.Json
import ShellOp.Generated.Facts
/-!
# The trigger decision of a resource informer (C08). Core Lean only.

Code-shaped model of `applyFilter` (filter.go) and `handleWatchEvent` (resource_informer.go):
the same case split and the same order of effects — filter first (an error ends the call before
anything else happens), `RemoveFullObject`, then per event type the cache update with the
`skipEvent` comparison of checksums, then `shouldFireEvent`.

The checksum (`md5 ∘ json.Marshal`) is a parameter `cks : J → C`; nothing here assumes anything
about it. The spec (`Spec`) does not mention checksums at all: it remembers the last projection of
every object.
-/
namespace ShellOp.Trigger
open ShellOp.Json

inductive WatchEvent where
  | added | modified | deleted
  deriving DecidableEq, Repr, Inhabited

def WatchEvent.ofString? : String → Option WatchEvent
  | "Added" => some .added
  | "Modified" => some .modified
  | "Deleted" => some .deleted
  | _ => none

def WatchEvent.toString : WatchEvent → String
  | .added => "Added" | .modified => "Modified" | .deleted => "Deleted"

/-- `WithEventTypes(nil)`: the table regenerated from monitor_config.go. -/
def defaultTypes : List WatchEvent := ShellOp.Facts.c08DefaultEventTypes.filterMap WatchEvent.ofString?

/-- `MonitorConfig.WithEventTypes` (monitor_config.go): nil = the default table, any list (also
the empty one) is copied as it is. -/
def withEventTypes : Option (List WatchEvent) → List WatchEvent
  | none => defaultTypes
  | some l => [] ++ l

/-- The event-type part of `HookConfigV1.ConvertAndCheck` (config_v1.go): the two keys of a
kubernetes binding as the loader decoded them (`none` = key absent = nil slice; `some []` = the key
is given with an empty list). "executeHookOnEvent is a priority": a non-nil `ExecuteHookOnEvents`
wins — also an empty one —, then the deprecated alias `watchEvent`, then `WithEventTypes(nil)`. -/
def configuredTypes (exec watch : Option (List WatchEvent)) : List WatchEvent :=
  match exec with
  | some l => withEventTypes (some l)
  | none =>
    match watch with
    | some l => withEventTypes (some l)
    | none => withEventTypes none

/-- The loop over the kubernetes bindings of a v1 hook (`HookConfigV1.ConvertAndCheck`): one monitor
per binding, appended in the order of the bindings; every monitor gets a slice of its own
(`WithEventTypes` copies). -/
def convertHookV1 : List (Option (List WatchEvent) × Option (List WatchEvent)) → List (List WatchEvent) →
    List (List WatchEvent)
  | [], acc => acc
  | b :: rest, acc => convertHookV1 rest (acc ++ [configuredTypes b.1 b.2])

/-- Legacy (configVersion v0) names of the event types: the `switch eventName` of
`HookConfigV0.ConvertAndCheck` (config_v0.go); `none` = the `default:` branch ("event is unsupported"). -/
def WatchEvent.ofV0Name? : String → Option WatchEvent
  | "add" => some .added
  | "update" => some .modified
  | "delete" => some .deleted
  | _ => none

/-- The inner loop of the event-type block of `HookConfigV0.ConvertAndCheck`: one `append` per name of
the binding's `event` list, the first unsupported name aborts. -/
def convertV0Names : List String → List WatchEvent → Option (List WatchEvent)
  | [], acc => some acc
  | n :: rest, acc =>
    match WatchEvent.ofV0Name? n with
    | some t => convertV0Names rest (acc ++ [t])
    | none => none

/-- One v0 binding: a fresh, non-nil slice (`eventTypes := []WatchEventType{}` — so an absent or
empty `event` key gives the EMPTY list, never the default), filled by the loop, handed to
`WithEventTypes` (which copies it). -/
def configuredTypesV0 (names : List String) : Option (List WatchEvent) :=
  match convertV0Names names [] with
  | some l => some (withEventTypes (some l))
  | none => none

/-- The loop over `cv0.OnKubernetesEvent`: one monitor per binding, appended in order; an
unsupported event name in any binding makes the whole hook configuration invalid. -/
def convertHookV0 : List (List String) → List (List WatchEvent) → Option (List (List WatchEvent))
  | [], acc => some acc
  | b :: rest, acc =>
    match configuredTypesV0 b with
    | some m => convertHookV0 rest (acc ++ [m])
    | none => none

/-- A variant that is NOT the code (witness only): the converted names go into one buffer of three
slots that is re-sliced to length 0 for every binding, and `WithEventTypes` keeps the slice it is
given. Every monitor is then a view `(buffer, length)`; what binding `k` shows at the end is the
first `length k` slots of the buffer as the LAST binding that reached them left them. -/
def sharedBufferWrite (buf : List WatchEvent) (l : List WatchEvent) : List WatchEvent :=
  l ++ buf.drop l.length

def convertHookV0Shared (bs : List (List WatchEvent)) : List (List WatchEvent) :=
  let buf := bs.foldl sharedBufferWrite []
  bs.map (fun l => buf.take l.length)

/-- The part of `MonitorConfig` the decision depends on. -/
structure Cfg where
  types : List WatchEvent := defaultTypes   -- EventTypes (executeHookOnEvent)
  filter : Option Prog := none              -- JqFilter ("" = none)
  keep : Bool := true                       -- KeepFullObjectsInMemory
  deriving Inhabited

/-- The binding's projection of an object: the jq result, or the whole object when there is no
filter. `none`: the filter fails on this object. -/
def project (cfg : Cfg) (obj : J) : Option J :=
  match cfg.filter with
  | none => some obj
  | some f => f.eval obj

/-- The projection of the unrepaired code (jq.ApplyFilter kept object-valued outputs only). -/
def projectUnrepaired (cfg : Cfg) (obj : J) : Option J :=
  match cfg.filter with
  | none => some obj
  | some f => f.evalLegacy obj

/-- `ObjectAndFilterResult`: checksum, stored filter result, full object (dropped unless `keep`). -/
structure Entry (C : Type) where
  cks : C
  fr : Option J
  obj : Option J
  deriving Repr

/-! Go map as an association list; no invariant needed (set = drop the key, then add). -/
def aget {α : Type} (i : Nat) : List (Nat × α) → Option α
  | [] => none
  | (j, v) :: rest => if i = j then some v else aget i rest

def adel {α : Type} (i : Nat) (l : List (Nat × α)) : List (Nat × α) := l.filter (fun kv => kv.1 ≠ i)

def aset {α : Type} (i : Nat) (v : α) (l : List (Nat × α)) : List (Nat × α) := (i, v) :: adel i l

abbrev Cache (C : Type) := List (Nat × Entry C)

/-- `applyFilter` (jqFilter == "" → checksum of the whole object, no filter result). -/
def applyFilter {C : Type} (cfg : Cfg) (cks : J → C) (obj : J) : Option (Entry C) :=
  match cfg.filter with
  | none => some { cks := cks obj, fr := none, obj := some obj }
  | some f =>
    match f.eval obj with
    | none => none
    | some v => some { cks := cks v, fr := some v, obj := some obj }

/-- The checksum the code computes (`utils_checksum.CalculateChecksum(string(bytes))`): a hash `h`
(md5, a parameter) of the JSON *text* of the projection — the text of a string value carries its
quotes. -/
def textCks {C : Type} (h : String → C) (j : J) : C := h j.print

def removeFull {C : Type} (cfg : Cfg) (e : Entry C) : Entry C :=
  if cfg.keep then e else { e with obj := none }

/-- `shouldFireEvent`: a loop over `Monitor.EventTypes`. -/
def shouldFire (cfg : Cfg) (ev : WatchEvent) : Bool := cfg.types.any (fun t => t == ev)

structure Event (C : Type) where
  ev : WatchEvent
  id : Nat
  entry : Entry C
  deriving Repr

/-- `handleWatchEvent`. Result: the cache afterwards and the KubeEvent handed to the callback. -/
def handle {C : Type} [DecidableEq C] (cfg : Cfg) (cks : J → C) (cache : Cache C)
    (ev : WatchEvent) (id : Nat) (obj : J) : Cache C × Option (Event C) :=
  match applyFilter cfg cks obj with
  | none =>
    -- "applyFilter error": logged. Added/Modified: return. Deleted: "Delete is always fired" — the
    -- event carries a bare ObjectAndFilterResult (no filter result, empty checksum: `cks .null` is a
    -- stand-in that is never compared, the drivers do not print the checksum of a Deleted event).
    match ev with
    | .deleted =>
      let e := removeFull cfg { cks := cks .null, fr := some .null, obj := some obj }
      (adel id cache, if shouldFire cfg .deleted then some ⟨.deleted, id, e⟩ else none)
    | _ => (cache, none)
  | some e0 =>
    let e := removeFull cfg e0
    match ev with
    | .deleted =>
      (adel id cache, if shouldFire cfg .deleted then some ⟨.deleted, id, e⟩ else none)
    | ev =>
      let skip : Bool := match aget id cache with
        | some c => decide (c.cks = e.cks)
        | none => false
      let cache' := aset id e cache
      if skip then (cache', none)
      else (cache', if shouldFire cfg ev then some ⟨ev, id, e⟩ else none)

/-- The unrepaired `handleWatchEvent` returned on every filter error, also for Deleted. -/
def handleUnrepaired {C : Type} [DecidableEq C] (cfg : Cfg) (cks : J → C) (cache : Cache C)
    (ev : WatchEvent) (id : Nat) (obj : J) : Cache C × Option (Event C) :=
  match applyFilter cfg cks obj with
  | none => (cache, none)
  | some _ => handle cfg cks cache ev id obj

/-- `loadExistedObjects`: the initial list goes into the cache, nothing is emitted. An object the
filter fails on makes the whole call fail (`none`). -/
def load {C : Type} (cfg : Cfg) (cks : J → C) : List (Nat × J) → Option (Cache C)
  | [] => some []
  | (id, obj) :: rest =>
    match applyFilter cfg cks obj, load cfg cks rest with
    | some e, some c => some (aset id (removeFull cfg e) c)
    | _, _ => none

abbrev Change := WatchEvent × Nat × J

/-- A history of changes handled one after the other; per change the event emitted (or none). -/
def run {C : Type} [DecidableEq C] (cfg : Cfg) (cks : J → C) :
    Cache C → List Change → Cache C × List (Option (Event C))
  | cache, [] => (cache, [])
  | cache, (ev, id, obj) :: rest =>
    let r := handle cfg cks cache ev id obj
    let rr := run cfg cks r.1 rest
    (rr.1, r.2 :: rr.2)

/-! ## Spec: the property as written, no checksums -/
namespace Spec

/-- Last known projection per object. -/
abbrev Known := List (Nat × J)

/-- One change: (what is known afterwards, does it trigger). -/
def step (cfg : Cfg) (known : Known) (ev : WatchEvent) (id : Nat) (obj : J) : Known × Bool :=
  match project cfg obj with
  | none =>
    -- the filter fails on the object: there is no projection to compare. A delete is reported all
    -- the same (the object is gone whatever the filter says); an Added/Modified change is ignored.
    match ev with
    | .deleted => (adel id known, decide (WatchEvent.deleted ∈ cfg.types))
    | _ => (known, false)
  | some p =>
    match ev with
    | .deleted => (adel id known, decide (WatchEvent.deleted ∈ cfg.types))
    | ev => (aset id p known, decide (ev ∈ cfg.types) && decide (aget id known ≠ some p))

/-- "its watch-event type is listed in executeHookOnEvent", read off the binding as the hook wrote
it: the list under `executeHookOnEvent` when the key is there (an empty list lists nothing); the
deprecated alias `watchEvent` speaks only when `executeHookOnEvent` is absent; a binding with neither
key listens to everything. -/
def listed (exec watch : Option (List WatchEvent)) (ev : WatchEvent) : Bool :=
  match exec, watch with
  | some l, _ => decide (ev ∈ l)
  | none, some l => decide (ev ∈ l)
  | none, none => true

/-- The same clause for a legacy (configVersion v0) binding, whose key is `event` and whose names are
`add`, `update`, `delete`: the change type is listed iff its legacy name is in the list. -/
def v0Name : WatchEvent → String
  | .added => "add" | .modified => "update" | .deleted => "delete"

def listedV0 (names : List String) (ev : WatchEvent) : Bool := decide (v0Name ev ∈ names)

def run (cfg : Cfg) : Known → List Change → Known × List Bool
  | known, [] => (known, [])
  | known, (ev, id, obj) :: rest =>
    let r := step cfg known ev id obj
    let rr := run cfg r.1 rest
    (rr.1, r.2 :: rr.2)

end Spec

/-! ## Aliasing: the objects of the shared informer's store

client-go keeps ONE object per resource in the store of a shared informer and hands its address to
every handler registered on it — every binding of every hook with the same kind, namespace and
selectors — and hands the SAME address again on a resync or relist of an unchanged object. With
`keepFullObjectsInMemory` the cache entry keeps that address (`ObjectAndFilterResult.Object`).
`getCachedObjects` returns copies of the entry *structs*: their `Object` fields still point into the
store. -/

/-- The store: address → object. -/
abbrev Heap := List (Nat × J)

/-- `getCachedObjects` seen from the store: `addrs` are the addresses held by the entries it copies,
`touch` is what it does to an object through such an address. The code does nothing (`touch = id`);
the parameter is there to say what would happen otherwise. -/
def snapshotHeap (touch : J → J) (addrs : List Nat) (heap : Heap) : Heap :=
  addrs.foldl (fun h a => match aget a h with
    | some o => aset a (touch o) h
    | none => h) heap

/-- The shared informer delivers the object at address `a` to one handler. -/
def handleAt {C : Type} [DecidableEq C] (cfg : Cfg) (cks : J → C) (heap : Heap) (cache : Cache C)
    (ev : WatchEvent) (id : Nat) (a : Nat) : Cache C × Option (Event C) :=
  match aget a heap with
  | some o => handle cfg cks cache ev id o
  | none => (cache, none)

/-- removing one top-level key of `metadata` (what `SetManagedFields(nil)` does to an unstructured object) -/
def stripMeta (key : String) : J → J
  | .obj kvs => .obj (kvs.map (fun kv =>
      if kv.1 = "metadata" then
        match kv.2 with
        | .obj ms => (kv.1, J.obj (ms.filter (fun m => m.1 ≠ key)))
        | v => (kv.1, v)
      else kv))
  | v => v

/-! ## Informer start: the monitor's own list, the window, the informer's list

`Monitor.CreateInformers` lists the objects itself and files them in the cache (`load`, T0). The
shared informer is started later (`StartMonitor`, T1): it makes its OWN list and hands every object
of it to `OnAdd` with `isInInitialList = true` (the same happens, from the informer's store, when the
handler is added to an informer that is running already). Whatever changed in the cluster between T0
and T1 reaches the handler in no other way. -/

/-- `OnAdd(obj, isInInitialList)`: the flag plays no part — an Added of the informer's initial list
is compared with the cache like any other change. (Tie: skeleton `C08.OnAdd` — the body is the one
call of `handleWatchEvent`.) -/
def onAdd {C : Type} [DecidableEq C] (cfg : Cfg) (cks : J → C) (cache : Cache C)
    (_isInInitialList : Bool) (id : Nat) (obj : J) : Cache C × Option (Event C) :=
  handle cfg cks cache .added id obj

/-- The informer's initial list handed to the handler, one object after the other. -/
def replayInitial {C : Type} [DecidableEq C] (cfg : Cfg) (cks : J → C) :
    Cache C → List (Nat × J) → Cache C × List (Option (Event C))
  | cache, [] => (cache, [])
  | cache, (id, obj) :: rest =>
    let r := onAdd cfg cks cache true id obj
    let rr := replayInitial cfg cks r.1 rest
    (rr.1, r.2 :: rr.2)

/-- The start sequence of a monitor: `loadExistedObjects` on what the monitor listed at T0, then the
replay of what the informer listed at T1. `none`: the filter fails on an object of the first list
(the monitor is not created). -/
def startSequence {C : Type} [DecidableEq C] (cfg : Cfg) (cks : J → C)
    (listed0 listed1 : List (Nat × J)) : Option (Cache C × List (Option (Event C))) :=
  match load cfg cks listed0 with
  | none => none
  | some c => some (replayInitial cfg cks c listed1)

/-- NOT the code (witness only): an `OnAdd` that drops the objects of the initial list once the
monitor has pre-loaded its cache ("they are in the cache already"). -/
def onAddSkipInitial {C : Type} [DecidableEq C] (preloaded : Bool) (cfg : Cfg) (cks : J → C)
    (cache : Cache C) (isInInitialList : Bool) (id : Nat) (obj : J) : Cache C × Option (Event C) :=
  if isInInitialList && preloaded then (cache, none) else handle cfg cks cache .added id obj

def replayInitialSkip {C : Type} [DecidableEq C] (preloaded : Bool) (cfg : Cfg) (cks : J → C) :
    Cache C → List (Nat × J) → Cache C × List (Option (Event C))
  | cache, [] => (cache, [])
  | cache, (id, obj) :: rest =>
    let r := onAddSkipInitial preloaded cfg cks cache true id obj
    let rr := replayInitialSkip preloaded cfg cks r.1 rest
    (rr.1, r.2 :: rr.2)

/-! ## Cache keys

The cache is a Go map keyed by `resourceId(obj)` = `namespace/kind/name`, the kind being the kind OF
THE OBJECT. The `kind` of the binding is only what discovery resolves to a resource (`ConfigMap`,
`configmap`, `configmaps`, `cm` … are all the same binding); it is at hand in `loadExistedObjects`
(`ei.Monitor.Kind`) but is no part of any key. -/

structure ObjRef where
  ns : String
  kind : String
  name : String
  deriving DecidableEq, Repr

/-- `resourceId` (util.go). -/
def resourceId (o : ObjRef) : String := o.ns ++ "/" ++ o.kind ++ "/" ++ o.name

/-- The key `loadExistedObjects` files a listed object under: `objFilterRes.Metadata.ResourceId`,
which `applyFilter` has set to `resourceId(obj)` (skeletons `C08.loadExistedObjects`,
`C08.applyFilter`). -/
def loadKey (_bindingKind : String) (o : ObjRef) : String := resourceId o

/-- The key `handleWatchEvent` looks an object up by. -/
def eventKey (o : ObjRef) : String := resourceId o

/-- NOT the code (witness only): the pre-loaded objects keyed with the kind as the binding spells it. -/
def loadKeyBindingKind (bindingKind : String) (o : ObjRef) : String :=
  o.ns ++ "/" ++ bindingKind ++ "/" ++ o.name

end ShellOp.Trigger
