/-!
# A small JSON value type and a jq fragment (shared by C08 and C09). Core Lean only.

* `J` — `null | bool | num Int | str | arr | obj` where an object is an association list that the
  smart constructor `J.mkObj` keeps sorted by key with unique keys (what `encoding/json` prints for a
  Go `map[string]any`).
* `J.print` — the canonical text (no blanks, keys in list order).
* `Filter` — the jq fragment the generators use: paths `.a.b`, literals, object construction
  `{x: f, y: g}`, array construction `[f, g]`, alternative `f // g`. `Filter.eval` returns `none` for a
  jq error (indexing a scalar/array with a string key). A `Filter` has exactly one output or an error;
  a `Prog` may join several filters with `,` at top level (several outputs, merged the legacy way).
-/
namespace ShellOp.Json

inductive J where
  | null
  | bool (b : Bool)
  | num (n : Int)
  | str (s : String)
  | arr (xs : List J)
  | obj (kvs : List (String × J))
  deriving Repr, Inhabited

/-! ## Equality (nested inductive: written by hand, proved lawful) -/

mutual
def J.beq : J → J → Bool
  | .null, .null => true
  | .bool a, .bool b => a == b
  | .num a, .num b => a == b
  | .str a, .str b => a == b
  | .arr xs, .arr ys => beqList xs ys
  | .obj xs, .obj ys => beqKvs xs ys
  | _, _ => false
def beqList : List J → List J → Bool
  | [], [] => true
  | x :: xs, y :: ys => x.beq y && beqList xs ys
  | _, _ => false
def beqKvs : List (String × J) → List (String × J) → Bool
  | [], [] => true
  | (k, x) :: xs, (l, y) :: ys => k == l && x.beq y && beqKvs xs ys
  | _, _ => false
end

mutual
theorem J.beq_iff : ∀ a b : J, J.beq a b = true ↔ a = b
  | .null, b => by cases b <;> simp [J.beq]
  | .bool a, b => by cases b <;> simp [J.beq]
  | .num a, b => by cases b <;> simp [J.beq]
  | .str a, b => by cases b <;> simp [J.beq]
  | .arr xs, b => by
    cases b <;> simp [J.beq]
    exact beqList_iff xs _
  | .obj xs, b => by
    cases b <;> simp [J.beq]
    exact beqKvs_iff xs _
theorem beqList_iff : ∀ xs ys : List J, beqList xs ys = true ↔ xs = ys
  | [], ys => by cases ys <;> simp [beqList]
  | x :: xs, ys => by
    cases ys with
    | nil => simp [beqList]
    | cons y ys => simp [beqList, J.beq_iff x y, beqList_iff xs ys]
theorem beqKvs_iff : ∀ xs ys : List (String × J), beqKvs xs ys = true ↔ xs = ys
  | [], ys => by cases ys <;> simp [beqKvs]
  | (k, x) :: xs, ys => by
    cases ys with
    | nil => simp [beqKvs]
    | cons y ys =>
      obtain ⟨l, y⟩ := y
      simp [beqKvs, J.beq_iff x y, beqKvs_iff xs ys, and_assoc]
end

instance : DecidableEq J := fun a b => decidable_of_iff _ (J.beq_iff a b)

/-! ## Objects as sorted association lists -/

/-- Insert or overwrite a key, keeping the list sorted by key (Go map assignment + sorted printing). -/
def insertKey (k : String) (v : J) : List (String × J) → List (String × J)
  | [] => [(k, v)]
  | (l, w) :: rest =>
    if k < l then (k, v) :: (l, w) :: rest
    else if k = l then (k, v) :: rest
    else (l, w) :: insertKey k v rest

/-- Build an object from assignments executed left to right (later assignments win). -/
def J.mkObj (kvs : List (String × J)) : J :=
  .obj (kvs.foldl (fun acc kv => insertKey kv.1 kv.2 acc) [])

def lookupKey (k : String) : List (String × J) → Option J
  | [] => none
  | (l, w) :: rest => if k = l then some w else lookupKey k rest

def J.get? : J → String → Option J
  | .obj kvs, k => lookupKey k kvs
  | _, _ => none

def J.keys : J → List String
  | .obj kvs => kvs.map (·.1)
  | _ => []

/-! ## Canonical text -/

def escapeChar (c : Char) : String :=
  if c = '"' then "\\\"" else if c = '\\' then "\\\\"
  else if c = ' ' then "\\u0020"     -- protocol lines are blank-separated: a blank is never printed raw
  else c.toString

def quote (s : String) : String :=
  "\"" ++ String.join (s.toList.map escapeChar) ++ "\""

mutual
def J.print : J → String
  | .null => "null"
  | .bool b => if b then "true" else "false"
  | .num n => toString n
  | .str s => quote s
  | .arr xs => "[" ++ printList xs ++ "]"
  | .obj kvs => "{" ++ printKvs kvs ++ "}"
def printList : List J → String
  | [] => ""
  | [x] => x.print
  | x :: y :: xs => x.print ++ "," ++ printList (y :: xs)
def printKvs : List (String × J) → String
  | [] => ""
  | [(k, v)] => quote k ++ ":" ++ v.print
  | (k, v) :: kv :: kvs => quote k ++ ":" ++ v.print ++ "," ++ printKvs (kv :: kvs)
end

/-! ## The jq fragment -/

inductive Filter where
  | path (ks : List String)                 -- `.` (empty) or `.a.b.c`
  | lit (v : J)                             -- number, string, null, true, false
  | mkObj (fields : List (String × Filter)) -- `{x: f, y: g}`
  | mkArr (items : List Filter)             -- `[f, g]`
  | alt (a b : Filter)                      -- `f // g`
  deriving Repr, Inhabited

/-- jq `.k`: objects give the member or null, null gives null, anything else is an error. -/
def getKey : J → String → Option J
  | .obj kvs, k => some ((lookupKey k kvs).getD .null)
  | .null, _ => some .null
  | _, _ => none

def getPath : J → List String → Option J
  | j, [] => some j
  | j, k :: ks => (getKey j k).bind (fun v => getPath v ks)

def J.falsy : J → Bool
  | .null => true
  | .bool false => true
  | _ => false

mutual
/-- One output (`some`) or a jq error (`none`). -/
def Filter.eval : Filter → J → Option J
  | .path ks, j => getPath j ks
  | .lit v, _ => some v
  | .mkObj fs, j => (evalFields fs j).map J.mkObj
  | .mkArr fs, j => (evalItems fs j).map J.arr
  | .alt a b, j =>
    match a.eval j with
    | some v => if v.falsy then b.eval j else some v
    | none => none              -- an error of the left side is not suppressed (jq 1.6 and gojq agree)
def evalFields : List (String × Filter) → J → Option (List (String × J))
  | [], _ => some []
  | (k, f) :: fs, j =>
    match f.eval j, evalFields fs j with
    | some v, some rest => some ((k, v) :: rest)
    | _, _ => none
def evalItems : List Filter → J → Option (List J)
  | [], _ => some []
  | f :: fs, j =>
    match f.eval j, evalItems fs j with
    | some v, some rest => some (v :: rest)
    | _, _ => none
end

/-- What `jq.ApplyFilter` (the `map[string]any` API) keeps of a single output: objects only. -/
def objOnly : J → J
  | .obj kvs => .obj kvs
  | _ => .obj []

/-- The legacy merge of `jq.ApplyFilter`: the object-valued outputs are copied into one map in
output order (later keys win), outputs of other types are ignored. -/
def mergeObjects (outs : List J) : J :=
  .obj (outs.foldl (fun acc o =>
    match o with
    | .obj kvs => kvs.foldl (fun a kv => insertKey kv.1 kv.2 a) acc
    | _ => acc) [])

/-- A jq program as the generators write it: one expression of the fragment, or several separated
by `,` at top level (one output each, in order). -/
inductive Prog where
  | one (f : Filter)
  | many (fs : List Filter)
  deriving Repr, Inhabited

/-- All outputs, or `none` when some part fails (the outputs before the failure are discarded:
`run` in apply.go returns the error). -/
def Prog.outputs : Prog → J → Option (List J)
  | .one f, j => (f.eval j).map (fun v => [v])
  | .many fs, j => evalItems fs j

/-- `ApplyFilterValue`: exactly one output is returned as it is, whatever its type; for any other
number of outputs the legacy merge of the object-valued outputs. -/
def Prog.eval (p : Prog) (j : J) : Option J :=
  (p.outputs j).map (fun outs =>
    match outs with
    | [v] => v
    | _ => mergeObjects outs)

/-- `ApplyFilter` (what the unrepaired code used everywhere): always the legacy merge. -/
def Prog.evalLegacy (p : Prog) (j : J) : Option J := (p.outputs j).map mergeObjects

end ShellOp.Json
