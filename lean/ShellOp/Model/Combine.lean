/-
Model of `pkg/shell-operator/combine_binding_context.go` (`combineBindingContextForHook`), of its
exported textual twin `CombineBindingContextForHook` (operator.go) and of the combine decision of
`taskHandleHookRun`, written the way the Go code computes:

* the `q.Iterate` callback with its captured `stopIterate` flag and `otherTasks` slice is a fold
  over the items of the passed queue (`iterCb` is the callback, one case per `if` of the code);
* the loop over `otherTasks` that builds `combinedContext`, `monitorIDs` and the `tasksFilter` map;
* the `Filter` callback looking ids up in that map, run on the queue *named by the task* (looked
  up again through the queue set — not necessarily the queue that was iterated);
* the index loop that compacts groups (`for i := 0; i < len; i++ … combinedContext[i+1]`).

Between `Iterate` (RLock) and `Filter` (Lock) the queue is unlocked: the environment step `env`
sits exactly there. The readable list specification (`Spec`) is separate; `Proofs/Combine` and
`Props/C07` relate the two.

Core Lean only. Identifiers (task ids, hooks, task types, queue names, bindings, groups, monitor
ids) are naturals interned by the harness; group `0` is the empty group name `""`.
-/
namespace ShellOp.Combine

/-- One binding context: what the hook sees of it (binding name, Type, Metadata.Group). -/
structure Ctx where
  binding : Nat
  typ : Nat            -- 0 = Synchronization, 1 = Event, 2 = Group, 3 = Schedule, 4 = OnStartup
  group : Nat          -- 0 = ""
  deriving DecidableEq, Repr, Inhabited

/-- A task with its `HookMetadata` (the fields the combine code and `taskHandleHookRun` read). -/
structure Task where
  id : Nat
  hasMeta : Bool := true          -- `GetMetadata() != nil`
  hook : Nat := 0                 -- `GetHookName()`
  typ : Nat := 0                  -- `GetType()`: 0 = HookRun, 1 = EnableKubernetesBindings, …
  queue : Nat := 0                -- `GetQueueName()`
  ctxs : List Ctx := []           -- `GetBindingContext()`
  mons : List Nat := []           -- `GetMonitorIDs()`
  allowFailure : Bool := false    -- `HookMetadata.AllowFailure`
  btype : Nat := 0                -- `HookMetadata.BindingType`: 0 = OnStartup, 1 = Schedule, 2 = OnKubernetesEvent
  group : Nat := 0                -- `HookMetadata.Group`
  execOnSync : Bool := true       -- `HookMetadata.ExecuteOnSynchronization`
  deriving DecidableEq, Repr, Inhabited

/-! ## Phase 1: the `Iterate` callback -/

/-- Captured variables of the callback. -/
structure IterSt where
  stop : Bool := false
  others : List Task := []
  deriving Repr

/-- The closure passed to `q.Iterate`. `stopFn = none` is Go's nil `stopCombineFn`. -/
def iterCb (t : Task) (stopFn : Option (Task → Bool)) (s : IterSt) (tsk : Task) : IterSt :=
  if s.stop then s                                   -- if stopIterate { return }
  else if tsk.id == t.id then s                      -- ignore current task
  else if !tsk.hasMeta then { s with stop := true }  -- stop on task without metadata
  else
    let stop :=
      if tsk.hook == t.hook && t.typ == tsk.typ then
        match stopFn with
        | some f => f tsk
        | none => s.stop
      else true
    if !stop then { stop := stop, others := s.others ++ [tsk] } else { s with stop := stop }

/-- `q.Iterate(cb)`: `for _, t := range q.items { cb(t) }` under the read lock. -/
def iterate (items : List Task) (t : Task) (stopFn : Option (Task → Bool)) : List Task :=
  (items.foldl (iterCb t stopFn) {}).others

/-! ## The plan: combined contexts, monitor ids, the `tasksFilter` map -/

/-- A Go `map[string]bool` (finite map as a function; only lookups and stores are used). -/
abbrev GoMap := Nat → Option Bool

def GoMap.store (m : GoMap) (k : Nat) (v : Bool) : GoMap := fun k' => if k' == k then some v else m k'

structure Plan where
  combined : List Ctx
  mons : List Nat
  tasksFilter : GoMap

/-- Body of `for _, tsk := range otherTasks`. -/
def planStep (p : Plan) (tsk : Task) : Plan :=
  { combined := p.combined ++ tsk.ctxs
    mons := if tsk.mons.length > 0 then p.mons ++ tsk.mons else p.mons
    tasksFilter := p.tasksFilter.store tsk.id false }

def mkPlan (t : Task) (others : List Task) : Plan :=
  others.foldl planStep
    { combined := [] ++ t.ctxs, mons := t.mons, tasksFilter := GoMap.store (fun _ => none) t.id true }

/-! ## Phase 2: the `Filter` callback -/

def filterCb (m : GoMap) (tsk : Task) : Bool :=
  match m tsk.id with
  | some v => v
  | none => true

/-- `Filter`: rebuild `items` from the tasks the callback accepts (under the write lock). -/
def filterStep (items : List Task) (m : GoMap) : List Task := items.filter (filterCb m)

/-! ## Group compaction: the index loop -/

/-- `for i := 0; i < len(combinedContext); i++ { … }` — `n` is the number of iterations left. -/
def compactLoop (l : List Ctx) : Nat → Nat → List Ctx → List Ctx
  | 0, _, acc => acc
  | n + 1, i, acc =>
    match l[i]? with
    | none => acc
    | some c =>
      let drop := c.group != 0 && decide (i + 1 ≤ l.length - 1) &&
        (match l[i + 1]? with
         | some d => d.group == c.group
         | none => false)
      compactLoop l n (i + 1) (if drop then acc else acc ++ [c])

def compactGo (l : List Ctx) : List Ctx := compactLoop l l.length 0 []

/-! ## The whole function on a queue set -/

/-- `TaskQueueSet`: queue name → items. -/
abbrev QSet := List (Nat × List Task)

def QSet.get : QSet → Nat → Option (List Task)
  | [], _ => none
  | (k, v) :: rest, n => if k == n then some v else QSet.get rest n

def QSet.set : QSet → Nat → List Task → QSet
  | [], _, _ => []
  | (k, v) :: rest, n, items =>
    if k == n then (k, items) :: QSet.set rest n items else (k, v) :: QSet.set rest n items

inductive Outcome
  | nil                                       -- the function returned nil
  | panic                                     -- `Filter` on the nil queue returned by `GetByName`
  | res (ctxs : List Ctx) (mons : List Nat)   -- `&CombineResult{…}`
  deriving DecidableEq, Repr

/-- `combineBindingContextForHook(tqs, q, t, stopCombineFn)`. `passed` names the queue whose pointer
is passed as `q` (`none` = nil pointer, also what `GetByName` of an unknown name gives); `env` is
what other goroutines do to the queue set between the `RUnlock` of `Iterate` and the `Lock` of
`Filter`. -/
def combineGo (qs : QSet) (passed : Option Nat) (t : Task) (stopFn : Option (Task → Bool))
    (env : QSet → QSet) : Outcome × QSet :=
  match passed.bind qs.get with
  | none => (.nil, qs)                                  -- if q == nil
  | some items1 =>
    if !t.hasMeta then (.nil, qs)                       -- if taskMeta == nil
    else
      let others := iterate items1 t stopFn
      let qs' := env qs
      if others.length == 0 then (.nil, qs')            -- no tasks found to combine
      else
        let plan := mkPlan t others
        match qs'.get t.queue with
        | none => (.panic, qs')
        | some items2 =>
          (.res (compactGo plan.combined) plan.mons, qs'.set t.queue (filterStep items2 plan.tasksFilter))

/-- The exported twin `(*ShellOperator).CombineBindingContextForHook(q, t, stopCombineFn)`: the same
body, the queue set is `op.TaskQueues`. -/
def combineTwin (opTaskQueues : QSet) (passed : Option Nat) (t : Task) (stopFn : Option (Task → Bool))
    (env : QSet → QSet) : Outcome × QSet :=
  match passed.bind opTaskQueues.get with
  | none => (.nil, opTaskQueues)
  | some items1 =>
    if !t.hasMeta then (.nil, opTaskQueues)
    else
      let others := iterate items1 t stopFn
      let qs' := env opTaskQueues
      if others.length == 0 then (.nil, qs')
      else
        let plan := mkPlan t others
        match qs'.get t.queue with
        | none => (.panic, qs')
        | some items2 =>
          (.res (compactGo plan.combined) plan.mons, qs'.set t.queue (filterStep items2 plan.tasksFilter))

/-- Environment step: other goroutines append tasks (`AddLast`) to queues of the set. -/
def appsFor (apps : List (Nat × List Task)) (n : Nat) : List Task :=
  (apps.filter (·.1 == n)).flatMap (·.2)

def appendEnv (apps : List (Nat × List Task)) : QSet → QSet
  | [] => []
  | (k, v) :: rest => (k, v ++ appsFor apps k) :: appendEnv apps rest

/-! ## The combine decision of `taskHandleHookRun` -/

/-- `hookMeta.IsSynchronization()`: first context is a kubernetes Synchronization. -/
def Task.isSync (t : Task) : Bool :=
  match t.ctxs with
  | [] => false
  | c :: _ => t.btype == 2 && c.typ == 0

/-- `shouldRunHook` (hook config version: 0 = "v0", 1 = "v1"). -/
def shouldRunHook (version : Nat) (t : Task) : Bool :=
  if t.isSync then
    let r := true
    let r := if version == 0 then false else r
    let r := if !t.execOnSync then false else r
    r
  else true

/-- `shouldCombine`: `BindingContext[0].Type == Synchronization && Group == ""` for kubernetes
bindings switches combining off. (The code indexes `[0]`; tasks carry at least one context.) -/
def shouldCombine (t : Task) : Bool :=
  if t.btype == 2 then
    match t.ctxs with
    | c :: _ => if c.typ == 0 && t.group == 0 then false else true
    | [] => true
  else true

/-- The stop-combine predicate `taskHandleHookRun` passes (repaired code): stop at the first task
whose `AllowFailure` differs from the executed task's. The unrepaired code passed `nil`. -/
def stopOnAllowFailureChange (t : Task) : Option (Task → Bool) :=
  some (fun tsk => tsk.allowFailure != t.allowFailure)

/-- Variant for the merge with the C06 repair (group g3), which adds one more condition to the same
closure: a following Synchronization task with `executeHookOnSynchronization: false` is not merged
either. Not used by the drivers until that change is in the tree. -/
def stopOnAllowFailureChangeOrSkippedSync (t : Task) : Option (Task → Bool) :=
  -- first disjunct: C01's repair (fourth wave) in the same closure — a Synchronization task is not
  -- merged with a following task that is not a Synchronization (`isSynchronization` of the executed
  -- task is captured by the closure)
  some (fun tsk => (t.isSync && !tsk.isSync) || (tsk.isSync && !tsk.execOnSync) || tsk.allowFailure != t.allowFailure)

/-- The closure before C01's repair: kept for the witness of the defect (`Props/C01`). -/
def stopBeforeSyncBoundaryRepair (t : Task) : Option (Task → Bool) :=
  some (fun tsk => (tsk.isSync && !tsk.execOnSync) || tsk.allowFailure != t.allowFailure)

/-- The part of `taskHandleHookRun` before the hook is run: returns the task as it is executed
(contexts and monitor ids replaced by the combine result) and the queue set. -/
def prepareRun (stopOf : Task → Option (Task → Bool)) (version : Nat) (qs : QSet) (t : Task)
    (env : QSet → QSet) : Option Task × QSet :=
  if shouldRunHook version t && version == 1 then
    if shouldCombine t then
      match combineGo qs (some t.queue) t (stopOf t) env with
      | (.res ctxs mons, qs') =>
        (some { t with ctxs := ctxs, mons := if mons.length > 0 then mons else t.mons }, qs')
      | (.nil, qs') => (some t, qs')
      | (.panic, qs') => (none, qs')
    else (some t, env qs)
  else (some t, env qs)

/-! ## Hook runs outside the queues: the admission / conversion event closures -/

/-- `controller.BindingExecutionInfo` as `AdmissionBindingsController.HandleEvent` and
`ConversionBindingsController.HandleEvent` return it (the fields an event closure can read). -/
structure ExecInfo where
  ctxs : List Ctx := []
  allowFailure : Bool := false
  group : Nat := 0
  /-- `info.QueueName`: the kubernetes / schedule event handlers pass it to `WithQueueName`, the
  webhook closures do not read it -/
  queueName : Nat := 0
  deriving Repr

/-- The task built by the admission event closure of `initValidatingWebhookManager` and by the closure
in `conversionEventHandler`: `task.NewTask(HookRun).WithMetadata(HookMetadata{HookName, BindingType,
BindingContext, AllowFailure, Binding, Group}).WithLogLabels(…)` — there is no `WithQueueName`, so
`GetQueueName()` is the empty string (`emptyName`); the task is added to no queue. -/
def webhookTask (emptyName id hook btype : Nat) (info : ExecInfo) : Task :=
  { id := id, hook := hook, typ := 0, queue := emptyName, ctxs := info.ctxs,
    allowFailure := info.allowFailure, btype := btype, group := info.group }

/-- `res := op.taskHandler(task)` of those closures, up to the start of the hook. -/
def webhookRun (stopOf : Task → Option (Task → Bool)) (version emptyName id hook btype : Nat)
    (info : ExecInfo) (qs : QSet) (env : QSet → QSet) : Option Task × QSet :=
  prepareRun stopOf version qs (webhookTask emptyName id hook btype info) env

/-! ## Specification: plain list functions -/

namespace Spec

/-- Keep the last context of every run of adjacent contexts with the same non-empty group. -/
def compact : List Ctx → List Ctx
  | [] => []
  | [c] => [c]
  | c :: d :: rest =>
    if c.group ≠ 0 ∧ d.group = c.group then compact (d :: rest) else c :: compact (d :: rest)

/-- A task that may be merged into `t`. -/
def combinable (t : Task) (stopFn : Option (Task → Bool)) (tsk : Task) : Bool :=
  tsk.hasMeta && tsk.hook == t.hook && t.typ == tsk.typ &&
    !(match stopFn with | some f => f tsk | none => false)

/-- The tasks merged into the head task `t` of `t :: rest`. -/
def merged (t : Task) (stopFn : Option (Task → Bool)) (rest : List Task) : List Task :=
  rest.takeWhile (combinable t stopFn)

def contexts (t : Task) (ms : List Task) : List Ctx := compact (t.ctxs ++ ms.flatMap (·.ctxs))

def monitors (t : Task) (ms : List Task) : List Nat := t.mons ++ ms.flatMap (·.mons)

def remainder (t : Task) (stopFn : Option (Task → Bool)) (rest : List Task) : List Task :=
  t :: rest.dropWhile (combinable t stopFn)

end Spec

end ShellOp.Combine
