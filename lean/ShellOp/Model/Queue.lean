/-
Model of `pkg/task/queue/task_queue.go` (the slice-level primitives and the result application of
the worker loop), written the way the Go code computes, plus the ordinary-list specification.

A slot is `Option Id`: `none` is Go's nil `task.Task` interface value in `q.items`. The Go code only
ever looks at `GetId()` of a task, so a task is its id here (ids may repeat).
-/
namespace ShellOp.Queue

abbrev Id := Nat
abbrev Slot := Option Id
abbrev Items := List Slot

/-! ## The code-shaped model -/

/-- `addFirst`: `append([]task.Task{t}, q.items...)`. -/
def addFirst (q : Items) (t : Id) : Items := some t :: q

/-- `addLast`: `append(q.items, t)`. -/
def addLast (q : Items) (t : Id) : Items := q ++ [some t]

/-- `removeFirst`: nil when empty, else `items[0]`, `items = items[1:]`. -/
def removeFirst : Items → Slot × Items
  | [] => (none, [])
  | t :: rest => (t, rest)

/-- `removeLast`: nil when empty, else the last element; `items[:len-1]`. -/
def removeLast (q : Items) : Slot × Items :=
  match q.getLast? with
  | none => (none, q)
  | some t => (t, q.dropLast)

def getFirst (q : Items) : Slot := q.head?.join
def getLast (q : Items) : Slot := q.getLast?.join

/-- `get`: the `for … range` loop returning the first task whose id matches. -/
def get (q : Items) (id : Id) : Slot :=
  match q.find? (· == some id) with
  | some t => t
  | none => none

/-- The loop of `addAfter`: `newItems` has `len+1` slots; while the id is not found slot `i` is
copied; when found the new task is written to `i+1`; afterwards everything is shifted by one.
If the id is never found slot `len` is never written: it stays nil. -/
def addAfterLoop (id new : Id) : Items → Bool → Items
  | [], found => if found then [] else [none]
  | t :: rest, false =>
    if t == some id then t :: some new :: addAfterLoop id new rest true
    else t :: addAfterLoop id new rest false
  | t :: rest, true => t :: addAfterLoop id new rest true

def idFound (q : Items) (id : Id) : Bool := q.any (· == some id)

/-- `addAfter` as in the repaired code: when the id is not in the queue the queue is left as it is
(`if !idFound { return }`); otherwise `q.items = newItems`. -/
def addAfter (q : Items) (id new : Id) : Items :=
  if idFound q id then addAfterLoop id new q false else q

/-- The loop of `addBefore` (same slot discipline). -/
def addBeforeLoop (id new : Id) : Items → Bool → Items
  | [], found => if found then [] else [none]
  | t :: rest, false =>
    if t == some id then some new :: t :: addBeforeLoop id new rest true
    else t :: addBeforeLoop id new rest false
  | t :: rest, true => t :: addBeforeLoop id new rest true

def addBefore (q : Items) (id new : Id) : Items :=
  if idFound q id then addBeforeLoop id new q false else q

/-- `remove`: index of the first match, then `append(items[:i], items[i+1:]...)`. -/
def removeGo : Items → Id → Slot × Items
  | [], _ => (none, [])
  | t :: rest, id =>
    if t == some id then (t, rest)
    else
      let (r, rest') := removeGo rest id
      (r, t :: rest')

def remove (q : Items) (id : Id) : Slot × Items := removeGo q id

/-- `Filter`: keep the tasks for which the predicate holds (predicate = membership of the id). -/
def filter (q : Items) (keep : Id → Bool) : Items :=
  q.filter (fun s => match s with | some i => keep i | none => false)

inductive Status | success | fail | repeat | keep
  deriving DecidableEq, Repr

/-- Result application of the worker loop for the handled task `t` (`Start()`, the
`case Success, Keep:` block): AfterTasks in reverse via `addAfter t`, removal on Success,
HeadTasks in reverse via `addFirst`, TailTasks via `addLast`. `Fail`/`Repeat` leave the queue. -/
def applyResult (q : Items) (t : Id) (st : Status) (head after tail : List Id) : Items :=
  match st with
  | .fail | .repeat => q
  | _ =>
    let q1 := after.reverse.foldl (fun q a => addAfter q t a) q
    let q2 := if st = .success then (remove q1 t).2 else q1
    let q3 := head.reverse.foldl addFirst q2
    tail.foldl addLast q3

/-- Public operations of the queue as one history alphabet. `pick` is the worker taking the head
task (`waitForTask` → `GetFirst`), `result` is the handler's answer for the task picked last. -/
inductive QOp
  | addFirst (t : Id) | addLast (t : Id)
  | addAfter (id t : Id) | addBefore (id t : Id)
  | remove (id : Id) | removeFirst | removeLast
  | filter (keep : List Id)
  | pick
  | result (st : Status) (head after tail : List Id)
  deriving Repr

structure State where
  items : Items := []
  cur : Option Id := none      -- the task handed to the handler and not yet answered
  deriving Repr

def step (s : State) : QOp → State
  | .addFirst t => { s with items := addFirst s.items t }
  | .addLast t => { s with items := addLast s.items t }
  | .addAfter id t => { s with items := addAfter s.items id t }
  | .addBefore id t => { s with items := addBefore s.items id t }
  | .remove id => { s with items := (remove s.items id).2 }
  | .removeFirst => { s with items := (removeFirst s.items).2 }
  | .removeLast => { s with items := (removeLast s.items).2 }
  | .filter keep => { s with items := filter s.items (fun i => keep.contains i) }
  | .pick => match s.cur with
    | some _ => s                         -- the worker is inside the handler: no second pick
    | none => { s with cur := getFirst s.items }
  | .result st h a t => match s.cur with
    | none => s
    | some c => { items := applyResult s.items c st h a t, cur := none }

def run (ops : List QOp) : State := ops.foldl step {}

/-! ## The specification: an ordinary list of ids -/

namespace Spec

def insertAfter : List Id → Id → Id → List Id
  | [], _, _ => []
  | x :: xs, id, new => if x = id then x :: new :: xs else x :: insertAfter xs id new

def insertBefore : List Id → Id → Id → List Id
  | [], _, _ => []
  | x :: xs, id, new => if x = id then new :: x :: xs else x :: insertBefore xs id new

def applyResult (q : List Id) (t : Id) (st : Status) (head after tail : List Id) : List Id :=
  match st with
  | .fail | .repeat => q
  | _ =>
    -- after-tasks, in order, right after the first occurrence of `t` (nothing if `t` is gone)
    let q1 := if t ∈ q then (q.takeWhile (· ≠ t)) ++ t :: after ++ (q.dropWhile (· ≠ t)).tail else q
    let q2 := if st = .success then q1.erase t else q1
    head ++ q2 ++ tail

structure SState where
  items : List Id := []
  cur : Option Id := none

def step (s : SState) : QOp → SState
  | .addFirst t => { s with items := t :: s.items }
  | .addLast t => { s with items := s.items ++ [t] }
  | .addAfter id t => { s with items := insertAfter s.items id t }
  | .addBefore id t => { s with items := insertBefore s.items id t }
  | .remove id => { s with items := s.items.erase id }
  | .removeFirst => { s with items := s.items.tail }
  | .removeLast => { s with items := s.items.dropLast }
  | .filter keep => { s with items := s.items.filter (fun i => keep.contains i) }
  | .pick => match s.cur with
    | some _ => s
    | none => { s with cur := s.items.head? }
  | .result st h a t => match s.cur with
    | none => s
    | some c => { items := applyResult s.items c st h a t, cur := none }

def run (ops : List QOp) : SState := ops.foldl step {}

end Spec

/-! ## Several live queues

A process holds many `TaskQueue` values (main, one per hook queue). `task_queue.go` keeps nothing at
package level that a queue stores tasks in: every `TaskQueue` owns its `items`. A history over a set
of queues is a list of `(queue, operation)`; the operation is applied to the addressed queue. -/

abbrev QSet := Nat → State

def stepAt (qs : QSet) (p : Nat × QOp) : QSet :=
  fun j => if j = p.1 then step (qs j) p.2 else qs j

def runSet (ops : List (Nat × QOp)) : QSet := ops.foldl stepAt (fun _ => {})

/-- The operations of a set history that were addressed to queue `j`, in order. -/
def opsOf (ops : List (Nat × QOp)) (j : Nat) : List QOp :=
  (ops.filter (fun p => p.1 == j)).map (·.2)

end ShellOp.Queue
