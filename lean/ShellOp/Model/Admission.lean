import ShellOp.Generated.Facts
/-!
# Model of the admission webhook chain (C14)

Code-shaped model of
* `string_helper.SafeURLString` (safe_url.go) — on characters;
* `detectConfigurationAndWebhook`, `handleReviewRequest`, `serveReviewRequest`, `errored`
  (pkg/webhook/admission/handler.go);
* `UpdateIds`, `createWebhookPath` (config.go, resource.go);
* `AdmissionBindingsController.EnableValidatingBindings/EnableMutatingBindings/CanHandleEvent/HandleEvent`;
* `Manager.HandleAdmissionEvent` (hook_manager.go) and the event closure of
  `initValidatingWebhookManager` (operator.go): run the task synchronously, `Fail` → deny, missing
  response → error.

Core Lean only. Strings whose characters matter (binding names, paths) are `List Char`; texts that
are only carried (uid, message, warnings, patch) are `String`s.
-/
namespace ShellOp.Admission

abbrev Str := List Char

/-! ## `SafeURLString` -/

def isUpperAscii (c : Char) : Bool := 'A'.toNat ≤ c.toNat && c.toNat ≤ 'Z'.toNat

/-- `strings.ToLower` on the characters this model covers: ASCII letters are lowered; every other
character is assumed to have no ASCII lower-case form (true of all of Unicode except U+0130 and
U+212A, which are the excluded points of this function) -/
def lowerAscii (c : Char) : Char := if isUpperAscii c then Char.ofNat (c.toNat + 32) else c

/-- the class `a-z`, `0-9`, dash, slash (what the second expression keeps) -/
def isSafeChar (c : Char) : Bool :=
  ('a'.toNat ≤ c.toNat && c.toNat ≤ 'z'.toNat) || ('0'.toNat ≤ c.toNat && c.toNat ≤ '9'.toNat) ||
    c = '-' || c = '/'

/-- `([A-Z])` → `-$1` -/
def dashUpper : Str → Str
  | [] => []
  | c :: cs => if isUpperAscii c then '-' :: c :: dashUpper cs else c :: dashUpper cs

/-- `[-]+` → `-` -/
def squeezeDashes : Str → Str
  | [] => []
  | c :: cs =>
    if c = '-' then
      match squeezeDashes cs with
      | '-' :: rest => '-' :: rest
      | rest => '-' :: rest
    else c :: squeezeDashes cs

def safeURL (s : Str) : Str :=
  squeezeDashes (((dashUpper s).map lowerAscii).map (fun c => if isSafeChar c then c else '-'))

/-! ## paths -/

/-- `strings.Split(path, "/")` -/
def splitSlash : Str → List Str
  | [] => [[]]
  | c :: cs =>
    if c = '/' then [] :: splitSlash cs
    else match splitSlash cs with
      | [] => [[c]]
      | p :: ps => (c :: p) :: ps

/-- `strings.Join(parts, "/")` -/
def joinSlash : List Str → Str
  | [] => []
  | [p] => p
  | p :: ps => p ++ '/' :: joinSlash ps

/-- `detectConfigurationAndWebhook`: empty parts are skipped, the first part is the configuration
id, the others joined again are the webhook id -/
def detect (path : Str) : Str × Str :=
  match (splitSlash path).filter (fun p => !p.isEmpty) with
  | [] => ([], [])
  | conf :: rest => (conf, joinSlash rest)

/-- `DefaultConfigurationId` (manager.go), regenerated from the source on every run -/
def defaultConfigurationId : Str := ShellOp.Facts.c14DefaultConfigurationId.toList

/-- `createWebhookPath` after `UpdateIds("", bindingName)` -/
def registeredPath (bindingName : Str) : Str :=
  '/' :: defaultConfigurationId ++ '/' :: safeURL bindingName

/-! ## links: which hook and binding serve a webhook id -/

inductive Kind where
  | validating | mutating
  deriving DecidableEq, Repr

structure Binding where
  kind : Kind
  name : Str
  deriving DecidableEq, Repr

/-- a hook (in `hooksInOrder` order) with its admission bindings in configuration order -/
structure Hook where
  id : Nat
  bindings : List Binding
  deriving DecidableEq, Repr

/-- `c.AdmissionLinks[webhookId] = link` -/
def linkPut (m : List (Str × Binding)) (b : Binding) : List (Str × Binding) :=
  if m.any (fun e => e.1 == safeURL b.name) then
    m.map (fun e => if e.1 = safeURL b.name then (safeURL b.name, b) else e)
  else m ++ [(safeURL b.name, b)]

/-- `AdmissionLinks` of one hook's controller after `EnableValidatingBindings` then
`EnableMutatingBindings`: webhook id → binding; a later binding with the same id overwrites -/
def hookLinks (h : Hook) : List (Str × Binding) :=
  ((h.bindings.filter (fun b => b.kind == .validating)) ++
    (h.bindings.filter (fun b => b.kind == .mutating))).foldl linkPut []

/-- the controller's `ConfigurationId`: `"hooks"` as soon as the hook has an admission binding -/
def hookConf (h : Hook) : Str := if h.bindings.isEmpty then [] else defaultConfigurationId

def canHandle (h : Hook) (conf wid : Str) : Option Binding :=
  if hookConf h ≠ conf then none else ((hookLinks h).find? (fun e => e.1 == wid)).map (·.2)

/-- `HandleAdmissionEvent`: validating hooks in order, then mutating hooks in order; every hit
overwrites `admissionTask` — the last one is run -/
def route (hooks : List Hook) (conf wid : Str) : Option (Nat × Binding) :=
  let vHooks := hooks.filter (fun h => h.bindings.any (fun b => b.kind == .validating))
  let mHooks := hooks.filter (fun h => h.bindings.any (fun b => b.kind == .mutating))
  (vHooks ++ mHooks).foldl (fun acc h =>
    match canHandle h conf wid with
    | some b => some (h.id, b)
    | none => acc) none

/-! ## the hook run and the answer -/

/-- the hook's response file, parsed -/
structure HookResp where
  allowed : Bool
  message : String
  warnings : List String
  patch : String          -- the decoded patch bytes ("" = no patch)
  deriving DecidableEq, Repr

inductive FileContent where
  | empty                      -- zero bytes: `ResponseFromFile` returns nil, nil
  | malformed                  -- not exactly one JSON document of the response shape
  | valid (r : HookResp)
  deriving DecidableEq, Repr

/-- what one run of the hook leaves behind. `othersOk` = the hook's other output files — metric
operations (`$METRICS_PATH`) and object patch operations (`$KUBERNETES_PATCH_PATH`) — were read
(`Hook.Run`) and applied (`handleRunHook`: `ParseOperations`/`ExecuteOperations`, `SendBatch`)
without an error -/
structure Outcome where
  exitZero : Bool
  file : FileContent
  othersOk : Bool
  deriving DecidableEq, Repr

/-- failure texts by origin -/
inductive Reason where
  | hook (msg : String)    -- the hook's own message
  | hookFailed             -- "Hook failed"
  | noHook                 -- "no hook found for …"
  | propError              -- "hook task prop error"
  deriving DecidableEq, Repr

/-- the `response` of the AdmissionReview -/
structure Review where
  uid : String
  allowed : Bool
  code : Nat                    -- result.code (0 = no result)
  reason : Option Reason        -- result.message
  warnings : List String
  patch : String
  jsonPatchType : Bool          -- patchType == "JSONPatch"
  deriving DecidableEq, Repr

inductive Request where
  | garbage                     -- body is not an AdmissionReview
  | noRequest                   -- AdmissionReview without `request`
  | ok (uid : String)
  deriving DecidableEq, Repr

inductive Answer where
  | http400
  | review (r : Review)
  deriving DecidableEq, Repr

/-- what the event closure returns: a Go error, the fixed "Hook failed" denial, or the hook's response -/
inductive EventRet where
  | err (r : Reason)
  | hookFailed
  | resp (r : HookResp)
  deriving DecidableEq, Repr

/-- `taskHandler` → `handleRunHook`: the task ends with status `Fail` when `Hook.Run` returns an
error (non-zero exit, a metrics / response file that cannot be read) or when the object patch
operations or the metric operations cannot be applied afterwards -/
def taskFails (o : Outcome) : Bool :=
  !o.exitZero || o.file == .malformed || !o.othersOk

/-- the `admissionResponse` task prop: set as the very last step of `handleRunHook`, i.e. only when
nothing before it returned an error, and only when the response file was not empty -/
def taskProp (o : Outcome) : Option HookResp :=
  if taskFails o then none
  else match o.file with
    | .valid r => some r
    | _ => none

/-- the closure of `initValidatingWebhookManager`. `run hook binding` = what running that hook for
that binding leaves behind. Returns who was run as well. -/
def eventHandler (hooks : List Hook) (run : Nat → Binding → Outcome) (conf wid : Str) :
    EventRet × Option (Nat × Binding) :=
  match route hooks conf wid with
  | none => (.err .noHook, none)
  | some (h, b) =>
    let o := run h b
    -- `res.Status == "Fail"` is looked at first, the task prop only afterwards
    if taskFails o then (.hookFailed, some (h, b))
    else match taskProp o with
      | none => (.err .propError, some (h, b))     -- no `admissionResponse` prop
      | some r => (.resp r, some (h, b))

/-- `handleReviewRequest` + `errored` + the uid line of `serveReviewRequest` -/
def buildReview (uid : String) : EventRet → Review
  | .err r => ⟨uid, false, 500, some r, [], "", false⟩
  | .hookFailed => ⟨uid, false, 403, some .hookFailed, [], "", false⟩
  | .resp r =>
    ⟨uid, r.allowed, if r.allowed then 0 else 403,
      if r.allowed then none else some (.hook r.message), r.warnings, r.patch, r.patch ≠ ""⟩

/-- the whole chain for one HTTP request; second component = the hook and binding that were run -/
def respond (hooks : List Hook) (run : Nat → Binding → Outcome) (path : Str) :
    Request → Answer × Option (Nat × Binding)
  | .garbage => (.http400, none)
  | .noRequest => (.http400, none)
  | .ok uid =>
    let r := eventHandler hooks run (detect path).1 (detect path).2
    (.review (buildReview uid r.1), r.2)

/-! ## how the hook process ends, and what the executor makes of it

`Hook.Run` starts the hook with `Executor.RunAndLogLines`: `err := e.cmd.Run()`, and `if err != nil`
the run is a failure (`Hook.Run` returns the error, `handleRunHook` ends the task with `Fail`). The
response file is read only afterwards. -/

/-- how the hook process ended (the `syscall.WaitStatus` behind `cmd.ProcessState`): it exited with
a status (0–255), or a signal terminated it (SIGKILL of the OOM killer or of a `timeout` wrapper,
SIGTERM, SIGSEGV of a binary hook …) -/
inductive Ending where
  | exited (status : Nat)
  | signaled (signal : Nat)
  deriving DecidableEq, Repr

/-- `os.ProcessState.ExitCode()`: the exit status; -1 when the process was terminated by a signal -/
def goExitCode : Ending → Int
  | .exited s => (s : Int)
  | .signaled _ => -1

/-- `os.ProcessState.Success()`: `status.Exited() && status.ExitStatus() == 0` -/
def goSuccess : Ending → Bool
  | .exited s => s == 0
  | .signaled _ => false

/-- `err := e.cmd.Run()`: `exec.Cmd.Wait` returns an `*exec.ExitError` exactly when
`!state.Success()` (errors of starting the process and of copying its output are not modelled: the
generated hook file is executable; what it prints on stdout / stderr — the harness makes it print
there — only words the error) -/
def cmdRunErr (e : Ending) : Bool := !goSuccess e

/-- `Executor.RunAndLogLines` returns an error exactly when `cmd.Run` did (`if err != nil`), and
`Hook.Run` hands it on (`if err != nil`) -/
def executorFails (e : Ending) : Bool := cmdRunErr e

/-- "the hook exited zero", as the property says it -/
def Ending.exitedZero : Ending → Bool
  | .exited 0 => true
  | _ => false

/-- one run of a hook as the generator scripts it: how the process ends, what it has written to its
response file by then, and whether its other output files can be applied -/
structure RunDecl where
  ending : Ending
  file : FileContent
  othersOk : Bool
  deriving DecidableEq, Repr

/-- the run as the code sees it: `exitZero` = `RunAndLogLines` returned no error -/
def RunDecl.seen (d : RunDecl) : Outcome := ⟨!executorFails d.ending, d.file, d.othersOk⟩

/-- the run as the property reads it: `exitZero` = the process exited, with status 0 -/
def RunDecl.spec (d : RunDecl) : Outcome := ⟨d.ending.exitedZero, d.file, d.othersOk⟩

/-- do `RunAndLogLines` and `Hook.Run` test the error of the run with `err != nil`? Regenerated from
the sources on every run. -/
def runErrorChecked : Bool :=
  ShellOp.Facts.c14ExecRunFailCond == "err != nil" && ShellOp.Facts.c14HookRunFailCond == "err != nil"

/-! ## the response files of overlapping hook runs

Admission requests are served concurrently by the HTTP server and every request runs its hook
synchronously (`op.taskHandler` inside the event closure, no queue): runs of ONE hook overlap. Each
run gets its response file from `prepareAdmissionResponseFile`, all in one temp directory. -/

/-- the steps of one hook run that touch its admission response file -/
inductive FileEv where
  | prepare (run : Nat)                     -- `prepareAdmissionResponseFile`: (re)create the file, empty
  | write (run : Nat) (c : FileContent)     -- the hook process writes `$VALIDATING_RESPONSE_PATH`
  | finish (run : Nat)                      -- `ResponseFromFile`, then the deferred `os.Remove`
  deriving DecidableEq, Repr

def FileEv.run : FileEv → Nat
  | .prepare r => r
  | .write r _ => r
  | .finish r => r

/-- the temp directory and what every run's `ResponseFromFile` found (`none` = no such file) -/
structure FileSt where
  files : Nat → Option FileContent          -- file name → content
  seen : Nat → List (Option FileContent)    -- run → what it read, per `finish`

def FileSt.init : FileSt := ⟨fun _ => none, fun _ => []⟩

/-- one step; `name run` = the file name `prepareAdmissionResponseFile` chose for that run -/
def fileStep (name : Nat → Nat) (s : FileSt) : FileEv → FileSt
  | .prepare r => { s with files := fun n => if n = name r then some .empty else s.files n }
  | .write r c => { s with files := fun n => if n = name r then some c else s.files n }
  | .finish r =>
    { files := fun n => if n = name r then none else s.files n,
      seen := fun q => if q = r then s.seen r ++ [s.files (name r)] else s.seen q }

def fileExec (name : Nat → Nat) (t : List FileEv) : FileSt := t.foldl (fileStep name) .init

/-- `strings.Contains` -/
def hasInfix (p : Str) : Str → Bool
  | [] => p.isEmpty
  | c :: cs => p.isPrefixOf (c :: cs) || hasInfix p cs

/-- is there a per-run part (a fresh uuid) among the arguments of the file name's format string?
Regenerated from `prepareAdmissionResponseFile` on every run. -/
def perRunResponseFile : Bool :=
  ShellOp.Facts.c14ResponseFileArgs.any (fun a => hasInfix "uuid.NewV4()".toList a.toList)

/-- the file name as a number: hook name and uuid when the name has a per-run part, the hook name
alone otherwise (`hookOf run` = the hook the run belongs to) -/
def responseFileName (perRun : Bool) (hookOf : Nat → Nat) (run : Nat) : Nat :=
  if perRun then 2 * run + 1 else 2 * hookOf run

/-- what a run found, as the response-file part of its `Outcome`: a file that is gone makes
`ResponseFromFile` return an error, like a malformed one -/
def seenFile : Option FileContent → FileContent
  | some c => c
  | none => .malformed

/-! ## the binding context of overlapping requests

`serveReviewRequest` runs once per HTTP request, concurrently; each request goes through
`AdmissionBindingsController.HandleEvent` (which builds the `BindingExecutionInfo` with the
one-element `BindingContext` slice: binding name + the request's `AdmissionReview`), the closure
stores that slice in the task's `HookMetadata`, and only later — after `RateLimitWait` —
`Hook.Run` serialises it into the run's binding context file (`prepareBindingContextJsonFile`, all
files of all runs in one temp directory), which the hook process reads when it starts. In between,
other requests go through `HandleEvent` of the same controller and the same link, and through
`Hook.Run` of the same hook. -/

/-- what a hook process finds in its binding context file: for which binding of which hook, and
the uid of the AdmissionReview request in it -/
structure Handed where
  hook : Nat
  binding : Binding
  uid : String
  deriving DecidableEq, Repr

/-- the steps of a request that touch its binding context -/
inductive CtxEv where
  | hand (run : Nat) (c : Handed)   -- `HandleEvent`: the context is written into the slice the task will hold
  | prepare (run : Nat)             -- `Hook.Run` → `prepareBindingContextJsonFile`: the slice the task holds is written to the run's context file
  | start (run : Nat)               -- the hook process reads `$BINDING_CONTEXT_PATH`
  deriving DecidableEq, Repr

def CtxEv.run : CtxEv → Nat
  | .hand r _ => r
  | .prepare r => r
  | .start r => r

/-- the backing arrays of the `BindingContext` slices (slot → its only element), the binding context
files in the temp directory (name → content) and what every run's process found in its file -/
structure CtxSt where
  slots : Nat → Option Handed
  files : Nat → Option Handed
  given : Nat → List (Option Handed)

def CtxSt.init : CtxSt := ⟨fun _ => none, fun _ => none, fun _ => []⟩

/-- one step; `slot run` = the backing array of the slice `HandleEvent` returned for that run,
`file run` = the name `prepareBindingContextJsonFile` chose for that run -/
def ctxStep (slot file : Nat → Nat) (s : CtxSt) : CtxEv → CtxSt
  | .hand r c => { s with slots := fun n => if n = slot r then some c else s.slots n }
  | .prepare r => { s with files := fun n => if n = file r then s.slots (slot r) else s.files n }
  | .start r => { s with given := fun q => if q = r then s.given r ++ [s.files (file r)] else s.given q }

def ctxExec (slot file : Nat → Nat) (t : List CtxEv) : CtxSt := t.foldl (ctxStep slot file) .init

/-- does every `return` of `HandleEvent` build its `BindingContext` slice in that call (a slice
literal), the element being a struct value declared in the call? Regenerated from the source on
every run. -/
def perRequestContext : Bool :=
  !ShellOp.Facts.c14HandleEventCtxExprs.isEmpty &&
    ShellOp.Facts.c14HandleEventCtxExprs.all (fun e => "[]bctx.BindingContext{".toList.isPrefixOf e.toList) &&
    ShellOp.Facts.c14HandleEventBcType == "bctx.BindingContext"

/-- is there a per-run part (a fresh uuid) among the arguments of the context file name's format
string? Regenerated from `prepareBindingContextJsonFile` on every run. -/
def perRunContextFile : Bool :=
  ShellOp.Facts.c14ContextFileArgs.any (fun a => hasInfix "uuid.NewV4()".toList a.toList)

/-- the backing array as a number: one per `HandleEvent` call when the slice is built in the call,
one per link (hook controller × webhook id) when it is kept with the link -/
def contextSlot (perRequest : Bool) (linkOf : Nat → Nat) (run : Nat) : Nat :=
  if perRequest then 2 * run + 1 else 2 * linkOf run

/-! ## the specification, on one observed exchange -/

/-- no two bindings (of any hooks) share a webhook id, and hook ids are distinct -/
def uniqueIds (hooks : List Hook) : Bool :=
  let all := hooks.flatMap (fun h => h.bindings.map (fun b => (h.id, b)))
  all.all (fun x => all.all (fun y => safeURL x.2.name != safeURL y.2.name || x == y)) &&
    hooks.all (fun h => hooks.all (fun h' => h.id != h'.id || h == h'))

/-- the webhook id survives the trip through the URL: no empty path segment -/
def noEmptySeg (w : Str) : Bool := (splitSlash w).all (fun p => !p.isEmpty)

/-- `(h,b)` registered the path: `b` is a binding of hook `h` and the path leads to its ids -/
def registeredFor (hooks : List Hook) (path : Str) (h : Nat) (b : Binding) : Bool :=
  hooks.any (fun hk => hk.id == h && hk.bindings.contains b) &&
    detect path == (defaultConfigurationId, safeURL b.name)

/-- The property C14 on one exchange: `ans` = what the webhook handler answered, `ran` = the hook
process that ran (and for which binding). `none` = holds. -/
def checkObs (hooks : List Hook) (run : Nat → Binding → Outcome) (path : Str) (req : Request)
    (ans : Answer) (ran : Option (Nat × Binding)) : Option String :=
  match req, ans with
  | .ok uid, .review r =>
    if r.uid ≠ uid then some "the-request-uid-is-not-echoed"
    else if (match ran with
        | some (h, b) => !registeredFor hooks path h b
        | none => false) then some "handed-to-a-hook-or-binding-that-did-not-register-this-path"
    else if uniqueIds hooks && hooks.any (fun hk => hk.bindings.any (fun b =>
        registeredPath b.name == path && noEmptySeg (safeURL b.name) && ran != some (hk.id, b))) then
      some "the-hook-that-registered-this-path-was-not-run"
    else
      match ran with
      | none => if r.allowed then some "allowed-although-no-hook-ran" else none
      | some (h, b) =>
        let o := run h b
        match o.exitZero && o.othersOk, o.file with
        | true, .valid rr =>
          if r.allowed ≠ rr.allowed then some "the-hook's-verdict-is-not-relayed"
          else if r.warnings ≠ rr.warnings then some "the-hook's-warnings-are-not-relayed"
          else if r.patch ≠ rr.patch then some "the-hook's-patch-is-not-relayed"
          else if r.jsonPatchType ≠ (rr.patch ≠ "") then some "patchType-JSONPatch-iff-there-is-a-patch-violated"
          else if !rr.allowed && r.reason ≠ some (.hook rr.message) then some "the-hook's-message-is-not-carried"
          else none
        | _, _ => if r.allowed then some "allowed-although-the-hook-failed-or-wrote-no-valid-response" else none
  | .ok _, .http400 => some "a-decodable-AdmissionReview-was-answered-with-400"
  | _, .review r => if r.allowed then some "allowed-although-the-body-is-not-an-AdmissionReview" else none
  | _, .http400 => if ran.isSome then some "a-hook-ran-for-an-undecodable-body" else none

/-- The hand-over clause of C14 on one observed hook process: the process started for the request
`uid` sent to `path` found `got` in its binding context. `none` = holds. -/
def checkHanded (hooks : List Hook) (path : Str) (uid : String) (got : Handed) : Option String :=
  if got.uid ≠ uid then some "the-hook-process-was-handed-another-request"
  else if !registeredFor hooks path got.hook got.binding then
    some "handed-to-a-hook-or-binding-that-did-not-register-this-path"
  else none

/-! ## the binding context the hook process is started with, and `AllowFailure`

The optional fields of a binding's configuration (`group`, `failurePolicy`, `sideEffects`,
`timeoutSeconds`, selectors) are not named by the property: whatever they are, the request is handed
to the hook as ONE admission context of the registering binding's kind with the review in it, and a
failure anywhere is a denial. -/

/-- the `type` `BindingContext.MapV1` gives the context of an admission binding -/
def kindTypeName : Kind → String
  | .validating => "Validating"
  | .mutating => "Mutating"

/-- The hand-over clause of C14 on one observed hook process, in full: the process started for the
request `uid` (object `sentName`) sent to `path` found `n` binding contexts, the first one for
`got.binding` of `got.hook` with `type` `typ`, the review's request uid `got.uid` and object name
`gotName` (`null` = there is no such field). `none` = holds. -/
def checkHandedCtx (hooks : List Hook) (path : Str) (uid sentName : String) (got : Handed)
    (typ : String) (n : Nat) (gotName : String) : Option String :=
  if n ≠ 1 then some "the-hook-process-did-not-get-exactly-one-binding-context"
  else if typ ≠ kindTypeName got.binding.kind then
    some "the-binding-context-is-not-an-admission-review-of-the-binding's-kind"
  else match checkHanded hooks path uid got with
    | some why => some why
    | none =>
      if gotName ≠ sentName then some "the-request-in-the-binding-context-is-not-the-request-sent"
      else none

/-- `taskHandleHookRun`: an error of `handleRunHook` ends the task with `Fail` — unless the task's
`HookMetadata.AllowFailure` (copied from the `BindingExecutionInfo` that `HandleEvent` returned) is
set: then it ends with `Success` -/
def taskStatusFail (allowFailure : Bool) (o : Outcome) : Bool := taskFails o && !allowFailure

/-- the closure of `initValidatingWebhookManager` with `AllowFailure` as a parameter (`HandleEvent`
does not set it: `eventHandlerAF (fun _ _ => false) = eventHandler`). The `admissionResponse` prop
is stored as the last step of `handleRunHook` (`taskProp`), so a task that "succeeds" because its
failure is allowed has no prop. -/
def eventHandlerAF (allowFailure : Nat → Binding → Bool) (hooks : List Hook) (run : Nat → Binding → Outcome)
    (conf wid : Str) : EventRet × Option (Nat × Binding) :=
  match route hooks conf wid with
  | none => (.err .noHook, none)
  | some (h, b) =>
    let o := run h b
    if taskStatusFail (allowFailure h b) o then (.hookFailed, some (h, b))
    else match taskProp o with
      | none => (.err .propError, some (h, b))
      | some r => (.resp r, some (h, b))

/-- does `HandleEvent` leave `AllowFailure` false in every `BindingExecutionInfo` it returns (not set,
or the literal `false`)? Regenerated from the source on every run. -/
def allowFailureNeverSet : Bool :=
  !ShellOp.Facts.c14HandleEventAllowFailure.isEmpty &&
    ShellOp.Facts.c14HandleEventAllowFailure.all (fun e => e == "false" || e == "<absent>")

/-- is the `admissionResponse` prop stored after every step of `handleRunHook` that can return an
error (no such statement follows the `SetProp`)? Regenerated from the source on every run. -/
def propStoredLast : Bool := ShellOp.Facts.c14RunHookFailsAfterProp.isEmpty

/-- Seeded variant (C14-w6m2, half A): the prop is stored right after the hook run, before the
object patch / metric operations are applied -/
def taskPropEarly (o : Outcome) : Option HookResp :=
  if !o.exitZero || o.file == .malformed then none
  else match o.file with
    | .valid r => some r
    | _ => none

end ShellOp.Admission
