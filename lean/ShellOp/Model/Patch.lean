/-
Model of `pkg/kube/object_patch` (`ParseOperations`, `NewFromOperationSpec`, `ExecuteOperations` and
the per-operation executors of `patch.go`) and of the three lines of `handleRunHook`
(`operator.go`) that apply a hook's patch file, written the way the Go code computes; plus the
short documented `Spec` the property is stated against.

* cluster = association list `key ↦ object`; a key is the interned (resource, namespace, name) - the
  resource (group, version, plural) is what `GroupVersionResource(apiVersion, kind)` answers for the
  apiVersion and kind the document names: a kind served at two versions has two resources, each with
  its own objects (section "addressing" at the end);
  an object is the association list of its payload fields (`data.*` / `spec.*`), values are strings
  `V.s` or integer literals `V.i`.
* The API server (here: `kube-client/fake`, i.e. client-go's object tracker) is the assumed contract
  `apiCreate / apiGet / apiUpdate / apiDelete / apiPatch` below; the JSON-patch / merge-patch / jq
  evaluators enter as the oracle `pf : PatchFn`.
* The OpenAPI validator's verdict per document is the oracle field `Doc.valid`; the two decoders
  (`encoding/json`, `yaml.v3`) are opaque: a stream is either `garbled` (the decoder returned an
  error: nothing is returned) or a list of decoded documents. The one decoder difference the model
  keeps is the Go dynamic type of integer literals inside inline values (`NumRep`): `float64` from
  `encoding/json`, `int` from `yaml.v3` — apimachinery's `DeepCopyJSONValue` panics on `int`.
-/
namespace ShellOp.Patch

abbrev Key := Nat
abbrev Fld := Nat
abbrev Sub := Nat      -- interned subresource string, 0 = ""

inductive V
  | s (n : Nat)   -- a string value
  | i (n : Nat)   -- an integer literal
  deriving DecidableEq, Repr

def V.isInt : V → Bool
  | .i _ => true
  | .s _ => false

/-! ## association lists (first match wins; `aset` replaces) -/

def aget {β : Type} : List (Nat × β) → Nat → Option β
  | [], _ => none
  | (k', v) :: t, k => if k' = k then some v else aget t k

def aerase {β : Type} (l : List (Nat × β)) (k : Nat) : List (Nat × β) :=
  l.filter (fun p => p.1 ≠ k)

def aset {β : Type} (l : List (Nat × β)) (k : Nat) (v : β) : List (Nat × β) :=
  (k, v) :: aerase l k

abbrev Obj := List (Fld × V)
abbrev Cluster := List (Key × Obj)

/-- Same mapping (objects are compared semantically: `equality.Semantic.DeepEqual`). -/
def objEqb (o o' : Obj) : Bool :=
  (o ++ o').all (fun p => aget o p.1 == aget o' p.1)

/-! ## patch bodies and the patch-function oracle -/

inductive PatchKind | merge | json | jq
  deriving DecidableEq, Repr

inductive Edit
  | set (f : Fld) (v : V)       -- merge `{f: v}`, JSON-patch `add`, jq `.f = v`
  | del (f : Fld)               -- merge `{f: null}`, jq `del(.f)`   (absent field: no error)
  | replace (f : Fld) (v : V)   -- JSON-patch `replace` (the library version in use adds an absent member)
  | remove (f : Fld)            -- JSON-patch `remove`  (absent field: error)
  deriving DecidableEq, Repr

abbrev Body := List Edit

/-- The evaluators (evanphx/json-patch, gojq) are opaque: an oracle from kind, body and object to
the new object, `none` = the evaluator reported an error. -/
abbrev PatchFn := PatchKind → Body → Obj → Option Obj

def applyEdit : Edit → Obj → Option Obj
  | .set f v, o => some (aset o f v)
  | .del f, o => some (aerase o f)
  | .replace f v, o => some (aset o f v)   -- evanphx/json-patch v4: `replace` of a missing member adds it
  | .remove f, o => if (aget o f).isSome then some (aerase o f) else none

def applyBody : Body → Obj → Option Obj
  | [], o => some o
  | e :: es, o => match applyEdit e o with
    | none => none
    | some o' => applyBody es o'

/-- The instance of the oracle used by the correspondence driver (the harness generates bodies in
this fragment only). -/
def concretePf : PatchFn := fun _ b o => applyBody b o

/-! ## operations (what `NewFromOperationSpec` builds) -/

/-- Go dynamic type of integer literals inside an inline `object`. -/
inductive NumRep | f64 | int
  deriving DecidableEq, Repr

inductive ObjSrc
  /-- `toUnstructured` fails: a string that is not a manifest. -/
  | bad
  /-- the object, its key, whether `GroupVersionResource(apiVersion, kind)` resolves. -/
  | good (key : Key) (gvr : Bool) (obj : Obj) (rep : NumRep)
  deriving DecidableEq, Repr

inductive Propagation | foreground | background | orphan
  deriving DecidableEq, Repr

inductive Op
  /-- `createOperation{object, ignoreIfExists, updateIfExists}` (its `subresource` is never set from a
  document). -/
  | create (ignoreIfExists updateIfExists : Bool) (src : ObjSrc)
  /-- `deleteOperation{…, deletionPropagation}`; `sub` is what `NewFromOperationSpec` passes on: nothing. -/
  | delete (prop : Propagation) (key : Key) (gvr : Bool) (sub : Sub)
  /-- `patchOperation`; `kind = jq` is the `filterFunc ≠ nil` variant. `body = none`: the patch is a
  string that does not decode (`convertPatchToBytes` fails) / the jq program does not compile. -/
  | patch (kind : PatchKind) (key : Key) (gvr : Bool) (sub : Sub)
      (ignoreMissing ignoreHookError : Bool) (body : Option Body)
  deriving DecidableEq, Repr

/-- Does executing the operation hand an `int` to `DeepCopyJSONValue`? -/
def Op.intTyped : Op → Bool
  | .create _ _ (.good _ _ o .int) => o.any (fun p => p.2.isInt)
  | _ => false

/-! ## the API server contract (object tracker of `kube-client/fake`) -/

inductive Verb | create | get | update | delete | patchMerge | patchJson
  deriving DecidableEq, Repr

structure Action where
  verb : Verb
  key : Key
  sub : Sub
  deriving DecidableEq, Repr

inductive ApiErr | notFound | alreadyExists | other
  deriving DecidableEq, Repr

structure St where
  cluster : Cluster := []
  log : List Action := []
  deriving DecidableEq, Repr

def St.call (st : St) (v : Verb) (k : Key) (s : Sub) : St :=
  { st with log := st.log ++ [⟨v, k, s⟩] }

def apiCreate (c : Cluster) (k : Key) (o : Obj) : Except ApiErr Cluster :=
  if (aget c k).isSome then .error .alreadyExists else .ok (aset c k o)

def apiGet (c : Cluster) (k : Key) : Except ApiErr Obj :=
  match aget c k with
  | some o => .ok o
  | none => .error .notFound

def apiUpdate (c : Cluster) (k : Key) (o : Obj) : Except ApiErr Cluster :=
  if (aget c k).isSome then .ok (aset c k o) else .error .notFound

def apiDelete (c : Cluster) (k : Key) : Except ApiErr Cluster :=
  if (aget c k).isSome then .ok (aerase c k) else .error .notFound

def apiPatch (pf : PatchFn) (c : Cluster) (k : Key) (kind : PatchKind) (b : Body) :
    Except ApiErr Cluster :=
  match aget c k with
  | none => .error .notFound
  | some o => match pf kind b o with
    | none => .error .other
    | some o' => .ok (aset c k o')

/-! ## the executors of `patch.go`, branch by branch -/

inductive Res | ok | err | panic
  deriving DecidableEq, Repr

/-- `executeCreateOperation`. -/
def execCreate (ign upd : Bool) (src : ObjSrc) (st : St) : St × Res :=
  match src with
  | .bad => (st, .err)                                  -- toUnstructured error
  | .good k gvr o rep =>
    if !gvr then (st, .err)                             -- GroupVersionResource error
    else if rep = .int && o.any (fun p => p.2.isInt) then
      (st, .panic)                                      -- `cannot deep copy int` inside the Create call
    else
      let st1 := st.call .create k 0
      match apiCreate st.cluster k o with
      | .ok c' => ({ st1 with cluster := c' }, .ok)
      | .error e =>
        let objectExists := e == .alreadyExists
        if objectExists && ign then (st1, .ok)
        else if objectExists && upd then
          let st2 := st1.call .get k 0
          match apiGet st2.cluster k with
          | .error _ => (st2, .err)
          | .ok _ =>
            let st3 := st2.call .update k 0
            match apiUpdate st3.cluster k o with
            | .ok c' => ({ st3 with cluster := c' }, .ok)
            | .error _ => (st3, .err)
        else (st1, .err)

/-- `executeDeleteOperation`. After a successful foreground delete the code polls `Get` until
NotFound; on the fake tracker the object is gone at once, so exactly one poll is issued (a real API
server may need more polls: the wait loop itself is not modelled, it only reads). -/
def execDelete (prop : Propagation) (k : Key) (gvr : Bool) (sub : Sub) (st : St) : St × Res :=
  if !gvr then (st, .err)
  else
    let st1 := st.call .delete k sub
    match apiDelete st.cluster k with
    | .error e => if e == .notFound then (st1, .ok) else (st1, .err)
    | .ok c' =>
      let st2 : St := { st1 with cluster := c' }
      if prop != .foreground then (st2, .ok)
      else
        let st3 := st2.call .get k 0
        match apiGet st3.cluster k with
        | .error e => if e == .notFound then (st3, .ok) else (st3, .err)
        | .ok _ => (st3, .err)          -- still there after the wait: timeout error (not reachable here)

/-- `executePatchOperation` (merge / JSON patch through the `Patch` API call). -/
def execPatch (pf : PatchFn) (kind : PatchKind) (k : Key) (gvr : Bool) (sub : Sub) (im : Bool)
    (body : Option Body) (st : St) : St × Res :=
  match body with
  | none => (st, .err)                                  -- convertPatchToBytes error
  | some b =>
    if !gvr then (st, .err)
    else
      let st1 := st.call (if kind = .json then .patchJson else .patchMerge) k sub
      match apiPatch pf st.cluster k kind b with
      | .ok c' => ({ st1 with cluster := c' }, .ok)
      | .error e => if im && e == .notFound then (st1, .ok) else (st1, .err)

/-- `executeFilterOperation` (jq patch: Get, filter, Update unless unchanged). -/
def execFilter (pf : PatchFn) (k : Key) (gvr : Bool) (sub : Sub) (im : Bool)
    (body : Option Body) (st : St) : St × Res :=
  if !gvr then (st, .err)
  else
    let st1 := st.call .get k 0
    match apiGet st.cluster k with
    | .error e => if im && e == .notFound then (st1, .ok) else (st1, .err)
    | .ok o =>
      match body.bind (fun b => pf .jq b o) with
      | none => (st1, .err)                             -- filter error
      | some o' =>
        if objEqb o o' then (st1, .ok)                  -- equality.Semantic.DeepEqual: no Update
        else
          let st2 := st1.call .update k sub
          match apiUpdate st2.cluster k o' with
          | .ok c' => ({ st2 with cluster := c' }, .ok)
          | .error _ => (st2, .err)

/-- `ExecuteOperation`: the type switch. -/
def execOne (pf : PatchFn) (op : Op) (st : St) : St × Res :=
  match op with
  | .create ign upd src => execCreate ign upd src st
  | .delete p k gvr sub => execDelete p k gvr sub st
  | .patch kind k gvr sub im _ body =>
    if kind = .jq then execFilter pf k gvr sub im body st
    else execPatch pf kind k gvr sub im body st

structure ExecResult where
  st : St
  nerr : Nat         -- number of errors appended to the multierror
  panicked : Bool
  deriving DecidableEq, Repr

/-- `ExecuteOperations`: the `for` loop; an error is appended and the loop goes on; a panic unwinds. -/
def execute (pf : PatchFn) : List Op → St → Nat → ExecResult
  | [], st, n => ⟨st, n, false⟩
  | op :: rest, st, n =>
    match execOne pf op st with
    | (st', .ok) => execute pf rest st' n
    | (st', .err) => execute pf rest st' (n + 1)
    | (st', .panic) => ⟨st', n, true⟩

/-! ## parsing -/

inductive Form | json | yaml
  deriving DecidableEq, Repr

/-- One decoded document: the validator's verdict and what `NewFromOperationSpec` makes of it, as a
function of the decoder that produced it. -/
structure Doc where
  valid : Bool
  op : Op
  /-- the object/patch is written inline (as opposed to: as a string holding a manifest). -/
  inline : Bool
  deriving DecidableEq, Repr

/-- A document as the hook wrote it: what the typed decoders keep of it, and whether it carries keys
outside the documented set (`additionalProperties: false` in the schema). -/
structure RawDoc where
  doc : Doc
  extraKeys : Bool
  deriving DecidableEq, Repr

/-- Validity as documented by the schema. -/
def RawDoc.documentedValid (r : RawDoc) : Bool := r.doc.valid && !r.extraKeys

/-- The unrepaired decoders decoded straight into the typed `OperationSpec` (no
`DisallowUnknownFields` / `KnownFields`): unknown keys were dropped before the validator saw the
document (regression witness in `Props/C13`). -/
def decodeRawUnrepaired (r : RawDoc) : Doc := r.doc

/-- The number representation a decoder leaves in an inline value. `normalise` is the repair
(`helpers.go`: the YAML-decoded values are passed through JSON). -/
def repOf (normalise : Bool) (f : Form) (inline : Bool) : NumRep :=
  match f with
  | .json => .f64
  | .yaml => if inline && !normalise then .int else .f64

def Op.withRep (r : NumRep) : Op → Op
  | .create ign upd (.good k g o _) => .create ign upd (.good k g o r)
  | op => op

/-- The operation `NewFromOperationSpec` builds from document `d` decoded by decoder `f`. -/
def opOf (normalise : Bool) (f : Form) (d : Doc) : Op :=
  d.op.withRep (repOf normalise f d.inline)

/-- The loop of `ParseOperations`: validate, `break` at the first invalid document. Returns the
operations built so far and whether an error is returned. -/
def parseLoop (normalise : Bool) (f : Form) : List Doc → List Op → List Op × Bool
  | [], acc => (acc, false)
  | d :: rest, acc =>
    if d.valid then parseLoop normalise f rest (acc ++ [opOf normalise f d]) else (acc, true)

/-- A stream as seen after `unmarshalFromJSONOrYAML`. -/
inductive Stream
  | garbled                   -- both decoders returned an error: `nil, err`
  | docs (ds : List Doc)
  deriving DecidableEq, Repr

/-- The repaired decoders (`helpers.go`: `checkKnownField`) return an error for a document carrying
a key the schema does not list — for the whole stream, like any other decoding error. -/
def Stream.ofRaw (rs : List RawDoc) : Stream :=
  if rs.any (·.extraKeys) then .garbled else .docs (rs.map (·.doc))

def parse (normalise : Bool) (f : Form) : Stream → List Op × Bool
  | .garbled => ([], true)
  | .docs ds => parseLoop normalise f ds []

structure HandleResult where
  st : St
  failed : Bool
  executed : Bool    -- was `ExecuteOperations` called
  nerr : Nat
  panicked : Bool
  deriving DecidableEq, Repr

/-- `handleRunHook`, the patch part: `ParseOperations`; on error return it (nothing is applied);
else `ExecuteOperations` and return its error. -/
def handle (pf : PatchFn) (normalise : Bool) (f : Form) (s : Stream) (st : St) : HandleResult :=
  match parse normalise f s with
  | (_, true) => ⟨st, true, false, 0, false⟩
  | (ops, false) =>
    let r := execute pf ops st 0
    ⟨r.st, r.nerr != 0 || r.panicked, true, r.nerr, r.panicked⟩

/-! ## Spec: the documented effect of one operation -/
namespace Spec

/-- Documented effect on the cluster and whether the operation reports a failure. -/
def effect (pf : PatchFn) : Op → Cluster → Cluster × Bool
  | .create _ _ .bad, c => (c, true)
  | .create ign upd (.good k gvr o _), c =>
    if !gvr then (c, true)
    else match aget c k with
      | none => (aset c k o, false)                       -- all three variants create an absent object
      | some _ =>
        if ign then (c, false)                            -- CreateIfNotExists: leave it
        else if upd then (aset c k o, false)              -- CreateOrUpdate: replace it
        else (c, true)                                    -- Create: AlreadyExists
  | .delete _ k gvr _, c =>
    if !gvr then (c, true) else (aerase c k, false)       -- absent object: not an error
  | .patch kind k gvr _ im _ body, c =>
    if kind ≠ .jq && body.isNone then (c, true)
    else if !gvr then (c, true)
    else match aget c k with
      | none => (c, !im)                                  -- missing object: error unless ignoreMissingObject
      | some o =>
        match body.bind (fun b => pf kind b o) with
        | none => (c, true)
        | some o' => (if kind = .jq && objEqb o o' then c else aset c k o', false)

/-- Documented API calls of one operation (the mutating call carries the subresource). -/
def calls (pf : PatchFn) : Op → Cluster → List Action
  | .create _ _ .bad, _ => []
  | .create ign upd (.good k gvr _ _), c =>
    if !gvr then []
    else match aget c k with
      | none => [⟨.create, k, 0⟩]
      | some _ =>
        if ign then [⟨.create, k, 0⟩]
        else if upd then [⟨.create, k, 0⟩, ⟨.get, k, 0⟩, ⟨.update, k, 0⟩]
        else [⟨.create, k, 0⟩]
  | .delete p k gvr sub, c =>
    if !gvr then []
    else if p = .foreground && (aget c k).isSome then [⟨.delete, k, sub⟩, ⟨.get, k, 0⟩]   -- one wait poll
    else [⟨.delete, k, sub⟩]
  | .patch kind k gvr sub _ _ body, c =>
    if kind ≠ .jq && body.isNone then []
    else if !gvr then []
    else if kind = .jq then
      match aget c k with
      | none => [⟨.get, k, 0⟩]
      | some o =>
        match body.bind (fun b => pf .jq b o) with
        | none => [⟨.get, k, 0⟩]
        | some o' => if objEqb o o' then [⟨.get, k, 0⟩] else [⟨.get, k, 0⟩, ⟨.update, k, sub⟩]
    else [⟨if kind = .json then .patchJson else .patchMerge, k, sub⟩]

structure Out where
  cluster : Cluster
  calls : List Action
  nfailed : Nat
  deriving DecidableEq, Repr

/-- Apply every operation once, in order; failures are counted, not fatal. -/
def run (pf : PatchFn) : List Op → Out → Out
  | [], o => o
  | op :: rest, o =>
    let e := effect pf op o.cluster
    run pf rest ⟨e.1, o.calls ++ calls pf op o.cluster, if e.2 then o.nfailed + 1 else o.nfailed⟩

/-- The property for one patch file: what must be observed for documents `ds` (with their validity)
on initial cluster `c`: `(failed, executed, cluster, calls)`. -/
def expected (pf : PatchFn) (garbled : Bool) (ds : List Doc) (c : Cluster) :
    Bool × Bool × Cluster × List Action :=
  if garbled || ds.any (fun d => !d.valid) then (true, false, c, [])
  else
    let o := run pf (ds.map (·.op)) ⟨c, [], 0⟩
    (o.nfailed != 0, true, o.cluster, o.calls)

end Spec

/-! ## histories: other writers and the optimistic lock

`executeCreateOperation` (the `updateIfExists` branch) and `executeFilterOperation` write with
Get … Update under `retry.RetryOnConflict(retry.DefaultBackoff, …)`: when somebody else changed the
object between the Get and the Update the API server answers 409 Conflict and the whole
Get–modify–Update cycle is run again (at most `retrySteps` attempts). The history of the other
clients enters as `Writers`. -/

/-- Other clients of the API server. An entry `(k, b)` is a change `b` somebody else makes to object
`k`; it lands right before this client's next `Update` of `k`, whose resourceVersion is then stale:
that Update is answered 409 Conflict and changes nothing. Entries of one key land in list order. -/
abbrev Writers := List (Key × Body)

def popWriter : Writers → Key → Option (Body × Writers)
  | [], _ => none
  | (k', b) :: t, k =>
    if k' = k then some (b, t)
    else match popWriter t k with
      | none => none
      | some (b', t') => some (b', (k', b) :: t')

/-- The other writer's change as it lands on the stored object (a change that does not apply leaves
the object as it is). -/
def landed (b : Body) (o : Obj) : Obj := (applyBody b o).getD o

inductive UpdRes
  | ok (c : Cluster)
  | conflict (c : Cluster) (ws : Writers)   -- 409: the other writer's change is in, ours is not
  | notFound
  deriving DecidableEq, Repr

/-- `Update` with the optimistic lock, in the presence of other writers. -/
def apiUpdateH (c : Cluster) (ws : Writers) (k : Key) (o : Obj) : UpdRes :=
  match aget c k with
  | none => .notFound
  | some cur =>
    match popWriter ws k with
    | some (b, ws') => .conflict (aset c k (landed b cur)) ws'
    | none => .ok (aset c k o)

/-- `retry.DefaultBackoff.Steps` (client-go: `{Steps: 4, Duration: 10ms, Factor: 5.0, Jitter: 0.1}`):
the closure is run at most this many times; after the last Conflict the Conflict error is returned. -/
def retrySteps : Nat := 4

/-- The closure handed to `RetryOnConflict` by `executeCreateOperation` (Get, copy the
resourceVersion into the hook's object, Update), with the retry loop around it (`fuel` attempts left). -/
def updateAttempts (k : Key) (o : Obj) : Nat → St → Writers → St × Writers × Res
  | 0, st, ws => (st, ws, .err)
  | fuel + 1, st, ws =>
    let st2 := st.call .get k 0
    match apiGet st2.cluster k with
    | .error _ => (st2, ws, .err)
    | .ok _ =>
      let st3 := st2.call .update k 0
      match apiUpdateH st3.cluster ws k o with
      | .ok c' => ({ st3 with cluster := c' }, ws, .ok)
      | .conflict c' ws' => updateAttempts k o fuel { st3 with cluster := c' } ws'
      | .notFound => (st3, ws, .err)

/-- `executeCreateOperation` with other writers around. -/
def execCreateH (ign upd : Bool) (src : ObjSrc) (st : St) (ws : Writers) : St × Writers × Res :=
  match src with
  | .bad => (st, ws, .err)
  | .good k gvr o rep =>
    if !gvr then (st, ws, .err)
    else if rep = .int && o.any (fun p => p.2.isInt) then (st, ws, .panic)
    else
      let st1 := st.call .create k 0
      match apiCreate st.cluster k o with
      | .ok c' => ({ st1 with cluster := c' }, ws, .ok)
      | .error e =>
        let objectExists := e == .alreadyExists
        if objectExists && ign then (st1, ws, .ok)
        else if objectExists && upd then updateAttempts k o retrySteps st1 ws
        else (st1, ws, .err)

/-- The closure handed to `RetryOnConflict` by `executeFilterOperation` (Get, filter THE OBJECT JUST
READ, skip the Update when unchanged, Update), with the retry loop around it. -/
def filterAttempts (pf : PatchFn) (k : Key) (sub : Sub) (im : Bool) (body : Option Body) :
    Nat → St → Writers → St × Writers × Res
  | 0, st, ws => (st, ws, .err)
  | fuel + 1, st, ws =>
    let st1 := st.call .get k 0
    match apiGet st.cluster k with
    | .error e => if im && e == .notFound then (st1, ws, .ok) else (st1, ws, .err)
    | .ok o =>
      match body.bind (fun b => pf .jq b o) with
      | none => (st1, ws, .err)
      | some o' =>
        if objEqb o o' then (st1, ws, .ok)
        else
          let st2 := st1.call .update k sub
          match apiUpdateH st2.cluster ws k o' with
          | .ok c' => ({ st2 with cluster := c' }, ws, .ok)
          | .conflict c' ws' => filterAttempts pf k sub im body fuel { st2 with cluster := c' } ws'
          | .notFound => (st2, ws, .err)

def execFilterH (pf : PatchFn) (k : Key) (gvr : Bool) (sub : Sub) (im : Bool)
    (body : Option Body) (st : St) (ws : Writers) : St × Writers × Res :=
  if !gvr then (st, ws, .err) else filterAttempts pf k sub im body retrySteps st ws

/-- `ExecuteOperation` with other writers around: only the two Get … Update executors meet them (the
`Patch` and `Delete` API calls carry no resourceVersion). -/
def execOneH (pf : PatchFn) (op : Op) (st : St) (ws : Writers) : St × Writers × Res :=
  match op with
  | .create ign upd src => execCreateH ign upd src st ws
  | .delete p k gvr sub => let r := execDelete p k gvr sub st; (r.1, ws, r.2)
  | .patch kind k gvr sub im _ body =>
    if kind = .jq then execFilterH pf k gvr sub im body st ws
    else let r := execPatch pf kind k gvr sub im body st; (r.1, ws, r.2)

structure ExecResultH where
  st : St
  ws : Writers
  nerr : Nat
  panicked : Bool
  deriving DecidableEq, Repr

def executeH (pf : PatchFn) : List Op → St → Writers → Nat → ExecResultH
  | [], st, ws, n => ⟨st, ws, n, false⟩
  | op :: rest, st, ws, n =>
    match execOneH pf op st ws with
    | (st', ws', .ok) => executeH pf rest st' ws' n
    | (st', ws', .err) => executeH pf rest st' ws' (n + 1)
    | (st', ws', .panic) => ⟨st', ws', n, true⟩

def handleH (pf : PatchFn) (normalise : Bool) (f : Form) (s : Stream) (st : St) (ws : Writers) :
    HandleResult :=
  match parse normalise f s with
  | (_, true) => ⟨st, true, false, 0, false⟩
  | (ops, false) =>
    let r := executeH pf ops st ws 0
    ⟨r.st, r.nerr != 0 || r.panicked, true, r.nerr, r.panicked⟩

namespace Spec

/-- Does the documented run of `op` on `c` end with an `Update` under the optimistic lock, and of
which object. -/
def locked (pf : PatchFn) (op : Op) (c : Cluster) : Option Key :=
  ((calls pf op c).find? (fun a => a.verb == .update)).map (·.key)

/-- The Get … Update cycle of the documented calls: what is run again after a Conflict. -/
def cycle (pf : PatchFn) (op : Op) (c : Cluster) : List Action :=
  (calls pf op c).dropWhile (fun a => a.verb != .get)

structure OutH where
  cluster : Cluster
  ws : Writers
  failed : Bool
  calls : List Action
  deriving DecidableEq, Repr

/-- The documented effect of one operation in a history with other writers: the operation is
atomic with respect to them — whenever somebody else gets in before the Update, the operation starts
over ON WHAT IS THERE NOW (so the other writer's change survives and the documented effect is that of
the operation on the changed object); after `fuel` Conflicts in a row it fails and leaves the object
to the others. `first` = the first attempt (all documented calls; later attempts repeat the cycle). -/
def effectH (pf : PatchFn) (op : Op) : Nat → Bool → Cluster → Writers → OutH
  | 0, _, c, ws => ⟨c, ws, true, []⟩
  | fuel + 1, first, c, ws =>
    let e := effect pf op c
    let cs := if first then calls pf op c else cycle pf op c
    match locked pf op c with
    | none => ⟨e.1, ws, e.2, cs⟩
    | some k =>
      match aget c k, popWriter ws k with
      | some cur, some (b, ws') =>
        let r := effectH pf op fuel false (aset c k (landed b cur)) ws'
        ⟨r.cluster, r.ws, r.failed, cs ++ r.calls⟩
      | _, _ => ⟨e.1, ws, e.2, cs⟩

structure RunH where
  cluster : Cluster
  ws : Writers
  calls : List Action
  nfailed : Nat
  deriving DecidableEq, Repr

def runH (pf : PatchFn) : List Op → RunH → RunH
  | [], o => o
  | op :: rest, o =>
    let e := effectH pf op retrySteps true o.cluster o.ws
    runH pf rest ⟨e.cluster, e.ws, o.calls ++ e.calls, if e.failed then o.nfailed + 1 else o.nfailed⟩

/-- The property for one patch file in a history with other writers. -/
def expectedH (pf : PatchFn) (garbled : Bool) (ds : List Doc) (c : Cluster) (ws : Writers) :
    Bool × Bool × Cluster × List Action :=
  if garbled || ds.any (fun d => !d.valid) then (true, false, c, [])
  else
    let o := runH pf (ds.map (·.op)) ⟨c, ws, [], 0⟩
    (o.nfailed != 0, true, o.cluster, o.calls)

end Spec

/-! ## the hook run: a failed hook, and the patch files of overlapping runs

`handleRunHook` gets the bytes of the patch file from `Hook.Run`. When the hook process fails the
error branch (operator.go:660-670) applies — of a patch file that is valid AS A WHOLE — only the
`/status` patches marked `ignoreHookError`; `Hook.Run` as it is written fills in
`KubernetesPatchBytes` only after the process has succeeded, so on the pinned tree that branch sees
no bytes at all. Both are modelled (`rd`: does `Run` hand over what a failed process wrote). -/

/-- `GetPatchStatusOperationsOnHookError`: a `*patchOperation` with `subresource == "/status"` and
`ignoreHookError`; `ss` is the interned string "/status". -/
def Op.onHookError (ss : Sub) : Op → Bool
  | .patch _ _ _ sub _ ihe _ => sub == ss && ihe
  | _ => false

def onHookError (ss : Sub) (ops : List Op) : List Op := ops.filter (Op.onHookError ss)

/-- `Hook.Run`: what it puts into `result.KubernetesPatchBytes` (`none`: left empty). -/
def runBytes (rd hookOk : Bool) (s : Stream) : Option Stream :=
  if hookOk || rd then some s else none

/-- `handleRunHook`: both branches that touch the patch file. -/
def handleRun (pf : PatchFn) (normalise : Bool) (f : Form) (ss : Sub) (hookOk : Bool)
    (bytes : Option Stream) (st : St) (ws : Writers) : HandleResult :=
  if hookOk then
    match bytes with
    | none => ⟨st, false, false, 0, false⟩                     -- len(KubernetesPatchBytes) == 0
    | some s => handleH pf normalise f s st ws
  else
    match bytes with
    | none => ⟨st, true, false, 0, false⟩                      -- return err
    | some s =>
      match parse normalise f s with
      | (_, true) => ⟨st, true, false, 0, false⟩               -- "couldn't patch status": nothing applied
      | (ops, false) =>
        let r := executeH pf (onHookError ss ops) st ws 0
        ⟨r.st, true, true, r.nerr, r.panicked⟩                 -- the hook's error is returned anyway

namespace Spec

/-- The property for ONE EXECUTION of a hook, on what was observed `(failed, view cluster calls)`
(`view`: what the observer sees of the cluster and the API-call log, e.g. their canonical printing):
a successful hook: `expectedH`; a failed hook: the execution fails and — if any document is invalid —
nothing is applied; if all are valid either nothing is applied or exactly the documented
on-hook-error operations are, once each, in document order. -/
def acceptRun {α : Type} [DecidableEq α] (view : Cluster → List Action → α)
    (pf : PatchFn) (ss : Sub) (garbled : Bool) (ds : List Doc) (c : Cluster) (ws : Writers)
    (hookOk : Bool) (obs : Bool × α) : Bool :=
  if hookOk then
    decide (obs = ((expectedH pf garbled ds c ws).1,
      view (expectedH pf garbled ds c ws).2.2.1 (expectedH pf garbled ds c ws).2.2.2))
  else
    obs.1 &&
    (if garbled || ds.any (fun d => !d.valid) then decide (obs.2 = view c [])
     else decide (obs.2 = view c []) ||
       decide (obs.2 = view (runH pf (onHookError ss (ds.map (·.op))) ⟨c, ws, [], 0⟩).cluster
                (runH pf (onHookError ss (ds.map (·.op))) ⟨c, ws, [], 0⟩).calls))

end Spec

/-! ### the patch files of overlapping runs

`Hook.Run` creates the file named `$KUBERNETES_PATCH_PATH` (`prepareObjectPatchFile`: a name with a
fresh uuid, written empty), the hook process writes its documents into it, `Run` reads it back and
removes it. A hook with bindings in several queues is run by several queue workers at the same
time: the steps of the runs interleave arbitrarily. `path r` is the file name of run `r`. -/

abbrev Path := Nat
abbrev Content := List Nat            -- the documents written, interned

inductive FStep
  | prepare                           -- os.WriteFile(path, []byte{}, 0644)
  | write (ds : Content)              -- the hook process: `> $KUBERNETES_PATCH_PATH`
  | read                              -- os.ReadFile(path) -> KubernetesPatchBytes (none: an error)
  | remove                            -- the deferred os.Remove(path)
  deriving DecidableEq, Repr

structure FState where
  files : List (Path × Content) := []
  got : List (Nat × Option Content) := []     -- run ↦ what its ReadFile returned
  deriving DecidableEq, Repr

def fstep (path : Nat → Path) (s : FState) (r : Nat) : FStep → FState
  | .prepare => { s with files := aset s.files (path r) [] }
  | .write ds => { s with files := aset s.files (path r) ds }
  | .read => { s with got := aset s.got r (aget s.files (path r)) }
  | .remove => { s with files := aerase s.files (path r) }

/-- An interleaving of the steps of any number of runs. -/
def frun (path : Nat → Path) : List (Nat × FStep) → FState → FState
  | [], s => s
  | (r, st) :: rest, s => frun path rest (fstep path s r st)

/-! ## successive executions on one cluster and one ObjectPatcher

The operator has a single `ObjectPatcher` for all executions of all hooks. It holds a client and a
logger and nothing else (`patch.go`: `type ObjectPatcher struct { kubeClient; logger }`), so the
patch file of an execution is handled on the cluster the previous execution left and on nothing
more; every execution has its own API-call log. -/

def handleSeq (pf : PatchFn) (normalise : Bool) (f : Form) :
    List (Stream × Writers) → Cluster → List HandleResult
  | [], _ => []
  | (s, ws) :: rest, c =>
    let r := handleH pf normalise f s ⟨c, []⟩ ws
    r :: handleSeq pf normalise f rest r.st.cluster

namespace Spec

/-- The property for successive patch files: each is judged (`expectedH`) on the cluster state the
documented semantics give for the files before it. -/
def runs (pf : PatchFn) : List (Bool × List Doc × Writers) → Cluster →
    List (Bool × Bool × Cluster × List Action)
  | [], _ => []
  | (g, ds, ws) :: rest, c =>
    let e := expectedH pf g ds c ws
    e :: runs pf rest e.2.2.1

end Spec

/-! ## addressing: from the coordinates a document names to the object an API call reaches

`executeCreateOperation`, `executePatchOperation`, `executeFilterOperation` and
`executeDeleteOperation` each start with `o.kubeClient.GroupVersionResource(apiVersion, kind)` for
the apiVersion and kind of THEIR operation and send their API calls to
`Dynamic().Resource(gvr).Namespace(ns)` with the operation's name. The `Key` of an `Op` above is the
interned `Target` computed here, its `gvr` flag is `(target d c).isSome`. -/

/-- What a document names (interned): group and version of its `apiVersion` (version 0 = omitted:
the discovery's preferred version), kind, namespace, name. -/
structure Coord where
  group : Nat
  version : Nat
  kind : Nat
  ns : Nat
  name : Nat
  deriving DecidableEq, Repr

abbrev Resource := Nat   -- an interned GroupVersionResource

/-- `kubeClient.GroupVersionResource` as a function of group, version and kind (the discovery
information of the cluster; `none`: not served). -/
abbrev Discovery := Nat → Nat → Nat → Option Resource

structure Target where
  res : Resource
  ns : Nat
  name : Nat
  deriving DecidableEq, Repr

/-- The documented addressing: the object of that namespace and name under the resource serving
the group, version and kind the document names. -/
def target (d : Discovery) (c : Coord) : Option Target :=
  (d c.group c.version c.kind).map (fun r => ⟨r, c.ns, c.name⟩)

/-- The pinned executors, over all operations of all executions on one patcher: one lookup per operation. -/
def targets (d : Discovery) (cs : List Coord) : List (Option Target) := cs.map (target d)

/-- A patcher that REMEMBERS resolved resources (a field surviving from operation to operation and
from execution to execution) under the key `kf` of the coordinates; failed lookups are not kept. -/
def resolveMemo (kf : Coord → Nat) (d : Discovery) (memo : List (Nat × Resource)) (c : Coord) :
    Option Resource × List (Nat × Resource) :=
  match aget memo (kf c) with
  | some r => (some r, memo)
  | none =>
    match d c.group c.version c.kind with
    | some r => (some r, (kf c, r) :: memo)
    | none => (none, memo)

def targetsMemo (kf : Coord → Nat) (d : Discovery) :
    List (Nat × Resource) → List Coord → List (Option Target)
  | _, [] => []
  | memo, c :: rest =>
    let r := resolveMemo kf d memo c
    (r.1.map (fun r => (⟨r, c.ns, c.name⟩ : Target))) :: targetsMemo kf d r.2 rest

/-! ## the physical layout of the patch file

The property speaks about the documents of the stream; how long a physical line of the file is (a
`jq -c` document with an embedded certificate bundle is ONE line of any length) is not part of it.
`Hook.Run` takes the file with `os.ReadFile`: all bytes, in one piece (`readWhole`). A reader that goes
through the file line by line with a token buffer of `limit` bytes and stops - without reporting it -
at the first line that does not fit (`bufio.Scanner` whose `Err()` nobody looks at) is `readLines`. -/

abbrev Line := List Nat               -- the bytes of one physical line, without its terminator

/-- `os.ReadFile`, seen line by line: every line, whatever its length. -/
def readWhole (ls : List Line) : List Line := ls

/-- Line by line through a buffer of `limit` bytes; the first line that does not fit ends the reading. -/
def readLines (limit : Nat) : List Line → List Line
  | [] => []
  | l :: rest => if l.length < limit then l :: readLines limit rest else []

end ShellOp.Patch
