import ShellOp.Generated.Facts
/-
Model of one hook execution: `Hook.Run` (`pkg/hook/hook.go`), `RunAndLogLines`
(`pkg/executor/executor.go`, only its verdict: non-zero exit → error) and `handleRunHook`
(`pkg/shell-operator/operator.go`), written in the order the Go code works; plus the temp
directory as an abstract list of file names shared by concurrently running executions.

Not modelled (observed by the harness on real processes): process spawning, environment passing,
the working directory, the file system itself. The parsers of the four output files are oracles:
the hook's output enters as what the parser returns (`Outputs`).
-/
namespace ShellOp.HookRun

abbrev Name := Nat

/-! ## what the hook process leaves behind, as seen through the parsers -/

/-- `MetricOperationsFromFile`: read error / decode error, no operations (empty file), or a batch
(`batchValid`: does `ValidateOperations` in `SendBatch` accept it). -/
inductive Metrics
  | err
  | none
  | ops (batchValid : Bool)
  deriving DecidableEq, Repr

/-- `admission.ResponseFromFile` / `conversion.ResponseFromFile`: error, nil (empty file), a response. -/
inductive Resp
  | err
  | none
  | some
  deriving DecidableEq, Repr

/-- The patch file: `os.ReadFile` error, no bytes, bytes that `ParseOperations` rejects (syntax or
validation), bytes that parse (`applyOk`: does `ExecuteOperations` return nil). -/
inductive Patch
  | unreadable
  | empty
  | parseErr
  | ops (applyOk : Bool)
  deriving DecidableEq, Repr

structure Outputs where
  exit : Nat
  metrics : Metrics
  admission : Resp
  conversion : Resp
  patch : Patch
  deriving DecidableEq, Repr

/-! ## the temp directory -/

/-- The five files of an execution in creation order: binding context, metrics, admission response,
conversion response, object patch. -/
structure Names where
  ctx : Name
  metrics : Name
  admission : Name
  conversion : Name
  patch : Name
  deriving DecidableEq, Repr

def Names.created (n : Names) : List Name := [n.ctx, n.metrics, n.admission, n.conversion, n.patch]

/-- Order of the deferred `os.Remove` calls. -/
def Names.removed (n : Names) : List Name := [n.ctx, n.metrics, n.conversion, n.admission, n.patch]

def removeAll (ns : List Name) (dir : List Name) : List Name := dir.filter (fun x => !ns.contains x)

/-- The `prepare…File` calls, one after the other; `oks` says which `os.WriteFile` succeed. The
first failure returns at once. Result: the directory, the names created so far (the path variables
that are non-empty), whether all were created. -/
def prepare : List Name → List Bool → List Name → List Name → List Name × List Name × Bool
  | [], _, dir, cr => (dir, cr, true)
  | n :: ns, [], dir, cr => prepare ns [] (n :: dir) (cr ++ [n])
  | n :: ns, ok :: oks, dir, cr =>
    if ok then prepare ns oks (n :: dir) (cr ++ [n]) else (dir, cr, false)

/-- The deferred removal (registered before the first file is prepared): unless the keep-tmp debug
variable is "yes", `os.Remove` of every path variable that is non-empty, in the code's order. -/
def cleanup (keepTmp : Bool) (names : Names) (created : List Name) (dir : List Name) : List Name :=
  if keepTmp then dir else removeAll (names.removed.filter (fun x => created.contains x)) dir

/-- The condition of the deferred removal, from the value of `--debug-keep-tmp-files`
(`app.DebugKeepTmpFilesVar`, a string, "no" by default): `if app.DebugKeepTmpFilesVar != "yes" { remove }`
— the files are kept iff the value is the literal of that comparison (regenerated from `hook.go`).
`Hook.KeepTemporaryHookFiles` (set by `loadHook` from the bool `app.DebugKeepTmpFiles`, which nothing
assigns) is not read by `Run`. -/
def keepSetting (v : String) : Bool := v == ShellOp.Facts.c12KeepLiteral

/-- The unrepaired `Run` registered the removal only after all five files existed: a failure
half-way left the earlier files behind (regression witness in `Props/C12`). -/
def cleanupUnrepaired (keepTmp : Bool) (names : Names) (allCreated : Bool) (dir : List Name) : List Name :=
  if keepTmp || !allCreated then dir else removeAll names.removed dir

/-! ## `Hook.Run` -/

inductive Stage
  | prepare | exit | metrics | admission | conversion | patchRead   -- where `Run` returned its error
  | none
  deriving DecidableEq, Repr

structure RunResult where
  stage : Stage
  started : Bool              -- was the process spawned
  dir : List Name             -- temp dir afterwards
  metrics : Metrics           -- result.Metrics as handed to handleRunHook (only if no error)
  admission : Resp
  conversion : Resp
  patch : Patch               -- result.KubernetesPatchBytes seen through ParseOperations/ExecuteOperations
  deriving DecidableEq, Repr

def RunResult.failed (r : RunResult) : Bool := r.stage != .none

/-- The body of `Run` after the five files exist: run, then parse in the code's order. -/
def runBody (out : Outputs) : Stage :=
  if out.exit ≠ 0 then .exit
  else if out.metrics = .err then .metrics
  else if out.admission = .err then .admission
  else if out.conversion = .err then .conversion
  else if out.patch = .unreadable then .patchRead
  else .none

/-- `Run`: register the deferred removal, prepare the files, run and parse; the removal runs on
every return path. -/
def run (keepTmp : Bool) (names : Names) (oks : List Bool) (out : Outputs) (dir : List Name) : RunResult :=
  match prepare names.created oks dir [] with
  | (dir1, created, false) =>
    ⟨.prepare, false, cleanup keepTmp names created dir1, .none, .none, .none, .empty⟩
  | (dir1, created, true) =>
    let stage := runBody out
    let dir2 := cleanup keepTmp names created dir1
    if stage = .none then ⟨.none, true, dir2, out.metrics, out.admission, out.conversion, out.patch⟩
    else ⟨stage, true, dir2, .none, .none, .none, .empty⟩   -- on error the patch bytes were not read yet

/-- The temp directory after the unrepaired `Run` (removal registered after the five prepares). -/
def runUnrepairedDir (keepTmp : Bool) (names : Names) (oks : List Bool) (dir : List Name) : List Name :=
  match prepare names.created oks dir [] with
  | (dir1, _, ok) => cleanupUnrepaired keepTmp names ok dir1

/-! ## `handleRunHook` -/

inductive HStage
  | run | patchParse | patchApply | metricsBatch
  | none
  deriving DecidableEq, Repr

structure HandleResult where
  stage : HStage               -- where handleRunHook returned its error
  patchExecuted : Bool         -- ExecuteOperations was called
  metricsSent : Bool           -- SendBatch applied the operations
  admissionProp : Bool         -- t.SetProp("admissionResponse", …)
  conversionProp : Bool
  deriving DecidableEq, Repr

def HandleResult.failed (h : HandleResult) : Bool := h.stage != .none

def handle (r : RunResult) : HandleResult :=
  if r.failed then
    -- `len(result.KubernetesPatchBytes) > 0` never holds here: the bytes are read last in `Run`
    ⟨.run, false, false, false, false⟩
  else
    match r.patch with
    | .parseErr => ⟨.patchParse, false, false, false, false⟩
    | .ops false => ⟨.patchApply, true, false, false, false⟩
    | p =>
      let executed := p = .ops true
      match r.metrics with
      | .ops false => ⟨.metricsBatch, executed, false, false, false⟩
      | m => ⟨.none, executed, m = .ops true, r.admission = .some, r.conversion = .some⟩

/-- `taskHandleHookRun`: a failure is a `Fail` unless the task allows failure. -/
def taskStatusFail (allowFailure : Bool) (h : HandleResult) : Bool := h.failed && !allowFailure

/-! ## Spec: the contract of the property -/
namespace Spec

/-- A malformed output: what `Run`/`handleRunHook` must reject. -/
def malformed (out : Outputs) : Bool :=
  out.metrics = .err || out.admission = .err || out.conversion = .err ||
  out.patch = .unreadable || out.patch = .parseErr

/-- The execution fails iff the exit code is non-zero, or (after a zero exit) an output is malformed
or cannot be applied. -/
def fails (out : Outputs) : Bool :=
  out.exit ≠ 0 || malformed out || out.patch = .ops false || out.metrics = .ops false

/-- What is applied: outputs are applied only by an execution that does not fail — except the patch,
which is applied before the metric batch is validated, and a partially failing patch application. -/
def patchApplied (out : Outputs) : Bool :=
  out.exit = 0 && !malformed out && (out.patch = .ops true || out.patch = .ops false)

/-- The contract as the property words it (used by the oracle on observed executions): failure iff
`fails`; a non-zero exit or a malformed output ⇒ nothing at all is applied; no failure ⇒ every
non-empty output is applied; an execution that fails for a semantic reason (the patch cannot be
applied, the metric batch is rejected) sends no metrics and relays no response — whether its patch
was applied before the failure is left open by the property (the code applies the patch first:
`patchApplied`, `handle_outcome`). -/
def admits (out : Outputs) (allow : Bool) (statusFail p m a c : Bool) : Bool :=
  statusFail == (fails out && !allow) &&
  (if out.exit ≠ 0 || malformed out then !p && !m && !a && !c
   else if fails out then !m && !a && !c
   else p == (out.patch = .ops true) && m == (out.metrics = .ops true) &&
        a == (out.admission = .some) && c == (out.conversion = .some))

def metricsApplied (out : Outputs) : Bool := !fails out && out.metrics = .ops true
def admissionRelayed (out : Outputs) : Bool := !fails out && out.admission = .some
def conversionRelayed (out : Outputs) : Bool := !fails out && out.conversion = .some

end Spec

/-! ## the patch file of a FAILED execution (fourth wave)

`handleRunHook`, error branch: `if result != nil && len(result.KubernetesPatchBytes) > 0 { ParseOperations;
ExecuteOperations(GetPatchStatusOperationsOnHookError(operations)) }` — the documented exception
("IgnoreHookError — allows applying patches for a Status subresource even if the hook fails",
`object_patch/patch.go`). `Run` reads the patch file LAST, after every step that can fail, so on an
error `result.KubernetesPatchBytes` is empty and the branch executes nothing (`RunResult.patch = .empty`
on every failing path of `run`). -/

/-- One parsed operation of the patch file, as the error branch looks at it. -/
structure POp where
  isPatch : Bool          -- the type assertion `op.(*patchOperation)` succeeds (MergePatch / JSONPatch / JQPatch)
  subresource : String    -- `operation.subresource`
  ignore : Bool           -- `operation.ignoreHookError`
  deriving DecidableEq, Repr

/-- `GetPatchStatusOperationsOnHookError`: `for _, op := range operations { if ok && subresource ==
"/status" && ignoreHookError { append } }` — the loop with its accumulator; the literal is regenerated
from `object_patch/operation.go`. -/
def statusOpsOnError : List POp → List POp → List POp
  | [], acc => acc
  | op :: ops, acc =>
    if op.isPatch && op.subresource == ShellOp.Facts.c12OnErrorSubresource && op.ignore
    then statusOpsOnError ops (acc ++ [op]) else statusOpsOnError ops acc

/-- The same loop with the condition `ok && (subresource == "/status" || ignoreHookError)` — what a
De Morgan slip in an early-`continue` rewrite gives (witness in `Props/C12`). -/
def statusOpsOnErrorOr : List POp → List POp → List POp
  | [], acc => acc
  | op :: ops, acc =>
    if op.isPatch && (op.subresource == ShellOp.Facts.c12OnErrorSubresource || op.ignore)
    then statusOpsOnErrorOr ops (acc ++ [op]) else statusOpsOnErrorOr ops acc

/-- The operations of the patch file (`ops`, when the bytes parse) that `handleRunHook` hands to
`ExecuteOperations`. On the error branch `r.patch` is what `Run` left in `result.KubernetesPatchBytes`. -/
def handleOps (r : RunResult) (ops : List POp) : List POp :=
  if r.failed then
    match r.patch with
    | .ops _ => statusOpsOnError ops []      -- `len(bytes) > 0` and `ParseOperations` accepts them
    | _ => []                                 -- no bytes (always, with `run`), or they do not parse: return
  else if (handle r).patchExecuted then ops else []

namespace Spec

/-- Is an operation covered by the documented exception: a patch of the status subresource that the
hook marked `ignoreHookError`. -/
def statusIgnore (o : POp) : Bool := o.isPatch && o.subresource == "/status" && o.ignore

/-- The contract on the operations of the patch file, on what was observed (`applied i` = operation
`i` took effect in the cluster): after a non-zero exit or a malformed output nothing is applied —
except, at most, the operations of the documented exception; an execution that does not fail applies
every operation; one that fails later (rejected metric batch, failing patch) is left open. -/
def admitsOps (out : Outputs) (ops : List POp) (applied : List Bool) : Bool :=
  applied.length == ops.length &&
  (if out.exit ≠ 0 || malformed out then (ops.zip applied).all (fun (o, a) => !a || statusIgnore o)
   else if fails out then true
   else applied.all id)

end Spec

/-! ## concurrent executions sharing the temp directory -/

/-- Slot `k` (creation order: context, metrics, admission, conversion, patch) ↦ its position in the
removal order (context, metrics, conversion, admission, patch), and back (an involution). -/
def rpos : Nat → Nat
  | 2 => 3
  | 3 => 2
  | k => k

/-- Any number of executions sharing one temp directory. `pc i` is the program counter of execution
`i`: `0..4` about to create slot `pc`, `5` the process runs, `6..10` about to remove the slot at
removal position `pc - 6`, `11` finished. -/
structure Sys where
  pc : Nat → Nat
  dir : List Name

/-- Execution `i` performs its next step (file names come from `name i slot`). -/
def sysStep (name : Nat → Nat → Name) (s : Sys) (i : Nat) : Sys :=
  let p := s.pc i
  let bump : Nat → Nat := fun j => if j = i then p + 1 else s.pc j
  if p < 5 then ⟨bump, name i p :: s.dir⟩
  else if p = 5 then ⟨bump, s.dir⟩
  else if p < 11 then ⟨bump, s.dir.filter (fun x => x ≠ name i (rpos (p - 6)))⟩
  else s

/-- A schedule: which execution moves next. -/
def sysRun (name : Nat → Nat → Name) (s : Sys) (sched : List Nat) : Sys :=
  sched.foldl (sysStep name) s

end ShellOp.HookRun
