import ShellOp.Generated.Facts
/-!
# Model of the operator start (C06). Core Lean only.

Code modelled:
* `hook.Manager.GetHooksInOrder(OnStartup)` — the hooks registered for onStartup (in the path order
  `Init` leaves them) sorted by `Config.OnStartup.Order` with `sort.SliceStable`;
* `ShellOperator.bootstrapMainQueue` — onStartup `HookRun` tasks in that order, then per hook in
  `GetHookNames()` order an `EnableKubernetesBindings` task (when it has kubernetes bindings) and an
  `EnableScheduleBindings` task (when it has schedules);
* the main queue worker (`TaskQueue.Start`): handle the head task; `Fail` keeps it at the head (retry),
  `Success` removes it and puts `HeadTasks` in front;
* `taskHandleEnableKubernetesBindings` / `EnableKubernetesBindings` — the loop over the bindings with a
  fault sequence for `AddMonitor` (a failed attempt is retried as a whole); on success one Synchronization `HookRun` task per binding, in binding
  order, as head tasks; `taskHandleHookRun` — the skip rules for Synchronization (v0 — present iff the regenerated
  fact `c06V0SkipRule` —, flag false), the
  no-combine rule for ungrouped Synchronization, `combineBindingContextForHook` (contiguous followers
  of the same hook and task type, stop condition, group compaction), hook outcome from a failure script.

Hooks, bindings, groups are `Nat` identifiers (group 0 = no group). A hook's `name` is the rank of its
path; the hook list is given in path order.
-/
namespace ShellOp.Startup

structure KBinding where
  name : Nat
  group : Nat
  execSync : Bool          -- executeHookOnSynchronization
  deriving DecidableEq, Repr

structure Hook where
  name : Nat
  v1 : Bool                -- configVersion v1 (false: v0)
  onStartup : Option Int   -- ORDER
  kube : List KBinding
  sched : Bool
  /-- fault sequence of this hook's `EnableKubernetesBindings` task (environment, not configuration; kept
  with the hook so that every theorem quantifies over it): the k-th entry is the position of the binding
  whose monitor cannot be created (`AddMonitor` returns an error) in the k-th attempt -/
  kfail : List Nat := []
  deriving Repr

/-- a binding context as the hook sees it during startup -/
inductive Ctx where
  | onStartup
  | sync (binding group : Nat)   -- type Synchronization; rendered "Group" when group ≠ 0
  deriving DecidableEq, Repr

def Ctx.group : Ctx → Nat
  | .onStartup => 0
  | .sync _ g => g

def Ctx.isSync : Ctx → Bool
  | .onStartup => false
  | .sync _ _ => true

inductive TaskType where
  | hookRun | enableKube | enableSched
  deriving DecidableEq, Repr

structure Task where
  typ : TaskType
  hook : Nat
  ctxs : List Ctx := []
  mons : List Nat := []      -- MonitorIDs (one monitor per binding: its name)
  execSync : Bool := false   -- ExecuteOnSynchronization
  group : Nat := 0
  kfail : List Nat := []     -- EnableKubernetesBindings: the remaining fault sequence of this task
  deriving DecidableEq, Repr

/-! ## GetHooksInOrder(OnStartup) -/

def orderOf (h : Hook) : Int := h.onStartup.getD 0

/-- stable insertion: before the first element whose ORDER is not smaller -/
def insertByOrder (a : Hook) : List Hook → List Hook
  | [] => [a]
  | b :: l => if orderOf a ≤ orderOf b then a :: b :: l else b :: insertByOrder a l

/-- `sort.SliceStable(hooks, less = Order <)` (any stable sort computes this list) -/
def stableSortByOrder : List Hook → List Hook
  | [] => []
  | a :: l => insertByOrder a (stableSortByOrder l)

/-- `hm.hooksInOrder[OnStartup]` sorted -/
def getHooksInOrder (hooks : List Hook) : List Hook :=
  stableSortByOrder (hooks.filter (·.onStartup.isSome))

/-! ## bootstrapMainQueue -/

def startupTask (h : Hook) : Task := { typ := .hookRun, hook := h.name, ctxs := [.onStartup] }

def enableTasks (h : Hook) : List Task :=
  (if h.kube.isEmpty then [] else [{ typ := .enableKube, hook := h.name, kfail := h.kfail }]) ++
  (if h.sched then [{ typ := .enableSched, hook := h.name }] else [])

def enableQueue : List Hook → List Task
  | [] => []
  | h :: hs => enableTasks h ++ enableQueue hs

def bootstrap (hooks : List Hook) : List Task :=
  (getHooksInOrder hooks).map startupTask ++ enableQueue hooks

/-! ## The task handlers -/

/-- Synchronization tasks returned by `taskHandleEnableKubernetesBindings` as head tasks -/
def syncTask (h : Nat) (b : KBinding) : Task :=
  { typ := .hookRun, hook := h, ctxs := [.sync b.name b.group], mons := [b.name], execSync := b.execSync, group := b.group }

/-- `kubernetesBindingsController.EnableKubernetesBindings`: the loop over the bindings in configuration
order — `AddMonitor` (an error returns `nil, err` at once: nothing of this attempt is kept), link,
`StartMonitor`, append the binding's Synchronization info. `failAt = some k`: in this attempt `AddMonitor`
of the binding at position `k` fails. Every attempt starts from the first binding again, whatever earlier
attempts have already created. -/
def enableBindings (h : Nat) (failAt : Option Nat) : Nat → List KBinding → Option (List Task)
  | _, [] => some []
  | i, b :: bs =>
    if failAt == some i then none
    else match enableBindings h failAt (i + 1) bs with
      | none => none
      | some ts => some (syncTask h b :: ts)

/-- `HookMetadata.IsSynchronization` -/
def Task.isSync (t : Task) : Bool :=
  match t.ctxs with
  | c :: _ => c.isSync
  | [] => false

/-- the compaction loop of `combineBindingContextForHook`: a context is dropped when the next one has
the same non-empty group -/
def compact : List Ctx → List Ctx
  | [] => []
  | [c] => [c]
  | c :: c' :: rest =>
    if c.group != 0 && c'.group == c.group then compact (c' :: rest) else c :: compact (c' :: rest)

/-- the iteration of `combineBindingContextForHook`: followers of the same hook and task type, up to the
stop condition (`stop`: the stop function passed by `taskHandleHookRun` is present; it stops at a
Synchronization that must not be executed) -/
def combinable (stop : Bool) (t tsk : Task) : Bool :=
  tsk.hook == t.hook && tsk.typ == t.typ && !(stop && tsk.isSync && !tsk.execSync)

def combine (stop : Bool) (t : Task) (rest : List Task) : Option (Task × List Task) :=
  let others := rest.takeWhile (combinable stop t)
  if others.isEmpty then none
  else some ({ t with ctxs := compact (t.ctxs ++ others.flatMap (·.ctxs)), mons := t.mons ++ others.flatMap (·.mons) },
             rest.dropWhile (combinable stop t))

inductive Ev where
  | exec (hook : Nat) (failed : Bool) (ctxs : List Ctx)
  | skip (hook : Nat) (ctxs : List Ctx)       -- Synchronization task finished without running the hook
  | unlock (mons : List Nat)                  -- UnlockKubernetesEventsFor
  | enableKube (hook : Nat)
  | enableKubeFail (hook : Nat) (pos : Nat)   -- a failed attempt of EnableKubernetesBindings: the task stays at the head
  | enableSched (hook : Nat)                  -- the hook's schedules are registered from here on
  deriving DecidableEq, Repr

structure St where
  queue : List Task
  fails : Nat → List Bool     -- remaining failure script per hook (true = the execution fails)
  log : List Ev := []

def findHook (hooks : List Hook) (n : Nat) : Hook :=
  (hooks.find? (·.name == n)).getD { name := n, v1 := true, onStartup := none, kube := [], sched := false }

/-- the rule "There were no Synchronization for v0 hooks, skip hook execution" of `taskHandleHookRun`
(regenerated from operator.go) -/
def v0RuleFact : Bool := Facts.c06V0SkipRule

/-- what `HookConfigV0.ConvertAndCheck` leaves in `ExecuteHookOnSynchronization` of a v0 binding
(regenerated from config_v0.go; a v0 configuration has no such option) -/
def v0FlagFact : Bool := Facts.c06V0SyncFlag

/-- the conversion of a v0 configuration: no groups, the flag is the converter's default -/
def convertV0 (h : Hook) : Hook :=
  if h.v1 then h else { h with kube := h.kube.map fun b => { b with group := 0, execSync := v0FlagFact } }

/-- `taskHandleHookRun` up to the hook execution: (does the hook run, task after combine, queue after combine) -/
def prepare (stop : Bool) (hooks : List Hook) (t : Task) (rest : List Task) : Bool × Task × List Task :=
  let hk := findHook hooks t.hook
  let isSync := t.isSync
  let shouldRun := !(isSync && ((v0RuleFact && !hk.v1) || !t.execSync))
  if shouldRun && hk.v1 then
    -- "Do not combine Synchronizations without group"
    let shouldCombine := !(isSync && t.group == 0)
    if shouldCombine then
      match combine stop t rest with
      | some (t', rest') => (shouldRun, t', rest')
      | none => (shouldRun, t, rest)
    else (shouldRun, t, rest)
  else (shouldRun, t, rest)

/-- one iteration of the main queue worker -/
def step (stop : Bool) (hooks : List Hook) (s : St) : St :=
  match s.queue with
  | [] => s
  | t :: rest =>
    match t.typ with
    | .enableSched => { s with queue := rest, log := s.log ++ [.enableSched t.hook] }
    | .enableKube =>
      match enableBindings t.hook t.kfail.head? 0 (findHook hooks t.hook).kube with
      | none =>     -- `Fail`: retried, the next attempt sees the rest of the fault sequence
        { s with queue := { t with kfail := t.kfail.tail } :: rest,
                 log := s.log ++ [.enableKubeFail t.hook (t.kfail.headD 0)] }
      | some ts =>  -- `Success`: the Synchronization tasks are the head tasks
        { s with queue := ts ++ rest, log := s.log ++ [.enableKube t.hook] }
    | .hookRun =>
      match prepare stop hooks t rest with
      | (false, t', rest') =>
        { s with queue := rest', log := s.log ++ [.skip t'.hook t'.ctxs, .unlock t'.mons] }
      | (true, t', rest') =>
        match s.fails t'.hook with
        | true :: more =>
          { queue := t' :: rest', fails := fun h => if h == t'.hook then more else s.fails h,
            log := s.log ++ [.exec t'.hook true t'.ctxs] }
        | false :: more =>
          { queue := rest', fails := fun h => if h == t'.hook then more else s.fails h,
            log := s.log ++ [.exec t'.hook false t'.ctxs] ++ (if t'.isSync then [.unlock t'.mons] else []) }
        | [] =>
          { s with queue := rest', log := s.log ++ [.exec t'.hook false t'.ctxs] ++ (if t'.isSync then [.unlock t'.mons] else []) }

def runFuel (stop : Bool) (hooks : List Hook) : Nat → St → St
  | 0, s => s
  | n + 1, s => runFuel stop hooks n (step stop hooks s)

/-- the stop condition `taskHandleHookRun` passes to combine (regenerated from operator.go) -/
def stopFact : Bool := Facts.c06StopCombineOnSkippedSync

def initSt (hooks : List Hook) (fails : Nat → List Bool) : St :=
  { queue := bootstrap hooks, fails := fails }

/-- an upper bound on the number of worker iterations of a start -/
def fuelBound (hooks : List Hook) (fails : Nat → List Bool) : Nat :=
  hooks.foldl (fun acc h => acc + 3 + 2 * h.kube.length + (fails h.name).length + h.kfail.length) 1

def run (hooks : List Hook) (fails : Nat → List Bool) : St :=
  runFuel stopFact hooks (fuelBound hooks fails) (initSt hooks fails)

end ShellOp.Startup
