import ShellOp.Model.Trigger
/-!
# Binding contexts (C09). Core Lean only.

Code-shaped part (mirrors the Go code, same order of checks):
* `OFR` / `OFR.map` — `ObjectAndFilterResult` and its `Map()` (types.go);
* `Ctx` / `mapV1` / `mapV0` / `render` / `renderList` — `BindingContext`, `MapV1`, `MapV0`, `Map`,
  `ConvertBindingContextList` (binding_context.go);
* `mkCtx` — the constructors of the controllers (`ConvertKubeEventToBindingContext`, schedule /
  admission / conversion `HandleEvent`, the onStartup lines of `bootstrapMainQueue`);
* `updateSnapshots` — `HookController.UpdateSnapshots`.

Spec part (`Spec`): what docs/src/HOOKS.md, BINDING_VALIDATING.md and BINDING_CONVERSION.md promise
for a context, in terms of the binding configuration and the event only.
-/
namespace ShellOp.BindingContext
open ShellOp.Json ShellOp.Trigger

/-! ## ObjectAndFilterResult -/

/-- The stored `FilterResult interface{}`. -/
inductive FR where
  | nil                                        -- no filter result
  | str (empty : Bool) (asIs : J) (decoded : Option J)
      -- a Go string: is it ""; the string itself as a JSON string; what json.Unmarshal makes of it
  | other (v : J)                              -- any other Go value (map, slice, number, …)
  deriving Repr

structure OFR where
  jqSet : Bool          -- Metadata.JqFilter != ""
  removed : Bool        -- Metadata.RemoveObject
  object : Option J     -- Object (nil pointer = none, printed as null)
  fr : FR
  deriving Repr

def optJ : Option J → J
  | none => .null
  | some j => j

/-- `ObjectAndFilterResult.Map()`: the assignments to `m`, in order. -/
def OFR.map (o : OFR) : List (String × J) :=
  let m := if !o.removed then [("object", optJ o.object)] else []
  match o.jqSet, o.fr with
  | false, .nil => m                                    -- no jqFilter, no filterResult
  | true, .str empty _ d =>
    if empty then m ++ [("filterResult", .null)]
    else match d with
      | none => m ++ [("filterResult", .null)]          -- "Possible bug!!! Cannot unmarshal"
      | some v => m ++ [("filterResult", v)]
  | true, _ => m ++ [("filterResult", .null)]           -- `!ok`: not a string
  | false, .str _ asIs _ => m ++ [("filterResult", asIs)] -- filterFn results are rendered as they are
  | false, .other v => m ++ [("filterResult", v)]

def OFR.json (o : OFR) : J := J.mkObj o.map

/-- What `applyFilter` + `RemoveFullObject` store for an object (repaired code: the JSON text of the
jq result; json.Marshal is assumed never to return an empty text and json.Unmarshal ∘ json.Marshal to
be the identity on the values considered). -/
def ofrOf (cfg : Cfg) (obj : J) : OFR :=
  { jqSet := cfg.filter.isSome
    removed := !cfg.keep
    object := if cfg.keep then some obj else none
    fr := match cfg.filter with
      | none => .nil
      | some f => let v := (f.eval obj).getD .null; .str false (.str v.print) (some v) }

/-- `handleWatchEvent`, jq error on a **Deleted** event ("Delete is always fired"): the event carries a
bare `&ObjectAndFilterResult{Object: obj}` with `Metadata.JqFilter` / `ResourceId` set and no filter
result; the `RemoveFullObject()` call that follows covers it like every other result. -/
def ofrDeletedFallback (cfg : Cfg) (obj : J) : OFR :=
  { jqSet := cfg.filter.isSome
    removed := !cfg.keep
    object := if cfg.keep then some obj else none
    fr := .nil }

/-- The element of `KubeEvent.Objects` `handleWatchEvent` sends for an object: what `applyFilter`
stored, or — the filter failed on the object, which only a Deleted event survives — the fallback. -/
def ofrEvent (cfg : Cfg) (obj : J) : OFR :=
  match project cfg obj with
  | none => ofrDeletedFallback cfg obj
  | some _ => ofrOf cfg obj

/-- Seeded variant (C09-m1): the fallback result is built after the shared "filter + strip" helper, so
`RemoveFullObject` never sees it. -/
def ofrDeletedFallbackUnstripped (cfg : Cfg) (obj : J) : OFR :=
  { jqSet := cfg.filter.isSome, removed := false, object := some obj, fr := .nil }

/-- The unrepaired code stored the `map[string]any` of `jq.ApplyFilter`. -/
def ofrOfUnrepaired (cfg : Cfg) (obj : J) : OFR :=
  { ofrOf cfg obj with
    fr := match cfg.filter with
      | none => .nil
      | some f => .other ((f.evalLegacy obj).getD .null) }

/-! ## The input of the jq program

`applyFilter` calls `fl.ApplyFilterValue(jqFilter, obj.UnstructuredContent())`; `run` (pkg/filter/jq/apply.go)
does not hand the object itself to gojq (gojq normalises numbers in place) but `deepCopy(data)` =
`json.Unmarshal(json.Marshal(data))`: the value rebuilt node by node. -/

mutual
/-- `deepCopy`: a structural copy of the value (every member of every object, every element). -/
def copyJ : J → J
  | .null => .null
  | .bool b => .bool b
  | .num n => .num n
  | .str s => .str s
  | .arr xs => .arr (copyList xs)
  | .obj kvs => .obj (copyKvs kvs)
def copyList : List J → List J
  | [] => []
  | x :: xs => copyJ x :: copyList xs
def copyKvs : List (String × J) → List (String × J)
  | [] => []
  | (k, v) :: kvs => (k, copyJ v) :: copyKvs kvs
end

/-- `ApplyFilterValue` as `run` executes it: the program runs on the private copy of the object. -/
def applyFilterValue (f : Prog) (obj : J) : Option J := f.eval (copyJ obj)

/-- What `applyFilter` + `RemoveFullObject` store, with the call chain into the jq package written out
(`ofrOf` is the same with the program applied to the object directly; `ofrOfRun_eq`). -/
def ofrOfRun (cfg : Cfg) (obj : J) : OFR :=
  { jqSet := cfg.filter.isSome
    removed := !cfg.keep
    object := if cfg.keep then some obj else none
    fr := match cfg.filter with
      | none => .nil
      | some f => let v := (applyFilterValue f obj).getD .null; .str false (.str v.print) (some v) }

def dropKey (k : String) : J → J
  | .obj kvs => .obj (kvs.filter (fun kv => kv.1 ≠ k))
  | j => j

/-- Seeded variant (C09-w6m3): the private copy leaves out `metadata.managedFields` ("the biggest part of
an object, do not serialize it") — the stored and rendered object keeps it. -/
def copySlim : J → J
  | .obj kvs => .obj (kvs.map (fun kv => if kv.1 = "metadata" then (kv.1, dropKey "managedFields" (copyJ kv.2)) else (kv.1, copyJ kv.2)))
  | j => copyJ j

def ofrOfSlim (cfg : Cfg) (obj : J) : OFR :=
  { ofrOf cfg obj with
    fr := match cfg.filter with
      | none => .nil
      | some f => let v := (f.eval (copySlim obj)).getD .null; .str false (.str v.print) (some v) }

/-! ## BindingContext -/

inductive BType where
  | onStartup | schedule | kubernetes | validating | mutating | conversion
  deriving DecidableEq, Repr, Inhabited

structure Ctx where
  btype : BType                               -- Metadata.BindingType
  jqSet : Bool := false                       -- Metadata.JqFilter != ""
  includeSnapshots : List String := []        -- Metadata.IncludeSnapshots
  includeAll : Bool := false                  -- Metadata.IncludeAllSnapshots
  group : String := ""                        -- Metadata.Group
  binding : String
  type : String := ""                         -- "" | "Synchronization" | "Event"
  watchEvent : String := ""
  objects : List OFR := []
  snapshots : List (String × List OFR) := []  -- map[string][]ObjectAndFilterResult
  review : String := ""                       -- AdmissionReview / ConversionReview (opaque: its uid)
  fromVersion : String := ""
  toVersion : String := ""
  deriving Repr

def snapshotsJ (s : List (String × List OFR)) : J :=
  J.mkObj (s.map (fun (k, objs) => (k, .arr (objs.map OFR.json))))

/-- `MapV1`, the "snapshots" step: set when the binding includes snapshots; `{}` when the map is empty. -/
def snapPart (c : Ctx) : List (String × J) :=
  if c.includeSnapshots.length > 0 || c.includeAll then
    [("snapshots", if c.snapshots.length > 0 then snapshotsJ c.snapshots else .obj [])]
  else []

/-- Seeded variant (C09-w3m2): the presence of `snapshots` is read off the filled `Snapshots` map first
("UpdateSnapshots adds a key for every included binding") and off the metadata only for the empty map.
Not equivalent: `UpdateSnapshots` fills the map through the by-name fallback for a context whose own
list is empty. -/
def snapPartFromFilledMap (c : Ctx) : List (String × J) :=
  if c.snapshots.length > 0 then [("snapshots", snapshotsJ c.snapshots)]
  else if c.includeSnapshots.length > 0 || c.includeAll then [("snapshots", .obj [])]
  else []

/-- `MapV1` after the "snapshots" step: the chain of early returns, in the order of the code. -/
def typePart (c : Ctx) : List (String × J) :=
  if c.btype = .validating then [("type", .str "Validating"), ("review", .str c.review)] else
  if c.btype = .mutating then [("type", .str "Mutating"), ("review", .str c.review)] else
  if c.btype = .conversion then
    [("type", .str "Conversion"), ("fromVersion", .str c.fromVersion), ("toVersion", .str c.toVersion),
     ("review", .str c.review)] else
  if c.group ≠ "" then [("type", .str "Group"), ("groupName", .str c.group)] else
  if c.btype = .schedule then [("type", .str "Schedule")] else
  if c.btype ≠ .kubernetes || c.type = "" then [] else
  [("type", J.str c.type)] ++
  (if c.watchEvent ≠ "" then [("watchEvent", J.str c.watchEvent)] else []) ++
  (if c.type = "Synchronization" then
    [("objects", if c.objects.length = 0 then J.arr [] else J.arr (c.objects.map OFR.json))]
  else if c.type = "Event" then
    match c.objects with
    | [] => [("object", J.null)] ++ (if c.jqSet then [("filterResult", J.str "")] else [])
    | o :: _ => o.map          -- for k, v := range objMap { res[k] = v }
  else [])

/-- `MapV1`: the assignments to `res`, in order (onStartup returns right after `binding`). -/
def mapV1 (c : Ctx) : List (String × J) :=
  if c.btype = .onStartup then [("binding", J.str c.binding)]
  else [("binding", J.str c.binding)] ++ snapPart c ++ typePart c

def v0Event : String → String
  | "Added" => "add" | "Modified" => "update" | "Deleted" => "delete" | _ => ""

def strAt (j : J) (p : List String) : J :=
  match getPath j p with
  | some (.str s) => .str s
  | _ => .str ""

/-- `MapV0`; `none` = nil-pointer panic (`bc.Objects[0].Object` is nil). -/
def mapV0 (c : Ctx) : Option (List (String × J)) :=
  let res := [("binding", J.str c.binding)]
  if c.btype ≠ .kubernetes then some res else
  let res := res ++ [("resourceEvent", .str (v0Event c.watchEvent))]
  match c.objects with
  | [] => some res
  | o :: _ =>
    match o.object with
    | none => none
    | some obj => some (res ++ [("resourceNamespace", strAt obj ["metadata", "namespace"]),
                                ("resourceKind", strAt obj ["kind"]),
                                ("resourceName", strAt obj ["metadata", "name"])])

inductive Version where
  | v0 | v1
  deriving DecidableEq, Repr, Inhabited

/-- `BindingContext.Map()`; `none` = panic. -/
def render (v : Version) (c : Ctx) : Option J :=
  match v with
  | .v1 => some (J.mkObj (mapV1 c))
  | .v0 => (mapV0 c).map J.mkObj

def renderAll (v : Version) : List Ctx → Option (List J)
  | [] => some []
  | c :: cs =>
    match render v c, renderAll v cs with
    | some j, some js => some (j :: js)
    | _, _ => none

/-- `ConvertBindingContextList(version, contexts).Json()`: an array, one item per context, in order. -/
def renderList (v : Version) (cs : List Ctx) : Option J := (renderAll v cs).map J.arr

/-! ## The hook's bindings and the cluster -/

structure KBinding where
  name : String
  ns : String
  cfg : Cfg                  -- event types, jq filter, keepFullObjectsInMemory
  group : String := ""
  inc : List String := []    -- effective IncludeSnapshotsFrom (after the loader merged the group)
  deriving Inhabited

inductive OKind where
  | schedule | validating | mutating | conversion
  deriving DecidableEq, Repr, Inhabited

structure OBinding where
  kind : OKind
  name : String
  group : String := ""
  inc : List String := []
  fromV : String := ""
  toV : String := ""
  deriving Inhabited

/-- The objects of the cluster: (namespace, name, object), kept sorted by (namespace, name). -/
abbrev Cluster := List (String × String × J)

structure Hook where
  kbs : List KBinding := []
  obs : List OBinding := []

/-- `MergeArrays(a1, a2)` of the loader: a1, then the members of a2 not seen before. -/
def mergeArrays (a1 a2 : List String) : List String :=
  a1 ++ (a2.foldl (fun acc a => if a ∈ a1 ∨ a ∈ acc then acc else acc ++ [a]) [])

/-- Names of the kubernetes bindings of a group, in configuration order. -/
def groupSnapshots (raw : List (String × String)) (g : String) : List String :=
  if g = "" then [] else (raw.filter (fun kg => kg.2 = g)).map (·.1)

def findKB (h : Hook) (name : String) : Option KBinding := h.kbs.find? (fun b => b.name = name)

/-- `Monitor.Snapshot()` of the monitor of a binding: the objects of its namespace, by name. -/
def snapshotOf (cl : Cluster) (b : KBinding) : List OFR :=
  (cl.filter (fun o => o.1 = b.ns)).map (fun o => ofrOf b.cfg o.2.2)

/-- `SnapshotsFor(bindingName)`: nil when no binding has the name. -/
def snapshotsFor (h : Hook) (cl : Cluster) (name : String) : Option (List OFR) :=
  (findKB h name).map (snapshotOf cl)

/-! ## Where contexts come from -/

inductive Origin where
  | onStartup
  | other (b : OBinding) (uid : String)           -- schedule tick, admission / conversion request
  | kubeSync (b : KBinding)
  | kubeEvent (b : KBinding) (we : WatchEvent) (obj : J)   -- the object as the informer delivered it
  deriving Inhabited

/-- The effective includeSnapshotsFrom list of the binding a context comes from (onStartup has none). -/
def incOf : Origin → List String
  | .onStartup => []
  | .other b _ => b.inc
  | .kubeSync b => b.inc
  | .kubeEvent b _ _ => b.inc

/-- The constructors of the controllers. -/
def mkCtx : Origin → Ctx
  | .onStartup => { btype := .onStartup, binding := "onStartup" }
  | .other b uid =>
    match b.kind with
    | .schedule => { btype := .schedule, binding := b.name, includeSnapshots := b.inc, group := b.group }
    | .validating => { btype := .validating, binding := b.name, includeSnapshots := b.inc, group := b.group, review := uid }
    | .mutating => { btype := .mutating, binding := b.name, includeSnapshots := b.inc, group := b.group, review := uid }
    | .conversion => { btype := .conversion, binding := b.name, includeSnapshots := b.inc, group := b.group, review := uid,
                       fromVersion := b.fromV, toVersion := b.toV }
  | .kubeSync b =>
    { btype := .kubernetes, binding := b.name, type := "Synchronization", objects := [],
      jqSet := b.cfg.filter.isSome, includeSnapshots := b.inc, group := b.group }
  | .kubeEvent b we obj =>
    { btype := .kubernetes, binding := b.name, type := "Event", watchEvent := we.toString,
      objects := [ofrEvent b.cfg obj],
      jqSet := b.cfg.filter.isSome, includeSnapshots := b.inc, group := b.group }

/-- `getIncludeSnapshotsFrom(bindingType, bindingName)`: the first binding of that type with the name. -/
def includeOf (h : Hook) (t : BType) (name : String) : List String :=
  match t with
  | .onStartup => []
  | .kubernetes => ((h.kbs.find? (fun b => b.name = name)).map (·.inc)).getD []
  | .schedule => ((h.obs.find? (fun b => b.kind = .schedule ∧ b.name = name)).map (·.inc)).getD []
  | .validating => ((h.obs.find? (fun b => b.kind = .validating ∧ b.name = name)).map (·.inc)).getD []
  | .mutating => ((h.obs.find? (fun b => b.kind = .mutating ∧ b.name = name)).map (·.inc)).getD []
  | .conversion => ((h.obs.find? (fun b => b.kind = .conversion ∧ b.name = name)).map (·.inc)).getD []

/-- `UpdateSnapshots` for one context (the per-call cache only matters for concurrency: the cluster
is fixed during the call here). -/
def updateSnapshots (h : Hook) (cl : Cluster) (c : Ctx) : Ctx :=
  if h.kbs.isEmpty then c else      -- KubernetesController == nil
  -- the list the context carries from its own binding wins; only an empty one falls back to the
  -- lookup by binding type and name (which finds the *first* binding of that name)
  let inc := if c.includeSnapshots.length = 0 then includeOf h c.btype c.binding else c.includeSnapshots
  -- newBc.Snapshots[name] = …, one assignment per included name (the printer keeps the last per key)
  let snaps := inc.map (fun name => (name, (snapshotsFor h cl name).getD []))
  let c := { c with snapshots := snaps }
  if c.btype = .kubernetes ∧ c.type = "Synchronization" then
    { c with objects := (snapshotsFor h cl c.binding).getD [] }
  else c

/-- What one hook run writes for a list of contexts. -/
def runFile (v : Version) (h : Hook) (cl : Cluster) (os : List Origin) : Option J :=
  renderList v (os.map (fun o => updateSnapshots h cl (mkCtx o)))

/-! ## Conversion links: `EnableConversionBindings` / `HandleEvent` (conversion_bindings_controller.go) -/

/-- `htypes.ConversionConfig`: one kubernetesCustomResourceConversion binding with its `conversions`. -/
structure ConvB where
  name : String
  crd : String
  group : String := ""
  inc : List String := []
  rules : List (String × String) := []     -- Webhook.Rules: (fromVersion, toVersion), configuration order
  deriving Inhabited

/-- `ConversionBindingToWebhookLink`. -/
structure Link where
  binding : String
  inc : List String
  group : String
  fromV : String
  toV : String
  deriving Repr, DecidableEq

/-- `Links map[crdName]map[Rule]*Link` as an association list: an assignment puts the pair in front,
a lookup takes the first pair with the key (= the last assignment). -/
abbrev Links := List ((String × String × String) × Link)

def Links.find (m : Links) (crd : String) (r : String × String) : Option Link :=
  (m.find? (fun kv => kv.1 = (crd, r.1, r.2))).map (·.2)

def linkOf (b : ConvB) (r : String × String) : Link :=
  { binding := b.name, inc := b.inc, group := b.group, fromV := r.1, toV := r.2 }

/-- The inner loop of `EnableConversionBindings`: a fresh link per rule of the binding. -/
def enableRules (b : ConvB) (m : Links) : Links :=
  b.rules.foldl (fun m r => ((b.crd, r.1, r.2), linkOf b r) :: m) m

/-- `EnableConversionBindings`: for every binding, for every rule of it. -/
def enableConversion (bs : List ConvB) : Links := bs.foldl (fun m b => enableRules b m) []

/-- `HandleEvent(crdName, request, rule)`: `none` = "no binding was registered" (no context). -/
def handleConversion (m : Links) (crd : String) (r : String × String) (uid : String) : Option Ctx :=
  (m.find crd r).map (fun l =>
    { btype := .conversion, binding := l.binding, review := uid, fromVersion := l.fromV, toVersion := l.toV,
      includeSnapshots := l.inc, group := l.group })

/-- Seeded variant (C09-w5m1): one link per binding, allocated before the rules loop; the loop only
overwrites its versions and stores the same pointer under every rule key — after the loop every rule of
the binding sees the versions of the last rule. -/
def enableRulesShared (b : ConvB) (m : Links) : Links :=
  match b.rules.getLast? with
  | none => m
  | some last => b.rules.foldl (fun m r => ((b.crd, r.1, r.2), linkOf b last) :: m) m

def enableConversionShared (bs : List ConvB) : Links := bs.foldl (fun m b => enableRulesShared b m) []

/-! ## Spec: the documented contract -/
namespace Spec

/-- The clause "`snapshots` … exactly when the binding includes snapshots", with the content of the
inclusion: the keys of `snapshots` are the names in the binding's own includeSnapshotsFrom plus the
kubernetes bindings of its group — no other binding's, none missing (`shown = none`: the item has no
`snapshots`). In terms of the configuration as written only (`own`, `groupKbs`). -/
def snapKeysClause (own groupKbs : List String) (shown : Option (List String)) : Bool :=
  let want := own ++ groupKbs
  match shown with
  | none => want.isEmpty
  | some ks => !want.isEmpty && ks.all (fun k => want.contains k) && want.all (fun k => ks.contains k)

/-- Names of the kubernetes bindings (name, group as written) that are in group `g`. -/
def groupKbs (raw : List (String × String)) (g : String) : List String :=
  (raw.filter (fun kg => g ≠ "" ∧ kg.2 = g)).map (·.1)

/-- One object as the documentation shows it inside `objects`, `snapshots` or an Event context. -/
structure ObjView where
  object : Option J          -- present exactly when keepFullObjectsInMemory is not false
  filterResult : Option J    -- present exactly when jqFilter is set: the jq result for this object

def ObjView.fields (o : ObjView) : List (String × J) :=
  (match o.object with | some j => [("object", j)] | none => []) ++
  (match o.filterResult with | some j => [("filterResult", j)] | none => [])

def ObjView.json (o : ObjView) : J := J.mkObj o.fields

/-- The view of an object through a kubernetes binding. -/
def viewOf (b : KBinding) (obj : J) : ObjView :=
  { object := if b.cfg.keep then some obj else none
    filterResult := b.cfg.filter.map (fun f => (f.eval obj).getD .null) }

/-- The clause "`filterResult` equal to the jq result for that very object", for one element the
implementation showed together with its full object (the Event item, an element of `objects`, an element
of a snapshot): `shown` is the `filterResult` printed next to `obj` (`none`: the key is absent), `filter`
the jqFilter of the kubernetes binding the element is seen through. Only what is shown and the
configuration: no cluster state, no cache. A filter that fails on the object (only a Deleted event
survives that) shows `null`. -/
def filterResultClause (filter : Option Prog) (obj : J) (shown : Option J) : Bool :=
  shown == filter.map (fun f => (f.eval obj).getD .null)

/-- The snapshot of a binding: the objects of its namespace, ordered by name. -/
def snapshotView (cl : Cluster) (b : KBinding) : List ObjView :=
  (cl.filter (fun o => o.1 = b.ns)).map (fun o => viewOf b o.2.2)

/-- `snapshots`: omitted when the binding includes no snapshots; otherwise one key per included
binding name whose value is the up-to-date snapshot of that binding. -/
def snapshotsField (h : Hook) (cl : Cluster) (inc : List String) : List (String × J) :=
  if inc.isEmpty then [] else
  [("snapshots", J.mkObj (inc.map (fun n =>
      (n, J.arr (((findKB h n).map (fun b => (snapshotView cl b).map ObjView.json)).getD [])))))]

/-- Group contexts: only the type, the group name (and the snapshots). -/
def groupFields (g : String) : List (String × J) := [("type", .str "Group"), ("groupName", .str g)]

/-- The documented fields of a v1 item (field order is irrelevant: items are JSON objects). -/
def fieldsV1 (h : Hook) (cl : Cluster) : Origin → List (String × J)
  | .onStartup => [("binding", .str "onStartup")]
  | .other b uid =>
    [("binding", .str b.name)] ++ snapshotsField h cl b.inc ++
    (match b.kind with
     | .validating => [("type", .str "Validating"), ("review", .str uid)]
     | .mutating => [("type", .str "Mutating"), ("review", .str uid)]
     | .conversion => [("type", .str "Conversion"), ("fromVersion", .str b.fromV), ("toVersion", .str b.toV),
                       ("review", .str uid)]
     | .schedule => if b.group ≠ "" then groupFields b.group else [("type", .str "Schedule")])
  | .kubeSync b =>
    [("binding", .str b.name)] ++ snapshotsField h cl b.inc ++
    (if b.group ≠ "" then groupFields b.group
     else [("type", .str "Synchronization"), ("objects", .arr ((snapshotView cl b).map ObjView.json))])
  | .kubeEvent b we obj =>
    [("binding", .str b.name)] ++ snapshotsField h cl b.inc ++
    (if b.group ≠ "" then groupFields b.group
     else [("type", .str "Event"), ("watchEvent", .str we.toString)] ++ (viewOf b obj).fields)

/-- The v0 item: only `binding`, and for a kubernetes event the legacy resource fields. -/
def fieldsV0 : Origin → List (String × J)
  | .onStartup => [("binding", .str "onStartup")]
  | .other b _ => [("binding", .str b.name)]
  | .kubeSync b => [("binding", .str b.name), ("resourceEvent", .str "")]
  | .kubeEvent b we obj =>
    [("binding", .str b.name), ("resourceEvent", .str (v0Event we.toString)),
     ("resourceNamespace", strAt obj ["metadata", "namespace"]), ("resourceKind", strAt obj ["kind"]),
     ("resourceName", strAt obj ["metadata", "name"])]

def expected (v : Version) (h : Hook) (cl : Cluster) (o : Origin) : J :=
  match v with
  | .v1 => J.mkObj (fieldsV1 h cl o)
  | .v0 => J.mkObj (fieldsV0 o)

/-- The clause "`snapshots` is present exactly when the binding includes snapshots", for one item the
implementation showed (`has` = the item has the key `snapshots`). v0 hooks have no includeSnapshotsFrom. -/
def snapshotsClause (v : Version) (o : Origin) (has : Bool) : Bool :=
  match v with
  | .v1 => has == !(incOf o).isEmpty
  | .v0 => has == false

/-- The documented file: a JSON array, one item per context, in order. -/
def expectedFile (v : Version) (h : Hook) (cl : Cluster) (os : List Origin) : J :=
  .arr (os.map (expected v h cl))

end Spec

end ShellOp.BindingContext
