/-
Model of the delay machinery of `TaskQueue` (task_queue.go): the two flags `waitInProgress` /
`cancelDelay` (guarded by `waitMu`), `CancelTaskDelay()` and the wait loop of `waitForTask`, written
as the code computes:

* `CancelTaskDelay` sets `cancelDelay` only while a wait loop is in progress;
* `waitForTask(sleepDelay)`: shortcut (queue not empty, no delay) returns at once without touching
  the flags; otherwise `waitInProgress = true; cancelDelay = false`, then on every tick of the
  ticker: `elapsed`; a pending cancel sets `waitUntil = elapsed`; `elapsed >= waitUntil` → look at
  the queue: empty → `waitUntil += DelayOnQueueIsEmpty`, else return the head; the deferred function
  clears both flags.

Time is the `elapsed` value the code reads on each tick (an input, any natural number).
Core Lean only.
-/
namespace ShellOp.Wait

/-- `waitInProgress`, `cancelDelay`. -/
structure Flags where
  inProgress : Bool := false
  cancel : Bool := false
  deriving DecidableEq, Repr

/-- `CancelTaskDelay()`. -/
def cancelTaskDelay (f : Flags) : Flags :=
  if f.inProgress then { f with cancel := true } else f

/-- What happens while the wait loop runs: a tick of `checkTicker` (`elapsed` since `waitBegin`,
is the queue empty when looked at), or a `CancelTaskDelay()` call of another goroutine. -/
inductive WEv
  | tick (elapsed : Nat) (queueEmpty : Bool)
  | cancel
  deriving DecidableEq, Repr

/-- The `for` loop of `waitForTask`: `some elapsed` of the tick on which the head task is returned
(`none`: the events ran out, still waiting), and the flags. -/
def loop (emptyDelay : Nat) : Nat → Flags → List WEv → Option Nat × Flags
  | _, f, [] => (none, f)
  | waitUntil, f, .cancel :: r => loop emptyDelay waitUntil (cancelTaskDelay f) r
  | waitUntil, f, .tick e empty :: r =>
    let waitUntil := if f.cancel then e else waitUntil
    if e ≥ waitUntil then
      if empty then loop emptyDelay (waitUntil + emptyDelay) f r
      else (some e, f)
    else loop emptyDelay waitUntil f r

/-- `waitForTask(sleepDelay)`; `nonEmpty` = `!q.IsEmpty()` at the shortcut. -/
def waitForTask (emptyDelay sleepDelay : Nat) (nonEmpty : Bool) (f : Flags) (evs : List WEv) :
    Option Nat × Flags :=
  if nonEmpty && sleepDelay == 0 then (some 0, f)
  else
    let waitUntil := if sleepDelay != 0 then sleepDelay else emptyDelay
    let r := loop emptyDelay waitUntil { inProgress := true, cancel := false } evs
    match r.1 with
    | some e => (some e, { inProgress := false, cancel := false })   -- the deferred function
    | none => (none, r.2)

/-- `n` calls of `CancelTaskDelay()`. -/
def cancels : Nat → Flags → Flags
  | 0, f => f
  | n + 1, f => cancels n (cancelTaskDelay f)

end ShellOp.Wait
