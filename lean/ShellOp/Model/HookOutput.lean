/-
Model of how a hook's *output files* decide whether the run failed (C04: "… or its
patch/metric/response output cannot be parsed or applied").

* `parse` — the JSON grammar `encoding/json` accepts for one value (RFC 8259; blanks = space, \t, \r,
  \n; control characters inside strings rejected), as a fuelled recursive-descent parser over the
  bytes of the file.
* `decodeNext` — one `(*json.Decoder).Decode`: `eof` when only blanks are left, `err` when the next
  bytes are not a complete value, otherwise the value and the unread rest.
* `decodeOp` — `json.Unmarshal` into `operation.MetricOperation` (field names matched case-insensitively,
  unknown keys ignored, `null` leaves a string / clears a pointer, slice or map; a JSON value of
  another type is an `UnmarshalTypeError`, which `Decode` returns).
* `loop` / `fromReader` — `MetricOperationsFromReader`: `for { Decode; io.EOF → break; err → return err;
  shortcut transforms; append }`.
* `validOp` — `ValidateMetricOperation`; `metricsOk` — what `Hook.Run` + `SendBatch` make of the file
  (`MetricOperationsFromFile`: an empty file is "no metrics"; applying validated operations does not
  fail: `CounterAdd`/`GaugeSet`/`HistogramObserve` recover from panics and return nothing).
* `hookOk` — `handleRunHook` returned nil.

Core Lean only.
-/
namespace ShellOp.HookOutput

inductive J where
  | null
  | bool (b : Bool)
  | num
  | str (s : List Char)
  | arr (l : List J)
  | obj (l : List (List Char × J))

def isWs (c : Char) : Bool := c == ' ' || c == '\t' || c == '\n' || c == '\r'

def skipWs (s : List Char) : List Char := s.dropWhile isWs

def isHex (c : Char) : Bool :=
  c.isDigit || ('a' ≤ c && c ≤ 'f') || ('A' ≤ c && c ≤ 'F')

def unescape (c : Char) : Char :=
  if c == 'n' then '\n' else if c == 't' then '\t' else if c == 'r' then '\r'
  else if c == 'b' then Char.ofNat 8 else if c == 'f' then Char.ofNat 12 else c

/-- The rest of a string literal after its opening quote. A `\uXXXX` escape is kept as `?`. -/
def parseStr : Nat → List Char → List Char → Option (List Char × List Char)
  | 0, _, _ => none
  | _ + 1, [], _ => none
  | f + 1, c :: r, acc =>
    if c == '"' then some (acc.reverse, r)
    else if c == '\\' then
      match r with
      | 'u' :: a :: b :: c' :: d :: r' =>
        if isHex a && isHex b && isHex c' && isHex d then parseStr f r' ('?' :: acc) else none
      | e :: r' =>
        if e == '"' || e == '\\' || e == '/' || e == 'b' || e == 'f' || e == 'n' || e == 'r' || e == 't'
        then parseStr f r' (unescape e :: acc) else none
      | [] => none
    else if c.toNat < 32 then none
    else parseStr f r (c :: acc)

/-- `(\.[0-9]+)?([eE][+-]?[0-9]+)?` -/
def fracExp (r : List Char) : Option (List Char) :=
  let r1 : Option (List Char) :=
    match r with
    | '.' :: d :: r' => if d.isDigit then some (r'.dropWhile Char.isDigit) else none
    | '.' :: [] => none
    | _ => some r
  match r1 with
  | none => none
  | some [] => some []
  | some (e :: r2) =>
    if e == 'e' || e == 'E' then
      let r3 := match r2 with
        | '+' :: x => x
        | '-' :: x => x
        | _ => r2
      match r3 with
      | d :: r4 => if d.isDigit then some (r4.dropWhile Char.isDigit) else none
      | [] => none
    else some (e :: r2)

/-- `-?(0|[1-9][0-9]*)` followed by `fracExp`; returns the unread rest. -/
def parseNum (s : List Char) : Option (List Char) :=
  let s1 := match s with
    | '-' :: r => r
    | _ => s
  match s1 with
  | [] => none
  | c :: r =>
    if c == '0' then fracExp r
    else if c.isDigit then fracExp (r.dropWhile Char.isDigit)
    else none

inductive Mode where
  | value
  | elems (acc : List J)                  -- inside `[`, before an element
  | members (acc : List (List Char × J))  -- inside `{`, before a key

/-- One JSON value (mode `value`; leading blanks allowed), the rest of an array, the rest of an object. -/
def parse : Nat → Mode → List Char → Option (J × List Char)
  | 0, _, _ => none
  | f + 1, .value, cs =>
    match skipWs cs with
    | [] => none
    | c :: r =>
      if c == '{' then
        match skipWs r with
        | '}' :: r' => some (.obj [], r')
        | r' => parse f (.members []) r'
      else if c == '[' then
        match skipWs r with
        | ']' :: r' => some (.arr [], r')
        | r' => parse f (.elems []) r'
      else if c == '"' then
        match parseStr (r.length + 1) r [] with
        | some (s, r') => some (.str s, r')
        | none => none
      else if c == 't' then
        match r with
        | 'r' :: 'u' :: 'e' :: r' => some (.bool true, r')
        | _ => none
      else if c == 'f' then
        match r with
        | 'a' :: 'l' :: 's' :: 'e' :: r' => some (.bool false, r')
        | _ => none
      else if c == 'n' then
        match r with
        | 'u' :: 'l' :: 'l' :: r' => some (.null, r')
        | _ => none
      else
        match parseNum (c :: r) with
        | some r' => some (.num, r')
        | none => none
  | f + 1, .elems acc, cs =>
    match parse f .value cs with
    | none => none
    | some (v, r) =>
      match skipWs r with
      | ',' :: r' => parse f (.elems (acc ++ [v])) r'
      | ']' :: r' => some (.arr (acc ++ [v]), r')
      | _ => none
  | f + 1, .members acc, cs =>
    match skipWs cs with
    | '"' :: r =>
      match parseStr (r.length + 1) r [] with
      | none => none
      | some (k, r1) =>
        match skipWs r1 with
        | ':' :: r2 =>
          match parse f .value r2 with
          | none => none
          | some (v, r3) =>
            match skipWs r3 with
            | ',' :: r4 => parse f (.members (acc ++ [(k, v)])) r4
            | '}' :: r4 => some (.obj (acc ++ [(k, v)]), r4)
            | _ => none
        | _ => none
    | _ => none

/-- Enough fuel for any input: every recursive call but one in two consumes a byte. -/
def fuelFor (s : List Char) : Nat := 2 * s.length + 4

inductive DecRes where
  | eof
  | err
  | doc (v : J) (rest : List Char)

/-- One `dec.Decode(&v)`. -/
def decodeNext (s : List Char) : DecRes :=
  match skipWs s with
  | [] => .eof
  | r =>
    match parse (fuelFor r) .value r with
    | none => .err
    | some (v, rest) => .doc v rest

/-! ## `operation.MetricOperation` -/

structure MetricOp where
  name : List Char := []
  add : Bool := false        -- `Add != nil`
  set : Bool := false
  value : Bool := false
  buckets : Bool := false    -- `Buckets != nil`
  group : List Char := []
  action : List Char := []
  deriving DecidableEq, Repr

def lower (k : List Char) : List Char := k.map Char.toLower

def isNumOrNull : J → Bool
  | .num => true
  | .null => true
  | _ => false

def isStrOrNull : J → Bool
  | .str _ => true
  | .null => true
  | _ => false

/-- One `"key": value` pair of the document stored into the struct (`none`: `UnmarshalTypeError`). -/
def setField (op : MetricOp) (k : List Char) (v : J) : Option MetricOp :=
  let k := lower k
  let strF (f : List Char → MetricOp) : Option MetricOp :=
    match v with
    | .null => some op
    | .str s => some (f s)
    | _ => none
  let ptrF (f : Bool → MetricOp) : Option MetricOp :=
    match v with
    | .null => some (f false)
    | .num => some (f true)
    | _ => none
  if k == "name".toList then strF fun s => { op with name := s }
  else if k == "group".toList then strF fun s => { op with group := s }
  else if k == "action".toList then strF fun s => { op with action := s }
  else if k == "add".toList then ptrF fun b => { op with add := b }
  else if k == "set".toList then ptrF fun b => { op with set := b }
  else if k == "value".toList then ptrF fun b => { op with value := b }
  else if k == "buckets".toList then
    match v with
    | .null => some { op with buckets := false }
    | .arr l => if l.all isNumOrNull then some { op with buckets := true } else none
    | _ => none
  else if k == "labels".toList then
    match v with
    | .null => some op
    | .obj l => if l.all (fun kv => isStrOrNull kv.2) then some op else none
    | _ => none
  else some op

/-- `json.Unmarshal(document, &MetricOperation{})`. -/
def decodeOp : J → Option MetricOp
  | .null => some {}
  | .obj l => l.foldl (fun acc kv => acc.bind fun op => setField op kv.1 kv.2) (some {})
  | _ => none

/-- The "shortcut transforms" of `MetricOperationsFromReader`. -/
def shortcut (op : MetricOp) : MetricOp :=
  let op := if op.set && !op.add then { op with action := "set".toList, value := true } else op
  if op.add && !op.set then { op with action := "add".toList, value := true } else op

/-- The loop of `MetricOperationsFromReader` (`none` = it returned an error). The guard says that a
decoded document has consumed input; it is what makes `n` iterations enough for `n` bytes. -/
def loop : Nat → List Char → Option (List MetricOp)
  | 0, _ => none
  | f + 1, s =>
    match decodeNext s with
    | .eof => some []
    | .err => none
    | .doc v rest =>
      if rest.length < s.length then
        match decodeOp v with
        | none => none
        | some op => (loop f rest).map (shortcut op :: ·)
      else none

def fromReader (s : List Char) : Option (List MetricOp) := loop (s.length + 1) s

def validOp (op : MetricOp) : Bool :=
  let a := op.action
  let set := "set".toList
  let add := "add".toList
  let observe := "observe".toList
  let expire := "expire".toList
  !( a == []
    || (op.group == [] && a != set && a != add && a != observe)
    || (op.group != [] && a != expire && a != set && a != add)
    || (op.name == [] && op.group == [])
    || (op.name == [] && op.group != [] && a != expire)
    || ((a == set || a == add || a == observe) && !op.value)
    || (a == observe && !op.buckets)
    || (op.set && op.add))

/-- The metrics file is accepted: `MetricOperationsFromFile` returns no error and `SendBatch`
(`ValidateOperations`) accepts every operation. -/
def metricsOk (file : List Char) : Bool :=
  if file.isEmpty then true
  else
    match fromReader file with
    | none => false
    | some ops => ops.all validOp

/-! ## The kubernetes patch file (`objectpatch.ParseOperations`)

`unmarshalFromJSONOrYAML` first reads the file as a stream of JSON documents (`unmarshalFromJson`: the
same `Decode` loop, every document unmarshalled into `OperationSpec`, every key checked against the
schema's properties) and, when that fails, as a stream of YAML documents. YAML is not modelled:
`patchVerdict` answers only where the outcome does not depend on it — `some true` for a JSON stream of
documents of the understood shapes, `some false` where the JSON reading fails *and* the bracket
structure outside double-quoted strings is broken (a closer without its opener, an opener never
closed, an unterminated string, text after a complete top-level collection), which no YAML flow
collection survives either, or where a document has no usable `operation`; `none` otherwise. -/

/-- `unmarshalFromJson`'s loop without the per-document checks: the documents of a JSON stream. -/
def docsLoop : Nat → List Char → Option (List J)
  | 0, _ => none
  | f + 1, s =>
    match decodeNext s with
    | .eof => some []
    | .err => none
    | .doc v rest =>
      if rest.length < s.length then (docsLoop f rest).map (v :: ·) else none

def jsonDocs (s : List Char) : Option (List J) := docsLoop (s.length + 1) s

def lookup (k : String) (l : List (List Char × J)) : Option J :=
  (l.find? (fun kv => kv.1 == k.toList)).map (·.2)

def isNonEmptyStr : Option J → Bool
  | some (.str s) => !s.isEmpty
  | _ => false

def isObj : Option J → Bool
  | some (.obj _) => true
  | _ => false

def knownSpecKeys : List String :=
  ["operation", "apiVersion", "kind", "namespace", "name", "subresource", "object", "jqFilter",
   "mergePatch", "jsonPatch", "ignoreMissingObject", "ignoreHookError"]

def operationTypes : List String :=
  ["CreateOrUpdate", "Create", "CreateIfNotExists", "Delete", "DeleteInBackground", "DeleteNonCascading",
   "JQPatch", "MergePatch", "JSONPatch"]

/-- One document of the patch file: `some true` = a valid operation spec of an understood shape,
`some false` = certainly rejected (not a mapping, unknown key, no `operation` out of the enum),
`none` = not decided here. -/
def specVerdict : J → Option Bool
  | .obj l =>
    if l.any (fun kv => !knownSpecKeys.any (fun k => k.toList == kv.1)) then some false
    else
      match lookup "operation" l with
      | some (.str op) =>
        if !operationTypes.any (fun k => k.toList == op) then some false
        else
          let keys := l.map (·.1)
          let only (ks : List String) : Bool := keys.all fun k => ks.any (fun x => x.toList == k)
          let nodup : Bool := keys.eraseDups.length == keys.length
          if !nodup then none
          else if (op == "CreateOrUpdate".toList || op == "CreateIfNotExists".toList)
              && only ["operation", "object"] && isObj (lookup "object" l) then some true
          else if op == "MergePatch".toList && only ["operation", "apiVersion", "kind", "namespace", "name", "mergePatch"]
              && isNonEmptyStr (lookup "kind" l) && isNonEmptyStr (lookup "name" l)
              && isNonEmptyStr (lookup "namespace" l) && isObj (lookup "mergePatch" l) then some true
          else none
      | some .num => some false
      | some (.bool _) => some false
      | some (.arr _) => some false
      | some (.obj _) => some false
      | some .null => some false
      | none => some false
  | _ => some false

/-- Bracket structure outside double-quoted strings is broken (`st` = open brackets, innermost
first; `inStr` = inside a string; `done` = a top-level collection has been completed). -/
def structBroken : Nat → List Char → List Char → Bool → Bool → Bool
  | 0, _, _, _, _ => false
  | _ + 1, [], st, inStr, _ => inStr || !st.isEmpty
  | f + 1, c :: r, st, true, d =>
    if c == '\\' then
      match r with
      | _ :: r' => structBroken f r' st true d
      | [] => true
    else if c == '"' then structBroken f r st false d
    else structBroken f r st true d
  | f + 1, c :: r, st, false, d =>
    if c == '"' then
      if st.isEmpty && d then true else structBroken f r st true d
    else if c == '{' || c == '[' then structBroken f r (c :: st) false d
    else if c == '}' then
      match st with
      | '{' :: st' => structBroken f r st' false (d || st'.isEmpty)
      | _ => true
    else if c == ']' then
      match st with
      | '[' :: st' => structBroken f r st' false (d || st'.isEmpty)
      | _ => true
    else if st.isEmpty && d && !isWs c && c != '-' && c != '.' && c != '%' then true
    else structBroken f r st false d

def patchVerdict (file : List Char) : Option Bool :=
  if (skipWs file).isEmpty then some true
  else
    match jsonDocs file with
    | some docs =>
      if docs.any (fun d => specVerdict d == some false) then some false
      else if docs.all (fun d => specVerdict d == some true) then some true
      else none
    | none =>
      if file.any (fun c => c == '\'' || c == '#') then none
      else if structBroken (file.length + 1) file [] false false then some false
      else none

/-! ## Applying the accepted operations (`MetricStorage.SendBatch` after `ValidateOperations`)

`SendBatch` splits the operations by `Group == ""`: the ungrouped ones go through `sendBatchV0`
(add / set / observe with their values, anything else is an error), the grouped ones through
`applyGroupOperations`, whose loop body has branches for expire, add, the deprecated `Add` pointer, set,
the deprecated `Set` pointer — and NO branch for anything else: such an operation falls through the
loop body and leaves nothing behind, without an error. -/

/-- What the storage does with one operation. -/
inductive Applied
  | effect   -- a storage call is made (CounterAdd / GaugeSet / HistogramObserve / ExpireGroupMetrics)
  | error    -- `sendBatchV0` returns an error (the run fails)
  | nothing  -- `applyGroupOperations`: no branch — the operation is dropped, `SendBatch` returns nil
  deriving DecidableEq, Repr

/-- The branch `sendBatchV0` (ungrouped) / `applyGroupOperations` (grouped) takes for an operation. -/
def applyOp (op : MetricOp) : Applied :=
  let set := "set".toList
  let add := "add".toList
  let observe := "observe".toList
  let expire := "expire".toList
  if op.group == [] then
    if op.action == add && op.value then .effect
    else if op.action == set && op.value then .effect
    else if op.action == observe && op.value && op.buckets then .effect
    else .error
  else
    if op.action == expire then .effect
    else if op.action == add && op.value then .effect
    else if op.add then .effect
    else if op.action == set && op.value then .effect
    else if op.set then .effect
    else .nothing

/-- The variant of the validation in which the two action tables (ungrouped: set / add / observe;
grouped: expire / set / add) are merged into one switch "set, add, observe are common actions, expire
needs a group" (sixth wave, witness only). -/
def validOpMergedTable (op : MetricOp) : Bool :=
  let a := op.action
  let set := "set".toList
  let add := "add".toList
  let observe := "observe".toList
  let expire := "expire".toList
  !( a == []
    || !(a == set || a == add || a == observe || (a == expire && op.group != []))
    || (op.name == [] && op.group == [])
    || (op.name == [] && op.group != [] && a != expire)
    || ((a == set || a == add || a == observe) && !op.value)
    || (a == observe && !op.buckets)
    || (op.set && op.add))

/-- `handleRunHook` returned nil: the process exited with 0, the metrics file was parsed and its
operations accepted, the patch file was parsed and its operations applied. -/
def hookOk (exit : Nat) (metrics : List Char) (patchOk : Bool) : Bool :=
  exit == 0 && metricsOk metrics && patchOk

/-- How the hook process ended (`os.ProcessState`): it exited with a status code, or it was
terminated by a signal — then `ExitCode()` is -1 and there is no status code. -/
inductive ProcEnd
  | exited (code : Nat)
  | signaled (sig : Nat)
  deriving DecidableEq, Repr

/-- `cmd.Run()` returned nil: `ProcessState.Success()`, i.e. exited *and* status 0
(`RunAndLogLines`: any other end is an `*exec.ExitError`, the run has failed). -/
def ProcEnd.success : ProcEnd → Bool
  | .exited 0 => true
  | _ => false

/-- `handleRunHook` returned nil, for a process that ended in `p`. -/
def runOk (p : ProcEnd) (metrics : List Char) (patchOk : Bool) : Bool :=
  p.success && metricsOk metrics && patchOk

end ShellOp.HookOutput
