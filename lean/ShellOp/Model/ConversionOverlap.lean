import ShellOp.Model.Conversion
/-!
# Several conversion requests in flight (C15)

The webhook server serves ConversionReviews concurrently; every request is handled by its own
goroutine running `conversionEventHandler`. Between "`HandleConversionEvent` built the task of a step"
and "`Hook.Run` turned the binding context into JSON" (`taskHandleHookRun` waits in
`RateLimitWait` in between) other requests move. The binding context does not hold the objects: it
holds a pointer to a `v1.ConversionReview` envelope whose `Request` field points to the request, and
the request's `Objects` are read through it only when the hook is run.

The chain search itself (`FindConversionChain`) runs under the mutex of `ChainStorage` (repaired:
the path cache was filled by concurrent requests without a lock — Go runtime fatal error), i.e. the
searches are serialised: each request finds the cache as some history of earlier queries left it,
which is what `chain_sound` / `chain_complete` quantify over.

Small-step model of the inner loop `for _, convRule := range convPath` of `conversionEventHandler`
(the big-step form is `Conversion.runPath`) for any number of requests sharing one heap of
envelopes. `ConversionBindingsController.HandleEvent` allocates a new envelope for every step
(`&v1.ConversionReview{Request: request}`): `fresh`. A controller that keeps one envelope per
link (per declared rule) and refills it is `perLink` — NOT the code, only for the witness. Core only.
-/
namespace ShellOp.Conversion.Overlap
open ShellOp.Conversion

/-- one request being handled -/
structure Flight where
  objs : List Obj                 -- `request.Objects` as it is now (overwritten after every step)
  todo : Path                     -- the rules of `convPath` the `for` has not reached yet
  built : Option (Rule × Nat)     -- the task of the current step is built: its rule, the envelope its
                                  -- binding context points to
  inv : List Invocation           -- the hook runs made for this request so far
  fin : Option PathEnd            -- the loop has ended this way
  deriving DecidableEq, Repr

structure Sys where
  next : Nat                      -- envelopes allocated so far
  heap : Nat → Nat                -- envelope ↦ the request its `Request` field points to
  fl : Nat → Flight

def upd {α : Type} (f : Nat → α) (i : Nat) (x : α) : Nat → α := fun j => if j = i then x else f j

/-- where `HandleEvent` puts the review of a step (state, rule of the step) -/
abbrev Alloc := Sys → Rule → Nat

/-- the code: `ConversionReview: &v1.ConversionReview{Request: request}` — a new envelope per step -/
def fresh : Alloc := fun s _ => s.next

/-- NOT the code: one envelope per link (declared rule), refilled at every event -/
def perLink (rules : List Rule) : Alloc := fun _ r => rules.idxOf r

/-- request `i` goes once round the head of the loop: the `for` ends, or `HandleConversionEvent`
finds no hook for the rule, or the task of the step is built (the envelope is filled with a pointer
to request `i`) -/
def build (links : Rule → Bool) (alloc : Alloc) (s : Sys) (i : Nat) : Sys :=
  let f := s.fl i
  match f.fin, f.built, f.todo with
  | none, none, [] => { s with fl := upd s.fl i { f with fin := some .exhausted } }
  | none, none, r :: rs =>
    if !links r then { s with fl := upd s.fl i { f with fin := some (.ret (.err .noHook)) } }
    else
      let e := alloc s r
      { next := s.next + 1, heap := upd s.heap e i,
        fl := upd s.fl i { f with todo := rs, built := some (r, e) } }
  | _, _, _ => s

/-- what the handler does with the outcome of the run (the body of the loop after `taskHandler`) -/
def afterRun (f : Flight) (r : Rule) (input : List Obj) (desired : Ver) : HookOut → Flight
  | .exitFail =>
    { f with built := none, inv := f.inv ++ [⟨r, input⟩], fin := some (.ret (.resp (some .hookFailed) [])) }
  | .noResponse =>
    { f with built := none, inv := f.inv ++ [⟨r, input⟩], fin := some (.ret (.err .propError)) }
  | .resp msg out =>
    if msg ≠ "" then
      { f with built := none, inv := f.inv ++ [⟨r, input⟩], fin := some (.ret (.resp (some (.own msg)) out)) }
    else if extractVersions out = [desired] then
      { f with built := none, inv := f.inv ++ [⟨r, input⟩], objs := out, fin := some .done }
    else
      { f with built := none, inv := f.inv ++ [⟨r, input⟩], objs := out }

/-- the hook of the built task of request `i` is run: `Hook.Run` writes the binding context — the
objects are those of the request the envelope points to NOW -/
def run (script : Nat → Script) (desired : Nat → Ver) (s : Sys) (i : Nat) : Sys :=
  let f := s.fl i
  match f.fin, f.built with
  | none, some (r, e) =>
    let input := (s.fl (s.heap e)).objs
    { s with fl := upd s.fl i (afterRun f r input (desired i) (script i f.inv.length r input)) }
  | _, _ => s

inductive Act where
  | build (i : Nat)
  | run (i : Nat)
  deriving DecidableEq, Repr

def step (links : Rule → Bool) (script : Nat → Script) (desired : Nat → Ver) (alloc : Alloc)
    (s : Sys) : Act → Sys
  | .build i => build links alloc s i
  | .run i => run script desired s i

/-- any interleaving of the requests' steps -/
def exec (links : Rule → Bool) (script : Nat → Script) (desired : Nat → Ver) (alloc : Alloc)
    (acts : List Act) (s : Sys) : Sys :=
  acts.foldl (step links script desired alloc) s

/-- every request `i` arrives with objects `objs0 i`; `path0 i` is the chain found for it -/
def init (path0 : Nat → Path) (objs0 : Nat → List Obj) : Sys :=
  { next := 0, heap := fun _ => 0, fl := fun i => ⟨objs0 i, path0 i, none, [], none⟩ }

/-- The clause "each hook receives the previous output" of its own request, on an observed run: the
review every hook run made for request `req` found in its binding context is `req`'s. `none` = holds. -/
def handedCheck (req : String) (handed : List String) : Option String :=
  if handed.all (· == req) then none else some "a-hook-run-was-handed-the-review-of-another-request"

end ShellOp.Conversion.Overlap
