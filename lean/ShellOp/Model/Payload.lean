import ShellOp.Model.Combine
/-!
What a hook process RECEIVES in its binding context file, for the clause of C04 "the same binding
contexts are executed again": the path `Hook.Run` (pkg/hook/hook.go) →
`HookController.UpdateSnapshots` (pkg/hook/controller/hook_controller.go) →
`ConvertBindingContextList` / `BindingContext.MapV1` (pkg/hook/binding_context) → context file.

The binding contexts of a queued task live in a Go slice inside the task's `HookMetadata`
(`HookMetadataAccessor` copies the struct, the backing array is shared). `UpdateSnapshots` builds a NEW
list (`newContext := make(…)`, `newBc := bc` — a struct copy — then `append`), refreshes `Snapshots`
(from `Metadata.IncludeSnapshots`) and, for a Synchronization, `Objects` from the monitors, and
`Hook.Run` writes the file from that new list: the array the task points to is only read. That is
the `Heap` part below; the aliasing is what makes the retry of a failed run see the same contexts.

Core Lean only. Objects, filter results, watch events and snapshot entries are opaque numbers.
-/
namespace ShellOp.Payload

open ShellOp.Combine

/-- What the context file carries for one context besides binding / type / group.
`ev`: an Event context's `watchEvent` followed by its `object`+`filterResult` (only the first when
the file says `"object": null`; `[]` when the context has no Event members); `objs`: the members of
`objects` of a Synchronization; `snaps`: the entries of `snapshots`. -/
structure Pay where
  ev : List Nat := []
  objs : List Nat := []
  snaps : List Nat := []
  deriving DecidableEq, Repr, Inhabited

/-- `bctx.BindingContext` as a task's metadata holds it. -/
structure BC where
  ctx : Ctx
  watchEvent : Nat := 0
  objects : List Nat := []     -- `Objects` (an Event carries the one object of the event)
  snapshots : List Nat := []   -- `Snapshots`, flattened
  incl : List Nat := []        -- `Metadata.IncludeSnapshots` (binding keys)
  deriving DecidableEq, Repr, Inhabited

/-- `UpdateSnapshots`, one iteration: `newBc := bc`, fresh `Snapshots` for every included binding,
fresh `Objects` for a kubernetes Synchronization. `mon k` = `KubernetesController.SnapshotsFor(k)`
(one consistent reading per call: the `cache` map). -/
def refresh (mon : Nat → List Nat) (bc : BC) : BC :=
  { bc with
    snapshots := bc.incl.flatMap mon
    objects := if bc.ctx.typ == 0 then mon bc.ctx.binding else bc.objects }

def updateSnapshots (mon : Nat → List Nat) (l : List BC) : List BC := l.map (refresh mon)

/-- `BindingContext.MapV1`: which members the file gets. OnStartup: the binding only; a grouped
context: `snapshots` only; Schedule: `snapshots`; Synchronization: `objects`; Event: `watchEvent`,
`object` / `filterResult` of `Objects[0]` (`null` when there is none). -/
def shown (bc : BC) : Pay :=
  if bc.ctx.typ == 4 then {}
  else if bc.ctx.group != 0 then { snaps := bc.snapshots }
  else if bc.ctx.typ == 3 then { snaps := bc.snapshots }
  else if bc.ctx.typ == 0 then { objs := bc.objects, snaps := bc.snapshots }
  else { ev := bc.watchEvent :: bc.objects.take 1, snaps := bc.snapshots }

/-- The context file of one run of `Hook.Run` on the contexts `l` while the monitors hold `mon`. -/
def contextFile (mon : Nat → List Nat) (l : List BC) : List (Ctx × Pay) :=
  (updateSnapshots mon l).map fun bc => (bc.ctx, shown bc)

/-! ### the property clause (spec level, what the driver evaluates on two observed files) -/

/-- `c'` stands for `c` on a later run: the same context, or — group compaction keeps one context
per group — a context of the same group. -/
def covers (c c' : Ctx) : Bool := c == c' || (c.group != 0 && c'.group == c.group)

/-- The later payload still carries the earlier one: the Event members are the same; objects and
snapshot entries are re-read from the monitors (they may have grown, nothing that was there and
still exists is missing). -/
def Pay.keptBy (p p' : Pay) : Bool :=
  p.ev == p'.ev && p.objs.all (p'.objs.contains ·) && p.snaps.all (p'.snaps.contains ·)

/-- "The same binding contexts are executed again": every context of the failed run is shown
again, with what it carried. -/
def shownAgain (old new : List (Ctx × Pay)) : Bool :=
  old.all fun x => new.any fun y => covers x.1 y.1 && x.2.keptBy y.2

/-- The key of an ungrouped context with Event members: such contexts are never compacted, each
must be there again as often as before. -/
def eventKeys (l : List (Ctx × Pay)) : List (Ctx × List Nat) :=
  (l.filter fun x => x.1.group == 0 && !x.2.ev.isEmpty).map fun x => (x.1, x.2.ev)

def eventsKept (old new : List (Ctx × Pay)) : Bool :=
  (eventKeys old).all fun k => (eventKeys old).count k ≤ (eventKeys new).count k

/-- First context of `old` that is not shown again (for the driver's message). -/
def firstMissing (old new : List (Ctx × Pay)) : Option (Ctx × Pay) :=
  old.find? fun x => !(new.any fun y => covers x.1 y.1 && x.2.keptBy y.2)

/-! ### the slices (aliasing) -/

/-- Backing arrays by address. -/
abbrev Heap := List (List BC)

def Heap.arr (h : Heap) (a : Nat) : List BC := h.getD a []

/-- `UpdateSnapshots` as coded: the result is a new array, the argument's array is only read. -/
def updateSnapshotsH (mon : Nat → List Nat) (h : Heap) (a : Nat) : Heap × Nat :=
  (h ++ [updateSnapshots mon (h.arr a)], h.length)

/-- `Hook.Run` up to the start of the process: (heap afterwards, text of the context file). -/
def hookRunH (mon : Nat → List Nat) (h : Heap) (a : Nat) : Heap × List (Ctx × Pay) :=
  let (h', f) := updateSnapshotsH mon h a
  (h', (h'.arr f).map fun bc => (bc.ctx, shown bc))

/-- A variant that is NOT the code (witness only): contexts refreshed in place, and objects /
snapshots of the refreshed list set to nil once the file is written. -/
def hookRunInPlaceReleasing (mon : Nat → List Nat) (h : Heap) (a : Nat) : Heap × List (Ctx × Pay) :=
  let fresh := updateSnapshots mon (h.arr a)
  (h.set a (fresh.map fun bc => { bc with objects := [], snapshots := [] }),
   fresh.map fun bc => (bc.ctx, shown bc))

end ShellOp.Payload
