/-
Model of the unlock at monitor level (`pkg/kube_events_manager/monitor.go`):
`monitor.EnableKubeEventCb` against the namespace-added callback that creates informers for a
namespace appearing after start (namespace.labelSelector bindings).

An informer is abstracted to its `enabled` flag: by the informer-level theorems (Props/C01) an
informer that is never enabled keeps every event in its buffer for ever.

`fx = true`  : the repaired order — `eventsEnabled` is set (atomically) BEFORE the static loop and
               the range over the varying informers.
`fx = false` : the order before the repair — the flag is written AFTER the range.

`sync.Map.Range` guarantees a visit only for keys stored before the range began; keys stored during
the range may or may not be visited: `visitExtra` is that nondeterminism.
-/
namespace ShellOp.MonitorEnable

/-- program counter of `EnableKubeEventCb` -/
inductive EaPc
  | start
  | flagSet                     -- (fx) eventsEnabled stored
  | staticsDone
  | ranging (todo : List Nat)   -- namespaces still to visit (those stored before the range began)
  | rangeDone                   -- (¬fx) about to write the flag
  | done
  deriving DecidableEq, Repr

structure MSt where
  flag : Bool := false                 -- monitor.eventsEnabled
  statics : List Bool := []            -- enabled flag of each static informer
  varying : List (Nat × Bool) := []    -- VaryingInformers: namespace ↦ enabled flag of its informers
  ea : EaPc := .start
  inflight : List Nat := []            -- namespace callbacks between `Store` and the flag read
  cancel : List Nat := []              -- keys of `cancelForNs` (filled by Start() and by the add callback)
  live : List Nat := []                -- GHOST (not in the code): matching namespaces that exist in the
                                       -- cluster according to the namespace informer's Added/Deleted events
  deriving Repr

inductive MAct
  | ea                      -- next step of EnableKubeEventCb
  | visitExtra (ns : Nat)   -- the range also visits a key stored while it is running
  | nsStore (ns : Nat)      -- namespace callback: CreateInformersForNamespace + VaryingInformers.Store
  | nsRead (ns : Nat)       -- namespace callback: `cancelForNs.Store`, `if m.eventsEnabled { enable }`, start
  | nsDel (ns : Nat)        -- namespace DELETE callback (namespace deleted, or it stopped matching)
  deriving DecidableEq, Repr

def enableNs (v : List (Nat × Bool)) (ns : Nat) : List (Nat × Bool) :=
  v.map fun p => if p.1 = ns then (p.1, true) else p

def step (fx : Bool) (s : MSt) : MAct → Option MSt
  | .ea =>
    match s.ea with
    | .start => if fx then some { s with flag := true, ea := .flagSet }
                else some { s with statics := s.statics.map fun _ => true, ea := .staticsDone }
    | .flagSet => some { s with statics := s.statics.map fun _ => true, ea := .staticsDone }
    | .staticsDone => some { s with ea := .ranging (s.varying.map (·.1)) }
    | .ranging [] => if fx then some { s with ea := .done } else some { s with ea := .rangeDone }
    | .ranging (ns :: rest) => some { s with varying := enableNs s.varying ns, ea := .ranging rest }
    | .rangeDone => some { s with flag := true, ea := .done }
    | .done => none
  | .visitExtra ns =>
    match s.ea with
    | .ranging _ => some { s with varying := enableNs s.varying ns }
    | _ => none
  | .nsStore ns =>
    -- "ignore already started informers": the callback returns, nothing changes in the code's state
    if s.varying.any (·.1 == ns) then some { s with live := ns :: s.live }
    else some { s with varying := s.varying ++ [(ns, false)], inflight := s.inflight ++ [ns],
                       live := ns :: s.live }
  | .nsRead ns =>
    if s.inflight.contains ns then
      some { s with inflight := s.inflight.erase ns, cancel := s.cancel ++ [ns],
                    varying := if s.flag then enableNs s.varying ns else s.varying }
    else none
  | .nsDel ns =>
    -- the callbacks of the namespace informer run one at a time: no add callback is in flight
    if s.inflight ≠ [] then none
    else if s.cancel.contains ns then
      -- cancel the namespace's informers, `VaryingInformers.Delete`, `cancelForNs.Delete`
      some { s with varying := s.varying.filter (fun p => p.1 != ns),
                    cancel := s.cancel.filter (fun n => n != ns),
                    live := s.live.filter (fun n => n != ns) }
    else some { s with live := s.live.filter (fun n => n != ns) }   -- "ignore already stopped informers"

def run (fx : Bool) (s : MSt) (sched : List MAct) : MSt :=
  sched.foldl (fun s a => (step fx s a).getD s) s

/-- Everything has come to rest: the unlock finished and no namespace callback is in flight. -/
def Settled (s : MSt) : Prop := s.ea = .done ∧ s.inflight = []

/-- Every informer of the monitor — static, and of every namespace seen so far — is unlocked. -/
def AllEnabled (s : MSt) : Prop := (∀ b ∈ s.statics, b = true) ∧ (∀ p ∈ s.varying, p.2 = true)

/-- Keys of `VaryingInformers`. -/
def keys (s : MSt) : List Nat := s.varying.map (·.1)

/-- The state `CreateInformers` + `Start` leave behind: informers (locked) and a cancel function for
every matching namespace that existed at start. -/
def initial (st : List Bool) (nss : List Nat) : MSt :=
  { statics := st, varying := nss.map fun n => (n, false), cancel := nss, live := nss }

/-- Every matching namespace that currently exists is watched by unlocked informers. -/
def LiveWatched (s : MSt) : Prop := ∀ n ∈ s.live, ∃ p ∈ s.varying, p.1 = n ∧ p.2 = true

instance (s : MSt) : Decidable (LiveWatched s) := by unfold LiveWatched; exact inferInstance

instance (s : MSt) : Decidable (Settled s) := by unfold Settled; exact inferInstance
instance (s : MSt) : Decidable (AllEnabled s) := by unfold AllEnabled; exact inferInstance

end ShellOp.MonitorEnable
