/-
Model of the unlock at monitor level (`pkg/kube_events_manager/monitor.go`):
`monitor.EnableKubeEventCb` against the namespace-added callback that creates informers for a
namespace appearing after start (namespace.labelSelector bindings).

An informer is abstracted to its `enabled` flag: by the informer-level theorems (Props/C01) an
informer that is never enabled keeps every event in its buffer for ever.

`fx = true`  : the repaired order — `eventsEnabled` is set (atomically) BEFORE the static loop and
               the range over the varying informers.
`fx = false` : the order before the repair — the flag is written AFTER the range.

`sync.Map.Range` guarantees a visit only for keys stored before the range began; keys stored during
the range may or may not be visited: `visitExtra` is that nondeterminism.
-/
namespace ShellOp.MonitorEnable

/-- program counter of `EnableKubeEventCb` -/
inductive EaPc
  | start
  | flagSet                     -- (fx) eventsEnabled stored
  | staticsDone
  | ranging (todo : List Nat)   -- namespaces still to visit (those stored before the range began)
  | rangeDone                   -- (¬fx) about to write the flag
  | done
  deriving DecidableEq, Repr

structure MSt where
  flag : Bool := false                 -- monitor.eventsEnabled
  statics : List Bool := []            -- enabled flag of each static informer
  varying : List (Nat × Bool) := []    -- VaryingInformers: namespace ↦ enabled flag of its informers
  ea : EaPc := .start
  inflight : List Nat := []            -- namespace callbacks between `Store` and the flag read
  deriving Repr

inductive MAct
  | ea                      -- next step of EnableKubeEventCb
  | visitExtra (ns : Nat)   -- the range also visits a key stored while it is running
  | nsStore (ns : Nat)      -- namespace callback: CreateInformersForNamespace + VaryingInformers.Store
  | nsRead (ns : Nat)       -- namespace callback: `if m.eventsEnabled { enable }`, start
  deriving DecidableEq, Repr

def enableNs (v : List (Nat × Bool)) (ns : Nat) : List (Nat × Bool) :=
  v.map fun p => if p.1 = ns then (p.1, true) else p

def step (fx : Bool) (s : MSt) : MAct → Option MSt
  | .ea =>
    match s.ea with
    | .start => if fx then some { s with flag := true, ea := .flagSet }
                else some { s with statics := s.statics.map fun _ => true, ea := .staticsDone }
    | .flagSet => some { s with statics := s.statics.map fun _ => true, ea := .staticsDone }
    | .staticsDone => some { s with ea := .ranging (s.varying.map (·.1)) }
    | .ranging [] => if fx then some { s with ea := .done } else some { s with ea := .rangeDone }
    | .ranging (ns :: rest) => some { s with varying := enableNs s.varying ns, ea := .ranging rest }
    | .rangeDone => some { s with flag := true, ea := .done }
    | .done => none
  | .visitExtra ns =>
    match s.ea with
    | .ranging _ => some { s with varying := enableNs s.varying ns }
    | _ => none
  | .nsStore ns =>
    if s.varying.any (·.1 == ns) then none        -- "ignore already started informers"
    else some { s with varying := s.varying ++ [(ns, false)], inflight := s.inflight ++ [ns] }
  | .nsRead ns =>
    if s.inflight.contains ns then
      some { s with inflight := s.inflight.erase ns,
                    varying := if s.flag then enableNs s.varying ns else s.varying }
    else none

def run (fx : Bool) (s : MSt) (sched : List MAct) : MSt :=
  sched.foldl (fun s a => (step fx s a).getD s) s

/-- Everything has come to rest: the unlock finished and no namespace callback is in flight. -/
def Settled (s : MSt) : Prop := s.ea = .done ∧ s.inflight = []

/-- Every informer of the monitor — static, and of every namespace seen so far — is unlocked. -/
def AllEnabled (s : MSt) : Prop := (∀ b ∈ s.statics, b = true) ∧ (∀ p ∈ s.varying, p.2 = true)

instance (s : MSt) : Decidable (Settled s) := by unfold Settled; exact inferInstance
instance (s : MSt) : Decidable (AllEnabled s) := by unfold AllEnabled; exact inferInstance

end ShellOp.MonitorEnable
