import ShellOp.Model.Snapshot
/-!
# `FactoryStore` (`pkg/kube_events_manager/factory.go`) — code-shaped model, core only

One process-wide store maps a `FactoryIndex` (GVR, namespace, field selector, label selector) to a
`Factory`: a client-go shared informer plus `handlerRegistrations`, a Go map from resource-informer
id to the registration of that informer's event handler. Resource informers of *different*
monitors (bindings, hooks) with the same index share the factory. `Start` registers the handler
(creating the factory when the index is new), `Stop` removes it and — only when no registration is
left — cancels the factory's context and deletes the entry.

The context of a factory is cancelled in exactly one place, together with `delete(c.data, index)`;
so "an entry is stored under the index" = "its shared informer is running", and a resource informer
receives the watch events of its scope iff the stored entry carries its registration (`fsServed`).
The index is a `Key` here (any three-component code of the four fields).
-/
namespace ShellOp.Snapshot

/-- one `Factory` value of `FactoryStore.data` with the index it is stored under; `regs` = the keys
of `handlerRegistrations` (the map is shared by reference between the value copies `get` returns,
so a change through a copy is a change of the stored entry) -/
structure FEntry where
  idx : Key
  regs : List Nat
deriving DecidableEq, Repr

abbrev FStore := List FEntry

/-- `FactoryStore.Start(ctx, informerId, client, index, handler, errorHandler)`:
`factory := c.get(client, index)` (adds a new factory when the index is unknown), then
`factory.handlerRegistrations[informerId] = registration`. -/
def fsStart (s : FStore) (inf : Nat) (idx : Key) : FStore :=
  match kget FEntry.idx s idx with
  | some f => kput FEntry.idx s { idx := idx, regs := f.regs.filter (· != inf) ++ [inf] }
  | none => kput FEntry.idx s { idx := idx, regs := [inf] }

/-- `FactoryStore.Stop(informerId, index)`: unknown index → nothing ("already deleted"); a
registration of this informer is removed from the handler map; `len(f.handlerRegistrations) == 0`
→ `f.cancel(); delete(c.data, index)`. -/
def fsStop (s : FStore) (inf : Nat) (idx : Key) : FStore :=
  match kget FEntry.idx s idx with
  | none => s
  | some f =>
    if f.regs.contains inf then
      let regs := f.regs.filter (· != inf)
      if regs.isEmpty then kdel FEntry.idx s idx
      else kput FEntry.idx s { idx := idx, regs := regs }
    else s

/-- what resource informers do to the store: `start()` → `Start`, their context ending
(`StopMonitor`, the namespace-deleted callback, shutdown) → `Stop` -/
inductive FOp where
  | start (inf : Nat) (idx : Key)
  | stop (inf : Nat) (idx : Key)
deriving DecidableEq, Repr

def fsStep (s : FStore) : FOp → FStore
  | .start i x => fsStart s i x
  | .stop i x => fsStop s i x

def fsRun (s : FStore) (ops : List FOp) : FStore := ops.foldl fsStep s

/-- the resource informer `inf` (factory index `idx`) is served: a factory is stored under its
index — its shared informer runs — and carries the informer's handler registration -/
def fsServed (s : FStore) (inf : Nat) (idx : Key) : Bool :=
  match kget FEntry.idx s idx with
  | some f => f.regs.contains inf
  | none => false

/-- A variant that is NOT the code: the "last user" test reads a usage counter that `Start`
increments on the value copy returned by `get` (so the stored counter stays 0): every `Stop` of a
registered informer cancels and deletes the factory. Kept for the witness in `Props/C02`. -/
def fsStopCounterOnCopy (s : FStore) (inf : Nat) (idx : Key) : FStore :=
  match kget FEntry.idx s idx with
  | none => s
  | some f => if f.regs.contains inf then kdel FEntry.idx s idx else s

/-! ### configuration glue: `MonitorConfig.names()` / `namespaces()` → how many informers exist

`createInformersForNamespace` builds one resource informer per element of `names()` and
`CreateInformers` one set of them per element of `namespaces()`; `Snapshot()` is the union of the
informer caches, so "each object once" needs each requested name exactly once in these lists
(model: `MonCfg.namesEff`, `MonCfg.namespaces` over `dedupNames`). -/

def noRepeat : List Nat → Bool
  | [] => true
  | a :: t => !t.contains a && noRepeat t

/-- spec of the list handed to the informer loops for a `matchNames` list: no entry twice, the same
entries as requested (the order is free: the snapshot is sorted afterwards) -/
def uniqExact (inp got : List Nat) : Bool :=
  noRepeat got && inp.all (fun x => got.contains x) && got.all (fun x => inp.contains x)

end ShellOp.Snapshot
