import ShellOp.Model.HookRun
/-
How the four output files of a hook execution are read back, from the file TEXT (C12, third wave).

Layer 1 (generic, what the theorems are about): the decode loops of the code over an abstract
`json.Decoder` step `next : α → Step α β` (what `Decode` finds at the head of the remaining input:
end of input, an error, or a value and the rest):

* `decodeLoop` — `MetricOperationsFromReader` (`pkg/metric_storage/operation/operation.go`) and
  `unmarshalFromJson` (`pkg/kube/object_patch/helpers.go`): `for { Decode; io.EOF → break; err → return
  err; append }`;
* `decodeLoopMore` — the NOT-taken variant `for dec.More() { Decode … }` (regression witness:
  `More()` is false at a closing bracket as well);
* `decodeWhole` — `json.Unmarshal` of the whole file (`admission.FromReader`,
  `conversion.ResponseFromReader` after the repair): one value, then only white space;
* `decodeFirst` — one `Decode` and nothing else (the unrepaired `conversion.ResponseFromReader`).

`Stream` / `Whole` are the specification: the grammar "white space, value, …, white space, end".

Layer 2 (concrete, used by the driver and compared with the real decoders on every run): a JSON
reader over characters (`value`, encoding/json's grammar: white space, literals, numbers with fraction and
exponent, strings with the nine escapes, arrays, objects) and the field-type tables of the structs the
files are decoded into (`typedMetric`, `typedAdmission`, `typedConversion`; encoding/json matches
field names case-insensitively, `null` is accepted everywhere, unknown fields are ignored).

Core Lean only.
-/
namespace ShellOp.HookRun.Text

/-! ## layer 1: the decode loops over an abstract decoder -/

inductive Step (α β : Type) where
  | eof
  | err
  | val (v : β) (rest : α)

/-- `for { err := dec.Decode(&v); if err == io.EOF { break } else if err != nil { return nil, err };
ops = append(ops, v) }` — `none` is the error return. `fuel` bounds the number of iterations (one more
than the size of the input is always enough: every `Decode` consumes input). -/
def decodeLoop {α β : Type} (next : α → Step α β) : Nat → α → List β → Option (List β)
  | 0, _, _ => none
  | f + 1, inp, acc =>
    match next inp with
    | .eof => some acc
    | .err => none
    | .val v rest => decodeLoop next f rest (acc ++ [v])

/-- The variant that was NOT written: `for dec.More() { if err := dec.Decode(&v); err != nil { return
nil, err }; … }`. `more inp` = the next non-blank byte exists and is neither `]` nor `}`. -/
def decodeLoopMore {α β : Type} (next : α → Step α β) (more : α → Bool) : Nat → α → List β → Option (List β)
  | 0, _, _ => none
  | f + 1, inp, acc =>
    if more inp then
      match next inp with
      | .eof => none            -- Decode at the end of input: io.EOF is an error here
      | .err => none
      | .val v rest => decodeLoopMore next more f rest (acc ++ [v])
    else some acc

/-- `json.Unmarshal(data, &v)`: exactly one value, nothing but white space after it
(`atEnd rest` = only white space is left). -/
def decodeWhole {α β : Type} (next : α → Step α β) (atEnd : α → Bool) (inp : α) : Option β :=
  match next inp with
  | .val v rest => if atEnd rest then some v else none
  | _ => none

/-- One `dec.Decode(&v)` and no look at what follows (the unrepaired conversion response reader). -/
def decodeFirst {α β : Type} (next : α → Step α β) (inp : α) : Option β :=
  match next inp with
  | .val v _ => some v
  | _ => none

/-- The variant that was NOT written (sixth wave): one `dec.Decode(&v)`, then "is anything left?" is
asked of `dec.Buffered()` only. `buffered rest` = that part of the remaining input which the decoder
has already read from its source (a `json.Decoder` reads in pieces — 512 bytes, then its buffer grows
to 1536, 3584 … — and stops reading as soon as the value is complete). -/
def decodeBuffered {α β : Type} (next : α → Step α β) (atEnd : α → Bool) (buffered : α → α) (inp : α) : Option β :=
  match next inp with
  | .val v rest => if atEnd (buffered rest) then some v else none
  | _ => none

/-- Specification: the input is a sequence of values up to its end. -/
inductive Stream {α β : Type} (next : α → Step α β) : α → List β → Prop where
  | done {inp : α} : next inp = .eof → Stream next inp []
  | more {inp rest : α} {v : β} {vs : List β} : next inp = .val v rest → Stream next rest vs →
      Stream next inp (v :: vs)

/-- Specification: the input is exactly one value. -/
def Whole {α β : Type} (next : α → Step α β) (atEnd : α → Bool) (inp : α) (v : β) : Prop :=
  ∃ rest, next inp = .val v rest ∧ atEnd rest = true

/-! ## layer 2: JSON text -/

inductive V where
  | null
  | bool
  | num
  | str
  | arr (xs : List V)
  | obj (kvs : List (String × V))
  deriving Repr, Inhabited

def isWs (c : Char) : Bool := c == ' ' || c == '\t' || c == '\n' || c == '\r'

def skipWs : List Char → List Char
  | c :: cs => if isWs c then skipWs cs else c :: cs
  | [] => []

def isHex (c : Char) : Bool :=
  ('0' ≤ c && c ≤ '9') || ('a' ≤ c && c ≤ 'f') || ('A' ≤ c && c ≤ 'F')

def hexVal (c : Char) : Nat :=
  if '0' ≤ c && c ≤ '9' then c.toNat - '0'.toNat
  else if 'a' ≤ c && c ≤ 'f' then c.toNat - 'a'.toNat + 10
  else c.toNat - 'A'.toNat + 10

/-- The rest of a string after its opening quote (`fuel` ≥ number of characters): the decoded text and
what follows the closing quote. Control characters and unknown escapes are errors. -/
def strBody : Nat → List Char → List Char → Option (String × List Char)
  | 0, _, _ => none
  | f + 1, acc, cs =>
    match cs with
    | '"' :: rest => some (String.ofList acc.reverse, rest)
    | '\\' :: 'u' :: a :: b :: c :: d :: rest =>
      if isHex a && isHex b && isHex c && isHex d then
        strBody f (Char.ofNat (hexVal a * 4096 + hexVal b * 256 + hexVal c * 16 + hexVal d) :: acc) rest
      else none
    | '\\' :: e :: rest =>
      match e with
      | '"' => strBody f ('"' :: acc) rest
      | '\\' => strBody f ('\\' :: acc) rest
      | '/' => strBody f ('/' :: acc) rest
      | 'b' => strBody f (Char.ofNat 8 :: acc) rest
      | 'f' => strBody f (Char.ofNat 12 :: acc) rest
      | 'n' => strBody f ('\n' :: acc) rest
      | 'r' => strBody f ('\r' :: acc) rest
      | 't' => strBody f ('\t' :: acc) rest
      | _ => none
    | c :: rest => if c.toNat < 32 then none else strBody f (c :: acc) rest
    | [] => none

def dropDigits : List Char → List Char
  | c :: cs => if c.isDigit then dropDigits cs else c :: cs
  | [] => []

/-- at least one digit, then the rest -/
def digits1 : List Char → Option (List Char)
  | c :: cs => if c.isDigit then some (dropDigits cs) else none
  | [] => none

def numExp : List Char → Option (List Char)
  | 'e' :: '+' :: r => digits1 r
  | 'e' :: '-' :: r => digits1 r
  | 'e' :: r => digits1 r
  | 'E' :: '+' :: r => digits1 r
  | 'E' :: '-' :: r => digits1 r
  | 'E' :: r => digits1 r
  | r => some r

def numFrac : List Char → Option (List Char)
  | '.' :: r => (digits1 r).bind numExp
  | r => numExp r

def numInt : List Char → Option (List Char)
  | '0' :: r => numFrac r
  | c :: r => if c.isDigit then numFrac (dropDigits r) else none
  | [] => none

/-- `-? (0 | [1-9][0-9]*) (\. [0-9]+)? ([eE] [+-]? [0-9]+)?`; the rest after the longest match. -/
def number : List Char → Option (List Char)
  | '-' :: r => numInt r
  | r => numInt r

inductive Mode where
  | val
  | items (acc : List V)
  | members (acc : List (String × V))

/-- One JSON value at the head of `cs` (no leading white space), the rest after it. One function for
the three mutually recursive readers (`Mode`), structural in the fuel. -/
def go : Nat → Mode → List Char → Option (V × List Char)
  | 0, _, _ => none
  | f + 1, .val, cs =>
    match cs with
    | 'n' :: 'u' :: 'l' :: 'l' :: r => some (.null, r)
    | 't' :: 'r' :: 'u' :: 'e' :: r => some (.bool, r)
    | 'f' :: 'a' :: 'l' :: 's' :: 'e' :: r => some (.bool, r)
    | '"' :: r => (strBody (r.length + 1) [] r).map (fun p => (V.str, p.2))
    | '[' :: r =>
      match skipWs r with
      | ']' :: r' => some (.arr [], r')
      | r' => go f (.items []) r'
    | '{' :: r =>
      match skipWs r with
      | '}' :: r' => some (.obj [], r')
      | r' => go f (.members []) r'
    | cs => (number cs).map (fun r => (V.num, r))
  | f + 1, .items acc, cs =>
    match go f .val cs with
    | none => none
    | some (v, r) =>
      match skipWs r with
      | ',' :: r' => go f (.items (v :: acc)) (skipWs r')
      | ']' :: r' => some (.arr (v :: acc).reverse, r')
      | _ => none
  | f + 1, .members acc, cs =>
    match cs with
    | '"' :: r =>
      match strBody (r.length + 1) [] r with
      | none => none
      | some (k, r) =>
        match skipWs r with
        | ':' :: r' =>
          match go f .val (skipWs r') with
          | none => none
          | some (v, r) =>
            match skipWs r with
            | ',' :: r' => go f (.members ((k, v) :: acc)) (skipWs r')
            | '}' :: r' => some (.obj ((k, v) :: acc).reverse, r')
            | _ => none
        | _ => none
    | _ => none

def value (cs : List Char) : Option (V × List Char) := go (2 * cs.length + 2) .val cs

/-! ### the field types of the structs -/

inductive FT where
  | str | num | bool | strs | nums | strMap | any

def V.isNull : V → Bool
  | .null => true
  | _ => false

/-- Does encoding/json store this value into a Go field of that type without an error?
`null` is a no-op for every type. -/
def fits : FT → V → Bool
  | _, .null => true
  | .any, _ => true
  | .str, .str => true
  | .num, .num => true
  | .bool, .bool => true
  | .strs, .arr xs => xs.all (fun x => match x with | .str => true | .null => true | _ => false)
  | .nums, .arr xs => xs.all (fun x => match x with | .num => true | .null => true | _ => false)
  | .strMap, .obj kvs => kvs.all (fun kv => match kv.2 with | .str => true | .null => true | _ => false)
  | _, _ => false

def lower (s : String) : String := String.ofList (s.toList.map Char.toLower)

/-- A document decoded into a struct: an object (or `null`) whose known fields (names matched
case-insensitively) hold values of the field's type; other fields are ignored. -/
def typed (table : List (String × FT)) : V → Bool
  | .null => true
  | .obj kvs => kvs.all (fun kv =>
      match table.find? (fun e => e.1 == lower kv.1) with
      | some e => fits e.2 kv.2
      | none => true)
  | _ => false

/-- `operation.MetricOperation` (json tags, lower-cased). -/
def metricTable : List (String × FT) :=
  [("name", .str), ("add", .num), ("set", .num), ("value", .num), ("buckets", .nums),
   ("labels", .strMap), ("group", .str), ("action", .str)]

/-- `admission.Response` (`patch` is `[]byte`: a base64 string — generators do not write it). -/
def admissionTable : List (String × FT) :=
  [("allowed", .bool), ("message", .str), ("warnings", .strs), ("patch", .str)]

/-- `conversion.Response` (`convertedObjects` are `runtime.RawExtension`s: any value). -/
def conversionTable : List (String × FT) :=
  [("failedmessage", .str), ("convertedobjects", .any)]

def convObjectsOk : V → Bool
  | .obj kvs => kvs.all (fun kv =>
      if lower kv.1 == "convertedobjects" then
        match kv.2 with
        | .arr _ => true
        | .null => true
        | _ => false
      else true)
  | _ => true

/-- A patch document, as far as the text decides: any object (field names and types are the
schema's business: `invaliddoc`). -/
def isObj : V → Bool
  | .obj _ => true
  | _ => false

/-- The concrete `Decode` step on characters: skip white space; end → `eof`; otherwise one value
that must also fit the target (`ok`). -/
def next (ok : V → Bool) (cs : List Char) : Step (List Char) V :=
  match skipWs cs with
  | [] => .eof
  | cs' =>
    match value cs' with
    | none => .err
    | some (v, rest) => if ok v then .val v rest else .err

def atEnd (cs : List Char) : Bool := (skipWs cs).isEmpty

/-- `json.Decoder.More()`: there is a next byte after white space and it is not `]` or `}`. -/
def more (cs : List Char) : Bool :=
  match skipWs cs with
  | [] => false
  | c :: _ => c != ']' && c != '}'

/-- What a decoder that reads its source in pieces of `k` bytes has buffered beyond the value it has
just returned: the remaining input up to the next multiple of `k`, counted from the start of `text`
(nothing when the value ended exactly on a piece boundary). -/
def bufferedChunk (k : Nat) (text rest : List Char) : List Char :=
  rest.take ((k - (text.length - rest.length) % k) % k)

/-- Specification used by the oracle: is this text a well-formed file of the given kind? -/
def streamOk (ok : V → Bool) (text : List Char) : Option (List V) := decodeLoop (next ok) (text.length + 1) text []
def wholeOk (ok : V → Bool) (text : List Char) : Option V := decodeWhole (next ok) atEnd text

/-! ### what `Run` / `handleRunHook` get from the readers, from the file text -/

/-- `MetricOperationsFromFile`: unreadable (the hook deleted the file) → error; no bytes → nil;
otherwise the decode loop; `batchValid`: does `ValidateOperations` accept the operations. -/
def metricsOfText (deleted batchValid : Bool) (text : List Char) : Metrics :=
  if deleted then .err
  else if text.isEmpty then .none
  else match streamOk (typed metricTable) text with
    | none => .err
    | some [] => .none
    | some _ => .ops batchValid

/-- `admission.ResponseFromFile` / `conversion.ResponseFromFile` (`ok`: the document fits the struct). -/
def respOfText (ok : V → Bool) (deleted : Bool) (text : List Char) : Resp :=
  if deleted then .err
  else if text.isEmpty then .none
  else match wholeOk ok text with
    | none => .err
    | some _ => .some

def admissionOk (v : V) : Bool := typed admissionTable v
def conversionOk (v : V) : Bool := typed conversionTable v && convObjectsOk v

/-- The patch file as `ParseOperations` sees it (`unmarshalFromJSONOrYAML`): first the JSON loop
(`unmarshalFromJson`); a text that is not a JSON stream of objects is handed to the YAML reader —
`yaml` = what that reader and the schema make of it (an oracle: YAML is not modelled; YAML's flow
syntax accepts some damaged JSON, e.g. a trailing comma or an unquoted key). `sem` = what the schema
and the cluster make of well-formed JSON documents. -/
def patchOfText (deleted : Bool) (sem yaml : Patch) (text : List Char) : Patch :=
  if deleted then .unreadable
  else if text.isEmpty then .empty
  else match streamOk isObj text with
    | none => yaml
    | some [] => .empty
    | some _ => sem

end ShellOp.HookRun.Text
