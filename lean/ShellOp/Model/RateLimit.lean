import ShellOp.Generated.Facts
/-!
Model of the execution rate limit: `hook.CreateRateLimiter` (pkg/hook/hook.go) and the
`golang.org/x/time/rate` limiter behind `Hook.RateLimitWait`, in integer nanoseconds.

`reserve` has the shape of `rate.(*Limiter).reserveN(t, 1, InfDuration)` with `advance` inlined.
The library counts tokens (float64, one execution = 1 token, refill `1/I` tokens per ns); the model
counts *credit* `c = tokens · I` in nanoseconds, so one execution costs `I`, the bucket holds
`B · I`, and every quantity is an integer. The credit goes negative when reservations queue up;
`-c` is then the waiting time. `Wait` = reserve, then sleep until the grant time.
-/
namespace ShellOp.RateLimit

/-- A `rate.Limiter` as `CreateRateLimiter` builds it: `inf` ⇔ `limit == rate.Inf`; otherwise one
token every `I` ns; burst `B`. -/
structure Lim where
  inf : Bool
  I : Int
  B : Int
  deriving DecidableEq, Repr

/-- `CreateRateLimiter(cfg)`: `settings = none` ⇔ `cfg.Settings == nil`; otherwise
(ExecutionMinInterval in ns, ExecutionBurst). `rate.Every(d)` is `Inf` for `d ≤ 0`. -/
def createRateLimiter (settings : Option (Int × Int)) : Lim :=
  let limInf := true                         -- limit := rate.Inf
  let burst := Facts.c18DefaultBurstVal      -- burst := 1
  match settings with
  | none => { inf := limInf, I := 0, B := burst }
  | some (i, b) =>
    let (inf, iv) := if i != 0 then (decide (i ≤ 0), i) else (limInf, 0)   -- rate.Every(i)
    let burst := if b != 0 then b else burst
    { inf := inf, I := iv, B := burst }

/-- The kinds of bindings a hook configuration can have: three queued ones (their executions are
tasks of a queue) and three webhooks (executed on request by the admission / conversion handler). -/
inductive BindKind where
  | onStartup | schedule | kubernetes | validating | mutating | conversion
  deriving DecidableEq, Repr

/-- What `Hook.LoadConfig` sees of a loaded hook configuration: the `settings` block and the bindings. -/
structure HookCfg where
  settings : Option (Int × Int)
  bindings : List BindKind
  deriving Repr

/-- `Hook.LoadConfig` (pkg/hook/hook.go) after a successful `LoadAndValidate`: the only statement of
the repository that writes `Hook.RateLimiter` is `h.RateLimiter = CreateRateLimiter(h.Config)`, the
only other use is the `Wait` of `RateLimitWait`, and nothing re-tunes a limiter
(`Facts.c18LimiterUses`, `Facts.c18LimiterTuners`; theorem `load_config_shape`).
`CreateRateLimiter` reads `cfg.Settings` only, so the bindings take no part. -/
def hookLimiter (cfg : HookCfg) : Lim :=
  createRateLimiter cfg.settings             -- h.RateLimiter = CreateRateLimiter(h.Config)

/-- Limiter state: credit (`tokens · I`) and `last`. -/
structure LState where
  c : Int
  last : Int
  deriving DecidableEq, Repr

/-- `NewLimiter`: the bucket starts full (`tokens: float64(b)`); `last` is the zero time. -/
def init (l : Lim) : LState := { c := l.B * l.I, last := 0 }

/-- `reserveN(t, 1, InfDuration)`: `none` = not ok (`n > burst`), the state is then unchanged.
Returns the new state and the grant time (`timeToAct`). -/
def reserve (l : Lim) (s : LState) (t : Int) : LState × Option Int :=
  if l.inf then (s, some t)                                -- limit == Inf: act now, state untouched
  else
    -- advance
    let last := if t < s.last then t else s.last           -- `if t.Before(last) { last = t }`
    let elapsed := t - last
    let c1 := s.c + elapsed
    let c1 := if c1 > l.B * l.I then l.B * l.I else c1     -- `if tokens > burst { tokens = burst }`
    let c2 := c1 - l.I                                     -- tokens -= 1
    let wait := if c2 < 0 then -c2 else 0                  -- durationFromTokens(-tokens)
    if 1 ≤ l.B then ({ c := c2, last := t }, some (t + wait)) else (s, none)

/-- A sequence of `Wait` calls at the given request times; the executions start at the grant
times (a refused reservation starts nothing: the task is repeated). -/
def grants (l : Lim) : LState → List Int → List Int
  | _, [] => []
  | s, t :: ts =>
    match reserve l s t with
    | (s', some g) => g :: grants l s' ts
    | (s', none) => grants l s' ts

/-- `⌈T / I⌉` for `T ≥ 0`, `I > 0`. -/
def ceilDiv (T I : Int) : Int := (T + I - 1) / I

/-! ## The property on one observed list of start times -/
namespace Spec

/-- number of starts in the window `(t, t+T]`. -/
def countIn (gs : List Int) (t T : Int) : Nat := (gs.filter fun g => decide (t < g ∧ g ≤ t + T)).length

/-- The bound on every window that begins just before a start and ends at a start (every other
window contains no more starts than one of these and is at least as long). -/
def boundOK (I B : Int) (gs : List Int) : Bool :=
  gs.all fun a => gs.all fun b =>
    if a ≤ b then decide ((countIn gs (a - 1) (b - a + 1) : Int) ≤ B + ceilDiv (b - a + 1) I) else true

/-- total size of the backward steps of a request sequence (first request compared with `last`). -/
def backSteps : Int → List Int → Int
  | _, [] => 0
  | last, t :: ts => (if t < last then last - t else 0) + backSteps t ts

/-- the bound with the window stretched by `S` (request times that went backwards by `S` in total). -/
def boundOKSkew (I B S : Int) (gs : List Int) : Bool :=
  gs.all fun a => gs.all fun b =>
    if a ≤ b then decide ((countIn gs (a - 1) (b - a + 1) : Int) ≤ B + ceilDiv (b - a + 1 + S) I) else true

/-- Interval observation of one execution: `(lo, hi)` — `lo` is a moment known to precede its
`RateLimitWait` call (the task was queued / the previous execution of the same queue had started),
`hi` is the start time the hook process wrote. The grant lies in `[lo, hi]`.
`countWithin obs a b` = executions whose whole interval lies inside `[a, b]`. -/
def countWithin (obs : List (Int × Int)) (a b : Int) : Nat :=
  (obs.filter fun p => decide (a ≤ p.1 ∧ p.2 ≤ b)).length

/-- The bound on an interval observation: for every window `[lo_i, hi_j]` the executions that
certainly were granted inside it number at most `B + ⌈(hi_j − lo_i + 1 + S)/I⌉`. `S` = 0 for a hook
that runs in one queue (its request times never go backwards); for several queues `S` is an allowance
for the clock-read skew of `token_bucket_bound_skew`. No assumption on how late a start is after
its grant: a `false` cannot be an artefact of slow process start-up. -/
def boundOKIv (I B S : Int) (obs : List (Int × Int)) : Bool :=
  obs.all fun p => obs.all fun q =>
    if p.1 ≤ q.2 then decide ((countWithin obs p.1 q.2 : Int) ≤ B + ceilDiv (q.2 - p.1 + 1 + S) I) else true

end Spec

/-! ## The task handler: which executions wait, and how many processes one token starts -/

/-- What a queued `HookRun` task is for (the type of its first binding context). -/
inductive RunKind where
  | onStartup | schedule | kubeEvent | synchronization
  deriving DecidableEq, Repr

/-- How the hook process of an execution ends: exit 0, a non-zero exit code, death from a signal
(OOM killer, `kill -9`: `exec.ExitError` with `ExitCode() == -1`). -/
inductive Outcome where
  | ok | exitCode | signal
  deriving DecidableEq, Repr

/-- A queued `HookRun` task as `taskHandleHookRun` sees it: its kind, the moment `t` the queue worker
enters the handler (the clock read of `RateLimitWait`), how its hook process is going to end, and
`executeHookOnSynchronization` of its binding. -/
structure HookRunTask where
  kind : RunKind
  t : Int
  out : Outcome
  runOnSync : Bool := true
  deriving Repr

/-- `ShellOperator.handleRunHook` → `Hook.Run` → `Executor.RunAndLogLines` → `cmd.Run()`: ONE process
is started, at the moment the handler got its token, and nothing in this chain starts another one —
whatever the way the process ends (skeletons `C18.handleRunHook`, `C18.Hook.Run`,
`C18.Executor.RunAndLogLines`: one call each, no loop, no second call on an error branch). A failed
execution is retried by the QUEUE, i.e. through `taskHandleHookRun` and its `RateLimitWait` again. -/
def hookRun (g : Int) (_out : Outcome) : List Int := [g]

/-- `ShellOperator.taskHandleHookRun`: `RateLimitWait` is its first statement, for every kind of
task (skeleton `C18.taskHandleHookRun`: the call is not under any condition); a failed wait returns
`Repeat` and starts nothing; a Synchronization of a binding with `executeHookOnSynchronization: false`
has spent its token and starts nothing; everything else goes to `handleRunHook`.
Returns the limiter state and the start times of the processes started. -/
def handleHookRun (l : Lim) (s : LState) (tk : HookRunTask) : LState × List Int :=
  match reserve l s tk.t with
  | (s', none) => (s', [])
  | (s', some g) =>
    if tk.kind = .synchronization ∧ tk.runOnSync = false then (s', [])
    else (s', hookRun g tk.out)

/-- The tasks of one hook in the order in which their handlers take the limiter's mutex. -/
def runTasks (l : Lim) : LState → List HookRunTask → List Int
  | _, [] => []
  | s, tk :: tks => (handleHookRun l s tk).2 ++ runTasks l (handleHookRun l s tk).1 tks

/-! ## The wait with a context, and the combined series -/

/-- `rate.Limiter.Wait(ctx)` = `WaitN(ctx, 1)` as `Hook.RateLimitWait` calls it. `deadline = none`: the
context has no deadline (`context.Background()` — what `taskHandleHookRun` passes, unwrapped, through
`RateLimitWait`: skeleton `Hook.RateLimitWait`); `some d`: the deadline is `d` ns after the call.
`reserveN(t, 1, waitLimit)` refuses a reservation whose delay exceeds `waitLimit` — `Wait` then returns
a plain error ("would exceed context deadline", neither `Canceled` nor `DeadlineExceeded`) AT ONCE —
and the bucket keeps its tokens; `1 > burst` is refused likewise. -/
def waitCtx (l : Lim) (s : LState) (t : Int) (deadline : Option Int) : LState × Option Int :=
  match reserve l s t with
  | (s', some g) =>
    match deadline with
    | none => (s', some g)
    | some d => if g - t ≤ d then (s', some g) else (s, none)
  | (_, none) => (s, none)

/-- A queued `HookRun` task at the moment the queue worker enters its handler: the task, the deadline
of the context its wait is given, and the number of FOLLOWING tasks of the hook in the queue that
`combineBindingContextForHook` merges into it AFTER the wait (their binding contexts are appended to
the task's, the tasks leave the queue): the length of the series of events that piled up while the
hook was throttled or its queue was busy — any number. -/
structure QTask where
  task : HookRunTask
  deadline : Option Int := none
  combined : Nat := 0
  deriving Repr

/-- `ShellOperator.handleRunHook` for a task that carries `contexts` binding contexts:
`taskHook.Run(bindingType, hookMeta.BindingContext, …)` is called ONCE with the whole list (skeleton
`C18.handleRunHook`: one `Run`, not in a loop) — one hook process, however long the list. -/
def handleRunHookN (g : Int) (out : Outcome) (_contexts : Nat) : List Int := hookRun g out

/-- `taskHandleHookRun` with the wait's outcome and the combining spelled out: ANY error of the wait —
whatever its identity — returns `Repeat` before anything else happens (skeleton
`C18.taskHandleHookRun`: `if err != nil { return }` right after the call): no process, and (`waitCtx`)
no token; after a successful wait the series is combined and `handleRunHook` runs once. -/
def handleHookRunQ (l : Lim) (s : LState) (q : QTask) : LState × List Int :=
  match waitCtx l s q.task.t q.deadline with
  | (s', none) => (s', [])
  | (s', some g) =>
    if q.task.kind = .synchronization ∧ q.task.runOnSync = false then (s', [])
    else (s', handleRunHookN g q.task.out (1 + q.combined))

/-- The handler calls of one hook in the order in which they take the limiter's mutex (a repeated
task is a later element of the list). -/
def runQTasks (l : Lim) : LState → List QTask → List Int
  | _, [] => []
  | s, q :: qs => (handleHookRunQ l s q).2 ++ runQTasks l (handleHookRunQ l s q).1 qs

/-! ## Several hooks in one hooks directory -/

/-- `hook.Manager.Init` → `loadHook` for every executable of the hooks directory: each hook gets the
limiter `Hook.LoadConfig` built from ITS OWN configuration. The manager keeps no index of limiters and
nothing else writes `Hook.RateLimiter` (`Facts.c18LimiterUses`, theorem `load_config_shape`), so neither the
name of a hook (its relative path) nor the other hooks of the directory take part. -/
def loadHooks (cfgs : List (String × HookCfg)) : List Lim := cfgs.map fun p => hookLimiter p.2

/-- A `Wait` of hook number `k` at time `t`: it touches the state of the limiter of hook `k` only. -/
def reserveAt (lims : List Lim) (ss : List LState) (k : Nat) (t : Int) : List LState × Option Int :=
  match lims[k]?, ss[k]? with
  | some l, some s => (ss.set k (reserve l s t).1, (reserve l s t).2)
  | _, _ => (ss, none)

/-- The requests `(hook, time)` of all hooks of the directory in the order in which they are made;
the result is the list of grant times of hook `j`. -/
def setGrants (lims : List Lim) (j : Nat) : List LState → List (Nat × Int) → List Int
  | _, [] => []
  | ss, (k, t) :: rs =>
    match (if k = j then (reserveAt lims ss k t).2 else none) with
    | some g => g :: setGrants lims j (reserveAt lims ss k t).1 rs
    | none => setGrants lims j (reserveAt lims ss k t).1 rs

/-! ## The other tasks of the operator's queues -/

/-- A task as `ShellOperator.taskHandler` dispatches it: a `HookRun` (the only kind that reaches
`taskHandleHookRun`), `EnableKubernetesBindings` of a hook with `bindings` kubernetes bindings (start-up:
it queues one Synchronization `HookRun` per binding as head tasks), `EnableScheduleBindings`, anything else. -/
inductive OpTask where
  | hookRun (q : QTask)
  | enableKubernetesBindings (bindings : Nat)
  | enableScheduleBindings
  | other
  deriving Repr

/-- One handler call for a task of the hook. Only `HookRun` touches the hook's limiter — it waits on it;
no handler re-tunes it (`Facts.c18LimiterTuners = []`: no `SetLimit` / `SetBurst` call in the repository), so the
limiter `l` of the hook is the same for the whole life of the operator. Returns the limiter, its state and
the process starts. -/
def opStep (l : Lim) (s : LState) : OpTask → (Lim × LState) × List Int
  | .hookRun q => ((l, (handleHookRunQ l s q).1), (handleHookRunQ l s q).2)
  | .enableKubernetesBindings _ => ((l, s), [])
  | .enableScheduleBindings => ((l, s), [])
  | .other => ((l, s), [])

/-- The handler calls for all tasks of one hook, of every type, in the order in which they happen. -/
def runOps : Lim → LState → List OpTask → List Int
  | _, _, [] => []
  | l, s, o :: os => (opStep l s o).2 ++ runOps (opStep l s o).1.1 (opStep l s o).1.2 os

end ShellOp.RateLimit
